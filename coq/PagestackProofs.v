(* PagestackProofs.v — proofs about PagestackModel.v (C53).

   Method. Every node p of the tree other than the root, whose parent is "live" (covers at least one
   page index below the capacity), satisfies the counting equation
       counter of p in its parent + pops on their way to p + pushes that updated p but not yet its parent
         = what p itself offers (popcount of a live leaf / left+right of a live inner node / 0 for a dead node),
   where the two middle terms are sums of 0/1 weights of the program counters of all processes. Every page
   index x of a live leaf satisfies   bit x of its leaf + number of processes that have x in their hands
   = [x belongs to the pool], and size_ satisfies two linear equations. One step of one process changes one
   word and one program counter; preservation is case analysis on the position of the changed word relative
   to p (same node / child / unrelated) plus linear arithmetic. The bit-level facts needed (x & (x-1) clears
   exactly the lowest set bit, trailingZeros finds it, fetch_or sets one bit) are proved from N.testbit. *)
Require Import SquidV.Bytes SquidV.PagestackModel.
Require Import ZifyBool ZifyN ZifyNat.
Local Open Scope N_scope.
Ltac Zify.zify_post_hook ::= Z.div_mod_to_equations.
Set Default Proof Using "All".


(* ================= PsBits ================= *)

Definition b2n (b : bool) : N := if b then 1 else 0.

(* ---------- sums over 0..n-1 ---------- *)
Fixpoint sumN (n : nat) (f : N -> N) : N :=
  match n with O => 0 | S k => sumN k f + f (N.of_nat k) end.

Lemma sumN_ext : forall n f g, (forall k, k < N.of_nat n -> f k = g k) -> sumN n f = sumN n g.
Proof.
  induction n as [|n IH]; intros f g H; simpl; [reflexivity|].
  rewrite (IH f g) by (intros; apply H; lia). rewrite H by lia. reflexivity.
Qed.

Lemma sumN_upd_one : forall n f g i, i < N.of_nat n -> (forall k, k < N.of_nat n -> k <> i -> f k = g k) ->
  sumN n g + f i = sumN n f + g i.
Proof.
  induction n as [|n IH]; intros f g i Hi H; [lia|]. cbn [sumN].
  destruct (N.eq_dec i (N.of_nat n)) as [E|E].
  - subst i. rewrite (sumN_ext n f g) by (intros; apply H; lia). lia.
  - pose proof (IH f g i ltac:(lia) ltac:(intros; apply H; lia)). rewrite (H (N.of_nat n)) by lia. lia.
Qed.

Lemma sumN_zero : forall n f, (forall k, k < N.of_nat n -> f k = 0) -> sumN n f = 0.
Proof. induction n as [|n IH]; intros f H; simpl; [reflexivity|]. rewrite IH by (intros; apply H; lia). rewrite H by lia. reflexivity. Qed.

Lemma sumN_le : forall n f b, (forall k, k < N.of_nat n -> f k <= b) -> sumN n f <= N.of_nat n * b.
Proof. induction n as [|n IH]; intros f b H; simpl sumN; [lia|]. pose proof (IH f b ltac:(intros; apply H; lia)). pose proof (H (N.of_nat n) ltac:(lia)). lia. Qed.

Lemma sumN_add : forall n f g, sumN n (fun k => f k + g k) = sumN n f + sumN n g.
Proof. induction n as [|n IH]; intros; simpl; [reflexivity|]. rewrite IH. lia. Qed.

Lemma sumN_pos : forall n f i, i < N.of_nat n -> f i <= sumN n f.
Proof.
  induction n as [|n IH]; intros f i Hi; [lia|]. cbn [sumN].
  destruct (N.eq_dec i (N.of_nat n)) as [E|E]; [subst; lia|]. pose proof (IH f i ltac:(lia)). lia.
Qed.

(* Σ_{k<2n} f k = Σ_{j<n} (f (2j) + f (2j+1)) *)
Lemma sumN_pairs : forall n f, sumN (2 * n) f = sumN n (fun j => f (2 * j) + f (2 * j + 1)).
Proof.
  induction n as [|n IH]; intro f; [reflexivity|].
  replace (2 * S n)%nat with (S (S (2 * n))) by lia. cbn [sumN]. rewrite IH.
  replace (N.of_nat (2 * n)) with (2 * N.of_nat n) by lia.
  replace (N.of_nat (S (2 * n))) with (2 * N.of_nat n + 1) by lia. lia.
Qed.

Lemma of_nat_64 : N.of_nat 64 = 64.
Proof. reflexivity. Qed.

(* ---------- bits ---------- *)
Definition popcount64 (w : N) : N := sumN 64 (fun k => b2n (N.testbit w k)).

Definition lowbit (w b : N) : Prop := N.testbit w b = true /\ forall k, k < b -> N.testbit w k = false.

Lemma lowbit_unique : forall w a b, lowbit w a -> lowbit w b -> a = b.
Proof.
  intros w a b [Ha La] [Hb Lb]. destruct (N.lt_trichotomy a b) as [L|[E|L]]; [|assumption|].
  - rewrite (Lb a L) in Ha. discriminate.
  - rewrite (La b L) in Hb. discriminate.
Qed.

Lemma lowbit_exists : forall w, w <> 0 -> exists b, lowbit w b /\ b <= N.log2 w.
Proof.
  intros w Hw.
  assert (G : forall n : nat, forall c, (forall k, k < c -> N.testbit w k = false) -> c + N.of_nat n = N.succ (N.log2 w) ->
            exists b, lowbit w b /\ b <= N.log2 w).
  { induction n as [|n IH]; intros c Hc E.
    - exfalso. pose proof (N.bit_log2 w Hw) as B. rewrite Hc in B by lia. discriminate.
    - destruct (N.testbit w c) eqn:T.
      + exists c. split; [split; assumption | lia].
      + apply (IH (c + 1)); [|lia]. intros k Hk. destruct (N.eq_dec k c); [subst; assumption | apply Hc; lia]. }
  apply (G (N.to_nat (N.succ (N.log2 w))) 0); [intros; lia | lia].
Qed.

Lemma tz_loop_spec : forall fuel w c b, lowbit w b -> c <= b -> b < c + N.of_nat fuel -> tz_loop fuel w c = b.
Proof.
  induction fuel as [|f IH]; intros w c b [Hb Lb] Hc Hf; [lia|]. cbn [tz_loop].
  destruct (N.testbit w c) eqn:T.
  - destruct (N.eq_dec c b); [assumption|]. rewrite Lb in T by lia. discriminate.
  - apply IH; [split; assumption| |lia]. destruct (N.eq_dec c b); [subst; congruence | lia].
Qed.

Lemma trailing_zeros_spec : forall w, w <> 0 -> w < two64 -> lowbit w (trailing_zeros w) /\ trailing_zeros w < 64.
Proof.
  intros w Hw Hlt. destruct (lowbit_exists w Hw) as (b & Lb & Hb).
  assert (N.log2 w < 64) by (apply N.log2_lt_pow2; [lia | exact Hlt]).
  unfold trailing_zeros. destruct (N.eqb_spec w 0); [contradiction|].
  rewrite (tz_loop_spec 64 w 0 b Lb); [split; [assumption | lia] | lia | lia].
Qed.

(* bits of w - 1 *)
Lemma pred_bits : forall w b, lowbit w b -> forall k,
  N.testbit (w - 1) k = if k <? b then true else if k =? b then false else N.testbit w k.
Proof.
  intro w. induction w as [| a IH | a IH] using N.binary_ind; intros b [Hb Lb] k.
  - rewrite N.bits_0 in Hb. discriminate.
  - (* w = 2a *)
    rewrite N.double_spec in *.
    destruct (N.eq_dec b 0) as [E|E]; [subst b; rewrite N.testbit_even_0 in Hb; discriminate|].
    assert (A : a <> 0) by (intro; subst; rewrite N.bits_0 in Hb; discriminate).
    assert (LB : lowbit a (b - 1)).
    { split.
      - replace b with (N.succ (b - 1)) in Hb by lia. rewrite N.testbit_even_succ in Hb by lia. assumption.
      - intros j Hj. specialize (Lb (N.succ j) ltac:(lia)). rewrite N.testbit_even_succ in Lb by lia. assumption. }
    replace (2 * a - 1) with (2 * (a - 1) + 1) by lia.
    destruct (N.eq_dec k 0) as [K|K].
    + subst k. rewrite N.testbit_odd_0. destruct (N.ltb_spec 0 b); [reflexivity | lia].
    + assert (EK : exists k', k = N.succ k') by (exists (k - 1); lia). destruct EK as [k' ->].
      rewrite N.testbit_odd_succ by lia. rewrite (IH (b - 1) LB k'). rewrite N.testbit_even_succ by lia.
      destruct (N.ltb_spec k' (b - 1)); destruct (N.ltb_spec (N.succ k') b); try lia; try reflexivity.
      destruct (N.eqb_spec k' (b - 1)); destruct (N.eqb_spec (N.succ k') b); try lia; reflexivity.
  - (* w = 2a+1 *)
    rewrite N.succ_double_spec in *.
    assert (b = 0).
    { destruct (N.eq_dec b 0); [assumption|]. specialize (Lb 0 ltac:(lia)). rewrite N.testbit_odd_0 in Lb. discriminate. }
    subst b. replace (2 * a + 1 - 1) with (2 * a) by lia.
    destruct (N.ltb_spec k 0); [lia|].
    destruct (N.eqb_spec k 0) as [K|K].
    + subst k. apply N.testbit_even_0.
    + assert (EK : exists k', k = N.succ k') by (exists (k - 1); lia). destruct EK as [k' ->].
      rewrite N.testbit_even_succ, N.testbit_odd_succ by lia. reflexivity.
Qed.

Lemma clear_low_bits : forall w b, lowbit w b -> forall k,
  N.testbit (N.land w (w - 1)) k = N.testbit w k && negb (k =? b).
Proof.
  intros w b L k. rewrite N.land_spec, (pred_bits w b L k). destruct L as [Hb Lb].
  destruct (N.ltb_spec k b) as [H|H].
  - rewrite (Lb k H). reflexivity.
  - destruct (N.eqb_spec k b); [subst; rewrite Hb; reflexivity|]. destruct (N.testbit w k); reflexivity.
Qed.

Lemma popcount_clear_low : forall w, w <> 0 -> w < two64 ->
  popcount64 (N.land w (w - 1)) + 1 = popcount64 w.
Proof.
  intros w Hw Hlt. destruct (trailing_zeros_spec w Hw Hlt) as [L B].
  unfold popcount64.
  pose proof (sumN_upd_one 64 (fun k => b2n (N.testbit w k)) (fun k => b2n (N.testbit (N.land w (w - 1)) k))
                (trailing_zeros w) ltac:(rewrite of_nat_64; exact B)) as S.
  cbn beta in S.
  assert (S' := S ltac:(intros k _ Hk; rewrite (clear_low_bits w _ L); destruct (N.eqb_spec k (trailing_zeros w)); [contradiction|];
                        rewrite andb_true_r; reflexivity)).
  rewrite (clear_low_bits w _ L) in S'. destruct L as [Hb _]. rewrite Hb, N.eqb_refl in S'. cbn [b2n andb negb] in S'. lia.
Qed.

Lemma set_bit_bits : forall w b k, N.testbit (N.lor w (2 ^ b)) k = N.testbit w k || (k =? b).
Proof.
  intros. rewrite N.lor_spec. f_equal. destruct (N.eqb_spec k b).
  - subst. apply N.pow2_bits_true.
  - apply N.pow2_bits_false. congruence.
Qed.

Lemma popcount_set_bit : forall w b, b < 64 -> N.testbit w b = false ->
  popcount64 (N.lor w (2 ^ b)) = popcount64 w + 1.
Proof.
  intros w b Hb T. unfold popcount64.
  pose proof (sumN_upd_one 64 (fun k => b2n (N.testbit w k)) (fun k => b2n (N.testbit (N.lor w (2 ^ b)) k)) b ltac:(rewrite of_nat_64; exact Hb)) as S.
  cbn beta in S. rewrite T, set_bit_bits, N.eqb_refl, orb_true_r in S. cbn [b2n] in S.
  rewrite <- S; [lia|]. intros k _ Hk. rewrite set_bit_bits. destruct (N.eqb_spec k b); [contradiction|]. rewrite orb_false_r. reflexivity.
Qed.

Lemma land_mask_zero : forall w b, (N.land w (2 ^ b) =? 0) = negb (N.testbit w b).
Proof.
  intros. destruct (N.testbit w b) eqn:T; simpl.
  - destruct (N.eqb_spec (N.land w (2 ^ b)) 0) as [E|E]; [|reflexivity].
    exfalso. assert (N.testbit (N.land w (2 ^ b)) b = true) by (rewrite N.land_spec, T, N.pow2_bits_true; reflexivity).
    rewrite E, N.bits_0 in H. discriminate.
  - destruct (N.eqb_spec (N.land w (2 ^ b)) 0) as [E|E]; [reflexivity|]. exfalso. apply E.
    apply N.bits_inj. intro k. rewrite N.land_spec, N.bits_0. destruct (N.eq_dec k b).
    + subst. rewrite T. reflexivity.
    + rewrite N.pow2_bits_false by congruence. apply andb_false_r.
Qed.

Lemma lt64_bits : forall w, w < two64 <-> (forall k, 64 <= k -> N.testbit w k = false).
Proof.
  intro w. split.
  - intros H k Hk. destruct (N.eq_dec w 0); [subst; apply N.bits_0|].
    apply N.bits_above_log2. assert (N.log2 w < 64) by (apply N.log2_lt_pow2; [lia | exact H]). lia.
  - intro H. destruct (N.eq_dec w 0); [subst; reflexivity|].
    destruct (N.lt_ge_cases w two64); [assumption|]. exfalso.
    assert (64 <= N.log2 w) by (apply N.log2_le_pow2; [lia | exact H0]).
    pose proof (N.bit_log2 w n). rewrite H in H2 by assumption. discriminate.
Qed.

Lemma land_lt64 : forall w v, w < two64 -> N.land w v < two64.
Proof. intros w v H. apply lt64_bits. intros k Hk. rewrite N.land_spec. rewrite (proj1 (lt64_bits w) H k Hk). reflexivity. Qed.

Lemma lor_lt64 : forall w b, w < two64 -> b < 64 -> N.lor w (2 ^ b) < two64.
Proof.
  intros w b H Hb. apply lt64_bits. intros k Hk. rewrite set_bit_bits, (proj1 (lt64_bits w) H k Hk).
  destruct (N.eqb_spec k b); [lia | reflexivity].
Qed.

Lemma popcount_zero : popcount64 0 = 0.
Proof. unfold popcount64. apply sumN_zero. intros. rewrite N.bits_0. reflexivity. Qed.

Lemma popcount_nonzero : forall w, 1 <= popcount64 w -> w <> 0.
Proof. intros w H E. subst. rewrite popcount_zero in H. lia. Qed.

Lemma popcount_le : forall w, popcount64 w <= 64.
Proof.
  intro w. unfold popcount64. pose proof (sumN_le 64 (fun k => b2n (N.testbit w k)) 1) as S.
  rewrite of_nat_64, N.mul_1_r in S. apply S. intros. destruct (N.testbit w k); cbn [b2n]; lia.
Qed.

Lemma popcount_bit : forall w b, b < 64 -> b2n (N.testbit w b) <= popcount64 w.
Proof. intros. unfold popcount64. apply (sumN_pos 64 (fun k => b2n (N.testbit w k)) b). rewrite of_nat_64. assumption. Qed.


(* ================= PsCore1 ================= *)

(* ---------- powers of two ---------- *)
Lemma pow2_pos : forall n, 1 <= 2 ^ n.
Proof. intro n. pose proof (N.pow_nonzero 2 n ltac:(lia)). lia. Qed.
Lemma pow2_succ : forall n, 2 ^ (n + 1) = 2 * 2 ^ n.
Proof. intro n. rewrite N.add_1_r, N.pow_succ_r'. reflexivity. Qed.
Lemma pow2_le : forall a b, a <= b -> 2 ^ a <= 2 ^ b.
Proof. intros. apply N.pow_le_mono_r; lia. Qed.
Lemma pow2_lt : forall a b, a < b -> 2 * 2 ^ a <= 2 ^ b.
Proof. intros a b H. rewrite <- pow2_succ. apply pow2_le. lia. Qed.
Lemma pow2_26 : forall n, n <= 26 -> 2 ^ n <= 67108864.
Proof. intros n H. change 67108864 with (2 ^ 26). apply pow2_le. assumption. Qed.

(* ---------- lists ---------- *)
Lemma getw_setw_same : forall m j v, j < lenN m -> getw (setw m j v) j = v.
Proof.
  unfold getw. induction m as [|y m IH]; intros j v H; simpl in H; [lia|]. simpl.
  destruct (N.eqb_spec j 0) as [E|E]; simpl.
  - rewrite E. reflexivity.
  - destruct (N.eqb_spec j 0); [contradiction|]. apply IH. lia.
Qed.
Lemma getw_setw_other : forall m j k v, j <> k -> getw (setw m j v) k = getw m k.
Proof.
  unfold getw. induction m as [|y m IH]; intros j k v H; simpl; [reflexivity|].
  destruct (N.eqb_spec j 0) as [E|E]; simpl.
  - destruct (N.eqb_spec k 0); [lia | reflexivity].
  - destruct (N.eqb_spec k 0); [reflexivity|]. apply IH. lia.
Qed.
Lemma lenN_setw : forall m j v, lenN (setw m j v) = lenN m.
Proof. induction m as [|y m IH]; intros; simpl; [reflexivity|]. destruct (j =? 0); simpl; [reflexivity | rewrite IH; reflexivity]. Qed.

Lemma nthN_split : forall (A : Type) (l : list A) (n : N) (x : A),
  nthN n l = Some x ->
  exists l1 l2, l = l1 ++ x :: l2 /\ (forall y, updN n y l = l1 ++ y :: l2).
Proof.
  induction l as [|a l IH]; intros n x H; simpl in H; [discriminate|].
  destruct (N.eqb_spec n 0) as [E|E].
  - inversion H; subst. exists [], l. split; [reflexivity|]. intro y. simpl. reflexivity.
  - destruct (IH _ _ H) as (l1 & l2 & E1 & E2).
    exists (a :: l1), l2. split.
    + simpl. rewrite E1. reflexivity.
    + intro y. simpl. destruct (N.eqb_spec n 0); [contradiction|]. rewrite E2. reflexivity.
Qed.

(* ---------- sums over threads ---------- *)
Definition tsum (f : thread -> N) (l : list thread) : N := fold_right (fun th a => f th + a) 0 l.
Lemma tsum_app : forall f l1 l2, tsum f (l1 ++ l2) = tsum f l1 + tsum f l2.
Proof. induction l1 as [|a l1 IH]; intros; simpl; [lia | rewrite IH; lia]. Qed.
Lemma tsum_cons : forall f th l, tsum f (th :: l) = f th + tsum f l.
Proof. reflexivity. Qed.
Lemma tsum_zero : forall f l, (forall th, In th l -> f th = 0) -> tsum f l = 0.
Proof. induction l as [|a l IH]; intro H; [reflexivity|]. rewrite tsum_cons. rewrite IH by (intros; apply H; right; assumption). rewrite H by (left; reflexivity). reflexivity. Qed.
Lemma tsum_member : forall f l th, In th l -> f th <= tsum f l.
Proof. induction l as [|a l IH]; intros th H; [contradiction|]. rewrite tsum_cons. destruct H as [->|H]; [lia|]. pose proof (IH _ H). lia. Qed.

Fixpoint countN (x : N) (l : list N) : N :=
  match l with [] => 0 | y :: r => b2n (y =? x) + countN x r end.
Lemma countN_app : forall x a b, countN x (a ++ b) = countN x a + countN x b.
Proof. induction a as [|y a IH]; intros; simpl; [reflexivity | rewrite IH; lia]. Qed.
Lemma countN_in : forall x l, 1 <= countN x l -> In x l.
Proof. induction l as [|y l IH]; simpl; intro H; [lia|]. destruct (N.eqb_spec y x); [left; assumption | right; apply IH; simpl in H; lia]. Qed.
Lemma in_countN : forall x l, In x l -> 1 <= countN x l.
Proof. induction l as [|y l IH]; simpl; intro H; [contradiction|]. destruct H as [->|H]; [rewrite N.eqb_refl; cbn [b2n]; lia | pose proof (IH H); lia]. Qed.
Lemma countN_hd_tl : forall x l, l <> [] -> countN x l = b2n (hd 0 l =? x) + countN x (tl l).
Proof. destruct l; [contradiction | reflexivity]. Qed.
Lemma countN_last : forall x l, l <> [] -> countN x l = countN x (removelast l) + b2n (last l 0 =? x).
Proof.
  intros x l H. rewrite (app_removelast_last 0 H) at 1. rewrite countN_app. simpl. lia.
Qed.
Lemma lenN_hd_tl : forall (l : list N), l <> [] -> lenN l = lenN (tl l) + 1.
Proof. destruct l; [contradiction | simpl; lia]. Qed.
Lemma lenN_removelast : forall (l : list N), l <> [] -> lenN l = lenN (removelast l) + 1.
Proof. intros l H. rewrite (app_removelast_last 0 H) at 1. rewrite lenN_app. simpl. lia. Qed.

(* ---------- positions ---------- *)
Definition pos_eqb (p q : pos) : bool := (level p =? level q) && (offset p =? offset q).
Lemma pos_eqb_spec : forall p q, reflect (p = q) (pos_eqb p q).
Proof.
  intros [l o] [l' o']. unfold pos_eqb. simpl.
  destruct (N.eqb_spec l l'); destruct (N.eqb_spec o o'); simpl; constructor; congruence.
Qed.
Lemma pos_eqb_refl : forall p, pos_eqb p p = true.
Proof. intro p. destruct (pos_eqb_spec p p); congruence. Qed.
Lemma pos_eqb_sym : forall p q, pos_eqb p q = pos_eqb q p.
Proof. intros. destruct (pos_eqb_spec p q); destruct (pos_eqb_spec q p); congruence. Qed.

Lemma ascend_descend : forall q d, ascend (descend q d) = q.
Proof.
  intros [l o] d. unfold ascend, descend. cbn [level offset]. f_equal; [lia|]. destruct d; cbn [dbit]; lia.
Qed.
Lemma ascdir_descend : forall q d, ascend_direction (descend q d) = d.
Proof.
  intros [l o] d. unfold ascend_direction, descend. cbn [level offset]. destruct d; cbn [dbit].
  - destruct (N.eqb_spec ((o * 2 + 0) mod 2) 0); [reflexivity | lia].
  - destruct (N.eqb_spec ((o * 2 + 1) mod 2) 0); [lia | reflexivity].
Qed.
Lemma descend_ascend : forall p, 1 <= level p -> descend (ascend p) (ascend_direction p) = p.
Proof.
  intros [l o] H. cbn [level] in H. unfold ascend, descend, ascend_direction. cbn [level offset]. f_equal; [lia|].
  destruct (N.eqb_spec (o mod 2) 0); cbn [dbit]; lia.
Qed.
Lemma descend_inj : forall q d q' d', descend q d = descend q' d' -> q = q' /\ d = d'.
Proof.
  intros q d q' d' H. split.
  - rewrite <- (ascend_descend q d), H. apply ascend_descend.
  - rewrite <- (ascdir_descend q d), H. apply ascdir_descend.
Qed.

Section Tree.
Variable c : cfg.
Notation h := (ilc c).

Record WF : Prop := mkWF { wf_h1 : 1 <= h; wf_h2 : h <= 26; wf_cap : cap c <= 64 * 2 ^ h; wf_cap32 : cap c < two32 }.
Hypothesis wf : WF.

Definition valid (p : pos) : Prop := level p <= h /\ offset p < 2 ^ level p.

Definition span (l : N) : N := 64 * 2 ^ (h - l).
Definition lo (p : pos) : N := offset p * span (level p).
Definition live (p : pos) : bool := lo p <? cap c.

Lemma span_half : forall l, l < h -> span l = 2 * span (l + 1).
Proof. intros l H. unfold span. replace (h - l) with ((h - (l + 1)) + 1) by lia. rewrite pow2_succ. lia. Qed.
Lemma span_h : span h = 64.
Proof. unfold span. rewrite N.sub_diag. reflexivity. Qed.
Lemma span_pos : forall l, 64 <= span l.
Proof. intro l. unfold span. pose proof (pow2_pos (h - l)). lia. Qed.

Lemma valid_root : valid root.
Proof. split; simpl; lia. Qed.
Lemma valid_descend : forall q d, valid q -> level q < h -> valid (descend q d).
Proof. intros [l o] d [H1 H2] H3. cbn [level offset] in *. split; cbn [level offset descend]; [lia|]. rewrite pow2_succ. destruct d; cbn [dbit]; lia. Qed.
Lemma valid_ascend : forall p, valid p -> 1 <= level p -> valid (ascend p).
Proof.
  intros [l o] [H1 H2] H3. cbn [level offset] in *. split; cbn [level offset ascend]; [lia|].
  replace l with ((l - 1) + 1) in H2 by lia. rewrite pow2_succ in H2. lia.
Qed.

Lemma lo_descend : forall q d, level q < h -> lo (descend q d) = lo q + dbit d * span (level q + 1).
Proof. intros [l o] d H. unfold lo. cbn [level offset descend] in *. rewrite (span_half l H). lia. Qed.
Lemma live_descend : forall q d, level q < h -> live (descend q d) = true -> live q = true.
Proof. intros q d H. unfold live. rewrite (lo_descend q d H). intro L. destruct (N.ltb_spec (lo q) (cap c)); [reflexivity|]. lia. Qed.
Lemma live_left : forall q, level q < h -> live (descend q DLeft) = live q.
Proof. intros q H. unfold live. rewrite (lo_descend q DLeft H). cbn [dbit]. rewrite N.mul_0_l, N.add_0_r. reflexivity. Qed.
Lemma live_ascend : forall p, valid p -> 1 <= level p -> live p = true -> live (ascend p) = true.
Proof.
  intros p V H L. rewrite <- (descend_ascend p H) in L. apply live_descend in L; [assumption|].
  destruct p as [l o]; destruct V; cbn [level offset ascend] in *; lia.
Qed.

Lemma node_ok_valid : forall p, valid p -> node_ok c p = true.
Proof.
  intros [l o] [H1 H2]. simpl in *. unfold node_ok, tree_height, node_count, leaf_count, nodes_before, at_root. simpl.
  pose proof (pow2_pos l) as P1. pose proof (pow2_le l h H1) as P2.
  destruct (N.eq_dec l 0) as [E|E].
  - subst l. change (2 ^ 0) with 1 in *. assert (o = 0) by lia. subst o. simpl.
    destruct (N.ltb_spec 0 (h + 1)); [|lia]. simpl. destruct (N.ltb_spec 0 (2 ^ h * 2 - 1)); [reflexivity | lia].
  - assert (2 <= 2 ^ l) by (replace l with ((l - 1) + 1) by lia; rewrite pow2_succ; pose proof (pow2_pos (l - 1)); lia).
    destruct (N.ltb_spec l (h + 1)); [|lia]. destruct (N.ltb_spec o ((2 ^ l - 1) * 2)); [|lia]. simpl.
    destruct (N.ltb_spec (2 ^ l - 1 + o) (2 ^ h * 2 - 1)); [reflexivity | lia].
Qed.

Lemma nodes_before_lt : forall p, valid p -> nodes_before p < node_count c.
Proof.
  intros [l o] [H1 H2]. simpl in *. unfold node_count, leaf_count, nodes_before. simpl.
  pose proof (pow2_pos l). pose proof (pow2_le l h H1). lia.
Qed.

Lemma nodes_before_inj : forall p q, valid p -> valid q -> nodes_before p = nodes_before q -> p = q.
Proof.
  intros [l o] [l' o'] [H1 H2] [H3 H4] E. unfold nodes_before in E. simpl in *.
  pose proof (pow2_pos l). pose proof (pow2_pos l').
  destruct (N.lt_trichotomy l l') as [L|[L|L]].
  - pose proof (pow2_lt l l' L). lia.
  - subst l'. f_equal. lia.
  - pose proof (pow2_lt l' l L). lia.
Qed.

(* ---------- the abstract view of the memory ---------- *)
Definition word (m : list N) (p : pos) : N := getw m (nodes_before p).

Lemma word_setw : forall m q v p, lenN m = node_count c -> valid q -> valid p ->
  word (setw m (nodes_before q) v) p = if pos_eqb p q then v else word m p.
Proof.
  intros m q v p L Vq Vp. unfold word. destruct (pos_eqb_spec p q) as [E|E].
  - subst. apply getw_setw_same. rewrite L. apply nodes_before_lt. assumption.
  - apply getw_setw_other. intro F. apply E. symmetry. apply nodes_before_inj; assumption.
Qed.

Definition lc (m : list N) (p : pos) : N := unpack_left (word m p).
Definition rc (m : list N) (p : pos) : N := unpack_right (word m p).
Definition cnt_to (m : list N) (p : pos) : N :=
  match ascend_direction p with DLeft => lc m (ascend p) | DRight => rc m (ascend p) end.
Definition avail (m : list N) (p : pos) : N :=
  if level p =? h then popcount64 (word m p) else lc m p + rc m p.
Definition gav (m : list N) (p : pos) : N := if live p then avail m p else 0.

End Tree.


(* ================= PsCore2 ================= *)

(* ---------- packed counters ---------- *)
Lemma choice_none : forall w, inner_pop_choice w = None <-> unpack_left w = 0 /\ unpack_right w = 0.
Proof.
  intro w. unfold inner_pop_choice.
  destruct (N.ltb_spec 0 (unpack_left w)); [split; [discriminate | lia]|].
  destruct (N.ltb_spec 0 (unpack_right w)); [split; [discriminate | lia]|]. split; [lia | reflexivity].
Qed.

Lemma choice_spec : forall old d new, inner_pop_choice old = Some (d, new) -> old < two64 ->
  new < two64 /\
  match d with
  | DLeft => 1 <= unpack_left old /\ unpack_left new + 1 = unpack_left old /\ unpack_right new = unpack_right old
  | DRight => 1 <= unpack_right old /\ unpack_left new = unpack_left old /\ unpack_right new + 1 = unpack_right old
  end.
Proof.
  intros old d new H Hlt. unfold inner_pop_choice in H.
  destruct (N.ltb_spec 0 (unpack_left old)) as [L|L].
  - inversion H; subst; clear H. unfold unpack_left, unpack_right, pack, two32, two64 in *. lia.
  - destruct (N.ltb_spec 0 (unpack_right old)) as [R|R]; [|discriminate].
    inversion H; subst; clear H. unfold unpack_left, unpack_right, pack, two32, two64 in *. lia.
Qed.

Lemma push_inc_spec : forall old d, old < two64 ->
  unpack_left old + 1 < two32 -> unpack_right old + 1 < two32 ->
  let v := (old + push_increment d) mod two64 in
  v < two64 /\ (old <=? ones64 - push_increment d) = true /\
  unpack_left v = unpack_left old + (match d with DLeft => 1 | DRight => 0 end) /\
  unpack_right v = unpack_right old + (match d with DLeft => 0 | DRight => 1 end).
Proof.
  intros old d Hlt Hl Hr. destruct d; cbn zeta; unfold push_increment, unpack_left, unpack_right, pack, ones64, two32, two64 in *.
  - destruct (N.leb_spec old (18446744073709551615 - (1 * 4294967296 + 0))); lia.
  - destruct (N.leb_spec old (18446744073709551615 - (0 * 4294967296 + 1))); lia.
Qed.

Lemma pos_eta : forall p, mkPos (level p) (offset p) = p.
Proof. destruct p; reflexivity. Qed.

Section Inv.
Variable c : cfg.
Notation h := (ilc c).
Hypothesis wf : WF c.
Definition leafpos (x : N) : pos := mkPos h (x / 64).
Definition bitfree (m : list N) (x : N) : N := b2n (N.testbit (word m (leafpos x)) (x mod 64)).

(* thread weights *)
Definition wP (p : pos) (th : thread) : N :=
  match tpc th with
  | PopLoad q | PopCas q _ | LeafLoad q | LeafCas q _ => b2n (pos_eqb q p)
  | _ => 0
  end.
Definition wU (p : pos) (th : thread) : N :=
  match tpc th with
  | PushInner q d _ => b2n (pos_eqb (descend q d) p)
  | _ => 0
  end.
Definition wH (x : N) (th : thread) : N :=
  countN (x + 1) (theld th) +
  match tpc th with
  | PopSize y | PushSize y | PushLeaf y => b2n (y =? x)
  | _ => 0
  end.
Definition wHeld (th : thread) : N :=
  lenN (theld th) + match tpc th with PushSize _ => 1 | _ => 0 end.
Definition wInfl (th : thread) : N :=
  match tpc th with PopSize _ | PushLeaf _ => 1 | _ => 0 end.

Definition Fsum (m : list N) : N := sumN (N.to_nat (2 ^ h)) (fun o => gav c m (mkPos h o)).

Definition twf (th : thread) : Prop :=
  Forall (fun n => 1 <= n <= cap c) (theld th) /\
  match tpc th with
  | Ready | Done => True
  | Crashed => False
  | PopLoad q => valid c q /\ level q < h /\ live c q = true
  | PopCas q old => valid c q /\ level q < h /\ live c q = true /\ inner_pop_choice old <> None
  | LeafLoad q => valid c q /\ level q = h /\ live c q = true
  | LeafCas q old => valid c q /\ level q = h /\ live c q = true
  | PopSize x | PushSize x | PushLeaf x => x < cap c
  | PushInner q d x => valid c q /\ level q < h /\ live c (descend q d) = true
  end.

(* ---------- basic facts ---------- *)
Lemma h_bounds : 2 <= 2 ^ h /\ 2 ^ h <= 67108864.
Proof.
  pose proof wf as [H1 H2 _ _]. split; [|apply pow2_26; assumption].
  replace h with ((h - 1) + 1) by lia. rewrite pow2_succ. pose proof (pow2_pos (h - 1)). lia.
Qed.

Lemma valid_leafpos : forall x, x < 64 * 2 ^ h -> valid c (leafpos x).
Proof. intros x H. split; cbn [level offset leafpos]; lia. Qed.

Lemma leafpos_live : forall x, x < cap c -> live c (leafpos x) = true.
Proof.
  intros x H. unfold live, lo, leafpos. cbn [level offset]. rewrite (span_h c wf).
  destruct (N.ltb_spec (x / 64 * 64) (cap c)); [reflexivity | lia].
Qed.

Lemma valid_level0 : forall q, valid c q -> level q = 0 -> q = root.
Proof. intros [l o] [H1 H2] H3. cbn [level offset] in *. subst l. change (2 ^ 0) with 1 in H2. unfold root. f_equal. lia. Qed.

Lemma leaf_id : forall q b, valid c q -> level q = h -> b < 64 ->
  let x := offset q * 64 + b in
  x < 64 * 2 ^ h /\ x mod two32 = x /\ leafpos x = q /\ x mod 64 = b.
Proof.
  intros [l o] b [H1 H2] H3 Hb. cbn [level offset] in *. subst l. cbn zeta.
  pose proof h_bounds as [_ HB].
  assert (o * 64 + b < 64 * 2 ^ h) by lia.
  split; [assumption|]. split; [unfold two32; lia|]. split; [|lia].
  unfold leafpos. f_equal. lia.
Qed.

(* ---------- effect of writes on the abstract view ---------- *)
Section Writes.
Variable m : list N.
Hypothesis Hlen : lenN m = node_count c.
Variable q : pos.
Hypothesis Vq : valid c q.
Variable v : N.
Let m' := setw m (nodes_before q) v.

Lemma w_word : forall p, valid c p -> word m' p = if pos_eqb p q then v else word m p.
Proof. intros. apply (word_setw c wf); assumption. Qed.

Lemma w_cnt_to : forall p, valid c p -> 1 <= level p ->
  cnt_to m' p = if pos_eqb (ascend p) q
                then match ascend_direction p with DLeft => unpack_left v | DRight => unpack_right v end
                else cnt_to m p.
Proof.
  intros p Vp Hl. unfold cnt_to, lc, rc. rewrite (w_word (ascend p)) by (apply valid_ascend; assumption).
  destruct (pos_eqb (ascend p) q); destruct (ascend_direction p); reflexivity.
Qed.

Lemma w_avail : forall p, valid c p ->
  avail c m' p = if pos_eqb p q
                 then (if level q =? h then popcount64 v else unpack_left v + unpack_right v)
                 else avail c m p.
Proof.
  intros p Vp. unfold avail, lc, rc. rewrite (w_word p Vp).
  destruct (pos_eqb_spec p q) as [E|E]; [subst; reflexivity | reflexivity].
Qed.

Lemma w_gav : forall p, valid c p ->
  gav c m' p = if pos_eqb p q
               then (if live c q then (if level q =? h then popcount64 v else unpack_left v + unpack_right v) else 0)
               else gav c m p.
Proof.
  intros p Vp. unfold gav. rewrite (w_avail p Vp). destruct (pos_eqb_spec p q) as [E|E]; [subst; reflexivity | reflexivity].
Qed.

Lemma w_bitfree : forall x, x < 64 * 2 ^ h ->
  bitfree m' x = if pos_eqb (leafpos x) q then b2n (N.testbit v (x mod 64)) else bitfree m x.
Proof.
  intros x Hx. unfold bitfree. rewrite (w_word (leafpos x) (valid_leafpos x Hx)).
  destruct (pos_eqb (leafpos x) q); reflexivity.
Qed.

Lemma w_Fsum_inner : level q < h -> Fsum m' = Fsum m.
Proof.
  intro Hq. unfold Fsum. apply sumN_ext. intros o Ho.
  rewrite w_gav by (split; cbn [level offset]; lia).
  destruct (pos_eqb_spec (mkPos h o) q) as [E|E]; [|reflexivity]. subst q. cbn [level] in Hq. lia.
Qed.

Lemma w_Fsum_leaf : level q = h -> Fsum m' + gav c m q = Fsum m + gav c m' q.
Proof.
  intro Hq. pose proof Vq as [_ Vo].
  assert (EQ : mkPos h (offset q) = q) by (rewrite <- Hq; apply pos_eta).
  unfold Fsum.
  pose proof (sumN_upd_one (N.to_nat (2 ^ h)) (fun o => gav c m (mkPos h o)) (fun o => gav c m' (mkPos h o)) (offset q)) as S.
  cbn beta in S. rewrite EQ in S. apply S; [rewrite Hq in Vo; lia|].
  intros k Hk Hne. rewrite (w_gav (mkPos h k)) by (split; cbn [level offset]; lia).
  destruct (pos_eqb_spec (mkPos h k) q) as [E|E]; [|reflexivity]. rewrite <- E in Hne. cbn [offset] in Hne. contradiction.
Qed.
End Writes.

Variable total : N.
Variable inU : N -> bool.

Record Inv (st : state) : Prop := mkInv {
  inv_len : lenN (nodes (sh st)) = node_count c;
  inv_w64 : forall j, getw (nodes (sh st)) j < two64;
  inv_thr : Forall twf (ths st);
  inv_tree : forall p, valid c p -> 1 <= level p -> live c (ascend p) = true ->
     cnt_to (nodes (sh st)) p + tsum (wP p) (ths st) + tsum (wU p) (ths st) = gav c (nodes (sh st)) p;
  inv_own : forall x, x < 64 * 2 ^ h -> live c (leafpos x) = true ->
     bitfree (nodes (sh st)) x + tsum (wH x) (ths st) = b2n (inU x);
  inv_sz1 : sz (sh st) + tsum wHeld (ths st) = total;
  inv_sz2 : sz (sh st) = Fsum (nodes (sh st)) + tsum wInfl (ths st)
}.

End Inv.


(* ================= PsCore3 ================= *)

Lemma getw_setw_cases : forall m k v j, getw (setw m k v) j = v \/ getw (setw m k v) j = getw m j.
Proof.
  unfold getw. induction m as [|y m IH]; intros k v j; simpl; [right; reflexivity|].
  destruct (N.eqb_spec k 0); simpl.
  - destruct (N.eqb_spec j 0); [left | right]; reflexivity.
  - destruct (N.eqb_spec j 0); [right; reflexivity | apply IH].
Qed.

Lemma getw_setw_bound : forall m k v B, (forall j, getw m j < B) -> v < B -> forall j, getw (setw m k v) j < B.
Proof. intros m k v B H Hv j. destruct (getw_setw_cases m k v j) as [E|E]; rewrite E; [assumption | apply H]. Qed.

Section Step.
Variable c : cfg.
Notation h := (ilc c).
Hypothesis wf : WF c.
Variable total : N.
Variable inU : N -> bool.
Hypothesis total_le : total <= cap c.
Hypothesis inU_cap : forall x, inU x = true -> x < cap c.

Notation twf := (twf c).
Notation valid := (valid c).
Notation live := (live c).
Notation gav := (gav c).
Notation bitfree := (bitfree c).
Notation Fsum := (Fsum c).
Notation leafpos := (leafpos c).

(* the invariant with the acting thread singled out *)
Record InvD (s : shared) (l1 : list thread) (th : thread) (l2 : list thread) : Prop := mkInvD {
  d_len : lenN (nodes s) = node_count c;
  d_w64 : forall j, getw (nodes s) j < two64;
  d_t1 : Forall twf l1;
  d_th : twf th;
  d_t2 : Forall twf l2;
  d_tree : forall p, valid p -> 1 <= level p -> live (ascend p) = true ->
     cnt_to (nodes s) p + (tsum (wP p) l1 + (wP p th + tsum (wP p) l2)) + (tsum (wU p) l1 + (wU p th + tsum (wU p) l2))
     = gav (nodes s) p;
  d_own : forall x, x < 64 * 2 ^ h -> live (leafpos x) = true ->
     bitfree (nodes s) x + (tsum (wH x) l1 + (wH x th + tsum (wH x) l2)) = b2n (inU x);
  d_sz1 : sz s + (tsum wHeld l1 + (wHeld th + tsum wHeld l2)) = total;
  d_sz2 : sz s = Fsum (nodes s) + (tsum wInfl l1 + (wInfl th + tsum wInfl l2))
}.

Lemma inv_decomp : forall s l1 th l2, Inv c total inU (mkState s (l1 ++ th :: l2)) <-> InvD s l1 th l2.
Proof.
  intros s l1 th l2. split.
  - intros [H1 H2 H3 H4 H5 H6 H7]. cbn [sh ths] in *.
    apply Forall_app in H3. destruct H3 as [T1 T2]. inversion T2 as [|? ? Tth T2']; subst.
    constructor; try assumption.
    + intros p Vp Hl Lp. specialize (H4 p Vp Hl Lp). rewrite !tsum_app, !tsum_cons in H4. exact H4.
    + intros x Hx Lx. specialize (H5 x Hx Lx). rewrite !tsum_app, !tsum_cons in H5. exact H5.
    + rewrite !tsum_app, !tsum_cons in H6. exact H6.
    + rewrite !tsum_app, !tsum_cons in H7. exact H7.
  - intros [H1 H2 T1 Tth T2 H4 H5 H6 H7]. constructor; cbn [sh ths]; try assumption.
    + apply Forall_app. split; [assumption | constructor; assumption].
    + intros p Vp Hl Lp. rewrite !tsum_app, !tsum_cons. apply H4; assumption.
    + intros x Hx Lx. rewrite !tsum_app, !tsum_cons. apply H5; assumption.
    + rewrite !tsum_app, !tsum_cons. exact H6.
    + rewrite !tsum_app, !tsum_cons. exact H7.
Qed.

(* replacing the acting thread by one with the same weights *)
Lemma invd_swap : forall s l1 th th' l2, InvD s l1 th l2 -> twf th' ->
  (forall p, 1 <= level p -> wP p th' = wP p th) -> (forall p, wU p th' = wU p th) ->
  (forall x, wH x th' = wH x th) -> wHeld th' = wHeld th -> wInfl th' = wInfl th ->
  InvD s l1 th' l2.
Proof.
  intros s l1 th th' l2 [H1 H2 T1 Tth T2 H4 H5 H6 H7] W EP EU EH EL EI.
  constructor; try assumption.
  - intros p Vp Hl Lp. rewrite (EP p Hl), (EU p). apply H4; assumption.
  - intros x Hx Lx. rewrite (EH x). apply H5; assumption.
  - rewrite EL. exact H6.
  - rewrite EI. exact H7.
Qed.

(* ---------- consequences of the tree equations: no counter exceeds the number of IDs below ---------- *)
Lemma gav_bound : forall s l1 th l2, InvD s l1 th l2 ->
  forall n p, valid p -> 1 <= level p -> live (ascend p) = true -> h - level p = N.of_nat n ->
  gav (nodes s) p <= span c (level p).
Proof.
  intros s l1 th l2 HD. induction n as [|n IH]; intros p Vp Hl Lp Hn.
  - assert (E : level p = h) by (destruct Vp; lia). unfold gav, avail. rewrite E, N.eqb_refl, (span_h c wf).
    pose proof (popcount_le (word (nodes s) p)). destruct (live p); lia.
  - assert (Hlt : level p < h) by lia.
    unfold gav. destruct (live p) eqn:LV; [|lia].
    unfold avail. destruct (N.eqb_spec (level p) h); [lia|].
    pose proof (d_tree _ _ _ _ HD (descend p DLeft) (valid_descend c wf p DLeft Vp Hlt)) as TL.
    pose proof (d_tree _ _ _ _ HD (descend p DRight) (valid_descend c wf p DRight Vp Hlt)) as TR.
    rewrite ascend_descend in TL, TR. cbn [level descend] in TL, TR.
    specialize (TL ltac:(lia) LV). specialize (TR ltac:(lia) LV).
    pose proof (IH (descend p DLeft) (valid_descend c wf p DLeft Vp Hlt)) as BL.
    pose proof (IH (descend p DRight) (valid_descend c wf p DRight Vp Hlt)) as BR.
    rewrite ascend_descend in BL, BR. cbn [level descend] in BL, BR.
    specialize (BL ltac:(lia) LV ltac:(lia)). specialize (BR ltac:(lia) LV ltac:(lia)).
    unfold cnt_to in TL, TR. rewrite ascdir_descend, ascend_descend in TL, TR.
    rewrite (span_half c wf (level p) Hlt). lia.
Qed.

Lemma gav_bound' : forall s l1 th l2, InvD s l1 th l2 ->
  forall p, valid p -> 1 <= level p -> live (ascend p) = true -> gav (nodes s) p <= span c (level p).
Proof.
  intros s l1 th l2 HD p Vp Hl Lp. apply (gav_bound s l1 th l2 HD (N.to_nat (h - level p))); try assumption. lia.
Qed.

Lemma span_small : forall l, 1 <= l -> span c l <= 2147483648.
Proof.
  intros l Hl. unfold span. pose proof wf as [H1 H2 _ _].
  assert (2 ^ (h - l) <= 2 ^ 25) by (apply pow2_le; lia). change (2 ^ 25) with 33554432 in H. lia.
Qed.
End Step.


(* ================= PsCore4 ================= *)

Lemma fetch_push : forall held scr o r, fetch held scr = Some (o, r) -> o <> OpPop -> held <> [].
Proof.
  induction scr as [|a scr IH]; intros o r H Ho; simpl in H; [discriminate|].
  destruct a.
  - inversion H; subst. contradiction.
  - destruct held; [apply (IH _ _ H Ho) | discriminate].
  - destruct held; [apply (IH _ _ H Ho) | discriminate].
Qed.

Lemma Forall_removelast : forall (P : N -> Prop) l, Forall P l -> Forall P (removelast l).
Proof.
  intros P l H. destruct l as [|a l]; [constructor|].
  assert (NE : a :: l <> []) by discriminate.
  rewrite (app_removelast_last 0 NE) in H. apply Forall_app in H. tauto.
Qed.
Lemma Forall_last : forall (P : N -> Prop) l, l <> [] -> Forall P l -> P (last l 0).
Proof.
  intros P l NE H. rewrite (app_removelast_last 0 NE) in H. apply Forall_app in H. destruct H as [_ H]. inversion H; assumption.
Qed.
Lemma Forall_hd : forall (P : N -> Prop) l, l <> [] -> Forall P l -> P (hd 0 l).
Proof. intros P l NE H. destruct l; [contradiction|]. inversion H; assumption. Qed.
Lemma Forall_tl : forall (P : N -> Prop) l, Forall P l -> Forall P (tl l).
Proof. intros P l H. destruct l; [constructor|]. inversion H; assumption. Qed.

Section Cases.
Variable c : cfg.
Notation h := (ilc c).
Hypothesis wf : WF c.
Variable total : N.
Variable inU : N -> bool.
Hypothesis total_le : total <= cap c.
Hypothesis inU_cap : forall x, inU x = true -> x < cap c.

Notation twf := (twf c).
Notation valid := (valid c).
Notation live := (live c).
Notation gav := (gav c).
Notation bitfree := (bitfree c).
Notation Fsum := (Fsum c).
Notation leafpos := (leafpos c).
Notation InvD := (InvD c total inU).

Lemma level_neq_pos : forall p q, level p <> level q -> pos_eqb p q = false.
Proof. intros p q H. destruct (pos_eqb_spec p q); [subst; contradiction | reflexivity]. Qed.

(* ---- Ready ---- *)
Lemma case_ready : forall s l1 held scr l2 s' p' held' scr' evs,
  InvD s l1 (mkT Ready held scr) l2 ->
  pstep c s Ready held scr = (s', p', held', scr', evs) ->
  InvD s' l1 (mkT p' held' scr') l2.
Proof.
  intros s l1 held scr l2 s' p' held' scr' evs HD E. cbn [pstep] in E.
  pose proof (d_th _ _ _ _ _ _ _ HD) as [TH _]. cbn [theld] in TH.
  destruct (fetch held scr) as [[o r]|] eqn:F.
  - destruct o.
    + destruct (N.eqb_spec (cap c) 0) as [C0|C0]; inversion E; subst; clear E.
      * apply (invd_swap c wf total inU total_le inU_cap _ _ _ _ _ HD); try reflexivity. split; [assumption | exact I].
      * apply (invd_swap c wf total inU total_le inU_cap _ _ _ _ _ HD); try reflexivity.
        -- split; [assumption|]. cbn [tpc]. split; [apply (valid_root c wf)|]. pose proof wf as [W1 W2 W3 W4]. split; [cbn [level root]; lia|].
           unfold PagestackProofs.live, lo. cbn [level offset root]. destruct (N.ltb_spec (0 * span c 0) (cap c)); [reflexivity | lia].
        -- intros p Hl. cbn [wP tpc]. rewrite level_neq_pos; [reflexivity|]. cbn [level root]. lia.
    + (* push first *)
      pose proof (fetch_push _ _ _ _ F ltac:(discriminate)) as NE.
      pose proof (Forall_hd _ _ NE TH) as Hn. cbn beta in Hn.
      destruct (N.ltb_spec 0 (hd 0 held)); [|lia]. destruct (N.leb_spec (hd 0 held) (cap c)); [|lia].
      cbn [andb] in E. inversion E; subst; clear E.
      apply (invd_swap c wf total inU total_le inU_cap _ _ _ _ _ HD); try reflexivity.
      * split; [apply Forall_tl; assumption | cbn [tpc]; lia].
      * intro x. unfold wH. cbn [tpc theld]. rewrite (countN_hd_tl (x + 1) held NE).
        destruct (N.eqb_spec (hd 0 held) (x + 1)); destruct (N.eqb_spec (hd 0 held - 1) x); cbn [b2n]; lia.
      * unfold wHeld. cbn [tpc theld]. rewrite (lenN_hd_tl held NE). lia.
    + (* push last *)
      pose proof (fetch_push _ _ _ _ F ltac:(discriminate)) as NE.
      pose proof (Forall_last _ _ NE TH) as Hn. cbn beta in Hn.
      destruct (N.ltb_spec 0 (last held 0)); [|lia]. destruct (N.leb_spec (last held 0) (cap c)); [|lia].
      cbn [andb] in E. inversion E; subst; clear E.
      apply (invd_swap c wf total inU total_le inU_cap _ _ _ _ _ HD); try reflexivity.
      * split; [apply Forall_removelast; assumption | cbn [tpc]; lia].
      * intro x. unfold wH. cbn [tpc theld]. rewrite (countN_last (x + 1) held NE).
        destruct (N.eqb_spec (last held 0) (x + 1)); destruct (N.eqb_spec (last held 0 - 1) x); cbn [b2n]; lia.
      * unfold wHeld. cbn [tpc theld]. rewrite (lenN_removelast held NE). lia.
  - inversion E; subst; clear E. apply (invd_swap c wf total inU total_le inU_cap _ _ _ _ _ HD); try reflexivity. split; [assumption | exact I].
Qed.

(* a live node with a pop on its way to it offers something *)
Lemma pop_target_nonempty : forall s l1 th l2 q, InvD s l1 th l2 ->
  valid q -> 1 <= level q -> live q = true -> wP q th = 1 -> 1 <= PagestackProofs.avail c (nodes s) q.
Proof.
  intros s l1 th l2 q HD Vq Hl Lq W.
  pose proof (d_tree _ _ _ _ _ _ _ HD q Vq Hl (live_ascend c wf q Vq Hl Lq)) as T.
  unfold PagestackProofs.gav in T. rewrite Lq, W in T. lia.
Qed.

(* what innerPop does with a value it has just read from a live node that is the target of this pop *)
Lemma case_inner_read : forall s l1 pc0 held scr l2 q p' ev,
  InvD s l1 (mkT pc0 held scr) l2 ->
  (forall p, wP p (mkT pc0 held scr) = b2n (pos_eqb q p)) -> (forall p, wU p (mkT pc0 held scr) = 0) ->
  (forall x, wH x (mkT pc0 held scr) = countN (x + 1) held) -> wHeld (mkT pc0 held scr) = lenN held -> wInfl (mkT pc0 held scr) = 0 ->
  valid q -> level q < h -> live q = true ->
  after_inner_read q (word (nodes s) q) = (p', ev) ->
  InvD s l1 (mkT p' held scr) l2.
Proof.
  intros s l1 pc0 held scr l2 q p' ev HD WP WU WH WL WI Vq Hq Lq E.
  pose proof (d_th _ _ _ _ _ _ _ HD) as [TH _]. cbn [theld] in TH.
  unfold after_inner_read in E.
  destruct (inner_pop_choice (word (nodes s) q)) as [[d new]|] eqn:CH.
  - inversion E; subst; clear E. apply (invd_swap c wf total inU total_le inU_cap _ _ _ _ _ HD).
    + split; [assumption|]. cbn [tpc]. split; [assumption|]. split; [assumption|]. split; [assumption|]. rewrite CH. discriminate.
    + intros p _. rewrite WP. reflexivity.
    + intro p. rewrite WU. reflexivity.
    + intro x. rewrite WH. unfold wH. cbn [tpc theld]. lia.
    + rewrite WL. unfold wHeld. cbn [tpc theld]. lia.
    + rewrite WI. reflexivity.
  - destruct (N.eqb_spec (level q) 0) as [L0|L0]; inversion E; subst; clear E.
    + apply (invd_swap c wf total inU total_le inU_cap _ _ _ _ _ HD).
      * split; [assumption | exact I].
      * intros p Hl. rewrite WP. rewrite level_neq_pos; [reflexivity | lia].
      * intro p. rewrite WU. reflexivity.
      * intro x. rewrite WH. unfold wH. cbn [tpc theld]. lia.
      * rewrite WL. unfold wHeld. cbn [tpc theld]. lia.
      * rewrite WI. reflexivity.
    + exfalso. apply choice_none in CH.
      pose proof (pop_target_nonempty _ _ _ _ q HD Vq ltac:(lia) Lq ltac:(rewrite WP, pos_eqb_refl; reflexivity)) as A.
      unfold PagestackProofs.avail, lc, rc in A. destruct (N.eqb_spec (level q) h); lia.
Qed.

Lemma case_popload : forall s l1 q held scr l2 s' p' held' scr' evs,
  InvD s l1 (mkT (PopLoad q) held scr) l2 ->
  pstep c s (PopLoad q) held scr = (s', p', held', scr', evs) ->
  InvD s' l1 (mkT p' held' scr') l2.
Proof.
  intros s l1 q held scr l2 s' p' held' scr' evs HD E. cbn [pstep] in E.
  pose proof (d_th _ _ _ _ _ _ _ HD) as [TH (Vq & Hq & Lq)]. cbn [theld tpc] in *.
  rewrite (node_ok_valid c wf q Vq) in E.
  destruct (after_inner_read q (getw (nodes s) (nodes_before q))) as [p1 ev1] eqn:AR.
  inversion E; subst; clear E.
  apply (case_inner_read s' l1 (PopLoad q) held' scr' l2 q p' evs HD); try assumption; try reflexivity.
  - intro x. unfold wH. cbn [tpc theld]. lia.
  - unfold wHeld. cbn [tpc theld]. lia.
Qed.

End Cases.


(* ================= PsCore5 ================= *)

Lemma lvl_neq : forall p q, level p <> level q -> pos_eqb p q = false.
Proof. intros p q H. destruct (pos_eqb_spec p q); [subst; contradiction | reflexivity]. Qed.

Section Cases2.
Variable c : cfg.
Notation h := (ilc c).
Hypothesis wf : WF c.
Variable total : N.
Variable inU : N -> bool.
Hypothesis total_le : total <= cap c.
Hypothesis inU_cap : forall x, inU x = true -> x < cap c.

Notation twf := (twf c).
Notation valid := (valid c).
Notation live := (live c).
Notation gav := (gav c).
Notation bitfree := (bitfree c).
Notation Fsum := (Fsum c).
Notation leafpos := (leafpos c).
Notation InvD := (InvD c total inU).

Ltac wexp := unfold wP, wU, wH, wHeld, wInfl in *; cbn [tpc theld] in *.

Lemma eqb_false : forall a b, a <> b -> (a =? b) = false.
Proof. intros. destruct (N.eqb_spec a b); [contradiction | reflexivity]. Qed.

(* ---- PopCas ---- *)
Lemma case_popcas : forall s l1 q old held scr l2 s' p' held' scr' evs,
  InvD s l1 (mkT (PopCas q old) held scr) l2 ->
  pstep c s (PopCas q old) held scr = (s', p', held', scr', evs) ->
  InvD s' l1 (mkT p' held' scr') l2.
Proof.
  intros s l1 q old held scr l2 s' p' held' scr' evs HD E. cbn [pstep] in E.
  pose proof (d_th _ _ _ _ _ _ _ HD) as [TH (Vq & Hq & Lq & CHN)]. cbn [theld tpc] in *.
  destruct (N.eqb_spec (getw (nodes s) (nodes_before q)) old) as [EQ|NE].
  2: { destruct (after_inner_read q (getw (nodes s) (nodes_before q))) as [p1 ev1] eqn:AR.
       inversion E; subst; clear E.
       eapply case_inner_read with (pc0 := PopCas q old) (q := q); try eassumption; try reflexivity;
         [intro x; unfold wH; cbn [tpc theld]; lia | unfold wHeld; cbn [tpc theld]; lia]. }
  destruct (inner_pop_choice old) as [[d new]|] eqn:CH; [|contradiction].
  destruct (N.ltb_spec (level q) (tree_height c)); [|unfold tree_height in *; lia].
  inversion E; subst; clear E.
  pose proof (d_len _ _ _ _ _ _ _ HD) as Hlen. pose proof (d_w64 _ _ _ _ _ _ _ HD) as Hw.
  pose proof (choice_spec _ _ _ CH (Hw _)) as [Hnew CS].
  set (m := nodes s) in *.
  assert (Vq' : valid (descend q d)) by (apply valid_descend; assumption).
  assert (Wq : word m q = getw m (nodes_before q)) by reflexivity.
  assert (Lq' : live (descend q d) = true).
  { pose proof (d_tree _ _ _ _ _ _ _ HD (descend q d) Vq') as T. rewrite ascend_descend in T.
    cbn [level descend] in T. specialize (T ltac:(lia) Lq).
    unfold cnt_to in T. rewrite ascdir_descend, ascend_descend in T.
    unfold PagestackProofs.gav in T. destruct (live (descend q d)); [reflexivity|]. exfalso.
    unfold lc, rc in T. fold m in T. rewrite Wq in T. destruct d; lia. }
  assert (Hq' : level (descend q d) = level q + 1) by reflexivity.
  set (q' := descend q d) in *.
  match goal with |- context [mkT ?X held' scr'] => set (pcn := X) end.
  assert (WP' : forall p, wP p (mkT pcn held' scr') = b2n (pos_eqb q' p)) by (intro p; unfold pcn; match goal with |- context [if ?b then _ else _] => destruct b end; reflexivity).
  assert (WU' : forall p, wU p (mkT pcn held' scr') = 0) by (intro p; unfold pcn; match goal with |- context [if ?b then _ else _] => destruct b end; reflexivity).
  assert (WH' : forall x, wH x (mkT pcn held' scr') = countN (x + 1) held' + 0) by (intro x; unfold pcn; match goal with |- context [if ?b then _ else _] => destruct b end; reflexivity).
  assert (WL' : wHeld (mkT pcn held' scr') = lenN held' + 0) by (unfold pcn; match goal with |- context [if ?b then _ else _] => destruct b end; reflexivity).
  assert (WI' : wInfl (mkT pcn held' scr') = 0) by (unfold pcn; match goal with |- context [if ?b then _ else _] => destruct b end; reflexivity).
  assert (TW' : twf (mkT pcn held' scr')).
  { split; [assumption|]. cbn [tpc]. unfold pcn. destruct (N.ltb_spec (level q + 1) h).
    - split; [exact Vq'|]. split; [lia | exact Lq'].
    - split; [exact Vq'|]. split; [lia | exact Lq']. }
  clearbody pcn.
  constructor; cbn [nodes sz].
  - rewrite lenN_setw. assumption.
  - apply getw_setw_bound; assumption.
  - apply (d_t1 _ _ _ _ _ _ _ HD).
  - assumption.
  - apply (d_t2 _ _ _ _ _ _ _ HD).
  - intros p Vp Hl Lp. pose proof (d_tree _ _ _ _ _ _ _ HD p Vp Hl Lp) as T. fold m in T.
    rewrite (w_cnt_to c wf m Hlen q Vq new p Vp Hl), (w_gav c wf m Hlen q Vq new p Vp), WP', WU'.
    wexp.
    destruct (pos_eqb_spec p q) as [E1|E1].
    + subst p. rewrite (lvl_neq (ascend q) q) by (cbn [level ascend]; lia).
      rewrite pos_eqb_refl in T. rewrite (lvl_neq q' q) by lia.
      rewrite Lq. rewrite (eqb_false (level q) h) by lia.
      unfold PagestackProofs.gav, PagestackProofs.avail in T. rewrite Lq, (eqb_false (level q) h) in T by lia.
      unfold lc, rc in T. rewrite Wq in T. destruct d; cbn [b2n] in *; lia.
    + destruct (pos_eqb_spec (ascend p) q) as [E2|E2].
      * assert (EP : p = descend q (ascend_direction p)) by (rewrite <- E2; symmetry; apply descend_ascend; assumption).
        assert (LV : level q <> level p) by (rewrite <- E2; cbn [level ascend]; lia).
        rewrite (lvl_neq q p LV) in T.
        unfold cnt_to in T. rewrite E2 in T. unfold lc, rc in T. rewrite Wq in T.
        destruct (pos_eqb_spec q' p) as [E3|E3].
        -- assert (ED : ascend_direction p = d) by (rewrite <- E3; apply ascdir_descend).
           rewrite ED in *. destruct d; cbn [b2n] in *; lia.
        -- assert (ED : ascend_direction p <> d) by (intro F; apply E3; rewrite EP, F; reflexivity).
           destruct d; destruct (ascend_direction p); try contradiction; cbn [b2n] in *; lia.
      * assert (E3 : pos_eqb q' p = false).
        { destruct (pos_eqb_spec q' p) as [E3|E3]; [|reflexivity]. exfalso. apply E2. rewrite <- E3. apply ascend_descend. }
        assert (E4 : pos_eqb q p = false) by (destruct (pos_eqb_spec q p); [subst; contradiction | reflexivity]).
        rewrite E3. rewrite E4 in T. exact T.
  - intros x Hx Lx. pose proof (d_own _ _ _ _ _ _ _ HD x Hx Lx) as O. fold m in O.
    rewrite (w_bitfree c wf m Hlen q Vq new x Hx), WH'.
    rewrite (lvl_neq (leafpos x) q) by (cbn [level PagestackProofs.leafpos]; lia). wexp. lia.
  - pose proof (d_sz1 _ _ _ _ _ _ _ HD) as S1. rewrite WL'. wexp. lia.
  - pose proof (d_sz2 _ _ _ _ _ _ _ HD) as S2. fold m in S2. rewrite (w_Fsum_inner c wf m Hlen q Vq new Hq), WI'. wexp. lia.
Qed.

End Cases2.


(* ================= PsCore6 ================= *)

Lemma b2n_le1 : forall b, b2n b <= 1.
Proof. destruct b; cbn [b2n]; lia. Qed.

Lemma neqb : forall a b, a <> b -> (a =? b) = false.
Proof. intros. destruct (N.eqb_spec a b); [contradiction | reflexivity]. Qed.

Section Cases3.
Variable c : cfg.
Notation h := (ilc c).
Hypothesis wf : WF c.
Variable total : N.
Variable inU : N -> bool.
Hypothesis total_le : total <= cap c.
Hypothesis inU_cap : forall x, inU x = true -> x < cap c.

Notation twf := (twf c).
Notation valid := (valid c).
Notation live := (live c).
Notation gav := (gav c).
Notation bitfree := (bitfree c).
Notation Fsum := (Fsum c).
Notation leafpos := (leafpos c).
Notation InvD := (InvD c total inU).

Ltac wexp := unfold wP, wU, wH, wHeld, wInfl in *; cbn [tpc theld] in *.

(* the word of a live leaf that is the target of a pop is not zero *)
Lemma leaf_target_nonzero : forall s l1 th l2 q, InvD s l1 th l2 ->
  valid q -> level q = h -> live q = true -> wP q th = 1 -> word (nodes s) q <> 0.
Proof.
  intros s l1 th l2 q HD Vq Hq Lq W. pose proof wf as [W1 _ _ _].
  pose proof (pop_target_nonempty c wf total inU total_le inU_cap s l1 th l2 q HD Vq ltac:(lia) Lq W) as A.
  unfold avail in A. rewrite Hq, N.eqb_refl in A. apply popcount_nonzero. assumption.
Qed.

Lemma case_leafload : forall s l1 q held scr l2 s' p' held' scr' evs,
  InvD s l1 (mkT (LeafLoad q) held scr) l2 ->
  pstep c s (LeafLoad q) held scr = (s', p', held', scr', evs) ->
  InvD s' l1 (mkT p' held' scr') l2.
Proof.
  intros s l1 q held scr l2 s' p' held' scr' evs HD E. cbn [pstep] in E.
  pose proof (d_th _ _ _ _ _ _ _ HD) as [TH (Vq & Hq & Lq)]. cbn [theld tpc] in *.
  rewrite (node_ok_valid c wf q Vq) in E.
  pose proof (leaf_target_nonzero _ _ _ _ q HD Vq Hq Lq ltac:(wexp; rewrite pos_eqb_refl; reflexivity)) as NZ.
  unfold word in NZ.
  destruct (N.eqb_spec (getw (nodes s) (nodes_before q)) 0); [contradiction|].
  inversion E; subst; clear E.
  apply (invd_swap c wf total inU total_le inU_cap _ _ _ _ _ HD); try reflexivity.
  split; [assumption|]. cbn [tpc]. split; [assumption|]. split; assumption.
Qed.

Lemma case_leafcas : forall s l1 q old held scr l2 s' p' held' scr' evs,
  InvD s l1 (mkT (LeafCas q old) held scr) l2 ->
  pstep c s (LeafCas q old) held scr = (s', p', held', scr', evs) ->
  InvD s' l1 (mkT p' held' scr') l2.
Proof.
  intros s l1 q old held scr l2 s' p' held' scr' evs HD E. cbn [pstep] in E.
  pose proof (d_th _ _ _ _ _ _ _ HD) as [TH (Vq & Hq & Lq)]. cbn [theld tpc] in *.
  pose proof (leaf_target_nonzero _ _ _ _ q HD Vq Hq Lq ltac:(wexp; rewrite pos_eqb_refl; reflexivity)) as NZ.
  unfold word in NZ.
  destruct (N.eqb_spec (getw (nodes s) (nodes_before q)) old) as [EQ|NE].
  2: { destruct (N.eqb_spec (getw (nodes s) (nodes_before q)) 0); [contradiction|].
       inversion E; subst; clear E.
       apply (invd_swap c wf total inU total_le inU_cap _ _ _ _ _ HD); try reflexivity.
       split; [assumption|]. cbn [tpc]. split; [assumption|]. split; assumption. }
  inversion E; subst; clear E.
  pose proof (d_len _ _ _ _ _ _ _ HD) as Hlen. pose proof (d_w64 _ _ _ _ _ _ _ HD) as Hw.
  set (m := nodes s) in *. set (old := getw m (nodes_before q)) in *.
  assert (Wq : word m q = old) by reflexivity.
  pose proof (trailing_zeros_spec old NZ (Hw _)) as [LB Bb].
  set (b := trailing_zeros old) in *.
  pose proof (leaf_id c wf q b Vq Hq Bb) as (Xlt & Xmod & Xleaf & Xbit). cbn zeta in *.
  unfold BitsPerLeaf. rewrite Xmod.
  set (x := offset q * 64 + b) in *.
  set (v := N.land old (old - 1)).
  pose proof (d_own _ _ _ _ _ _ _ HD x Xlt ltac:(rewrite Xleaf; exact Lq)) as Ox.
  fold m in Ox. unfold PagestackProofs.bitfree in Ox. rewrite Xleaf, Wq, Xbit in Ox.
  destruct LB as [LB1 LB2]. rewrite LB1 in Ox. cbn [b2n] in Ox.
  assert (XU : inU x = true) by (destruct (inU x); [reflexivity | cbn [b2n] in Ox; lia]).
  assert (Xcap : x < cap c) by (apply inU_cap; assumption).
  assert (VB : forall k, N.testbit v k = N.testbit old k && negb (k =? b)) by (intro k; apply clear_low_bits; split; assumption).
  constructor; cbn [nodes sz].
  - rewrite lenN_setw. assumption.
  - apply getw_setw_bound; [assumption|]. apply land_lt64. apply Hw.
  - apply (d_t1 _ _ _ _ _ _ _ HD).
  - split; [assumption|]. cbn [tpc]. assumption.
  - apply (d_t2 _ _ _ _ _ _ _ HD).
  - intros p Vp Hl Lp. pose proof (d_tree _ _ _ _ _ _ _ HD p Vp Hl Lp) as T. fold m in T.
    rewrite (w_cnt_to c wf m Hlen q Vq v p Vp Hl), (w_gav c wf m Hlen q Vq v p Vp).
    rewrite (lvl_neq (ascend p) q) by (destruct Vp; cbn [level ascend]; lia).
    wexp. rewrite (pos_eqb_sym p q).
    destruct (pos_eqb_spec q p) as [E1|E1]; [|exact T].
    subst p. rewrite Lq, Hq, N.eqb_refl. unfold PagestackProofs.gav, avail in T. rewrite Lq, Hq, N.eqb_refl, Wq in T.
    pose proof (popcount_clear_low old NZ (Hw _)) as PC. fold v in PC. cbn [b2n] in *. lia.
  - intros y Hy Ly. pose proof (d_own _ _ _ _ _ _ _ HD y Hy Ly) as O. fold m in O.
    rewrite (w_bitfree c wf m Hlen q Vq v y Hy). wexp.
    destruct (pos_eqb_spec (leafpos y) q) as [E1|E1].
    + unfold PagestackProofs.bitfree in O. rewrite E1, Wq in O. rewrite VB.
      destruct (N.eqb_spec x y) as [E2|E2].
      * subst y. rewrite Xbit, N.eqb_refl, andb_false_r in *. rewrite LB1 in O. cbn [b2n negb] in *. lia.
      * assert (y mod 64 <> b).
        { intro F. apply E2. unfold x. rewrite <- F. rewrite <- E1. cbn [offset PagestackProofs.leafpos]. lia. }
        rewrite (neqb (y mod 64) b) by assumption. rewrite andb_true_r. cbn [b2n] in *. lia.
    + destruct (N.eqb_spec x y) as [E2|E2]; [subst y; contradiction|]. cbn [b2n] in *. lia.
  - pose proof (d_sz1 _ _ _ _ _ _ _ HD) as S1. wexp. lia.
  - pose proof (d_sz2 _ _ _ _ _ _ _ HD) as S2. fold m in S2.
    pose proof (w_Fsum_leaf c wf m Hlen q Vq v Hq) as FL.
    rewrite (w_gav c wf m Hlen q Vq v q Vq), pos_eqb_refl, Lq, Hq, N.eqb_refl in FL.
    unfold PagestackProofs.gav, avail in FL. rewrite Lq, Hq, N.eqb_refl, Wq in FL.
    pose proof (popcount_clear_low old NZ (Hw _)) as PC. fold v in PC. wexp. lia.
Qed.

End Cases3.


(* ================= PsCore7 ================= *)

Section Cases4.
Variable c : cfg.
Notation h := (ilc c).
Hypothesis wf : WF c.
Variable total : N.
Variable inU : N -> bool.
Hypothesis total_le : total <= cap c.
Hypothesis inU_cap : forall x, inU x = true -> x < cap c.

Notation twf := (twf c).
Notation valid := (valid c).
Notation live := (live c).
Notation gav := (gav c).
Notation bitfree := (bitfree c).
Notation Fsum := (Fsum c).
Notation leafpos := (leafpos c).
Notation InvD := (InvD c total inU).

Ltac wexp := unfold wP, wU, wH, wHeld, wInfl in *; cbn [tpc theld] in *.

Lemma case_popsize : forall s l1 x held scr l2 s' p' held' scr' evs,
  InvD s l1 (mkT (PopSize x) held scr) l2 ->
  pstep c s (PopSize x) held scr = (s', p', held', scr', evs) ->
  InvD s' l1 (mkT p' held' scr') l2.
Proof.
  intros s l1 x held scr l2 s' p' held' scr' evs HD E. cbn [pstep] in E.
  pose proof (d_th _ _ _ _ _ _ _ HD) as [TH Xc]. cbn [theld tpc] in *.
  pose proof (d_sz1 _ _ _ _ _ _ _ HD) as S1. pose proof (d_sz2 _ _ _ _ _ _ _ HD) as S2.
  pose proof wf as [_ _ _ C32]. wexp.
  assert (N1 : (sz s + two32 - 1) mod two32 = sz s - 1) by (unfold two32 in *; lia).
  assert (N2 : (x + 1) mod two32 = x + 1) by (unfold two32 in *; lia).
  rewrite N1, N2 in E.
  destruct (N.ltb_spec (sz s - 1) (cap c)); [|lia]. destruct (N.ltb_spec 0 (x + 1)); [|lia].
  destruct (N.leb_spec (x + 1) (cap c)); [|lia]. cbn [andb] in E. inversion E; subst; clear E.
  constructor; cbn [nodes sz]; wexp.
  - apply (d_len _ _ _ _ _ _ _ HD).
  - apply (d_w64 _ _ _ _ _ _ _ HD).
  - apply (d_t1 _ _ _ _ _ _ _ HD).
  - split; [|exact I]. cbn [theld]. apply Forall_app. split; [assumption|]. constructor; [lia | constructor].
  - apply (d_t2 _ _ _ _ _ _ _ HD).
  - intros p Vp Hl Lp. pose proof (d_tree _ _ _ _ _ _ _ HD p Vp Hl Lp) as T. wexp. exact T.
  - intros y Hy Ly. pose proof (d_own _ _ _ _ _ _ _ HD y Hy Ly) as O. wexp.
    rewrite countN_app. cbn [countN].
    destruct (N.eqb_spec x y); destruct (N.eqb_spec (x + 1) (y + 1)); try lia; cbn [b2n] in *; lia.
  - rewrite lenN_app. cbn [lenN]. lia.
  - lia.
Qed.

Lemma case_pushsize : forall s l1 x held scr l2 s' p' held' scr' evs,
  InvD s l1 (mkT (PushSize x) held scr) l2 ->
  pstep c s (PushSize x) held scr = (s', p', held', scr', evs) ->
  InvD s' l1 (mkT p' held' scr') l2.
Proof.
  intros s l1 x held scr l2 s' p' held' scr' evs HD E. cbn [pstep] in E.
  pose proof (d_th _ _ _ _ _ _ _ HD) as [TH Xc]. cbn [theld tpc] in *.
  pose proof (d_sz1 _ _ _ _ _ _ _ HD) as S1. pose proof (d_sz2 _ _ _ _ _ _ _ HD) as S2.
  pose proof wf as [_ _ _ C32]. wexp.
  assert (N1 : (sz s + 1) mod two32 = sz s + 1) by (unfold two32 in *; lia).
  rewrite N1 in E. destruct (N.leb_spec (sz s + 1) (cap c)); [|lia]. inversion E; subst; clear E.
  constructor; cbn [nodes sz]; wexp.
  - apply (d_len _ _ _ _ _ _ _ HD).
  - apply (d_w64 _ _ _ _ _ _ _ HD).
  - apply (d_t1 _ _ _ _ _ _ _ HD).
  - split; [assumption | exact Xc].
  - apply (d_t2 _ _ _ _ _ _ _ HD).
  - intros p Vp Hl Lp. pose proof (d_tree _ _ _ _ _ _ _ HD p Vp Hl Lp) as T. wexp. exact T.
  - intros y Hy Ly. pose proof (d_own _ _ _ _ _ _ _ HD y Hy Ly) as O. wexp. exact O.
  - lia.
  - lia.
Qed.

Lemma case_pushleaf : forall s l1 x held scr l2 s' p' held' scr' evs,
  InvD s l1 (mkT (PushLeaf x) held scr) l2 ->
  pstep c s (PushLeaf x) held scr = (s', p', held', scr', evs) ->
  InvD s' l1 (mkT p' held' scr') l2.
Proof.
  intros s l1 x held scr l2 s' p' held' scr' evs HD E. cbn [pstep] in E.
  pose proof (d_th _ _ _ _ _ _ _ HD) as [TH Xc]. cbn [theld tpc] in *.
  pose proof wf as [W1 W2 W3 W4].
  assert (Xlt : x < 64 * 2 ^ h) by lia.
  pose proof (valid_leafpos c wf x Xlt) as Vq. pose proof (leafpos_live c wf x Xc) as Lq.
  unfold BitsPerLeaf in E. change (mkPos h (x / 64)) with (leafpos x) in E.
  set (q := leafpos x) in *.
  assert (Hq : level q = h) by reflexivity.
  rewrite (node_ok_valid c wf q Vq) in E.
  pose proof (d_len _ _ _ _ _ _ _ HD) as Hlen. pose proof (d_w64 _ _ _ _ _ _ _ HD) as Hw.
  set (m := nodes s) in *. set (old := getw m (nodes_before q)) in *.
  assert (Wq : word m q = old) by reflexivity.
  pose proof (d_own _ _ _ _ _ _ _ HD x Xlt Lq) as Ox. fold m in Ox. unfold PagestackProofs.bitfree in Ox. fold q in Ox. rewrite Wq in Ox.
  wexp. rewrite N.eqb_refl in Ox. cbn [b2n] in Ox. pose proof (b2n_le1 (inU x)) as IU.
  assert (TB : N.testbit old (x mod 64) = false) by (destruct (N.testbit old (x mod 64)); [cbn [b2n] in Ox; lia | reflexivity]).
  rewrite land_mask_zero, TB in E. cbn [negb] in E.
  unfold next_inner_push in E. rewrite Hq in E. destruct (N.ltb_spec 0 h); [|lia].
  inversion E; subst; clear E.
  set (v := N.lor old (2 ^ (x mod 64))).
  assert (Bx : x mod 64 < 64) by lia.
  assert (DA : descend (ascend q) (ascend_direction q) = q) by (apply descend_ascend; lia).
  constructor; cbn [nodes sz]; wexp.
  - rewrite lenN_setw. assumption.
  - apply getw_setw_bound; [assumption|]. apply lor_lt64; [apply Hw | assumption].
  - apply (d_t1 _ _ _ _ _ _ _ HD).
  - split; [assumption|]. cbn [tpc]. split; [apply valid_ascend; [assumption | assumption | lia]|].
    split; [cbn [level ascend]; lia|]. rewrite DA. assumption.
  - apply (d_t2 _ _ _ _ _ _ _ HD).
  - intros p Vp Hl Lp. pose proof (d_tree _ _ _ _ _ _ _ HD p Vp Hl Lp) as T. fold m in T.
    rewrite (w_cnt_to c wf m Hlen q Vq v p Vp Hl), (w_gav c wf m Hlen q Vq v p Vp).
    rewrite (lvl_neq (ascend p) q) by (destruct Vp; cbn [level ascend]; lia).
    wexp. rewrite DA. rewrite (pos_eqb_sym p q).
    destruct (pos_eqb_spec q p) as [E1|E1]; [|cbn [b2n]; exact T].
    subst p. rewrite Lq, Hq, N.eqb_refl. unfold PagestackProofs.gav, avail in T. rewrite Lq, Hq, N.eqb_refl, Wq in T.
    pose proof (popcount_set_bit old (x mod 64) Bx TB) as PC. fold v in PC. cbn [b2n] in *. lia.
  - intros y Hy Ly. pose proof (d_own _ _ _ _ _ _ _ HD y Hy Ly) as O. fold m in O.
    rewrite (w_bitfree c wf m Hlen q Vq v y Hy). wexp.
    destruct (pos_eqb_spec (leafpos y) q) as [E1|E1].
    + unfold PagestackProofs.bitfree in O. rewrite E1, Wq in O. unfold v. rewrite set_bit_bits.
      destruct (N.eqb_spec x y) as [E2|E2].
      * subst y. rewrite N.eqb_refl, orb_true_r in *. rewrite TB in O. cbn [b2n] in *. lia.
      * assert (y mod 64 <> x mod 64).
        { intro F. apply E2. unfold q, PagestackProofs.leafpos in E1. inversion E1. lia. }
        rewrite (neqb (y mod 64) (x mod 64)) by assumption. rewrite orb_false_r. cbn [b2n] in *. lia.
    + destruct (N.eqb_spec x y) as [E2|E2]; [subst y; contradiction|]. cbn [b2n] in *. lia.
  - pose proof (d_sz1 _ _ _ _ _ _ _ HD) as S1. wexp. lia.
  - pose proof (d_sz2 _ _ _ _ _ _ _ HD) as S2. fold m in S2.
    pose proof (w_Fsum_leaf c wf m Hlen q Vq v Hq) as FL.
    rewrite (w_gav c wf m Hlen q Vq v q Vq), pos_eqb_refl, Lq, Hq, N.eqb_refl in FL.
    unfold PagestackProofs.gav, avail in FL. rewrite Lq, Hq, N.eqb_refl, Wq in FL.
    pose proof (popcount_set_bit old (x mod 64) Bx TB) as PC. fold v in PC. wexp. lia.
Qed.

End Cases4.


(* ================= PsCore8 ================= *)

Section Cases5.
Variable c : cfg.
Notation h := (ilc c).
Hypothesis wf : WF c.
Variable total : N.
Variable inU : N -> bool.
Hypothesis total_le : total <= cap c.
Hypothesis inU_cap : forall x, inU x = true -> x < cap c.

Notation twf := (twf c).
Notation valid := (valid c).
Notation live := (live c).
Notation gav := (gav c).
Notation bitfree := (bitfree c).
Notation Fsum := (Fsum c).
Notation leafpos := (leafpos c).
Notation InvD := (InvD c total inU).

Ltac wexp := unfold wP, wU, wH, wHeld, wInfl in *; cbn [tpc theld] in *.

(* a counter never exceeds the number of IDs below it *)
Lemma child_counter_bound : forall s l1 th l2 q d, InvD s l1 th l2 ->
  valid q -> level q < h -> live q = true ->
  cnt_to (nodes s) (descend q d) + wU (descend q d) th <= 2147483648.
Proof.
  intros s l1 th l2 q d HD Vq Hq Lq.
  pose proof (valid_descend c wf q d Vq Hq) as Vp.
  pose proof (d_tree _ _ _ _ _ _ _ HD (descend q d) Vp) as T. rewrite ascend_descend in T. cbn [level descend] in T.
  specialize (T ltac:(lia) Lq).
  pose proof (gav_bound' c wf total inU total_le inU_cap s l1 th l2 HD (descend q d) Vp) as B.
  rewrite ascend_descend in B. cbn [level descend] in B. specialize (B ltac:(lia) Lq).
  pose proof (span_small c wf total inU total_le inU_cap (level q + 1) ltac:(lia)). lia.
Qed.

Lemma case_pushinner : forall s l1 q d x held scr l2 s' p' held' scr' evs,
  InvD s l1 (mkT (PushInner q d x) held scr) l2 ->
  pstep c s (PushInner q d x) held scr = (s', p', held', scr', evs) ->
  InvD s' l1 (mkT p' held' scr') l2.
Proof.
  intros s l1 q d x held scr l2 s' p' held' scr' evs HD E. cbn [pstep] in E.
  pose proof (d_th _ _ _ _ _ _ _ HD) as [TH (Vq & Hq & Lc)]. cbn [theld tpc] in *.
  pose proof (live_descend c wf q d Hq Lc) as Lq.
  rewrite (node_ok_valid c wf q Vq) in E.
  pose proof (d_len _ _ _ _ _ _ _ HD) as Hlen. pose proof (d_w64 _ _ _ _ _ _ _ HD) as Hw.
  set (m := nodes s) in *. set (old := getw m (nodes_before q)) in *.
  assert (Wq : word m q = old) by reflexivity.
  pose proof (child_counter_bound _ _ _ _ q DLeft HD Vq Hq Lq) as BL.
  pose proof (child_counter_bound _ _ _ _ q DRight HD Vq Hq Lq) as BR.
  unfold cnt_to in BL, BR. rewrite ascdir_descend, ascend_descend in BL, BR. fold m in BL, BR.
  unfold lc, rc in BL, BR. rewrite Wq in BL, BR.
  pose proof (push_inc_spec old d (Hw _) ltac:(unfold two32; lia) ltac:(unfold two32; lia)) as (Hv & HA & HL & HR).
  cbn zeta in *. rewrite HA in E.
  set (v := (old + push_increment d) mod two64) in *.
  (* the new program counter *)
  assert (NP : exists pcn, (s', p', held', scr', evs) =
             (mkShared (sz s) (setw m (nodes_before q) v), pcn, held, scr, evs) /\
             twf (mkT pcn held scr) /\
             (forall p, 1 <= level p -> wU p (mkT pcn held scr) = b2n (pos_eqb q p)) /\
             (forall p, wP p (mkT pcn held scr) = 0) /\
             (forall y, wH y (mkT pcn held scr) = countN (y + 1) held + 0) /\
             wHeld (mkT pcn held scr) = lenN held + 0 /\ wInfl (mkT pcn held scr) = 0).
  { destruct (at_root q) eqn:AR.
    - exists Ready. inversion E; subst; clear E. split; [reflexivity|]. split; [split; [assumption | exact I]|].
      split; [|repeat split; reflexivity]. intros p Hl. unfold at_root in AR. wexp. rewrite lvl_neq; [reflexivity | lia].
    - unfold next_inner_push in E. assert (L1 : 1 <= level q).
      { destruct (N.eq_dec (level q) 0) as [L0|L0]; [|lia]. rewrite (valid_level0 c wf q Vq L0) in AR. discriminate. }
      destruct (N.ltb_spec 0 (level q)); [|lia].
      assert (DA : descend (ascend q) (ascend_direction q) = q) by (apply descend_ascend; lia).
      exists (PushInner (ascend q) (ascend_direction q) x). inversion E; subst; clear E. split; [reflexivity|].
      split.
      + split; [assumption|]. cbn [tpc]. split; [apply valid_ascend; assumption|]. split; [cbn [level ascend]; lia|]. rewrite DA. assumption.
      + split; [|repeat split; reflexivity]. intros p _. wexp. rewrite DA. reflexivity. }
  destruct NP as (pcn & EE & TW' & WU' & WP' & WH' & WL' & WI'). inversion EE; subst; clear EE E.
  constructor; cbn [nodes sz].
  - rewrite lenN_setw. assumption.
  - apply getw_setw_bound; assumption.
  - apply (d_t1 _ _ _ _ _ _ _ HD).
  - assumption.
  - apply (d_t2 _ _ _ _ _ _ _ HD).
  - intros p Vp Hl Lp. pose proof (d_tree _ _ _ _ _ _ _ HD p Vp Hl Lp) as T. fold m in T.
    rewrite (w_cnt_to c wf m Hlen q Vq v p Vp Hl), (w_gav c wf m Hlen q Vq v p Vp), WP', (WU' p Hl).
    wexp.
    destruct (pos_eqb_spec p q) as [E1|E1].
    + subst p. rewrite (lvl_neq (ascend q) q) by (cbn [level ascend]; lia).
      rewrite pos_eqb_refl. rewrite (lvl_neq (descend q d) q) in T by (cbn [level descend]; lia).
      rewrite Lq. rewrite (neqb (level q) h) by lia.
      unfold PagestackProofs.gav, PagestackProofs.avail in T. rewrite Lq, (neqb (level q) h) in T by lia.
      unfold lc, rc in T. rewrite Wq in T. destruct d; cbn [b2n] in *; lia.
    + assert (E4 : pos_eqb q p = false) by (destruct (pos_eqb_spec q p); [subst; contradiction | reflexivity]).
      rewrite E4.
      destruct (pos_eqb_spec (ascend p) q) as [E2|E2].
      * assert (EP : p = descend q (ascend_direction p)) by (rewrite <- E2; symmetry; apply descend_ascend; assumption).
        unfold cnt_to in T. rewrite E2 in T. unfold lc, rc in T. rewrite Wq in T.
        destruct (pos_eqb_spec (descend q d) p) as [E3|E3].
        -- assert (ED : ascend_direction p = d) by (rewrite <- E3; apply ascdir_descend).
           rewrite ED in *. destruct d; cbn [b2n] in *; lia.
        -- assert (ED : ascend_direction p <> d) by (intro F; apply E3; rewrite EP, F; reflexivity).
           destruct d; destruct (ascend_direction p); try contradiction; cbn [b2n] in *; lia.
      * assert (E3 : pos_eqb (descend q d) p = false).
        { destruct (pos_eqb_spec (descend q d) p) as [E3|E3]; [|reflexivity]. exfalso. apply E2. rewrite <- E3. apply ascend_descend. }
        rewrite E3 in T. cbn [b2n] in *. lia.
  - intros y Hy Ly. pose proof (d_own _ _ _ _ _ _ _ HD y Hy Ly) as O. fold m in O.
    rewrite (w_bitfree c wf m Hlen q Vq v y Hy), WH'.
    rewrite (lvl_neq (leafpos y) q) by (cbn [level PagestackProofs.leafpos]; lia). wexp. lia.
  - pose proof (d_sz1 _ _ _ _ _ _ _ HD) as S1. rewrite WL'. wexp. lia.
  - pose proof (d_sz2 _ _ _ _ _ _ _ HD) as S2. fold m in S2. rewrite (w_Fsum_inner c wf m Hlen q Vq v Hq), WI'. wexp. lia.
Qed.

End Cases5.


(* ================= PsCore9 ================= *)

Section Main.
Variable c : cfg.
Notation h := (ilc c).
Hypothesis wf : WF c.
Variable total : N.
Variable inU : N -> bool.
Hypothesis total_le : total <= cap c.
Hypothesis inU_cap : forall x, inU x = true -> x < cap c.

Notation Inv := (Inv c total inU).
Notation InvD := (InvD c total inU).

(* ---------- one step of one process preserves the invariant ---------- *)
Lemma pstep_invd : forall s l1 p held scr l2 s' p' held' scr' evs,
  InvD s l1 (mkT p held scr) l2 ->
  pstep c s p held scr = (s', p', held', scr', evs) ->
  InvD s' l1 (mkT p' held' scr') l2.
Proof.
  intros s l1 p held scr l2 s' p' held' scr' evs HD E. destruct p.
  - eapply case_ready; eassumption.
  - cbn [pstep] in E. inversion E; subst. assumption.
  - cbn [pstep] in E. inversion E; subst. assumption.
  - eapply case_popload; eassumption.
  - eapply case_popcas; eassumption.
  - eapply case_leafload; eassumption.
  - eapply case_leafcas; eassumption.
  - eapply case_popsize; eassumption.
  - eapply case_pushsize; eassumption.
  - eapply case_pushleaf; eassumption.
  - eapply case_pushinner; eassumption.
Qed.

Lemma step_inv : forall st t st' evs b, Inv st -> step c st t = (st', evs, b) -> Inv st'.
Proof.
  intros [s l] t st' evs b HI E. unfold step in E. cbn [sh ths] in E.
  destruct (nthN t l) as [[p held scr]|] eqn:NT; [|inversion E; subst; assumption].
  cbn [tpc theld tscr] in E.
  destruct (terminal p); [inversion E; subst; assumption|].
  destruct (pstep c s p held scr) as [[[[s1 p1] held1] scr1] evs1] eqn:P.
  inversion E; subst; clear E.
  destruct (nthN_split _ _ _ _ NT) as (l1 & l2 & E1 & E2).
  rewrite E2. subst l. apply (inv_decomp c wf total inU total_le inU_cap). apply (inv_decomp c wf total inU total_le inU_cap) in HI. eapply pstep_invd; eassumption.
Qed.

Lemma exec_inv : forall sched st st' evs n, Inv st -> exec c st sched = (st', evs, n) -> Inv st'.
Proof.
  induction sched as [|t r IH]; intros st st' evs n HI E; simpl in E.
  - inversion E; subst; assumption.
  - destruct (step c st t) as [[st1 e1] b] eqn:S1.
    destruct (exec c st1 r) as [[st2 e2] n2] eqn:S2.
    inversion E; subst; clear E.
    eapply IH; [|eassumption]. eapply step_inv; eassumption.
Qed.

Lemma run_rr_inv : forall fuel st st' evs n, Inv st -> run_rr fuel c st = Some (st', evs, n) -> Inv st'.
Proof.
  induction fuel as [|f IH]; intros st st' evs n HI E; simpl in E.
  - destruct (all_terminal st); [inversion E; subst; assumption | discriminate].
  - destruct (all_terminal st); [inversion E; subst; assumption|].
    destruct (exec c st (tids st)) as [[st1 e1] n1] eqn:X.
    destruct (run_rr f c st1) as [[[st2 e2] n2]|] eqn:R; [|discriminate].
    inversion E; subst; clear E.
    eapply IH; [|eassumption]. eapply exec_inv; eassumption.
Qed.

Definition reach (st0 : state) (sched : list N) : state := fst (fst (exec c st0 sched)).

Theorem reach_inv : forall st0 sched, Inv st0 -> Inv (reach st0 sched).
Proof.
  intros st0 sched HI. unfold reach. destruct (exec c st0 sched) as [[st e] n] eqn:E. simpl.
  eapply exec_inv; eassumption.
Qed.

(* ---------- consequences ---------- *)
Section Consequences.
Variable st : state.
Hypothesis HI : Inv st.

Lemma nth_in : forall (l : list thread) i th, nthN i l = Some th -> In th l.
Proof.
  induction l as [|a l IH]; intros i th H; simpl in H; [discriminate|].
  destruct (i =? 0); [inversion H; left; reflexivity | right; eapply IH; eassumption].
Qed.

Theorem no_crash : forall i th, nthN i (ths st) = Some th -> tpc th <> Crashed.
Proof.
  intros i th NT F. pose proof (inv_thr _ _ _ _ HI) as T. rewrite Forall_forall in T.
  destruct (T th (nth_in _ _ _ NT)) as [_ W]. rewrite F in W. exact W.
Qed.

Theorem held_pages_valid : forall i th n, nthN i (ths st) = Some th -> In n (theld th) -> 1 <= n <= cap c.
Proof.
  intros i th n NT IN. pose proof (inv_thr _ _ _ _ HI) as T. rewrite Forall_forall in T.
  destruct (T th (nth_in _ _ _ NT)) as [W _]. rewrite Forall_forall in W. apply W. assumption.
Qed.

(* a page index in the hands of a process: in its held list (as page number x+1) or carried by its
   pop() after the leaf CAS / by its push() before the leaf fetch_or *)
Lemma own_le1 : forall x, x < cap c -> tsum (wH x) (ths st) <= 1.
Proof.
  intros x Hx. pose proof wf as [_ _ W3 _].
  pose proof (inv_own _ _ _ _ HI x ltac:(lia) (leafpos_live c wf x Hx)) as O.
  pose proof (b2n_le1 (inU x)). lia.
Qed.

Lemma tsum_two_members : forall f (l : list thread) i j a b,
  i <> j -> nthN i l = Some a -> nthN j l = Some b -> f a + f b <= tsum f l.
Proof.
  intros f l. induction l as [|y l IH]; intros i j a b D Ni Nj; simpl in Ni, Nj; [discriminate|].
  rewrite tsum_cons.
  destruct (N.eqb_spec i 0) as [Ei|Ei]; destruct (N.eqb_spec j 0) as [Ej|Ej].
  - subst. contradiction.
  - inversion Ni; subst. pose proof (tsum_member f l _ (nth_in _ _ _ Nj)). lia.
  - inversion Nj; subst. pose proof (tsum_member f l _ (nth_in _ _ _ Ni)). lia.
  - assert (N.pred i <> N.pred j) by lia. pose proof (IH _ _ _ _ H Ni Nj). lia.
Qed.

Theorem no_double_holder : forall x i j a b, x < cap c -> i <> j ->
  nthN i (ths st) = Some a -> nthN j (ths st) = Some b -> 1 <= wH x a -> 1 <= wH x b -> False.
Proof.
  intros x i j a b Hx D Ni Nj Ha Hb.
  pose proof (tsum_two_members (wH x) _ _ _ _ _ D Ni Nj). pose proof (own_le1 x Hx). lia.
Qed.

Theorem no_page_held_twice : forall n i j a b, i <> j ->
  nthN i (ths st) = Some a -> nthN j (ths st) = Some b -> In n (theld a) -> In n (theld b) -> False.
Proof.
  intros n i j a b D Ni Nj Ia Ib.
  pose proof (held_pages_valid _ _ _ Ni Ia) as [V1 V2].
  apply (no_double_holder (n - 1) i j a b ltac:(lia) D Ni Nj).
  - unfold wH. replace (n - 1 + 1) with n by lia. pose proof (in_countN _ _ Ia). lia.
  - unfold wH. replace (n - 1 + 1) with n by lia. pose proof (in_countN _ _ Ib). lia.
Qed.

Theorem held_once : forall n i a, nthN i (ths st) = Some a -> countN n (theld a) <= 1.
Proof.
  intros n i a Ni. destruct (N.eq_dec (countN n (theld a)) 0) as [Z|Z]; [lia|].
  assert (IN : In n (theld a)) by (apply countN_in; lia).
  pose proof (held_pages_valid _ _ _ Ni IN) as [V1 V2].
  pose proof (own_le1 (n - 1) ltac:(lia)) as O.
  pose proof (tsum_member (wH (n - 1)) _ _ (nth_in _ _ _ Ni)) as M.
  unfold wH in M at 1. replace (n - 1 + 1) with n in M by lia. lia.
Qed.

(* a free page: not in anybody's hands => its bit is set in its leaf *)
Theorem free_page_in_leaf : forall x, inU x = true -> tsum (wH x) (ths st) = 0 ->
  N.testbit (word (nodes (sh st)) (leafpos c x)) (x mod 64) = true.
Proof.
  intros x U Z. pose proof wf as [_ _ W3 _]. pose proof (inU_cap x U) as Hx.
  pose proof (inv_own _ _ _ _ HI x ltac:(lia) (leafpos_live c wf x Hx)) as O.
  rewrite Z, U in O. unfold bitfree in O. destruct (N.testbit _ _); [reflexivity | cbn [b2n] in O; lia].
Qed.

(* exact accounting *)
Theorem size_accounting : sz (sh st) + tsum wHeld (ths st) = total.
Proof. exact (inv_sz1 _ _ _ _ HI). Qed.

Definition quiescent (l : list thread) : Prop := forall th, In th l -> tpc th = Ready \/ tpc th = Done.

Lemma tsum_ext : forall f g (l : list thread), (forall th, In th l -> f th = g th) -> tsum f l = tsum g l.
Proof.
  induction l as [|a l IH]; intro H; [reflexivity|]. rewrite !tsum_cons.
  rewrite H by (left; reflexivity). rewrite IH by (intros; apply H; right; assumption). reflexivity.
Qed.

Theorem quiescent_size : quiescent (ths st) ->
  sz (sh st) + tsum (fun th => lenN (theld th)) (ths st) = total /\ sz (sh st) = Fsum c (nodes (sh st)).
Proof.
  intro Q. split.
  - rewrite <- (inv_sz1 _ _ _ _ HI). f_equal. apply tsum_ext. intros th IN. unfold wHeld.
    destruct (Q th IN) as [E|E]; rewrite E; lia.
  - rewrite (inv_sz2 _ _ _ _ HI). rewrite (tsum_zero wInfl); [lia|]. intros th IN. unfold wInfl.
    destruct (Q th IN) as [E|E]; rewrite E; reflexivity.
Qed.

(* at quiescence every counter of the tree is exact *)
Theorem quiescent_tree_exact : quiescent (ths st) ->
  forall p, valid c p -> 1 <= level p -> live c (ascend p) = true ->
  cnt_to (nodes (sh st)) p = gav c (nodes (sh st)) p.
Proof.
  intros Q p Vp Hl Lp. pose proof (inv_tree _ _ _ _ HI p Vp Hl Lp) as T.
  rewrite (tsum_zero (wP p)), (tsum_zero (wU p)) in T; [lia| |].
  - intros th IN. unfold wU. destruct (Q th IN) as [E|E]; rewrite E; reflexivity.
  - intros th IN. unfold wP. destruct (Q th IN) as [E|E]; rewrite E; reflexivity.
Qed.

End Consequences.
End Main.


(* ================= PsCore10 ================= *)

(* ---------- finite checks ---------- *)
Definition forall_range (n : nat) (f : N -> bool) : bool := forallb f (map N.of_nat (seq 0 n)).
Lemma forall_range_spec : forall n f, forall_range n f = true -> forall k, k < N.of_nat n -> f k = true.
Proof.
  intros n f H k Hk. unfold forall_range in H. rewrite forallb_forall in H. apply H.
  apply in_map_iff. exists (N.to_nat k). split; [lia|]. apply in_seq. lia.
Qed.

Definition WFb (c : cfg) : bool :=
  (1 <=? ilc c) && (ilc c <=? 26) && (cap c <=? 64 * 2 ^ ilc c) && (cap c <? two32).
Lemma WFb_spec : forall c, WFb c = true -> WF c.
Proof. intros c H. unfold WFb in H. constructor; lia. Qed.

Definition init_okb (c : cfg) (m : list N) : bool :=
  (lenN m =? node_count c) && forallb (fun w => w <? two64) m &&
  forall_range (N.to_nat (ilc c)) (fun l0 => let l := l0 + 1 in
     forall_range (N.to_nat (2 ^ l)) (fun o => let p := mkPos l o in
        implb (live c (ascend p)) (cnt_to m p =? gav c m p))) &&
  forall_range (N.to_nat (2 ^ ilc c)) (fun o => let p := mkPos (ilc c) o in
     implb (live c p) (forall_range 64 (fun b => Bool.eqb (N.testbit (word m p) b) (o * 64 + b <? cap c)))) &&
  (Fsum c m =? cap c).

Lemma getw_forall : forall (P : N -> bool) m, forallb P m = true -> P 0 = true -> forall j, P (getw m j) = true.
Proof.
  unfold getw. induction m as [|y m IH]; intros H H0 j; simpl; [assumption|].
  simpl in H. apply andb_prop in H. destruct H as [Hy Hm].
  destruct (j =? 0); [assumption | apply IH; assumption].
Qed.

Lemma tsum_ext' : forall f g (l : list thread), (forall th, In th l -> f th = g th) -> tsum f l = tsum g l.
Proof.
  induction l as [|a l IH]; intro H; [reflexivity|]. rewrite !tsum_cons.
  rewrite H by (left; reflexivity). rewrite IH by (intros; apply H; right; assumption). reflexivity.
Qed.

Definition all_ready (l : list thread) : Prop := forall th, In th l -> tpc th = Ready.

Lemma ready_weights : forall l, all_ready l ->
  (forall p, tsum (wP p) l = 0) /\ (forall p, tsum (wU p) l = 0) /\ tsum wInfl l = 0 /\
  tsum wHeld l = tsum (fun th => lenN (theld th)) l /\
  (forall x, tsum (wH x) l = tsum (fun th => countN (x + 1) (theld th)) l).
Proof.
  intros l R. repeat split; intros.
  - apply tsum_zero. intros th IN. unfold wP. rewrite (R th IN). reflexivity.
  - apply tsum_zero. intros th IN. unfold wU. rewrite (R th IN). reflexivity.
  - apply tsum_zero. intros th IN. unfold wInfl. rewrite (R th IN). reflexivity.
  - apply tsum_ext'. intros th IN. unfold wHeld. rewrite (R th IN). lia.
  - apply tsum_ext'. intros th IN. unfold wH. rewrite (R th IN). lia.
Qed.

Lemma ready_twf : forall c l, all_ready l -> (forall th, In th l -> Forall (fun n => 1 <= n <= cap c) (theld th)) -> Forall (twf c) l.
Proof.
  intros c l R V. apply Forall_forall. intros th IN. split; [apply V; assumption|]. rewrite (R th IN). exact I.
Qed.

(* created full *)
Theorem init_full_inv : forall c m l, WF c -> init_okb c m = true ->
  all_ready l -> (forall th, In th l -> theld th = []) ->
  Inv c (cap c) (fun x => x <? cap c) (mkState (mkShared (cap c) m) l).
Proof.
  intros c m l W OK R HE. unfold init_okb in OK.
  apply andb_prop in OK. destruct OK as [OK O5]. apply andb_prop in OK. destruct OK as [OK O4].
  apply andb_prop in OK. destruct OK as [OK O3]. apply andb_prop in OK. destruct OK as [O1 O2].
  destruct (ready_weights l R) as (WP0 & WU0 & WI0 & WL0 & WH0).
  assert (HZ : forall (f : thread -> N), (forall th, theld th = [] -> f th = 0) -> tsum f l = 0).
  { intros f Hf. apply tsum_zero. intros th IN. apply Hf. apply HE. assumption. }
  constructor; cbn [sh ths nodes sz].
  - lia.
  - intro j. pose proof (getw_forall (fun w => w <? two64) m O2 eq_refl j) as G. cbn beta in G. lia.
  - apply ready_twf; [assumption|]. intros th IN. rewrite (HE th IN). constructor.
  - intros p [V1 V2] Hl Lp. rewrite WP0, WU0.
    pose proof (forall_range_spec _ _ O3 (level p - 1) ltac:(lia)) as A. cbn beta zeta in A.
    replace (level p - 1 + 1) with (level p) in A by lia.
    pose proof (forall_range_spec _ _ A (offset p) ltac:(lia)) as B. cbn beta zeta in B.
    rewrite pos_eta, Lp in B. cbn [implb] in B. lia.
  - intros x Hx Lx. rewrite WH0. rewrite HZ by (intros th E; rewrite E; reflexivity).
    pose proof (h_bounds c W) as [_ HB].
    pose proof (forall_range_spec _ _ O4 (x / 64) ltac:(lia)) as A. cbn beta zeta in A.
    change (mkPos (ilc c) (x / 64)) with (leafpos c x) in A. rewrite Lx in A. cbn [implb] in A.
    pose proof (forall_range_spec _ _ A (x mod 64) ltac:(rewrite of_nat_64; lia)) as B. cbn beta in B.
    replace (x / 64 * 64 + x mod 64) with x in B by lia.
    unfold bitfree. apply Bool.eqb_prop in B. rewrite B. lia.
  - rewrite WL0. rewrite HZ by (intros th E; rewrite E; reflexivity). lia.
  - rewrite WI0. lia.
Qed.

(* created empty: the pages are in the hands of the clients *)
Lemma lenN_zeros : forall n, lenN (zeros n) = N.of_nat n.
Proof. induction n as [|n IH]; simpl; [reflexivity | rewrite IH; lia]. Qed.
Lemma getw_zeros : forall n j, getw (zeros n) j = 0.
Proof. unfold getw. induction n as [|n IH]; intro j; simpl; [reflexivity|]. destruct (j =? 0); [reflexivity | apply IH]. Qed.

Theorem init_empty_inv : forall c inU l, WF c ->
  all_ready l -> (forall th, In th l -> Forall (fun n => 1 <= n <= cap c) (theld th)) ->
  (forall x, tsum (fun th => countN (x + 1) (theld th)) l = b2n (inU x)) ->
  Inv c (tsum (fun th => lenN (theld th)) l) inU (mkState (mkShared 0 (zeros (N.to_nat (node_count c)))) l).
Proof.
  intros c inU l W R V HC.
  destruct (ready_weights l R) as (WP0 & WU0 & WI0 & WL0 & WH0).
  assert (WZ : forall p, word (zeros (N.to_nat (node_count c))) p = 0) by (intro p; apply getw_zeros).
  assert (GZ : forall p, gav c (zeros (N.to_nat (node_count c))) p = 0).
  { intro p. unfold gav, avail, lc, rc. rewrite WZ. rewrite popcount_zero. destruct (live c p); [|reflexivity].
    destruct (level p =? ilc c); reflexivity. }
  constructor; cbn [sh ths nodes sz].
  - rewrite lenN_zeros. lia.
  - intro j. rewrite getw_zeros. reflexivity.
  - apply ready_twf; assumption.
  - intros p Vp Hl Lp. rewrite WP0, WU0, GZ. unfold cnt_to, lc, rc. rewrite WZ. destruct (ascend_direction p); reflexivity.
  - intros x Hx Lx. rewrite WH0, HC. unfold bitfree. rewrite WZ, N.bits_0. reflexivity.
  - rewrite WL0. lia.
  - rewrite WI0. unfold Fsum. rewrite sumN_zero; [reflexivity|]. intros. apply GZ.
Qed.

(* the constructor, for a bounded range of capacities *)
Definition ctor_okb (capacity : N) : bool :=
  let c := measure capacity in
  WFb c &&
  match construct c true with
  | Some s0 => (sz s0 =? capacity) && init_okb c (nodes s0)
  | None => false
  end.


(* ================= PsCore11 ================= *)

Section Quiescent.
Variable c : cfg.
Notation h := (ilc c).
Hypothesis wf : WF c.
Variable total : N.
Variable inU : N -> bool.
Hypothesis total_le : total <= cap c.
Hypothesis inU_cap : forall x, inU x = true -> x < cap c.
Variable st : state.
Hypothesis HI : Inv c total inU st.
Hypothesis Q : quiescent (ths st).

Notation m := (nodes (sh st)).
Definition level_sum (mm : list N) (l : N) : N := sumN (N.to_nat (2 ^ l)) (fun o => gav c mm (mkPos l o)).

Lemma dead_child : forall q d, level q < h -> live c q = false -> live c (descend q d) = false.
Proof.
  intros q d Hq L. destruct (live c (descend q d)) eqn:E; [|reflexivity].
  rewrite (live_descend c wf q d Hq E) in L. discriminate.
Qed.

Lemma level_step : forall l, l < h -> level_sum m (l + 1) = level_sum m l.
Proof.
  intros l Hl. unfold level_sum. rewrite pow2_succ.
  replace (N.to_nat (2 * 2 ^ l)) with (2 * N.to_nat (2 ^ l))%nat by lia.
  rewrite sumN_pairs. apply sumN_ext. intros j Hj.
  set (q := mkPos l j).
  assert (Vq : valid c q) by (split; cbn [level offset q]; lia).
  assert (E0 : mkPos (l + 1) (2 * j) = descend q DLeft) by (unfold descend, q; cbn [level offset dbit]; f_equal; lia).
  assert (E1 : mkPos (l + 1) (2 * j + 1) = descend q DRight) by (unfold descend, q; cbn [level offset dbit]; f_equal; lia).
  rewrite E0, E1.
  assert (Hq : level q < h) by (cbn [level q]; lia).
  destruct (live c q) eqn:L.
  - pose proof (quiescent_tree_exact c wf total inU total_le inU_cap st HI Q (descend q DLeft) (valid_descend c wf q DLeft Vq Hq)) as TL.
    pose proof (quiescent_tree_exact c wf total inU total_le inU_cap st HI Q (descend q DRight) (valid_descend c wf q DRight Vq Hq)) as TR.
    rewrite ascend_descend in TL, TR. cbn [level descend] in TL, TR.
    specialize (TL ltac:(lia) L). specialize (TR ltac:(lia) L).
    unfold cnt_to in TL, TR. rewrite ascdir_descend, ascend_descend in TL, TR.
    rewrite <- TL, <- TR. unfold gav at 1. rewrite L. unfold avail. rewrite (neqb (level q) h) by lia. reflexivity.
  - unfold gav. rewrite L, (dead_child q DLeft Hq L), (dead_child q DRight Hq L). reflexivity.
Qed.

Lemma level_sum_const : forall n l, l + N.of_nat n = h -> level_sum m h = level_sum m l.
Proof.
  induction n as [|n IH]; intros l E.
  - replace l with h by lia. reflexivity.
  - rewrite (IH (l + 1)) by lia. apply level_step. lia.
Qed.

(* at quiescence the root counters say exactly how many pages are free *)
Theorem quiescent_root_exact :
  Fsum c m = (if 0 <? cap c then unpack_left (word m root) + unpack_right (word m root) else 0).
Proof.
  pose proof wf as [W1 _ _ _].
  change (Fsum c m) with (level_sum m h). rewrite (level_sum_const (N.to_nat h) 0) by lia.
  unfold level_sum. change (N.to_nat (2 ^ 0)) with 1%nat. cbn [sumN N.of_nat]. change (mkPos 0 0) with root.
  unfold gav, live, lo, avail, lc, rc. cbn [level offset root]. rewrite (neqb 0 h) by lia.
  destruct (N.ltb_spec 0 (cap c)); destruct (N.ltb_spec (0 * span c 0) (cap c)); lia.
Qed.

Theorem quiescent_free_count :
  sz (sh st) + tsum (fun th => lenN (theld th)) (ths st) = total /\
  sz (sh st) = (if 0 <? cap c then unpack_left (word m root) + unpack_right (word m root) else 0).
Proof.
  destruct (quiescent_size c wf total inU total_le inU_cap st HI Q) as [A B]. split; [assumption|].
  rewrite B. apply quiescent_root_exact.
Qed.
End Quiescent.




(* ================= concurrent accounting: the root counters ================= *)
Lemma sumN_tsum : forall n (f : N -> thread -> N) l,
  sumN n (fun k => tsum (f k) l) = tsum (fun th => sumN n (fun k => f k th)) l.
Proof.
  intros n f l. induction l as [|a l IH].
  - cbn [tsum fold_right]. apply sumN_zero. reflexivity.
  - rewrite tsum_cons, <- IH, <- sumN_add. apply sumN_ext. intros. rewrite tsum_cons. reflexivity.
Qed.

Lemma sumN_indicator : forall n o0, sumN n (fun o => b2n (o0 =? o)) = b2n (o0 <? N.of_nat n).
Proof.
  induction n as [|n IH]; intro o0.
  - cbn [sumN]. destruct (N.ltb_spec o0 (N.of_nat 0)); [lia | reflexivity].
  - cbn [sumN]. rewrite IH.
    destruct (N.ltb_spec o0 (N.of_nat n)); destruct (N.ltb_spec o0 (N.of_nat (S n))); destruct (N.eqb_spec o0 (N.of_nat n)); cbn [b2n]; lia.
Qed.

(* sum over all positions of levels 1..n *)
Fixpoint lev_sum (n : nat) (F : pos -> N) : N :=
  match n with
  | O => 0
  | S k => lev_sum k F + sumN (N.to_nat (2 ^ N.of_nat (S k))) (fun o => F (mkPos (N.of_nat (S k)) o))
  end.

Lemma lev_sum_tsum : forall n (f : pos -> thread -> N) l,
  lev_sum n (fun p => tsum (f p) l) = tsum (fun th => lev_sum n (fun p => f p th)) l.
Proof.
  induction n as [|n IH]; intros f l.
  - cbn [lev_sum]. symmetry. apply tsum_zero. reflexivity.
  - cbn [lev_sum]. rewrite IH, sumN_tsum.
    induction l as [|a l IHl]; [reflexivity|]. rewrite !tsum_cons. lia.
Qed.

Lemma lev_sum_add : forall n F G, lev_sum n (fun p => F p + G p) = lev_sum n F + lev_sum n G.
Proof. induction n as [|n IH]; intros; cbn [lev_sum]; [reflexivity|]. rewrite IH, sumN_add. lia. Qed.

Lemma lev_sum_zero : forall n F, (forall p, F p = 0) -> lev_sum n F = 0.
Proof. induction n as [|n IH]; intros F H; cbn [lev_sum]; [reflexivity|]. rewrite IH by assumption. rewrite sumN_zero; [reflexivity|]. intros; apply H. Qed.

Lemma lev_sum_indicator : forall n q, offset q < 2 ^ level q ->
  lev_sum n (fun p => b2n (pos_eqb q p)) = b2n ((1 <=? level q) && (level q <=? N.of_nat n)).
Proof.
  induction n as [|n IH]; intros q Vq.
  - cbn [lev_sum]. destruct (1 <=? level q) eqn:A; destruct (level q <=? N.of_nat 0) eqn:B; cbn [andb b2n]; lia.
  - cbn [lev_sum]. rewrite (IH q Vq).
    destruct (N.eq_dec (level q) (N.of_nat (S n))) as [E|E].
    + rewrite (sumN_ext _ _ (fun o => b2n (offset q =? o))).
      2: { intros k _. unfold pos_eqb. cbn [level offset]. rewrite E, N.eqb_refl. reflexivity. }
      rewrite sumN_indicator. rewrite <- E. rewrite N.leb_refl.
      destruct (offset q <? N.of_nat (N.to_nat (2 ^ level q))) eqn:LT; [|lia].
      destruct (1 <=? level q) eqn:A; destruct (level q <=? N.of_nat n) eqn:B; destruct (level q <=? N.of_nat (S n)) eqn:C; cbn [andb b2n]; lia.
    + rewrite sumN_zero.
      2: { intros k _. unfold pos_eqb. cbn [level offset]. destruct (N.eqb_spec (level q) (N.of_nat (S n))); [contradiction | reflexivity]. }
      destruct (1 <=? level q) eqn:A; destruct (level q <=? N.of_nat n) eqn:B; destruct (level q <=? N.of_nat (S n)) eqn:C; cbn [andb b2n]; lia.
Qed.

(* a call in progress that has claimed (pop) or is about to credit (push) something in the tree above the leaves *)
Definition wC (th : thread) : N :=
  match tpc th with
  | PopLoad q | PopCas q _ | LeafLoad q | LeafCas q _ => b2n (1 <=? level q)
  | PushInner _ _ _ => 1
  | _ => 0
  end.

Lemma tsum_add3 : forall f g k (l : list thread), tsum (fun th => f th + g th + k th) l = tsum f l + tsum g l + tsum k l.
Proof. induction l as [|a l IH]; [reflexivity|]. rewrite !tsum_cons, IH. lia. Qed.

Section Conc.
Variable c : cfg.
Notation h := (ilc c).
Hypothesis wf : WF c.
Variable total : N.
Variable inU : N -> bool.
Hypothesis total_le : total <= cap c.
Hypothesis inU_cap : forall x, inU x = true -> x < cap c.
Variable st : state.
Hypothesis HI : Inv c total inU st.
Notation m := (nodes (sh st)).

Lemma thread_in_tree : forall th, In th (ths st) ->
  lev_sum (N.to_nat h) (fun p => wP p th + wU p th) = wC th.
Proof.
  intros th IN. pose proof (inv_thr _ _ _ _ HI) as T. rewrite Forall_forall in T. destruct (T th IN) as [_ W].
  rewrite lev_sum_add. unfold wP, wU, wC. destruct (tpc th) eqn:E.
  1,2,3,8,9,10: rewrite !lev_sum_zero by reflexivity; reflexivity.
  - destruct W as ([V1 V2] & H1 & _). rewrite (lev_sum_indicator _ p V2), (lev_sum_zero _ (fun _ => 0)) by reflexivity.
    destruct (1 <=? level p) eqn:A; destruct (level p <=? N.of_nat (N.to_nat h)) eqn:B; cbn [andb b2n]; lia.
  - destruct W as ([V1 V2] & H1 & _). rewrite (lev_sum_indicator _ p V2), (lev_sum_zero _ (fun _ => 0)) by reflexivity.
    destruct (1 <=? level p) eqn:A; destruct (level p <=? N.of_nat (N.to_nat h)) eqn:B; cbn [andb b2n]; lia.
  - destruct W as ([V1 V2] & H1 & _). rewrite (lev_sum_indicator _ p V2), (lev_sum_zero _ (fun _ => 0)) by reflexivity.
    destruct (1 <=? level p) eqn:A; destruct (level p <=? N.of_nat (N.to_nat h)) eqn:B; cbn [andb b2n]; lia.
  - destruct W as ([V1 V2] & H1 & _). rewrite (lev_sum_indicator _ p V2), (lev_sum_zero _ (fun _ => 0)) by reflexivity.
    destruct (1 <=? level p) eqn:A; destruct (level p <=? N.of_nat (N.to_nat h)) eqn:B; cbn [andb b2n]; lia.
  - destruct W as (V & H1 & _). pose proof (valid_descend c wf p d V H1) as [V1 V2].
    rewrite (lev_sum_zero _ (fun _ => 0)) by reflexivity. rewrite (lev_sum_indicator _ (descend p d) V2).
    cbn [level descend] in *.
    destruct (1 <=? level p + 1) eqn:A; destruct (level p + 1 <=? N.of_nat (N.to_nat h)) eqn:B; cbn [andb b2n]; lia.
Qed.

(* nothing is on its way to, or pending at, a node whose parent is dead *)
Lemma dead_parent : forall p, valid c p -> 1 <= level p -> live c (ascend p) = false ->
  tsum (wP p) (ths st) = 0 /\ tsum (wU p) (ths st) = 0 /\ live c p = false.
Proof.
  intros p Vp Hl D.
  assert (LP : live c p = false).
  { destruct (live c p) eqn:L; [|reflexivity]. rewrite (live_ascend c wf p Vp Hl L) in D. discriminate. }
  pose proof (inv_thr _ _ _ _ HI) as T. rewrite Forall_forall in T.
  split; [|split; [|assumption]].
  - apply tsum_zero. intros th IN. destruct (T th IN) as [_ W]. unfold wP.
    destruct (tpc th); try reflexivity.
    all: destruct (pos_eqb_spec p0 p) as [E|E]; [|reflexivity]; subst p0; exfalso.
    + destruct W as (_ & _ & L). congruence.
    + destruct W as (_ & _ & L & _). congruence.
    + destruct W as (_ & _ & L). congruence.
    + destruct W as (_ & _ & L). congruence.
  - apply tsum_zero. intros th IN. destruct (T th IN) as [_ W]. unfold wU.
    destruct (tpc th); try reflexivity.
    destruct (pos_eqb_spec (descend p0 d) p) as [E|E]; [|reflexivity]. exfalso.
    destruct W as (_ & _ & L). rewrite E in L. congruence.
Qed.

Definition inflight (p : pos) : N := tsum (wP p) (ths st) + tsum (wU p) (ths st).

Lemma level_step_conc : forall l, l < h ->
  level_sum c m (l + 1) = level_sum c m l + sumN (N.to_nat (2 ^ (l + 1))) (fun o => inflight (mkPos (l + 1) o)).
Proof.
  intros l Hl. unfold level_sum.
  set (cnt' := fun p => if live c (ascend p) then cnt_to m p else 0).
  assert (EQ : forall o, o < N.of_nat (N.to_nat (2 ^ (l + 1))) ->
               gav c m (mkPos (l + 1) o) = cnt' (mkPos (l + 1) o) + inflight (mkPos (l + 1) o)).
  { intros o Ho. set (p := mkPos (l + 1) o).
    assert (Vp : valid c p) by (split; cbn [level offset p]; lia).
    unfold cnt', inflight. destruct (live c (ascend p)) eqn:L.
    - pose proof (inv_tree _ _ _ _ HI p Vp ltac:(cbn [level p]; lia) L). lia.
    - destruct (dead_parent p Vp ltac:(cbn [level p]; lia) L) as (A & B & D). rewrite A, B. unfold gav. rewrite D. reflexivity. }
  rewrite (sumN_ext _ _ _ EQ), sumN_add. f_equal.
  rewrite pow2_succ. replace (N.to_nat (2 * 2 ^ l)) with (2 * N.to_nat (2 ^ l))%nat by lia.
  rewrite sumN_pairs. apply sumN_ext. intros j Hj.
  set (q := mkPos l j).
  assert (E0 : mkPos (l + 1) (2 * j) = descend q DLeft) by (unfold descend, q; cbn [level offset dbit]; f_equal; lia).
  assert (E1 : mkPos (l + 1) (2 * j + 1) = descend q DRight) by (unfold descend, q; cbn [level offset dbit]; f_equal; lia).
  rewrite E0, E1. unfold cnt'. rewrite !ascend_descend. unfold cnt_to. rewrite !ascdir_descend, !ascend_descend.
  unfold gav. destruct (live c q); [|reflexivity]. unfold avail. rewrite (neqb (level q) h) by (cbn [level q]; lia). reflexivity.
Qed.

Lemma level_sum_conc : forall n, N.of_nat n <= h ->
  level_sum c m (N.of_nat n) = level_sum c m 0 + lev_sum n inflight.
Proof.
  induction n as [|n IH]; intro H.
  - cbn [lev_sum N.of_nat]. lia.
  - cbn [lev_sum]. replace (N.of_nat (S n)) with (N.of_nat n + 1) by lia.
    rewrite (level_step_conc (N.of_nat n)) by lia. rewrite IH by lia. lia.
Qed.

(* in every reachable state: what the root offers + the calls in progress in the tree = the free bits of the live leaves *)
Theorem root_accounting :
  (if 0 <? cap c then unpack_left (word m root) + unpack_right (word m root) else 0) + tsum wC (ths st) = Fsum c m.
Proof.
  pose proof wf as [W1 _ _ _].
  pose proof (level_sum_conc (N.to_nat h) ltac:(lia)) as L. rewrite N2Nat.id in L.
  change (Fsum c m) with (level_sum c m h). rewrite L.
  f_equal.
  - unfold level_sum. change (N.to_nat (2 ^ 0)) with 1%nat. cbn [sumN N.of_nat]. change (mkPos 0 0) with root.
    unfold gav, live, lo, avail, lc, rc. cbn [level offset root]. rewrite (neqb 0 h) by lia.
    destruct (N.ltb_spec 0 (cap c)); destruct (N.ltb_spec (0 * span c 0) (cap c)); lia.
  - unfold inflight. rewrite lev_sum_add, !lev_sum_tsum.
    rewrite <- (tsum_ext' _ _ (ths st) thread_in_tree).
    induction (ths st) as [|a l IHl]; [reflexivity|]. rewrite !tsum_cons, lev_sum_add. lia.
Qed.

(* every page of the pool is accounted for, at every moment *)
Definition wBusy (th : thread) : N := wHeld th + wInfl th + wC th.

Theorem pool_accounting :
  (if 0 <? cap c then unpack_left (word m root) + unpack_right (word m root) else 0) + tsum wBusy (ths st) = total.
Proof.
  pose proof root_accounting as R. pose proof (inv_sz1 _ _ _ _ HI) as S1. pose proof (inv_sz2 _ _ _ _ HI) as S2.
  assert (tsum wBusy (ths st) = tsum wHeld (ths st) + tsum wInfl (ths st) + tsum wC (ths st)).
  { unfold wBusy. apply tsum_add3. }
  lia.
Qed.

Theorem empty_root_means_no_free_page :
  unpack_left (word m root) = 0 -> unpack_right (word m root) = 0 -> tsum wBusy (ths st) = total.
Proof. intros A B. pose proof pool_accounting as P. rewrite A, B in P. destruct (0 <? cap c); lia. Qed.
End Conc.


(* ================= a pop() fails only on reading an empty root ================= *)
Lemma after_read_none : forall q w p1 ev1, after_inner_read q w = (p1, ev1) -> In (EvRetPop None) ev1 ->
  level q = 0 /\ unpack_left w = 0 /\ unpack_right w = 0.
Proof.
  intros q w p1 ev1 A I1. unfold after_inner_read in A. destruct (inner_pop_choice w) as [[d n]|] eqn:CH.
  - inversion A; subst. destruct I1.
  - apply choice_none in CH. destruct (N.eqb_spec (level q) 0); inversion A; subst.
    + tauto.
    + destruct I1 as [F|[]]; discriminate.
Qed.

Ltac noev E IN := inversion E; subst; clear E; cbn [In] in IN; intuition discriminate.

Lemma pstep_pop_none : forall c s p held scr s' p' held' scr' evs, cap c <> 0 ->
  pstep c s p held scr = (s', p', held', scr', evs) -> In (EvRetPop None) evs ->
  exists q, (p = PopLoad q \/ exists old, p = PopCas q old) /\ level q = 0 /\ s' = s /\
            unpack_left (word (nodes s) q) = 0 /\ unpack_right (word (nodes s) q) = 0.
Proof.
  intros c s p held scr s' p' held' scr' evs C0 E IN. unfold crash in *.
  destruct p; cbn [pstep] in E.
  - destruct (fetch held scr) as [[[] r]|].
    + destruct (N.eqb_spec (cap c) 0); [contradiction|]. noev E IN.
    + destruct ((0 <? hd 0 held) && (hd 0 held <=? cap c)); noev E IN.
    + destruct ((0 <? last held 0) && (last held 0 <=? cap c)); noev E IN.
    + noev E IN.
  - noev E IN.
  - noev E IN.
  - destruct (node_ok c p); [|noev E IN].
    destruct (after_inner_read p (getw (nodes s) (nodes_before p))) as [p1 ev1] eqn:A. inversion E; subst; clear E.
    destruct (after_read_none _ _ _ _ A IN) as (L0 & UL & UR).
    exists p. split; [left; reflexivity|]. repeat split; assumption.
  - destruct (N.eqb_spec (getw (nodes s) (nodes_before p)) old).
    + destruct (inner_pop_choice old) as [[d n]|]; [|noev E IN].
      destruct (level p <? tree_height c); noev E IN.
    + destruct (after_inner_read p (getw (nodes s) (nodes_before p))) as [p1 ev1] eqn:A. inversion E; subst; clear E.
      destruct (after_read_none _ _ _ _ A IN) as (L0 & UL & UR).
      exists p. split; [right; exists old; reflexivity|]. repeat split; assumption.
  - destruct (node_ok c p); [|noev E IN]. destruct (getw (nodes s) (nodes_before p) =? 0); noev E IN.
  - destruct (getw (nodes s) (nodes_before p) =? old); [noev E IN|]. destruct (getw (nodes s) (nodes_before p) =? 0); noev E IN.
  - destruct (((sz s + two32 - 1) mod two32 <? cap c) && (0 <? (id + 1) mod two32) && ((id + 1) mod two32 <=? cap c)); noev E IN.
  - destruct ((sz s + 1) mod two32 <=? cap c); noev E IN.
  - destruct (node_ok c _); [|noev E IN]. destruct (N.land _ _ =? 0); [|noev E IN].
    unfold next_inner_push in E. destruct (0 <? _); noev E IN.
  - destruct (node_ok c p); [|noev E IN]. destruct (_ <=? _); [|noev E IN].
    destruct (at_root p); [noev E IN|]. unfold next_inner_push in E. destruct (0 <? _); noev E IN.
Qed.

Lemma nth_in' : forall (l : list thread) i th, nthN i l = Some th -> In th l.
Proof.
  induction l as [|a l IH]; intros i th H; simpl in H; [discriminate|].
  destruct (i =? 0); [inversion H; left; reflexivity | right; eapply IH; eassumption].
Qed.

Section FailStep.
Variable c : cfg.
Hypothesis wf : WF c.
Variable total : N.
Variable inU : N -> bool.
Hypothesis total_le : total <= cap c.
Hypothesis inU_cap : forall x, inU x = true -> x < cap c.
Variable st : state.
Hypothesis HI : Inv c total inU st.

(* the step in which pop() returns false reads a root whose two counters are zero and changes nothing; in the state
   it reads, every page of the pool is accounted to some process: held, being pushed, or reserved by a committed pop *)
Theorem pop_fails_only_when_no_page_free : forall t st' evs b,
  step c st t = (st', evs, b) -> In (t, EvRetPop None) evs -> cap c <> 0 ->
  sh st' = sh st /\
  unpack_left (word (nodes (sh st)) root) = 0 /\ unpack_right (word (nodes (sh st)) root) = 0 /\
  tsum wBusy (ths st) = total.
Proof.
  intros t st' evs b E IN C0. unfold step in E.
  destruct (nthN t (ths st)) as [th|] eqn:NT; [|inversion E; subst; destruct IN].
  destruct (terminal (tpc th)); [inversion E; subst; destruct IN|].
  destruct (pstep c (sh st) (tpc th) (theld th) (tscr th)) as [[[[s1 p1] held1] scr1] evs1] eqn:P.
  inversion E; subst; clear E.
  apply in_map_iff in IN. destruct IN as (e & EE & IN). inversion EE; subst e; clear EE.
  destruct (pstep_pop_none _ _ _ _ _ _ _ _ _ _ C0 P IN) as (q & PC & L0 & ES & UL & UR).
  pose proof (inv_thr _ _ _ _ HI) as T. rewrite Forall_forall in T.
  destruct (T th (nth_in' _ _ _ NT)) as [_ W].
  assert (Vq : valid c q).
  { destruct PC as [PC|[old PC]]; rewrite PC in W; tauto. }
  rewrite (valid_level0 c wf q Vq L0) in *. cbn [sh]. subst s1.
  split; [reflexivity|]. split; [assumption|]. split; [assumption|].
  apply (empty_root_means_no_free_page c wf total inU total_le inU_cap st HI); assumption.
Qed.
End FailStep.

(* ---------- statements in the form used by Properties_C53.v ---------- *)
(* a start state: the parameters fit, and the invariant holds *)
Definition Start (c : cfg) (total : N) (inU : N -> bool) (st0 : state) : Prop :=
  WF c /\ total <= cap c /\ (forall x, inU x = true -> x < cap c) /\ Inv c total inU st0.

Definition all_in_pool (capacity : N) : N -> bool := fun x => x <? capacity.

Theorem start_full : forall c m l, WF c -> init_okb c m = true ->
  all_ready l -> (forall th, In th l -> theld th = []) ->
  Start c (cap c) (all_in_pool (cap c)) (mkState (mkShared (cap c) m) l).
Proof.
  intros c m l W OK R HE. split; [assumption|]. split; [lia|]. split.
  - intros x H. unfold all_in_pool in H. lia.
  - apply init_full_inv; assumption.
Qed.

Theorem start_empty : forall c inU l, WF c ->
  all_ready l -> (forall th, In th l -> Forall (fun n => 1 <= n <= cap c) (theld th)) ->
  (forall x, tsum (fun th => countN (x + 1) (theld th)) l = b2n (inU x)) ->
  (forall x, inU x = true -> x < cap c) ->
  tsum (fun th => lenN (theld th)) l <= cap c ->
  Start c (tsum (fun th => lenN (theld th)) l) inU (mkState (mkShared 0 (zeros (N.to_nat (node_count c)))) l).
Proof.
  intros c inU l W R V HC HU HT. split; [assumption|]. split; [assumption|]. split; [assumption|].
  apply init_empty_inv; assumption.
Qed.

(* the real constructor (fillAllNodes + truncateExtras as modelled) yields a start state: checked by computation for capacities 0..1100 *)
Definition ctor_bound : nat := 1101.
Lemma ctor_sweep : forall_range ctor_bound ctor_okb = true.
Proof. vm_compute. reflexivity. Qed.

Theorem ctor_start_upto : forall capacity l, capacity <= 1100 ->
  all_ready l -> (forall th, In th l -> theld th = []) ->
  exists s0, construct (measure capacity) true = Some s0 /\
             Start (measure capacity) capacity (all_in_pool capacity) (mkState s0 l).
Proof.
  intros capacity l H R HE.
  pose proof (forall_range_spec _ _ ctor_sweep capacity ltac:(unfold ctor_bound; lia)) as OK.
  unfold ctor_okb in OK. apply andb_prop in OK. destruct OK as [W OK]. apply WFb_spec in W.
  destruct (construct (measure capacity) true) as [s0|]; [|discriminate].
  apply andb_prop in OK. destruct OK as [SZ OK]. exists s0. split; [reflexivity|].
  destruct s0 as [z m]. cbn [sz nodes] in *. assert (z = capacity) by lia. subst z.
  change capacity with (cap (measure capacity)) at 2 3 4. apply start_full; assumption.
Qed.

Section Reach.
Variables (c : cfg) (total : N) (inU : N -> bool) (st0 : state).
Hypothesis S : Start c total inU st0.
Variable sched : list N.
Notation st := (reach c st0 sched).

Lemma start_parts : WF c /\ total <= cap c /\ (forall x, inU x = true -> x < cap c) /\ Inv c total inU st.
Proof. destruct S as (W & T & U & I0). split; [assumption|]. split; [assumption|]. split; [assumption|]. apply (reach_inv c W total inU T U); assumption. Qed.

Theorem reach_invariant : Inv c total inU st.
Proof. apply start_parts. Qed.

Theorem reach_no_crash : forall i th, nthN i (ths st) = Some th -> tpc th <> Crashed.
Proof. destruct start_parts as (W & T & U & I). apply (no_crash c W total inU T U st I). Qed.

Theorem reach_held_valid : forall i th n, nthN i (ths st) = Some th -> In n (theld th) -> 1 <= n <= cap c.
Proof. destruct start_parts as (W & T & U & I). apply (held_pages_valid c W total inU T U st I). Qed.

Theorem reach_no_page_held_twice : forall n i j a b, i <> j ->
  nthN i (ths st) = Some a -> nthN j (ths st) = Some b -> In n (theld a) -> In n (theld b) -> False.
Proof. destruct start_parts as (W & T & U & I). apply (no_page_held_twice c W total inU T U st I). Qed.

Theorem reach_held_once : forall n i a, nthN i (ths st) = Some a -> countN n (theld a) <= 1.
Proof. destruct start_parts as (W & T & U & I). apply (held_once c W total inU T U st I). Qed.

Theorem reach_no_double_holder : forall x i j a b, x < cap c -> i <> j ->
  nthN i (ths st) = Some a -> nthN j (ths st) = Some b -> 1 <= wH x a -> 1 <= wH x b -> False.
Proof. destruct start_parts as (W & T & U & I). apply (no_double_holder c W total inU T U st I). Qed.

Theorem reach_free_page_in_leaf : forall x, inU x = true -> tsum (wH x) (ths st) = 0 ->
  N.testbit (word (nodes (sh st)) (leafpos c x)) (x mod 64) = true.
Proof. destruct start_parts as (W & T & U & I). apply (free_page_in_leaf c W total inU T U st I). Qed.

Theorem reach_size_accounting : sz (sh st) + tsum wHeld (ths st) = total.
Proof. destruct start_parts as (W & T & U & I). apply (size_accounting c W total inU T U st I). Qed.

Theorem reach_quiescent_counts : quiescent (ths st) ->
  sz (sh st) + tsum (fun th => lenN (theld th)) (ths st) = total /\
  sz (sh st) = (if 0 <? cap c then unpack_left (word (nodes (sh st)) root) + unpack_right (word (nodes (sh st)) root) else 0).
Proof. destruct start_parts as (W & T & U & I). intro Q. apply (quiescent_free_count c W total inU T U st I Q). Qed.

Theorem reach_quiescent_tree_exact : quiescent (ths st) ->
  forall p, valid c p -> 1 <= level p -> live c (ascend p) = true ->
  cnt_to (nodes (sh st)) p = gav c (nodes (sh st)) p.
Proof. destruct start_parts as (W & T & U & I). intro Q. apply (quiescent_tree_exact c W total inU T U st I Q). Qed.
Theorem reach_pool_accounting :
  (if 0 <? cap c then unpack_left (word (nodes (sh st)) root) + unpack_right (word (nodes (sh st)) root) else 0)
  + tsum wBusy (ths st) = total.
Proof. destruct start_parts as (W & T & U & I). apply (pool_accounting c W total inU T U st I). Qed.

Theorem reach_pop_fails_only_when_no_page_free : forall t st' evs b,
  step c st t = (st', evs, b) -> In (t, EvRetPop None) evs -> cap c <> 0 ->
  sh st' = sh st /\
  unpack_left (word (nodes (sh st)) root) = 0 /\ unpack_right (word (nodes (sh st)) root) = 0 /\
  tsum wBusy (ths st) = total.
Proof. destruct start_parts as (W & T & U & I). apply (pop_fails_only_when_no_page_free c W total inU T U st I). Qed.
End Reach.
