// Harness for C53: the real Ipc::Mem::PageStack / IdSet (src/ipc/mem/PageStack.cc compiled
// unmodified from /repo's working tree with `-include sched_atomic.h`) driven by 1..8
// cooperative client threads under an explicit schedule; every context switch happens at
// an atomic operation of PageStack.cc (or at a client's "between two calls" point).
//
// case line:  ps.run <capacity> <F|E> <n> <script_0> ... <script_{n-1}> <schedule>
//   F          PageStack::Config::createFull = true: all `capacity` pages start in the stack
//   E          createFull = false (zero-filled tree); page number i+1 (0 <= i < capacity) starts
//              in the hands of client (i mod n)
//   script   = string over  o u v  ('-' = empty)
//              o  pop(page)                      (keeps the page on success)
//              u  push(the page held longest)    (skipped when the client holds nothing)
//              v  push(the page obtained last)   (skipped when the client holds nothing)
//   schedule = string of thread digits ('-' = empty): the named thread performs ONE step:
//              its "between calls" step (picks its next operation, makes the call up to the
//              first atomic operation) or one atomic operation of PageStack.cc.
//              Past the end of the schedule: round-robin.
//
// result line (events in global order):
//   <t>@o  <t>@u<num>      client t starts pop() / push(page number num)
//   <t>o+<num>  <t>o-      pop() returned true with page number num / returned false
//   <t>u<num>              push(num) returned
//   <t>!                   client ended (script exhausted)
//   <t>#                   an assert() of PageStack.cc failed in client t (client ends, keeps nothing new)
//   <t>D<num>              harness ownership table: pop() handed out a page that has a holder (precedes o+)
//   | sz=<size_> | nodes=<all tree nodes, hex, in nodes_ order> | held=<numbers per client, ';' between clients>
//   | drain=<page numbers returned by pop() called repeatedly, single-threaded, until it fails> | steps=<n>
#include "squid.h"
#include "ipc/mem/Page.h"
#define private public
#include "ipc/mem/PageStack.h"
#undef private
#include "hcommon.h"
#include <new>
#include <deque>

// squid's assert() -> xassert(); here a failed assertion ends the calling client
struct AssertFailed {
    const char *msg;
};
extern "C" void xassert(const char *msg, const char *, int) { throw AssertFailed{msg}; }

// UBSan is built in recover mode for this harness and every report is counted and shown in the
// result line (" | UB=<n>"). libubsan reports each source location only once per process, so the
// handlers that matter here are replaced by counting ones (the executable's definitions win over
// the shared library's); any other kind of report still reaches __ubsan_on_report().
static unsigned long UbReports = 0;
extern "C" {
void __ubsan_on_report(void) { ++UbReports; }
void __ubsan_handle_shift_out_of_bounds(void *, void *, void *) { ++UbReports; }
void __ubsan_handle_add_overflow(void *, void *, void *) { ++UbReports; }
void __ubsan_handle_sub_overflow(void *, void *, void *) { ++UbReports; }
void __ubsan_handle_mul_overflow(void *, void *, void *) { ++UbReports; }
void __ubsan_handle_out_of_bounds(void *, void *) { ++UbReports; }
void __ubsan_handle_pointer_overflow(void *, void *, void *) { ++UbReports; }
}

typedef Ipc::Mem::PageStack PageStack;
typedef Ipc::Mem::PageId PageId;

static const uint32_t PoolId = 7;

struct Case {
    PageStack *stack = nullptr;
    unsigned capacity = 0;
    std::vector<std::string> scripts;
    std::vector<std::deque<uint32_t>> held; // page numbers, oldest first
    std::vector<int> owner;                 // page number -> client, -1 = nobody (the ownership table)
    std::vector<bool> crashed;
    std::string log;
};

static void ev(Case &c, int t, const std::string &what) {
    if (!c.log.empty())
        c.log.push_back(' ');
    c.log.push_back(static_cast<char>('0' + t));
    c.log += what;
}

static void client(Case &c, int t) {
    PageStack &stack = *c.stack;
    const std::string &script = c.scripts[t];
    std::deque<uint32_t> &mine = c.held[t];
    size_t ip = 0;
    try {
        for (;;) {
            verif_sched::point(); // between two calls
            while (ip < script.size() && script[ip] != 'o' && mine.empty())
                ++ip; // nothing to push
            if (ip == script.size()) {
                ev(c, t, "!");
                return;
            }
            const char o = script[ip++];
            if (o == 'o') {
                ev(c, t, "@o");
                PageId page;
                const bool r = stack.pop(page);
                if (r) {
                    const uint32_t num = page.number;
                    if (num < c.owner.size()) {
                        if (c.owner[num] != -1)
                            ev(c, t, "D" + std::to_string(num));
                        c.owner[num] = t;
                    }
                    mine.push_back(num);
                    ev(c, t, "o+" + std::to_string(num));
                } else
                    ev(c, t, "o-");
            } else {
                uint32_t num;
                if (o == 'u') {
                    num = mine.front();
                    mine.pop_front();
                } else {
                    num = mine.back();
                    mine.pop_back();
                }
                ev(c, t, "@u" + std::to_string(num));
                PageId page;
                page.pool = PoolId;
                page.number = num;
                if (num < c.owner.size())
                    c.owner[num] = -1; // the client gives the page up when it calls push()
                stack.push(page);
                ev(c, t, "u" + std::to_string(num));
            }
        }
    } catch (const AssertFailed &) {
        c.crashed[t] = true;
        ev(c, t, "#");
    } catch (...) {
        c.crashed[t] = true;
        ev(c, t, "#?");
    }
}

// numbers with runs of consecutive values compressed: 2,3,4,9 -> 2-4,9
template <class It>
static std::string showNumbers(It b, It e) {
    std::ostringstream o;
    bool first = true;
    while (b != e) {
        const unsigned long lo = *b;
        unsigned long hi = lo;
        ++b;
        while (b != e && *b == hi + 1) {
            hi = *b;
            ++b;
        }
        o << (first ? "" : ",") << lo;
        if (hi != lo)
            o << '-' << hi;
        first = false;
    }
    return o.str();
}

static std::string runCase(const std::vector<std::string> &a) {
    std::ostringstream o;
    const unsigned long capacity = std::stoul(a[1]);
    const bool full = a[2] == "F";
    const int n = std::stoi(a[3]);
    if (n < 1 || n > 8 || a.size() != static_cast<size_t>(n) + 5 || capacity > 100000 ||
            (a[2] != "F" && a[2] != "E"))
        return "ERR bad-args";
    static verif_sched::Scheduler sched;
    sched.maxSteps = 100000;
    Case c;
    c.capacity = capacity;
    UbReports = 0;
    PageStack::Config config;
    config.poolId = PoolId;
    config.pageSize = 32;
    config.capacity = capacity;
    config.createFull = full;
    // like squid: the stack lives in zero-filled (shared) memory and is constructed in place
    const size_t bytes = PageStack::StackSize(capacity) + 64;
    void *mem = calloc(1, bytes);
    try {
        c.stack = new (mem) PageStack(config);
    } catch (const AssertFailed &) {
        return "CTOR#";
    }
    for (int i = 0; i < n; ++i)
        c.scripts.push_back(a[4 + i] == "-" ? std::string() : a[4 + i]);
    c.held.assign(n, std::deque<uint32_t>());
    c.owner.assign(capacity + 1, -1);
    c.crashed.assign(n, false);
    if (!full)
        for (unsigned long i = 0; i < capacity; ++i) {
            c.held[i % n].push_back(i + 1);
            c.owner[i + 1] = i % n;
        }
    std::vector<int> schedule;
    if (a[4 + n] != "-")
        for (char ch : a[4 + n])
            schedule.push_back(ch - '0');
    const bool finished = sched.run(n, [&c](int t) { client(c, t); }, schedule);
    o << (c.log.empty() ? "-" : c.log);
    if (!finished)
        o << " LIVELOCK";
    PageStack &s = *c.stack;
    o << " | sz=" << s.size_.v;
    o << " | nodes=";
    const auto nodeCount = s.ids_.measurements.nodeCount();
    for (uint32_t i = 0; i < nodeCount; ++i)
        o << (i ? "," : "") << std::hex << s.ids_.nodes_[i].v << std::dec;
    o << " | held=";
    for (int i = 0; i < n; ++i)
        o << (i ? ";" : "") << showNumbers(c.held[i].begin(), c.held[i].end());
    // drain, single-threaded (no scheduler: operations execute directly)
    o << " | drain=";
    std::vector<uint32_t> drained;
    bool drainCrashed = false;
    try {
        for (unsigned long k = 0; k <= capacity + 2; ++k) {
            PageId page;
            if (!s.pop(page))
                break;
            drained.push_back(page.number);
        }
    } catch (const AssertFailed &) {
        drainCrashed = true;
    }
    o << showNumbers(drained.begin(), drained.end()) << (drainCrashed ? "#" : "");
    o << " | steps=" << sched.steps;
    if (UbReports)
        o << " | UB=" << UbReports; // UBSan reports during this case
    free(mem);
    return o.str();
}

int main() {
    std::string line;
    while (std::getline(std::cin, line)) {
        auto a = splitws(line);
        if (a.empty()) { std::cout << "\n"; continue; }
        std::string out;
        try {
            if (a[0] == "ps.run" && a.size() >= 5)
                out = runCase(a);
            else
                out = "ERR unknown-entry " + a[0];
        } catch (const std::exception &e) { out = std::string("EXC ") + e.what(); }
        std::cout << out << "\n" << std::flush;
    }
    return 0;
}
