"""C30: URI parsing is canonical and validates authority (AnyP::Uri::parse / authority / absolute)."""
import re, random
from vlib import std, hbuild, coq, corr, recipes

PID = "C30"
META = {
    "text": "Model UriModel.v transcribes AnyP::Uri::parse (CONNECT branch via parseHost/parsePort, urn: branch, the legacy authority/path split with its login, bracket, last-colon and digit-loop port rules, lower-casing, check_hostnames, trailing-dot removal, the empty / over-long host rejection, '..' / leading-dot rules, port range, uri_whitespace strip/allow/chop/deny), Uri::host(), authority(), absolute(), absolutePath() and UriScheme (FindProtocolType, image, defaultPort) over tables regenerated from the code (ctype maps, valid_hostname_chars, PathChars, scheme table, per-byte Encode maps taken from absolutePath()/absolute() themselves, limits). Theorems (Properties_C30.v, 12, closed under the global context) for ALL configurations, methods and byte strings: an accepted URI has a host without upper-case letters and a port in 1..65535; its host (unless an IP literal or the asterisk-form) is non-empty, fits the host buffer and has no empty labels; for every RFC-shaped URI scheme://[userinfo@]reg-name:P rest (and scheme://[userinfo@][literal]:P rest) acceptance implies that P is a non-empty decimal string with value in 1..65535 and that this value is the port (so every non-numeric, empty, signed or out-of-range port text is rejected), and without a port the scheme default is used; absolutePath() keeps exactly PathChars and '?'; re-parsing absolute() of a URI value with a settled reg-name / dotted-quad host and a path+query made of kept bytes yields the same scheme, host, port and path, and the canonical form is then a fixed point. Refuted with witnesses confirmed on the real code (known findings): canonical re-parse for paths with '#', for hosts containing ':' that the legacy split accepts, and for urn: NIDs that Ip::Address reads as numbers. CONNECT targets, bracketed IPv6 literals in the canonical re-parse, urn: and the host/path halves of 'parse returns exactly the written components' are covered by the correspondence run and the independent oracle only.",
    "note": "Trusted: Coq kernel, extraction, gen/gen_uri.cc, gen/gen_bytemaps.cc, gen/gen_charsets.cc, harness/h_uri.cc, the glue in ml/run_uri.ml. Ip::Address::fromHost/isAnyAddr/toHostStr is a Section variable (ipq) with its contract stated in UriProofs.v (canonical texts are lower-case dotted quads or bracketed [0-9a-f:.]+ and are fixed points of the recognition); the harness supplies the real answers for every string the model asks about and the oracle re-checks the contract on those answers. append_domain and uri_whitespace=encode are not modelled. Function-static sets (schemeChars, nidChars, IPv6chars) are written as expressions over the regenerated base sets and covered by correspondence only. The hand-written model is validated against the code on the generated cases only.",
    "technique": "Coq proof (induction on byte strings, span/split lemmas, vm_compute sweeps over the regenerated 256-entry tables and over all 65536 port values, Section oracle for IP recognition) + extracted-model differential correspondence",
}

FRESH = ["src/anyp/Uri.cc", "src/anyp/Host.cc", "src/anyp/UriScheme.cc"]


def impl(sanitize="ubsan"):
    return hbuild.build("h_uri", "h_uri.cc", fresh=FRESH, link=recipes.URL, sanitize=sanitize)


def prebuild():
    impl()


def hx(b):
    return bytes(b).hex() if len(b) else "-"


def unhx(h):
    return b"" if h == "-" else bytes.fromhex(h)


# method ids (Http::MethodType); the harness reports them in uri.info and the run cross-checks these three
M_GET, M_POST, M_CONNECT, M_TRACE, M_OPTIONS = 1, 2, 5, 6, 7
N_METHODS = 32

# ---------------------------------------------------------------- generator
SCHEMES = [b"http"] * 10 + [b"https", b"ftp", b"ftp", b"HTTP", b"Http", b"hTTps", b"FTP", b"coap", b"coaps", b"wais",
                            b"whois", b"foo", b"foo", b"x-y.z+1", b"icp", b"htcp", b"tls", b"ssl", b"icy", b"cache_object",
                            b"1http", b"", b"abcdefghijklmnopq", b"abcdefghijklmnop", b"h_t", b"authority_form", b"none",
                            b"unknown", b"+x", b"a"]
SEPS = [b"://"] * 20 + [b":/", b":", b"//", b":///", b"::/", b":// "]
USERINFO = [b""] * 12 + [b"user@", b"u:p@", b"u%40x:p@", b"a@b@", b"%zz@", b"u%00x@", b"\xfcser@", b"@", b":@", b"u:p:q@",
                         b"%41%3a%2F@", b"a%@", b"a b@", b"[x]@", b"u/p@"]
LABELS = [b"example", b"com", b"www", b"a", b"b1", b"x-y", b"EXAMPLE", b"Org", b"dead", b"beef", b"0x1f", b"localhost",
          b"h_x", b"xn--bcher-kva", b"1", b"12", b"256", b"a" * 63, b"g", b"z9"]
V4 = [b"1.2.3.4", b"127.0.0.1", b"255.255.255.255", b"0.0.0.0", b"1.2.3", b"1.2", b"123", b"0", b"010.1.1.1", b"0x7f.1",
      b"1.2.3.4.5", b"256.1.1.1", b"1.2.3.04", b"999", b"4294967295", b"4294967296", b"0x", b"1..2", b"1.2.3.4.", b"01"]
V6 = [b"::1", b"::", b"2001:db8::1", b"2001:DB8::1", b"::ffff:1.2.3.4", b"fe80::1", b"1:2:3:4:5:6:7:8", b"1:2:3",
      b"0:0:0:0:0:0:0:1", b"::FFFF:0102:0304", b"1::2::3", b"g::1", b"::1.2.3", b"2001:db8:0:0:1::1", b"12345::1", b":", b":::"]
PORTS = [b""] * 14 + [b":80", b":80", b":8080", b":443", b":21", b":1", b":65535", b":65536", b":0", b":00080", b":080",
                      b":99999", b":655350", b":4294967376", b":18446744073709551696", b":-1", b":+81", b":80x", b":x", b":",
                      b":8 0", b":80:90", b":0x50", b":80:", b"::80", b":5683", b":210", b":43", b":65534", b":000000000000000000081",
                      b":\xb2", b":8\x000", b":80@", b":6553\xb5"]
PATHS = [b"", b"/", b"/", b"/a/b", b"/index.html", b"/a?b=c", b"?x=1", b"#frag", b"/a%20b", b"/a b", b"/a\tb", b"/a{b}",
         b"/a#f", b"/%zz", b"/a\r\nb", b"/a\x0bb", b"/a\x0cb", b"/\xe4\xf6", b"/a@b:c", b"//x", b"/[x]", b"/a%3Fb?c", b"/a%3Fb%3Fc",
         b"/~user/;p=1", b"/a\x00b", b"/.", b"/..", b"/a\\b", b"/a\"b<c>", b"/*", b" /x", b"\t", b"/a|b^c`d", b"/x\x7f", b"/a\nb",
         b"/p?q#f", b"/!$&'()*+,;=:@-._~", b"/%41%2f%3f%23"]
CONNECT_HOSTS = [b"example.com", b"www.example.org", b"proxy.local", b"a-b.c", b"EXAMPLE.com", b"a.b.", b"a..b", b".a", b"a_b", b"1.2.3.4", b"1.2.3", b"[::1]", b"[::]",
                 b"[2001:DB8::1]", b"[1:2:3]", b"[1.2.3.4]", b"[::1", b"::1", b"[g::1]", b"[::ffff:1.2.3.4]", b"", b"a b", b"a/b",
                 b"a@b", b"h!#$%&'*+-.^_`|~", b"[]", b"[:]", b"x" * 254 + b".y", b"localhost", b"0", b"0x10", b"."]
SPICE = list(b":/?#@[]. %\t\r\n\x00\x0b-_+\\Aa0\xff\x80")


def rand_name(rng):
    n = rng.choice([1, 1, 2, 2, 3, 4])
    s = b".".join(rng.choice(LABELS) for _ in range(n))
    k = rng.random()
    if k < 0.06: s += b"."
    elif k < 0.09: s += b".."
    elif k < 0.12: s = b"." + s
    elif k < 0.15 and b"." in s: s = s.replace(b".", b"..", 1)
    return s


def rand_host(rng):
    k = rng.random()
    if k < 0.45: return rand_name(rng)
    if k < 0.60: return rng.choice(V4)
    if k < 0.72: return b"[" + rng.choice(V6) + b"]"
    if k < 0.78: return rng.choice(V6)
    if k < 0.82: return b"[" + rng.choice(V6)
    if k < 0.84: return b"[" + rng.choice(V6) + b"]" + rng.choice([b"x", b"]", b":", b"junk", b"[", b"."])
    if k < 0.86: return b"[[" + rng.choice(V6) + b"]]"
    if k < 0.88: return b"[" + rand_name(rng) + b"]"
    if k < 0.91:
        n = rng.choice([250, 253, 254, 255, 256, 257, 300])
        base = (b"a" * 40 + b".") * 8
        s = base[:n - 2] + rng.choice([b".b", b"bb", b"b.", b".."])
        return s
    if k < 0.94: return rng.choice([b"", b".", b"..", b"...", b"-", b"_", b"*", b"%41", b"a%2Eb", b"\xe9.com", b"a,b", b"a]b", b"a[b"])
    return rng.choice(LABELS) + bytes([rng.choice(SPICE)]) + rng.choice(LABELS)


def rand_url(rng):
    return rng.choice(SCHEMES) + rng.choice(SEPS) + rng.choice(USERINFO) + rand_host(rng) + rng.choice(PORTS) + rng.choice(PATHS)


def rand_urn(rng):
    nid = rng.choice([b"isbn", b"ISBN", b"12", b"0x1f", b"a", b"ab", b"a-b", b"-ab", b"ab-", b"x" * 32, b"x" * 33, b"3gpp", b"uuid",
                      b"1.2", b"a_b", b"", b"017", b"ietf"])
    return rng.choice([b"urn", b"URN", b"Urn"]) + rng.choice([b":", b":", b":", b"://", b""]) + nid + \
        rng.choice([b":", b":", b":", b"", b"::"]) + rng.choice([b"x", b"0451450523", b"a/b?c", b"", b"a b", b"\x00z", b"%41{}", b"rfc:2648"])


def rand_connect(rng):
    return rng.choice(CONNECT_HOSTS) + rng.choice([b":443"] * 14 + [b":80", b":8443", b":3128", b":1", b":65535", b":65536", b":0", b":080", b"", b":",
                                                                   b":x", b":80x", b":+80", b":-1", b":99999999999999999999", b":443/",
                                                                   b":443 ", b"::443", b":4 43", b":9223372036854775808"])


def mutate_bytes(rng, u):
    u = bytearray(u)
    for _ in range(rng.choice([1, 1, 1, 2, 3])):
        k = rng.random()
        pos = rng.randrange(len(u) + 1)
        ch = rng.choice(SPICE) if rng.random() < 0.7 else rng.randrange(256)
        if k < 0.4 and u:
            u[min(pos, len(u) - 1)] = ch
        elif k < 0.7:
            u.insert(pos, ch)
        elif k < 0.9 and u:
            del u[min(pos, len(u) - 1)]
        elif u:
            a = rng.randrange(len(u)); b = rng.randrange(a, min(len(u), a + 6) + 1)
            u[pos:pos] = u[a:b]
    return bytes(u)


def rand_cfg(rng):
    if rng.random() < 0.55:
        return "01s"
    return rng.choice("01") + rng.choice("01") + rng.choice("sacd")


def raw_cases(rng, n):
    """(cfg, method, url) triples"""
    out = []
    for _ in range(n):
        k = rng.random()
        cfg = rand_cfg(rng)
        if k < 0.58:
            m = rng.choice([M_GET] * 6 + [M_POST, M_OPTIONS, M_TRACE, rng.randrange(1, N_METHODS + 1)])
            u = rand_url(rng)
        elif k < 0.66:
            m = rng.choice([M_GET, M_GET, M_POST, rng.randrange(1, N_METHODS + 1)])
            u = rand_urn(rng)
        elif k < 0.80:
            m = M_CONNECT
            u = rand_connect(rng)
        elif k < 0.84:
            m = rng.choice([M_OPTIONS, M_TRACE, M_GET, M_CONNECT])
            u = rng.choice([b"*", b"*", b"**", b"", b"/", b"*/", b" *"])
        elif k < 0.93:
            m = rng.choice([M_GET] * 5 + [M_CONNECT, M_OPTIONS])
            u = mutate_bytes(rng, rand_url(rng))
        elif k < 0.97:
            m = M_CONNECT
            u = mutate_bytes(rng, rand_connect(rng))
        else:
            m = rng.choice([M_GET, M_CONNECT])
            u = rng.choice([rand_connect(rng), rand_url(rng)]) if m == M_GET else rand_url(rng)
        out.append((cfg, m, u))
    # the MAX_URL boundary (a fixed small number of cases: 8 KB inputs are slow in the extracted model)
    for ln in [8189, 8190, 8191, 8192, 8193][:max(1, n // 2000)]:
        out.append(("01s", M_CONNECT, b"a" * (ln - 4) + b":443"))
        out.append(("01s", M_GET, b"http://h/" + b"p" * (ln - 9)))
        out.append(("01s", M_GET, b"http://" + b"h" * (ln - 8) + b"/"))
    return out


def complete_tables(triples):
    """Ask the extracted model which strings it passes to the IP oracle, obtain the real
    Ip::Address answers from the harness, repeat until no question is left (CONNECT asks twice,
    the re-parse of the canonical form asks again). Returns (case lines, {q: answer})."""
    exe = impl()
    runner = coq.build_runner("uri")
    tables = [dict() for _ in triples]
    answers = {}
    todo = list(range(len(triples)))
    for _ in range(6):
        if not todo:
            break
        lines = ["uri.q %s %d %s %s" % (triples[i][0], triples[i][1], hx(triples[i][2]), fmt_table(tables[i])) for i in todo]
        outs = corr.run_lines(runner, lines)
        ask = set()
        want = {}
        for i, o in zip(todo, outs):
            if o == "none" or o.startswith(("ERR", "CRASH")):
                continue
            qs = o.split(",")
            want[i] = qs
            ask.update(q for q in qs if q not in answers)
        ask = sorted(ask)
        if ask:
            for q, a in zip(ask, corr.run_lines(exe, ["ip.q " + q for q in ask])):
                answers[q] = a
        for i, qs in want.items():
            for q in qs:
                tables[i][q] = answers[q]
        todo = sorted(want)
    cases = ["uri.rt %s %d %s %s" % (c, m, hx(u), fmt_table(t)) for (c, m, u), t in zip(triples, tables)]
    return cases, answers


def fmt_table(t):
    if not t:
        return "-"
    return ",".join("%s=%s" % (q, a) for q, a in sorted(t.items()))


def gen_cases(rng, n):
    triples = raw_cases(rng, n)
    cases, answers = complete_tables(triples)
    extra = ["uri.info"]
    # the oracle's contract, checked on the real answers: canonical texts are fixed points
    for q, a in sorted(answers.items()):
        extra.append("ip.q " + q)
        if a.startswith("I"):
            c = unhx(a[1:])
            inner = c[1:-1] if c.startswith(b"[") and c.endswith(b"]") else c
            extra.append("ip.fix %s %s" % (hx(inner), hx(c)))
    return extra[:4000] + cases


# ---------------------------------------------------------------- oracle (independent of the model)
DEFAULT_PORT = {b"http": 80, b"https": 443, b"ftp": 21, b"coap": 5683, b"coaps": 5683, b"wais": 210, b"whois": 43}
UPPER = set(range(65, 91))
UNRESERVED = set(b"ABCDEFGHIJKLMNOPQRSTUVWXYZabcdefghijklmnopqrstuvwxyz0123456789-._~")
URI_LEGAL_IN_PATH = UNRESERVED | set(b"!$&'()*+,;=") | set(b":@/?#%")
WS = b" \t\n\r\x0b\x0c"
FIELD = re.compile(r"(\w+)=(\S+)")


def fields(s):
    d = {}
    for k, v in FIELD.findall(s):
        if k in ("port", "num"):
            d[k] = v
        elif k == "sch":
            i, img = v.split(":")
            d["sch"] = (int(i), unhx(img))
        else:
            d[k] = unhx(v)
    return d


def split_out(o):
    first, second = o.split(" | ")
    f1 = fields(first[3:])
    f2 = None if second == "rej" else fields(second[3:])
    return f1, f2


def norm_path(p):
    """percent-encode the bytes RFC 3986 allows nowhere in path / query / fragment; reserved bytes stay as they are"""
    return b"".join(bytes([c]) if c in URI_LEGAL_IN_PATH else b"%%%02X" % c for c in p)


def ref_authority(raw):
    """independent reading of scheme://authority: (scheme, hostport-after-userinfo) or None"""
    m = re.match(rb"^([A-Za-z][A-Za-z0-9+.\-]*)://([^/?#\s\x00]*)", raw, re.S)
    if not m:
        return None
    auth = m.group(2)
    return m.group(1).lower(), auth[auth.rfind(b"@") + 1:]


def ref_hostport(hp):
    """RFC 3986 shape: IP-literal or colon-free reg-name, optionally ':' port-text.
    Returns (host, porttext or None) or None when the text has no such shape."""
    m = re.match(rb"^(\[[^\]]*\]|[^:\[\]]*)(?::(.*))?$", hp, re.S)
    if not m:
        return None
    if m.group(1).startswith(b"[") is False and m.group(2) is not None and b":" in m.group(2):
        return None                      # several colons without brackets: no RFC reading
    return m.group(1), m.group(2)


def good_port(txt):
    return txt.isdigit() and txt.isascii() and 1 <= int(txt) <= 65535


def labels_ok(host):
    return all(len(l) > 0 for l in host.split(b"."))


def oracle(case, out):
    a = case.split()
    op = a[0]
    if out.startswith(("CRASH", "EXC", "ERR")):
        return ("oracle:crash", "implementation crashed / threw: " + out[:200])
    try:
        if op == "uri.info":
            exp = "connect=%d options=%d trace=%d" % (M_CONNECT, M_OPTIONS, M_TRACE)
            return None if out.endswith(exp) and out.split()[1:N_METHODS + 1] == [str(i) for i in range(1, N_METHODS + 1)] \
                else ("oracle:method-ids", "method ids changed: " + out)
        if op in ("ip.q", "ip.fix"):
            if op == "ip.fix" and out != "I" + a[2]:
                return ("oracle:ip-contract:not-a-fixed-point", "canonical IP text %r is not recognised as itself: %s" % (unhx(a[2]), out))
            if out[0] in "IA":
                c = unhx(out[1:])
                shape = re.match(rb"^(\d+\.\d+\.\d+\.\d+|\[[0-9a-f:.]*[0-9a-f:]\])$", c)
                if not shape:
                    return ("oracle:ip-contract:shape", "Ip::Address::toHostStr gave %r" % c)
            return None
        if op != "uri.rt":
            return None
        cfg, m, raw = a[1], int(a[2]), unhx(a[3])
        connect = (m == M_CONNECT)
        star = (m in (M_OPTIONS, M_TRACE) and raw == b"*")
        accepted = out != "rej"
        # ---- (3) bad ports are rejected; needs only the input
        if connect:
            shaped = ref_hostport(raw)
            scheme = None
        else:
            ra = ref_authority(raw)
            scheme = ra[0] if ra else None
            shaped = ref_hostport(ra[1]) if ra else None
            if scheme == b"urn":
                shaped = None
        if accepted and shaped and shaped[1] and not good_port(shaped[1]):
            return ("oracle:bad-port-accepted", "port text %r is not a decimal number in 1..65535 but the URI was accepted" % shaped[1])
        if not accepted:
            return None
        f1, f2 = split_out(out)
        if star:
            return None
        sid, img = f1["sch"]
        host, path = f1["host"], f1["path"]
        urn = (img == b"urn")
        if not urn:
            # ---- (1) host lower-case, no empty labels, port in range and as written
            if any(c in UPPER for c in host):
                return ("oracle:host-uppercase", "accepted host %r has upper-case letters" % host)
            iplit = f1["num"] == "1" and host.startswith(b"[") and host.endswith(b"]")
            if f1["port"] == "none" or not 1 <= int(f1["port"]) <= 65535:
                return ("oracle:port-range", "accepted with port %s" % f1["port"])
            port = int(f1["port"])
            if not connect and img != (scheme or b"").lower() and scheme is not None and img.lower() != scheme:
                return ("oracle:scheme-differs", "scheme image %r for input scheme %r" % (img, scheme))
            dflt = None if connect else DEFAULT_PORT.get(img.lower())
            if shaped:
                exp = dflt if not shaped[1] else int(shaped[1])
                if shaped[1] == b"" or port != exp:
                    if shaped[1] == b"":
                        return ("oracle:empty-port-accepted", "empty port text accepted with port %d" % port)
                    return ("oracle:port-mismatch", "port %d but the URI says %r (scheme default %s)" % (port, shaped[1], dflt))
            else:
                region = raw if connect else (ref_authority(raw)[1] if ref_authority(raw) else raw)
                written = set(int(x) for x in re.findall(rb":(\d+)(?=$|[:\]])", region))
                tail = re.search(rb":(\d+)$", region)
                if tail:
                    written.add(int(tail.group(1)))
                if port != dflt and port not in written:
                    return ("oracle:port-mismatch", "port %d is neither the scheme default %s nor written in %r" % (port, dflt, region))
            if not iplit:
                if host == b"":
                    return ("oracle:no-host", "accepted with an empty host")
                if not labels_ok(host):
                    if len(host) == 255 and host.endswith(b".") and labels_ok(host[:-1]):
                        return ("oracle:truncated-host-empty-label", "host cut at 255 bytes ends with '.'")
                    return ("oracle:host-empty-label", "accepted host %r has an empty label" % host)
        # ---- (2) the canonical form re-parses to the same scheme, host, port, path
        same = f2 is not None and f2["sch"] == f1["sch"] and f2["host"] == host and f2["port"] == f1["port"] \
            and norm_path(f2["path"]) == norm_path(path)
        if same:
            return None
        what = "canonical form %r re-parses to %s" % (f1["canon"], "a rejection" if f2 is None else
                                                       "scheme=%r host=%r port=%s path=%r" % (f2["sch"][1], f2["host"], f2["port"], f2["path"]))
        auth_same = f2 is not None and f2["sch"] == f1["sch"] and f2["host"] == host and f2["port"] == f1["port"]
        if auth_same:
            enc_f = norm_path(path).replace(b"#", b"%23")
            enc_q = enc_f.replace(b"?", b"%3F")
            if b"#" in path and norm_path(f2["path"]) == enc_f:
                return ("oracle:reparse:path-fragment-delimiter-encoded", what + " ('#' of path+query+fragment is percent-encoded)")
            if b"?" in path and norm_path(f2["path"]) == enc_q:
                return ("oracle:reparse:path-query-delimiter-encoded", what + " ('?' of the path+query is percent-encoded)")
            return ("oracle:reparse:path-differs", what)
        if urn:
            if f1["num"] == "1":
                return ("oracle:reparse:urn-numeric-nid", what + " (the NID was read as an IP address)")
            return ("oracle:reparse:urn-differs", what)
        if host == b"":
            return ("oracle:reparse:empty-host", what)
        if f1["num"] == "0" and (b":" in host or host.startswith(b"[")):
            return ("oracle:reparse:host-has-colon-or-bracket", what + " (the accepted host is not a reg-name)")
        if f1["num"] == "0" and len(host) == 255:
            return ("oracle:reparse:host-truncated", what)
        return ("oracle:reparse:authority-differs", what)
    except Exception as ex:
        return ("oracle:unparsable", "unparsable implementation output %r (%s)" % (out[:200], ex))


def mutate(rng, case):
    a = case.split()
    if a[0] != "uri.rt":
        return case
    a[3] = hx(mutate_bytes(rng, unhx(a[3])))
    a[4] = "-"
    return " ".join(a)


def kind(c, o):
    a = c.split()
    if a[0] != "uri.rt":
        return "ip"
    m = int(a[2])
    cls = "connect" if m == M_CONNECT else "other"
    if o == "rej":
        return cls + ":rej"
    return cls + (":ok-rt" if not o.endswith("| rej") else ":ok-norej")


def run(res, tier):
    res.rule = ("URIs built from schemes x separators x userinfo x hosts (names with mixed case / empty labels / long, dotted quads "
                "and inet_aton forms, bracketed and bare IPv6 from a fixed pool, malformed brackets) x ports (boundaries of 1..65535, "
                "huge, signed, non-numeric, empty, repeated) x paths (query, fragment, whitespace, controls, 8-bit), urn:, CONNECT "
                "targets, '*', MAX_URL boundary, byte mutations; all methods; check_hostnames/allow_underscore/uri_whitespace "
                "combinations; a case is non-trivial when the URI was accepted")
    std.run_standard(res, PID, tier, area="uri", build_impl=impl, gen_cases=gen_cases, oracle=oracle,
                     corr_name="UriModel vs src/anyp/Uri.cc, src/anyp/UriScheme.cc, src/anyp/Host.cc",
                     gens=["charsets", "bytemaps", "uri"], n_quick=15000, n_thorough=300000, seed_salt=30, mutate=mutate,
                     kind_fn=kind, nontrivial_fn=lambda c, o: c.startswith("uri.rt") and o.startswith("ok"),
                     model_blind=lambda c: not c.startswith("uri.rt"))
