(* Properties_C15.v — C15 (placeholder while the pipeline is brought up). *)
Require Import SquidV.Bytes SquidV.RangeModel SquidV.RangereplyModel SquidV.RangereplyProofs.
Theorem C15_placeholder : is_complex [] = false.
Proof. exact is_complex_nil. Qed.
Print Assumptions C15_placeholder.
