// Table generator for the access area (C45): the registered request methods in enum order with the
// images HttpRequestMethod::HttpRequestMethodXXX() / HttpRequestMethod(const SBuf&) compare against,
// and the per-byte folding of tolower() that SBuf::compare() applies, as the code defines them *now*.
#include "squid.h"
#include <iostream>
#include <cctype>
#include "sbuf/SBuf.h"
#include "http/MethodType.h"
#include "http/RequestMethod.h"

static void bytesOf(const SBuf &b) {
    std::cout << "[";
    for (SBuf::size_type i = 0; i < b.length(); ++i)
        std::cout << (i ? ";" : "") << static_cast<unsigned>(static_cast<unsigned char>(b[i]));
    std::cout << "]";
}

int main() {
    std::cout << "@@FILE AccessMeth_gen.v\n"
              "(* generated from /repo by gen/gen_accessmeth.cc -- do not edit *)\n"
              "Require Import SquidV.Bytes.\nLocal Open Scope N_scope.\n"
              "(* (id, image()) for the ids the constructors' search loops visit: METHOD_NONE+1 .. METHOD_ENUM_END-1 *)\n"
              "Definition am_methods : list (N * bytes) := [\n";
    for (int m = Http::METHOD_NONE + 1; m < Http::METHOD_ENUM_END; ++m) {
        const HttpRequestMethod hm(static_cast<Http::MethodType>(m));
        std::cout << (m > Http::METHOD_NONE + 1 ? ";\n" : "") << "  (" << m << ", ";
        bytesOf(hm.image());
        std::cout << ")";
    }
    std::cout << "].\n";
    std::cout << "Definition am_NONE : N := " << static_cast<int>(Http::METHOD_NONE) << ".\n";
    std::cout << "Definition am_OTHER : N := " << static_cast<int>(Http::METHOD_OTHER) << ".\n";
    std::cout << "Definition am_tolower_tbl : list N := [";
    for (int c = 0; c < 256; ++c)
        std::cout << (c ? ";" : "") << tolower(c);
    std::cout << "].\n";
    return 0;
}
