(* Extract_fdleak.v — extraction of the descriptor accounting / ownership protocol model (ExtrOcamlBasic only). *)
Require Import ExtrOcamlBasic.
Require Import SquidV.Bytes SquidV.FdleakModel.
Extraction "m_fdleak.ml" lenN run_fdops fds_empty count_open tx_macros hist_result step run settle observe init.
