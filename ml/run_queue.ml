(* handlers for the queue area (C56: Ipc::OneToOneUniQueue + QueueReader under explicit schedules).
   case:  q.run <cap> <i0> <polls> <items> <schedule>   (see harness/h_queue.cc) *)
let explode s = if s = "-" then [] else List.init (String.length s) (String.get s)
let is_u32 s =
  s <> "" && String.length s <= 10 && List.for_all (fun c -> c >= '0' && c <= '9') (explode s)
  && (String.length s < 10 || s <= "4294967295")
let show_val = function None -> "U" | Some v -> string_of_n v
let show_event = function
  | EvPush (v, r) -> "P" ^ string_of_n v ^ (if r then "+" else "-")
  | EvFull v -> "P" ^ string_of_n v ^ "F"
  | EvNotify -> "N"
  | EvTake -> "T"
  | EvPoll -> "S"
  | EvClear -> "C"
  | EvPop v -> "G" ^ show_val v
  | EvEmpty -> "E"
  | EvEnd -> "!"
let () =
  reg "q.run" (fun args ->
      match args with
      | [cs; is; ps; its; sch] ->
        let toks = if its = "-" then [] else String.split_on_char ',' its in
        if not (is_u32 cs && is_u32 is && is_u32 ps) || List.exists (fun t -> not (is_u32 t) || t = "4294967295") toks
           || List.exists (fun c -> c <> '0' && c <> '1') (explode sch) then "ERR bad-args" else
        let c = n_of_string cs in
        if c = N0 || int_of_n c > 4096 then "ERR bad-args" else
        let items = List.map n_of_string toks in
        let sched = List.map (fun ch -> n_of_int (Char.code ch - 48)) (explode sch) in
        (match run_case c (n_of_string is) (n_of_string ps) items sched with
         | None -> "FUEL"
         | Some ((st, evs), steps) ->
           let log = if evs = [] then "-" else String.concat " " (List.map show_event evs) in
           let d = drain_all st in
           Printf.sprintf "%s | in=%s out=%s size=%s b=%s s=%s n=%s | drain=%s | steps=%s"
             log (string_of_n st.tin) (string_of_n st.tout) (string_of_n st.size) (b2s st.blocked) (b2s st.signal)
             (string_of_n st.notifs)
             (if d = [] then "-" else String.concat "," (List.map show_val d))
             (string_of_n steps))
      | _ -> "ERR bad-args")
