"""C47: helper replies reach the request that asked (end to end: real squid + scripted url_rewrite / external ACL helpers)."""
import concurrent.futures, json, os, re, threading, time
from vlib import std, lab, common
from vlib.common import sh, VERIF

PID = "C47"
META = {
    "text": "Theorems (Properties_C47.v, closed under the global context) about a line-by-line transcription of helperHandleRead / helperReturnBuffer / popRequest / helperDispatch / helperKickQueue as a step function over the chunks returned by read(2) (AuthhelperModel.v): for EVERY request table, EVERY helper byte stream none of whose lines starts with a blank (concurrent protocol; any bytes for helpers without channels) and EVERY way of cutting that stream into reads, the sequence of callbacks (request, reply text) is the one the per-line specification `spec_stream` gives for the complete lines - up to blanks at the two ends of the text; all of it when the helper was not killed meanwhile, a prefix otherwise (simulation proof: representation invariant over the unterminated line, induction over the list of reads); two fragmentations of the same bytes therefore give the same callbacks; every callback goes to a request that was waiting on the channel whose decimal number starts that reply line; lines whose number is not the id of a waiting request (unknown, already answered, negative) call nobody back; a helper without channels answers the transactions in the order in which they asked, over any sequence of submissions and reads and including squid's own queue; the channel a line names is exactly its leading decimal number, or none when that does not fit an int (C47_channel_number_exact, after /repo 2adec67; former finding C47-channel-number-wrapped is now a regression scenario). Two leniencies of the real reader are stated as refutations with witnesses: `OK CR | LF` is delivered as the text `OK CR`, which Helper::Reply::finalize does not recognise as OK (known finding C47-crlf-split-result); a reply line that starts with a blank and is cut after it is read as channel 0. Tie: the extracted model (reader + Helper::Reply::finalize + redirectHandleReply/clientRedirectDone resp. externalAclHandleReply result mapping) is run against the real squid binary: a url_rewrite_program / external_acl_type helper written for the check (lab/helper_authhelper.c, a fresh process per scenario so that channel ids restart at 1) answers out of order with scripted write fragmentation (every write is read separately by squid: the helper waits for SIOCOUTQ == 0), cuts inside the channel id and inside CR LF, duplicate, unknown, negative and overflowing ids; the observable is the URL each request reaches the origin with (200/403 for the ACL).",
    "note": "partial: the theorems are about the transcribed reader; that the event-driven proxy runs exactly this code on every path rests on the end-to-end correspondence. Not modelled: helper timeout= (stats.timedout), the 1 MB Reply::accumulate limit and the read-buffer limit, NUL bytes in the helper stream, the BH retry, quoted/escaped kv values, stateful helpers (helperStatefulHandleRead discards everything after the first line of a read - not exercised). Trusted: Coq kernel, extraction, vlib/lab.py, lab/helper_authhelper.c.",
    "technique": "Coq proof (simulation of the chunked reader by a per-line specification, induction over the list of reads with a representation invariant; vm_compute witnesses for the refutations) + end-to-end differential correspondence of the extracted model against the running squid + independent oracle",
}

PORT_PH = "@@@@@"      # origin port (always five digits: ephemeral range)
SID_PH = "######"      # scenario id (six digits)
LIMIT = 16


# ----------------------------------------------------------------------------------------------- generator
def url_ph(tag):
    return "http://127.0.0.1:%s/h47x%sx/%s" % (PORT_PH, SID_PH, tag)


def gen_one(rng, k):
    kind = rng.choice(["rw", "rw", "rw", "rw", "acl", "rw0"])
    n = rng.randrange(1, 9) if kind != "rw0" else rng.randrange(1, 5)
    if kind == "rw" and rng.random() < 0.15:
        n = rng.randrange(9, 14)
    lines = []          # (bytes-as-latin1 str, meta)
    ids = list(range(1, n + 1))
    rng.shuffle(ids)
    answered = [i for i in ids if rng.random() < 0.85]
    j = 0

    def text_for(i):
        nonlocal j
        j += 1
        if kind == "acl":
            return rng.choice(["OK", "OK", "ERR", "OK tag=t%d" % j, "ERR message=no%d" % j, "", "OK user=u%d" % j])
        c = rng.random()
        u = url_ph("rw%d_%d" % (i, j))
        if c < 0.6: return "OK rewrite-url=" + u
        if c < 0.7: return u                                   # legacy: bare URL
        if c < 0.8: return "ERR"
        if c < 0.85: return "OK"
        if c < 0.9: return ""
        if c < 0.95: return "OK tag=x%d rewrite-url=%s" % (j, u)
        return "OK rewrite-url=%s extra%d" % (u, j)

    def eol():
        return "\r\n" if rng.random() < 0.12 else "\n"

    seq = []
    for i in answered:
        seq.append(i)
        if rng.random() < 0.12:
            seq.append(i)                                      # duplicate id
    for _ in range(rng.choice([0, 0, 0, 1, 1, 2])):
        seq.insert(rng.randrange(len(seq) + 1), rng.choice([0, n + 1, n + 7, 99, 4294967296 + rng.randrange(1, n + 1),
                                                             -1, 18446744073709551617, "x"]))
    for i in seq:
        if kind == "rw0":
            lines.append(text_for(i if isinstance(i, int) else 0) + eol())
            continue
        if i == "x":
            lines.append(rng.choice(["", "OK", "garbage", text_for(0)]) + eol())     # no channel id at all
            continue
        t = text_for(i if 0 < i <= n else 0)
        sep = " "
        r = rng.random()
        if r < 0.05: sep = "  "
        elif r < 0.08: sep = "\t"
        ids_txt = str(i)
        if rng.random() < 0.03: ids_txt = "0" + ids_txt        # leading zero: still that number
        if rng.random() < 0.015: ids_txt = " " + ids_txt       # leading blank (leniency)
        lines.append(ids_txt + (sep + t if t or rng.random() < 0.5 else "") + eol())
    stream = "".join(lines)
    if rng.random() < 0.02 and stream:
        stream = stream[:-1]                                   # helper dies before the last LF
    L = len(stream)
    mode = rng.random()
    cuts = set()
    if L > 1:
        if mode < 0.15:
            pass                                               # one write
        elif mode < 0.3 and L <= 60:
            cuts = set(range(1, L))                            # byte by byte
        else:
            for _ in range(rng.randrange(1, 9)):
                cuts.add(rng.randrange(1, L))
            # aimed cuts: inside / right after a channel id, around CR LF, before LF
            pos = 0
            for ln in lines:
                m = re.match(r" ?(\d+)", ln)
                if m and rng.random() < 0.5:
                    cuts.add(pos + rng.randrange(1, m.end() + 1))
                if rng.random() < 0.25:
                    cuts.add(pos + len(ln) - 1)
                if ln.endswith("\r\n") and rng.random() < 0.5:
                    cuts.add(pos + len(ln) - 2)
                if rng.random() < 0.1:
                    cuts.add(pos + len(ln))
                pos += len(ln)
    cuts = sorted(c for c in cuts if 0 < c < L)
    if kind == "acl":
        while len(cuts) > 5:
            cuts.pop(rng.randrange(len(cuts)))
    while len(cuts) > 70:
        cuts.pop(rng.randrange(len(cuts)))
    return {"kind": kind, "n": n, "stream": stream, "cuts": cuts}


def gen_scenarios(rng, n):
    return [gen_one(rng, k) for k in range(n)]


# ----------------------------------------------------------------------------------------------- helpers
def realise(s, port, sid):
    stream = s["stream"].replace(PORT_PH, "%05d" % port).replace(SID_PH, sid).encode("latin1")
    out, prev = [], 0
    for c in list(s["cuts"]) + [len(stream)]:
        if c > prev:
            out.append(stream[prev:c]); prev = c
    return stream, out


def orig_url(port, sid, k):
    return "http://127.0.0.1:%05d/h47x%sx/q%d" % (port, sid, k)


def hexs(b):
    return b.hex() if b else "-"


_state = {}


def to_case(s):
    # the model reads the same bytes as squid except that the digits of the origin port and of the scenario id
    # (inside URLs only) are zeros; observations are canonicalised the same way
    port, sid = 0, "000000"
    stream, chunks = realise(s, port, sid)
    ch = " ".join(hexs(c) for c in chunks)
    if s["kind"] == "acl":
        return "ah.acl 1 %d %d %s" % (LIMIT, s["n"], ch)
    uris = ",".join(hexs(orig_url(port, sid, k).encode()) for k in range(1, s["n"] + 1))
    if s["kind"] == "rw0":
        return "ah.rw 0 1 %s %s" % (uris, ch)
    return "ah.rw 1 %d %s %s" % (LIMIT, uris, ch)


# ----------------------------------------------------------------------------------------------- driver
class Inst:
    def __init__(self, L, org, exe, kind, idx):
        self.kind = kind
        self.org = org
        self.L, self.exe, self.idx, self.gen = L, exe, idx, 0
        self.dir = os.path.join(L.dir, "hs-%s-%d" % (kind, idx))
        os.makedirs(self.dir, exist_ok=True)
        os.chmod(self.dir, 0o777)
        self.lock = threading.Lock()
        self.start()

    def start(self):
        L, exe, kind = self.L, self.exe, self.kind
        self.gen += 1
        name = "c47%s%dg%dp%d" % (kind, self.idx, self.gen, os.getpid())
        for f in os.listdir(self.dir):
            if f.startswith("started."):
                os.unlink(os.path.join(self.dir, f))
        if kind == "acl":
            self.sq = L.squid(extra_conf="external_acl_type vext ttl=0 negative_ttl=0 children-max=1 children-startup=0 "
                                         "children-idle=1 concurrency=%d %%URI %s %s conc\nacl e external vext\n" % (LIMIT, exe, self.dir),
                              access="http_access allow e\nhttp_access deny all", name=name)
        else:
            conc = LIMIT if kind == "rw" else 0
            self.sq = L.squid(extra_conf="url_rewrite_program %s %s %s\nurl_rewrite_children 1 startup=0 idle=1 concurrency=%d\n"
                                         % (exe, self.dir, "conc" if conc else "plain", conc), name=name)

    def died(self):
        """None while squid runs; else why it stopped (and squid is started again for the next scenario)"""
        if self.sq.alive():
            return None
        why = self.sq.log_has("assertion failed", "FATAL")
        txt = self.sq.log_tail(6000)
        m = re.search(r"(assertion failed[^\n]*|FATAL[^\n]*)", txt)
        reason = (m.group(1) if m else ("exit " + ",".join(why))).replace(" ", "_")[:120]
        try:
            self.sq.stop()
        except Exception:
            pass
        self.start()
        return reason

    def nstarted(self):
        return len([f for f in os.listdir(self.dir) if f.startswith("started.")])

    def logtxt(self, sid):
        try:
            with open(os.path.join(self.dir, sid + ".log")) as f:
                return f.read()
        except OSError:
            return ""


def wait_for(pred, timeout):
    t0 = time.time()
    while time.time() - t0 < timeout:
        if pred():
            return True
        time.sleep(0.003)
    return False


def run_one(inst, s, sid):
    org, sq = inst.org, inst.sq
    port = org.port
    s["_port"], s["_sid"] = port, sid
    stream, chunks = realise(s, port, sid)
    n = s["n"]
    go = os.path.join(inst.dir, sid + ".go")
    steps = []
    if s["kind"] == "rw0":
        steps += ["wait 1", "waitfile " + go]
    else:
        steps += ["wait %d" % n]
    for c in chunks:
        steps.append("w " + c.hex())
        if s["kind"] == "acl":
            steps.append("sleep 45")          # TCP socket to the helper: no way to see that squid has read the chunk
    with open(os.path.join(inst.dir, sid + ".txt"), "w") as f:
        f.write("\n".join(steps) + "\n")
    started0 = inst.nstarted()
    res = [None] * (n + 1)

    def one(k):
        try:
            r, raw = lab.get(sq.port, orig_url(port, sid, k), headers=[("X-K", str(k))], total=4.0)
            res[k] = r.status if r is not None else None
        except OSError:
            res[k] = None

    ths = []
    for k in range(1, n + 1):
        t = threading.Thread(target=one, args=(k,), daemon=True)
        t.start(); ths.append(t)
        if s["kind"] == "rw0":
            if k == 1:
                wait_for(lambda: inst.logtxt(sid).count(" recv ") >= 1, 6.0)
            else:
                time.sleep(0.02)
        else:
            wait_for(lambda: inst.logtxt(sid).count(" recv ") >= k, 6.0)
    if s["kind"] == "rw0":
        time.sleep(0.25)
        open(go, "w").close()
    for t in ths:
        t.join(8.0)
    wait_for(lambda: any(w in inst.logtxt(sid) for w in (" exit", " eof", " write-failed", " noscript")), 6.0)
    # squid notices the exit and starts a fresh process (channel ids from 1 again) before the next scenario
    expect = (started0 if started0 else 1) + 1
    wait_for(lambda: inst.nstarted() >= expect, 4.0)
    reason = inst.died()
    if reason:
        return "squid-died " + reason
    log = inst.logtxt(sid)
    if s["kind"] != "rw0":
        got = re.findall(r" recv (\d+) \S*?/q(\d+)", log)
        if [int(a) for a, b in got] != list(range(1, n + 1)) or [int(b) for a, b in got] != list(range(1, n + 1)):
            return "id-mismatch " + ",".join("%s:%s" % g for g in got)
    toks = []
    arr = {}
    for a in org.arrivals("h47x%sx" % sid):
        xk = dict((h.lower(), v) for h, v in a["headers"]).get("x-k")
        arr.setdefault(xk, []).append(a["line"].split(" ")[1])
    for k in range(1, n + 1):
        paths = arr.get(str(k), [])
        if s["kind"] == "acl":
            if res[k] == 200 and len(paths) == 1: toks.append("allow")
            elif res[k] == 403 and not paths: toks.append("deny")
            elif res[k] is None: toks.append("hang")
            else: toks.append("odd:%s:%d" % (res[k], len(paths)))
            continue
        if res[k] is None and not paths:
            toks.append("hang")
        elif len(paths) != 1 or res[k] != 200:
            toks.append("odd:%s:%d" % (res[k], len(paths)))
        elif paths[0] == "/h47x%sx/q%d" % (sid, k):
            toks.append("same")
        else:
            toks.append("rw:" + ("http://127.0.0.1:00000%s" % paths[0].replace("h47x%sx" % sid, "h47x000000x")).encode("latin1").hex())
    return " ".join(toks)


def helper_exe(L):
    exe = os.path.join(L.dir, "helper_authhelper")
    if not os.path.exists(exe):
        rc, o, e = sh(["gcc", "-O1", "-o", exe, os.path.join(VERIF, "lab", "helper_authhelper.c")], timeout=120)
        if rc != 0:
            raise lab.LabError("helper build failed: " + e[-800:])
        os.chmod(exe, 0o755)
    return exe


POOL = {"rw": 4, "acl": 2, "rw0": 1}


def run_impl(L, scenarios):
    if "inst" not in _state:
        org = L.origin()
        exe = helper_exe(L)
        _state["org"] = org
        _state["inst"] = {k: [Inst(L, org, exe, k, i) for i in range(m)] for k, m in POOL.items()}
        _state["n"] = 0
    work = {}
    for idx, s in enumerate(scenarios):
        _state["n"] += 1
        pool = _state["inst"][s["kind"]]
        inst = pool[_state["n"] % len(pool)]
        work.setdefault(id(inst), (inst, []))[1].append((idx, s, "%06d" % _state["n"]))
    out = [None] * len(scenarios)

    def serve(item):
        inst, jobs = item
        for idx, s, sid in jobs:
            try:
                inst.died()
                out[idx] = run_one(inst, s, sid)
            except Exception as ex:
                out[idx] = "driver-error %s" % (str(ex)[:200].replace("\n", " "))
    with concurrent.futures.ThreadPoolExecutor(max_workers=len(work) or 1) as ex:
        list(ex.map(serve, work.values()))
    return out


# ----------------------------------------------------------------------------------------------- oracle
STRICT = re.compile(rb"^(\d+)(?: (\S.*)?)?$", re.S)


def oracle(s, obs):
    """The property on what squid did, stated on the helper's byte stream as a list of LF-terminated lines (independent
    of the model): a rewrite / an `allow` may only come from a line that carries the request's own channel number
    (non-concurrent: from the k-th line); and when the helper follows the protocol to the letter (`id SP text LF`,
    optionally CR LF) the first line carrying a request's number must take effect, however the stream was cut."""
    port, sid = s.get("_port"), s.get("_sid")
    if port is None:
        return ("oracle:not-run", "scenario was not executed")
    if obs.startswith("squid-died"):
        return ("oracle:squid-died", "squid stopped while reading the helper's replies: " + obs)
    if obs.startswith(("id-mismatch", "driver-error")):
        return ("oracle:lab-" + obs.split()[0], "the lab could not establish the scenario: " + obs)
    port, sid = 0, "000000"                      # observations are canonical (port and scenario id digits zeroed)
    stream, chunks = realise(s, port, sid)
    toks = obs.split()
    n = s["n"]
    if len(toks) != n:
        return ("oracle:no-observation", "expected %d outcomes, got `%s`" % (n, obs))
    complete = stream.split(b"\n")[:-1]
    lines = [l[:-1] if l.endswith(b"\r") else l for l in complete]

    def id_of(l):
        m = re.match(rb"^[ \t]*(\d+)(?:[ \t]|$)", l)
        return int(m.group(1)) if m else None

    base = ("http://127.0.0.1:%05d/h47x%sx/" % (port, sid)).encode()
    for k in range(1, n + 1):
        t = toks[k - 1]
        if t.startswith("odd"):
            return ("oracle:odd-outcome", "request %d: unexpected outcome %s" % (k, t))
        if s["kind"] == "rw0":
            mine = [lines[k - 1]] if k - 1 < len(lines) else []
        else:
            mine = [l for l in lines if id_of(l) == k]     # the exact decimal number, however long
        if s["kind"] == "acl":
            if t == "allow" and not any(re.search(rb"(^|[ \t])OK([ \t]|$)", l) for l in mine):
                return ("oracle:verdict-misapplied",
                        "request %d was allowed but no helper line carrying channel %d says OK" % (k, k))
        elif t.startswith("rw:"):
            u = bytes.fromhex(t[3:])
            if not any(u in l for l in mine):
                who = [id_of(l) for l in lines if u in l]
                return ("oracle:reply-misapplied",
                        "request %d (channel %d) was rewritten to %r, which the helper sent on channel(s) %s" % (k, k, u, who))
        # completeness for helpers that follow the protocol exactly
        if s["kind"] == "rw0":
            continue
        strict = [STRICT.match(l) for l in lines]
        if not all(strict) or any(b"\r" in l or b"\t" in l or b"  " in l[:12] for l in lines):
            continue
        first = next((m for m in strict if int(m.group(1)) == k), None)
        if first is None:
            continue
        text = first.group(2) or b""
        crlf = any(l.endswith(b"\r") for l in complete)
        if s["kind"] == "acl":
            if (text == b"OK" or text.startswith(b"OK ")) and t != "allow":
                return ("oracle:reply-lost" + (":crlf" if crlf else ""),
                        "request %d: the helper answered `%s` on channel %d but the request was not allowed (%s)" % (k, text[:60], k, t))
        else:
            m = re.match(rb"^OK rewrite-url=(\S+)$", text)
            if m and m.group(1).startswith(base) and t != "rw:" + m.group(1).hex():
                return ("oracle:reply-lost" + (":crlf" if crlf else ""),
                        "request %d: the helper answered `%s` on channel %d but the request went out as %s" % (k, text[:80], k, t))
    return None


def run(res, tier):
    res.rule = ("batches of 1-13 concurrent requests (url_rewrite concurrency=16, external ACL concurrency=16) or 1-4 queued requests "
                "(url_rewrite concurrency=0) against a fresh scripted helper process; the helper answers a random subset in random order "
                "with OK rewrite-url= / bare URL / ERR / empty / kv-pair replies, LF or CRLF, duplicates, unknown, zero, negative and "
                "overflowing channel numbers, lines without a number, one or several blanks after the number; the byte stream is cut "
                "into 1-70 writes (byte by byte, random, inside / right after the channel number, between CR and LF, before LF), each "
                "read separately by squid; non-trivial = at least one reply applied and at least two writes")
    std.run_lab(res, PID, tier, area="authhelper", gen_scenarios=gen_scenarios, run_impl=run_impl,
                to_case=to_case, oracle=oracle, corr_name="AuthhelperModel (hread/scenario_disps) vs the running squid",
                n_quick=90, n_thorough=2500, seed_salt=47,
                kind_fn=lambda s, o: s["kind"] + ":" + ("applied" if ("rw:" in o or "allow" in o) else "none"),
                nontrivial_fn=lambda s, o: ("rw:" in o or "allow" in o) and len(s["cuts"]) >= 1)
    _state.clear()
