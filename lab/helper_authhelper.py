#!/usr/bin/env python3
"""Basic-auth helper for the C46 end-to-end check (trusted lab stub, not part of the model).

  helper_authhelper.py auth <dir>
      auth_param basic program (concurrent protocol: "<id> <user> <password>"). Passwords starting with "ok" are
      accepted, all others rejected. Every lookup is appended to <dir>/auth.log as `recv <seq> <user> <password>`
      and answered only when the driver creates the file <dir>/rel.<seq> (so the check decides the order of
      arrivals and helper replies itself, without depending on timing).

The url_rewrite / external ACL helper of C47 is lab/helper_authhelper.c.
"""
import os, select, sys, time


def log(path, msg):
    try:
        with open(path, "a") as f:
            f.write("%.3f %s\n" % (time.time(), msg))
    except OSError:
        pass


class LineReader:
    def __init__(self):
        self.buf = b""
        self.eof = False

    def fill(self, timeout):
        r, _, _ = select.select([0], [], [], timeout)
        if r:
            d = os.read(0, 65536)
            if not d:
                self.eof = True
            self.buf += d

    def pop(self):
        if b"\n" in self.buf:
            l, self.buf = self.buf.split(b"\n", 1)
            return l
        return None


def run_auth(d):
    """Every lookup is logged (`recv <seq> <user> <password>`) and held until the driver creates <d>/rel.<seq>."""
    rd = LineReader()
    logp = os.path.join(d, "auth.log")
    held = {}
    seq = 0
    log(logp, "start")
    while True:
        if held:
            try:
                names = set(os.listdir(d))
            except OSError:
                names = set()
            for k in sorted(held):
                if "rel.%d" % k in names:
                    out = held.pop(k)
                    os.write(1, out)
                    log(logp, "reply %d %s" % (k, out.decode("latin1").strip()))
        l = rd.pop()
        if l is None:
            if rd.eof:
                return
            rd.fill(0.004 if held else 0.5)
            continue
        parts = l.split(b" ")
        if len(parts) < 3:
            os.write(1, (parts[0] if parts else b"0") + b" ERR\n")
            continue
        cid, user, pw = parts[0], parts[1], parts[2]
        seq += 1
        verdict = b"OK" if pw.startswith(b"ok") else b"ERR"
        held[seq] = cid + b" " + verdict + b"\n"
        log(logp, "recv %d %s %s" % (seq, user.decode("latin1"), pw.decode("latin1")))


def main():
    mode, d = sys.argv[1], sys.argv[2]
    if mode == "auth":
        run_auth(d)


main()
