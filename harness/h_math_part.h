// part of the h_math harness: NaturalSum<S>(A, B, C) for S = type number H_MATH_PART
#include "h_math_defs.h"
#define H_MATH_CAT2(a, b) a##b
#define H_MATH_CAT(a, b) H_MATH_CAT2(a, b)
const Fn *H_MATH_CAT(h_math_sum3_part, H_MATH_PART)()
{
    static const auto table = Sum3For<Ty<H_MATH_PART>>::make(std::make_index_sequence<NT * NT * NT>());
    return table.data();
}
