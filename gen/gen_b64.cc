// Table generator for C36: the base64 alphabets and length macros as the code defines them *now*.
// The bundled copy (lib/base64.cc, compiled out in this build because HAVE_NETTLE_BASE64_H=1)
// is compiled here from /repo's working tree by textual inclusion with the guard forced to 0;
// the libnettle tables actually linked into squid are dumped next to it.
#include "squid.h"
#include <iostream>
#include <cstring>

#undef HAVE_NETTLE_BASE64_H
#define HAVE_NETTLE_BASE64_H 0
namespace bundled {
#include "base64.h"
#include "../lib/base64.cc"
static void B_encode_init(base64_encode_ctx *c) { base64_encode_init(c); }
static void B_decode_init(base64_decode_ctx *c) { base64_decode_init(c); }
static size_t enc_len(size_t n) { return BASE64_ENCODE_LENGTH(n); }
static size_t enc_raw_len(size_t n) { return BASE64_ENCODE_RAW_LENGTH(n); }
static size_t enc_final_len() { return BASE64_ENCODE_FINAL_LENGTH; }
static size_t dec_len(size_t n) { return BASE64_DECODE_LENGTH(n); }
static size_t squid_enc_len(size_t n) { return base64_encode_len(n); }
}
#undef SQUID_INCLUDE_BASE64_H
#undef BASE64_ENCODE_LENGTH
#undef BASE64_ENCODE_FINAL_LENGTH
#undef BASE64_ENCODE_RAW_LENGTH
#undef BASE64_DECODE_LENGTH
#undef base64_encode_len
#undef HAVE_NETTLE_BASE64_H
#define HAVE_NETTLE_BASE64_H 1
#include "base64.h"   /* -> <nettle/base64.h>: base64_* are now macros for nettle_base64_* */

template <class F> static void dumpN(const char *name, int n, F f) {
    std::cout << "Definition " << name << " : list N := [";
    for (int i = 0; i < n; ++i) std::cout << (i ? ";" : "") << f(i);
    std::cout << "]%N.\n";
}
template <class F> static void dumpZ(const char *name, int n, F f) {
    std::cout << "Definition " << name << " : list Z := [";
    for (int i = 0; i < n; ++i) { long v = f(i); std::cout << (i ? ";" : ""); if (v < 0) std::cout << "(" << v << ")"; else std::cout << v; }
    std::cout << "]%Z.\n";
}

int main() {
    std::cout << "@@FILE Base64_gen.v\n";
    std::cout << "(* generated from /repo by gen/gen_b64.cc -- do not edit *)\n"
              "Require Import SquidV.Bytes.\n";
    // bundled copy
    bundled::base64_encode_ctx be; bundled::B_encode_init(&be);
    dumpN("b64_enc_tbl", 64, [&](int i) { return (unsigned)(unsigned char)be.alphabet[i]; });
    dumpN("b64_enc_tbl_static", 64, [&](int i) { return (unsigned)(unsigned char)bundled::base64_encode_table[i]; });
    bundled::base64_decode_ctx bd; bundled::B_decode_init(&bd);
    dumpZ("b64_dec_tbl", 256, [&](int i) { return (long)bd.table[i]; });
    dumpN("b64_encode_length_samples", 64, [&](int i) { return bundled::enc_len(i); });
    dumpN("b64_encode_raw_length_samples", 64, [&](int i) { return bundled::enc_raw_len(i); });
    dumpN("b64_decode_length_samples", 64, [&](int i) { return bundled::dec_len(i); });
    dumpN("b64_squid_encode_len_samples", 64, [&](int i) { return bundled::squid_enc_len(i); });
    std::cout << "Definition b64_encode_final_length : N := " << bundled::enc_final_len() << "%N.\n";
    std::cout << "Definition b64_enc_word_bytes : N := " << sizeof(be.word) << "%N.\n";
    std::cout << "Definition b64_dec_word_bytes : N := " << sizeof(bd.word) << "%N.\n";
    std::cout << "Definition b64_dec_bits_bytes : N := " << sizeof(bd.bits) << "%N.\n";
    // linked libnettle
    struct base64_encode_ctx ne; base64_encode_init(&ne);
    dumpN("nettle_enc_tbl", 64, [&](int i) { return (unsigned)(unsigned char)ne.alphabet[i]; });
    struct base64_decode_ctx nd; base64_decode_init(&nd);
    dumpZ("nettle_dec_tbl", 256, [&](int i) { return (long)nd.table[i]; });
    dumpN("nettle_decode_length_samples", 64, [&](int i) { return (size_t)BASE64_DECODE_LENGTH((size_t)i); });
    dumpN("nettle_encode_length_samples", 64, [&](int i) { return (size_t)BASE64_ENCODE_LENGTH((size_t)i); });
    return 0;
}
