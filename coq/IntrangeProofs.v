(* IntrangeProofs.v — proofs for C43 (ACLIntRange). *)
Require Import SquidV.Bytes SquidV.TokModel SquidV.IntrangeModel.
Require Import ZifyBool ZifyN.
Local Open Scope Z_scope.

(* ================= specification side ================= *)
(* value of a string of decimal digits *)
Definition dec_value (ds : bytes) : Z := fold_left (fun a c => a * 10 + (Z.of_N c - 48)) ds 0.
Definition all_digits (ds : bytes) : bool :=
  match ds with [] => false | _ => forallb is_digit ds end.
(* a C integer numeral: optional sign, 1*DIGIT, nothing else *)
Definition numeral (s : bytes) : option Z :=
  match s with
  | [] => None
  | c :: ds =>
      if (c =? 45)%N then (if all_digits ds then Some (- dec_value ds) else None)
      else if (c =? 43)%N then (if all_digits ds then Some (dec_value ds) else None)
      else if all_digits s then Some (dec_value s) else None
  end.
(* the closed range a token lists: "N" or "A-B" split at the first '-', 16-bit, ordered *)
Definition tok_range (t : bytes) : option (Z * Z) :=
  let '(a, rest) := span (fun c => negb (c =? 45)%N) t in
  match numeral a, (match rest with [] => numeral a | _ :: b => numeral b end) with
  | Some lo, Some hi => if (0 <=? lo) && (lo <=? hi) && (hi <=? 65535) then Some (lo, hi) else None
  | _, _ => None
  end.
(* tokens as ConfigParser delivers them: no NUL, no isspace() byte *)
Definition clean_char (c : N) : bool := negb (c =? 0)%N && negb (is_c_space c).
Definition clean (t : bytes) : bool := forallb clean_char t.

(* ================= strtoll on clean strings ================= *)
Lemma digit_of_10 c : digit_of 10 c = if is_digit c then Some (Z.of_N c - 48) else None.
Proof.
  unfold digit_of, digit_raw, is_upper, is_lower.
  destruct (is_digit c) eqn:Ed.
  - unfold is_digit in Ed. destruct (Z.of_N c - 48 >=? 10) eqn:E; [lia|reflexivity].
  - unfold is_digit in Ed.
    destruct ((65 <=? c)%N && (c <=? 90)%N) eqn:E1.
    { destruct (Z.of_N c - 55 >=? 10) eqn:E; [reflexivity|lia]. }
    destruct ((97 <=? c)%N && (c <=? 122)%N) eqn:E2.
    { destruct (Z.of_N c - 87 >=? 10) eqn:E; [reflexivity|lia]. }
    reflexivity.
Qed.

Definition dval (c : N) : Z := Z.of_N c - 48.

Lemma digit_run_span l : digit_run 10 l = map dval (fst (span is_digit l)).
Proof.
  induction l as [|c r IH]; cbn [digit_run span]; [reflexivity|].
  rewrite digit_of_10. destruct (is_digit c); [|reflexivity].
  destruct (span is_digit r) as [a b]. cbn [fst map] in *. now rewrite IH.
Qed.

Lemma digits_value_map ds acc :
  digits_value 10 (map dval ds) acc = fold_left (fun a c => a * 10 + (Z.of_N c - 48)) ds acc.
Proof.
  revert acc. induction ds as [|c ds IH]; intros acc; [reflexivity|].
  cbn [map]. unfold digits_value in *. cbn [fold_left]. apply IH.
Qed.

Lemma lenN_map {A B} (f : A -> B) l : lenN (map f l) = lenN l.
Proof. induction l as [|x l IH]; cbn [map lenN]; [reflexivity| now rewrite IH]. Qed.

Lemma dec_value_nonneg_acc ds : forall a, 0 <= a -> forallb is_digit ds = true ->
  0 <= fold_left (fun a c => a * 10 + (Z.of_N c - 48)) ds a.
Proof.
  induction ds as [|c ds IH]; intros a Ha Hd; cbn [fold_left]; [exact Ha|].
  cbn [forallb] in Hd. apply andb_prop in Hd as [Hc Hd]. apply IH; [|exact Hd].
  unfold is_digit in Hc. lia.
Qed.
Lemma dec_value_nonneg ds : forallb is_digit ds = true -> 0 <= dec_value ds.
Proof. apply dec_value_nonneg_acc. lia. Qed.

Lemma c_string_clean t : clean t = true -> c_string t = t.
Proof.
  induction t as [|c r IH]; intros H; cbn [c_string]; [reflexivity|].
  cbn [clean forallb] in H. apply andb_prop in H as [Hc Hr]. unfold clean_char in Hc.
  destruct (c =? 0)%N eqn:E; [cbn in Hc; discriminate|]. now rewrite (IH Hr).
Qed.

Lemma span_all_true {A} (p : A -> bool) l : forallb p l = true -> span p l = (l, []).
Proof.
  induction l as [|x l IH]; intros H; cbn [span]; [reflexivity|].
  cbn [forallb] in H. apply andb_prop in H as [Hx Hl]. now rewrite Hx, (IH Hl).
Qed.

Lemma span_fst_eq_all {A} (p : A -> bool) l : snd (span p l) = [] -> forallb p l = true.
Proof.
  induction l as [|x l IH]; cbn [span forallb]; [reflexivity|].
  destruct (p x) eqn:E; [|discriminate]. destruct (span p l) as [a b]. cbn [snd] in *. intros H. now rewrite (IH H).
Qed.

Lemma dropN_lenN_app {A} (a b : list A) : dropN (lenN a) (a ++ b) = b.
Proof.
  induction a as [|x a IH]; cbn [lenN app].
  - destruct b; reflexivity.
  - cbn [dropN]. destruct (N.succ (lenN a) =? 0)%N eqn:E; [lia|]. now rewrite N.pred_succ.
Qed.

Lemma dropN_succ {A} n (x : A) l : dropN (N.succ n) (x :: l) = dropN n l.
Proof. cbn [dropN]. destruct (N.succ n =? 0)%N eqn:E; [lia|]. now rewrite N.pred_succ. Qed.

(* saturation as glibc does it *)
Definition sat_pos (v : Z) : Z := if v >? two63 - 1 then two63 - 1 else v.
Definition sat_neg (v : Z) : Z := if v >? two63 then - two63 else - v.

(* the sign dispatch of strtoll10, as boolean tests *)
Lemma sign_split (l1 : bytes) (n1 : N) :
  (match l1 with
   | 45%N :: r => (true, r, N.succ n1)
   | 43%N :: r => (false, r, N.succ n1)
   | _ => (false, l1, n1)
   end) =
  match l1 with
  | c :: r => if (c =? 45)%N then (true, r, N.succ n1)
              else if (c =? 43)%N then (false, r, N.succ n1) else (false, l1, n1)
  | [] => (false, l1, n1)
  end.
Proof.
  destruct l1 as [|c r]; [reflexivity|]. destruct c as [|p]; [reflexivity|].
  do 7 (try (destruct p as [p|p|])); reflexivity.
Qed.

(* strtoll10 on clean text, in terms of the leading sign and the maximal digit run *)
Lemma strtoll10_clean l :
  clean l = true ->
  strtoll10 l =
  let '(neg, l2, n2) :=
    match l with
    | c :: r => if (c =? 45)%N then (true, r, 1%N) else if (c =? 43)%N then (false, r, 1%N) else (false, l, 0%N)
    | [] => (false, l, 0%N)
    end in
  let d := fst (span is_digit l2) in
  match d with
  | [] => (0, 0%N, false)
  | _ => if neg then (sat_neg (dec_value d), (n2 + lenN d)%N, dec_value d >? two63)
         else (sat_pos (dec_value d), (n2 + lenN d)%N, dec_value d >? two63 - 1)
  end.
Proof.
  intros Hcl. unfold strtoll10. rewrite (c_string_clean l Hcl).
  assert (Hsk : skip_space l 0%N = (l, 0%N)).
  { destruct l as [|c r]; [reflexivity|]. cbn [skip_space].
    cbn [clean forallb] in Hcl. apply andb_prop in Hcl as [Hc _]. unfold clean_char in Hc.
    destruct (is_c_space c); [rewrite andb_false_r in Hc; discriminate|reflexivity]. }
  rewrite Hsk. rewrite sign_split. change (N.succ 0) with 1%N.
  set (sg := match l with
    | c :: r => if (c =? 45)%N then (true, r, 1%N) else if (c =? 43)%N then (false, r, 1%N) else (false, l, 0%N)
    | [] => (false, l, 0%N) end).
  destruct sg as [[neg l2] n2].
  rewrite digit_run_span. cbv zeta.
  destruct (fst (span is_digit l2)) as [|y ys] eqn:Ed; [reflexivity|].
  change (map dval (y :: ys)) with (dval y :: map dval ys).
  change (dval y :: map dval ys) with (map dval (y :: ys)).
  rewrite digits_value_map, lenN_map. fold (dec_value (y :: ys)).
  unfold sat_neg, sat_pos.
  destruct neg.
  - destruct (dec_value (y :: ys) >? two63); reflexivity.
  - destruct (dec_value (y :: ys) >? two63 - 1); reflexivity.
Qed.

Lemma dropN_span {A} (p : A -> bool) l : dropN (lenN (fst (span p l))) l = snd (span p l).
Proof.
  transitivity (dropN (lenN (fst (span p l))) (fst (span p l) ++ snd (span p l))); [now rewrite span_app|].
  apply dropN_lenN_app.
Qed.

Lemma all_digits_span l :
  all_digits l = match fst (span is_digit l), snd (span is_digit l) with
                 | _ :: _, [] => true
                 | _, _ => false
                 end.
Proof.
  unfold all_digits. destruct l as [|c r]; [reflexivity|].
  destruct (forallb is_digit (c :: r)) eqn:E.
  - rewrite (span_all_true _ _ E). reflexivity.
  - destruct (snd (span is_digit (c :: r))) eqn:Es.
    + apply span_fst_eq_all in Es. congruence.
    + destruct (fst (span is_digit (c :: r))); reflexivity.
Qed.

Lemma all_digits_whole l : all_digits l = true -> fst (span is_digit l) = l.
Proof.
  unfold all_digits. destruct l as [|c r]; [discriminate|]. intros H. now rewrite (span_all_true _ _ H).
Qed.

(* glibc's saturation *)
Definition sat64 (v : Z) : Z := if v >? two63 - 1 then two63 - 1 else if v <? - two63 then - two63 else v.

(* the digit part of xatoll, after the sign: n2 characters were skipped before l2 *)
Lemma xatoll_tail (l2 : bytes) (n2 : N) (pre : bytes) :
  lenN pre = n2 ->
  let d := fst (span is_digit l2) in
  (match d with
   | [] => true
   | _ => match dropN (n2 + lenN d) (pre ++ l2) with [] => false | _ :: _ => true end
   end) = negb (all_digits l2).
Proof.
  intros Hpre d. rewrite all_digits_span. fold d.
  destruct d as [|y ys] eqn:Ed; [reflexivity|].
  assert (Hdrop : dropN (n2 + lenN (y :: ys)) (pre ++ l2) = snd (span is_digit l2)).
  { rewrite <- Ed. unfold d. rewrite <- (dropN_span is_digit l2). subst n2.
    clear. induction pre as [|x pre IH]; cbn [lenN app]; [now rewrite N.add_0_l|].
    replace (N.succ (lenN pre) + lenN (fst (span is_digit l2)))%N with (N.succ (lenN pre + lenN (fst (span is_digit l2)))) by lia.
    rewrite dropN_succ. exact IH. }
  rewrite Hdrop. destruct (snd (span is_digit l2)); reflexivity.
Qed.

Lemma xatoll_clean s : clean s = true ->
  xatoll s = match numeral s with Some v => Some (sat64 v) | None => None end.
Proof.
  intros Hcl. unfold xatoll. rewrite (strtoll10_clean s Hcl), (c_string_clean s Hcl).
  destruct s as [|c r]; [reflexivity|]. unfold numeral.
  destruct (c =? 45)%N eqn:E45; [|destruct (c =? 43)%N eqn:E43].
  - cbv zeta. pose proof (xatoll_tail r 1%N [c] eq_refl) as Ht. cbv zeta in Ht. cbn [app] in Ht.
    destruct (fst (span is_digit r)) as [|y ys] eqn:Ed.
    + cbn [N.eqb]. destruct (all_digits r); [discriminate|reflexivity].
    + destruct ((1 + lenN (y :: ys) =? 0)%N) eqn:En; [lia|].
      destruct (dropN (1 + lenN (y :: ys)) (c :: r)) eqn:Edr.
      * destruct (all_digits r) eqn:Ea; [|discriminate]. rewrite <- Ed, (all_digits_whole r Ea).
        f_equal. unfold sat_neg, sat64.
        assert (0 <= dec_value r) by (apply dec_value_nonneg; unfold all_digits in Ea; destruct r; [discriminate|exact Ea]).
        destruct (dec_value r >? two63) eqn:E1; destruct (- dec_value r >? two63 - 1) eqn:E2;
          destruct (- dec_value r <? - two63) eqn:E3; unfold two63 in *; lia.
      * destruct (all_digits r); [discriminate|reflexivity].
  - cbv zeta. pose proof (xatoll_tail r 1%N [c] eq_refl) as Ht. cbv zeta in Ht. cbn [app] in Ht.
    destruct (fst (span is_digit r)) as [|y ys] eqn:Ed.
    + cbn [N.eqb]. destruct (all_digits r); [discriminate|reflexivity].
    + destruct ((1 + lenN (y :: ys) =? 0)%N) eqn:En; [lia|].
      destruct (dropN (1 + lenN (y :: ys)) (c :: r)) eqn:Edr.
      * destruct (all_digits r) eqn:Ea; [|discriminate]. rewrite <- Ed, (all_digits_whole r Ea).
        f_equal. unfold sat_pos, sat64.
        assert (0 <= dec_value r) by (apply dec_value_nonneg; unfold all_digits in Ea; destruct r; [discriminate|exact Ea]).
        destruct (dec_value r >? two63 - 1) eqn:E1; destruct (dec_value r <? - two63) eqn:E3; unfold two63 in *; lia.
      * destruct (all_digits r); [discriminate|reflexivity].
  - cbv zeta. pose proof (xatoll_tail (c :: r) 0%N [] eq_refl) as Ht. cbv zeta in Ht. cbn [app] in Ht.
    destruct (fst (span is_digit (c :: r))) as [|y ys] eqn:Ed.
    + cbn [N.eqb]. destruct (all_digits (c :: r)); [discriminate|reflexivity].
    + destruct ((0 + lenN (y :: ys) =? 0)%N) eqn:En; [cbn [lenN] in En; lia|].
      destruct (dropN (0 + lenN (y :: ys)) (c :: r)) eqn:Edr.
      * destruct (all_digits (c :: r)) eqn:Ea; [|discriminate]. rewrite <- Ed, (all_digits_whole _ Ea).
        f_equal. unfold sat_pos, sat64.
        assert (0 <= dec_value (c :: r)) by (apply dec_value_nonneg; exact Ea).
        destruct (dec_value (c :: r) >? two63 - 1) eqn:E1; destruct (dec_value (c :: r) <? - two63) eqn:E3; unfold two63 in *; lia.
      * destruct (all_digits (c :: r)); [discriminate|reflexivity].
Qed.
