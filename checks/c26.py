"""C26: Content-Length is accepted only when unambiguous."""
import random, re
from vlib import std, hbuild, coq, recipes, common

PID = "C26"
META = {
    "text": "Theorems (Properties_C26.v, 16, all closed under the global context) about the Gallina transcription of "
            "Http::ContentLengthInterpreter (findDigits/goodSuffix/checkValue/checkList/checkField incl. strListGetItem), "
            "httpHeaderParseOffset (strtoll semantics) and HttpHeader::parse (line loop, HttpHeaderEntry::parse, the "
            "Content-Length/Transfer-Encoding branches, putInt64/getInt64): for ALL items, checkValue extracts v iff the "
            "item is OWS 1*DIGIT OWS (OWS = SP / HTAB in both modes, regenerated WSP table) with value v < 2^63; for ALL field "
            "sequences: strict mode uses v iff there is exactly one field and it is such a token; relaxed mode uses v iff "
            "every occurrence (fields, and comma-separated elements trimmed, empty ones ignored) is a token of the same v "
            "(lists: _partial only in that values with a double quote in a list-like field are excluded); otherwise "
            "sawBad. For ALL entry lists / header blocks: getInt64(Content-Length) is != -1 only if the interpreter uses "
            "exactly that value, no Transfer-Encoding is present, Content-Length is not prohibited and the header is not "
            "flagged; if no value is used the result is -1 and conflictingContentLength is set unless no occurrence was "
            "examined. The former counterexample `1,<VT>,5` (repaired in /repo: strListGetItem skips VT/FF as leading "
            "delimiters) is proved to be flagged. Tie: extracted model vs the real interpreter, httpHeaderParseOffset "
            "and HttpHeader::parse compiled from the working tree (UBSan), 0 disagreements.",
    "note": "Trusted: Coq kernel, extraction, gen/gen_charsets.cc (DIGIT/TCHAR/WSP), "
            "harness/h_clen.cc; ClenModel.v is validated against the code only on the generated cases. With "
            "Transfer-Encoding present or for 1xx/204/trailers Content-Length is deleted whatever its state and the header "
            "is not flagged: the theorem states that it is then never used. An all-empty list ('Content-Length: ,') counts "
            "as no value (dropped, not flagged). Header-name lookup is modelled only for Content-Length/Transfer-Encoding; "
            "owners hoRequest/hoReply. Quoted strings inside Content-Length lists are covered by the soundness theorem "
            "over examined occurrences and by correspondence, not by the iff theorem.",
    "technique": "Coq proof (three-state automaton abstraction of the interpreter, induction over value bytes, list items, "
                 "field sequences and entry lists; vm_compute sweep over the regenerated 256-entry character tables) + "
                 "extracted-model differential correspondence + independent Python oracle on the implementation's answers",
}

FRESH = ["src/http/ContentLengthInterpreter.cc", "src/HttpHeaderTools.cc", "src/HttpHeader.cc", "src/StrList.cc",
         "src/http/one/Parser.cc"]
# -fsanitize=undefined without vptr (typeinfo of classes that live in objects the recipe does not link)
UB = ["-O1", "-g", "-fsanitize=undefined", "-fno-sanitize=vptr", "-fno-sanitize-recover=all"]


# the harness defines `Config` itself (as tests/testHttpReply.cc does); keep working whether or not the shared
# recipe lists SquidConfig.o
LINK = [x for x in recipes.HTTPREPLY if x != "SquidConfig.o"]


def impl():
    return hbuild.build("h_clen", "h_clen.cc", fresh=FRESH, link=LINK, sanitize=None,
                        flags=UB, syslibs=["-fsanitize=undefined"] + hbuild.SYSLIBS)


def prebuild():
    impl()


def hx(b):
    return bytes(b).hex() if len(b) else "-"


def unhx(h):
    return b"" if h == "-" else bytes.fromhex(h)


# ------------------------------------------------------------------ generators
TWO63 = 2 ** 63
BIG = [TWO63 - 1, TWO63, TWO63 + 1, TWO63 - 2, 2 ** 64, 2 ** 64 + 5, 10 ** 19, 10 ** 20, 2 ** 31, 2 ** 32 + 100,
       999999999999999999, 9999999999999999999, 99999999999999999999]
WSS = [b"", b"", b"", b"", b" ", b" ", b" ", b"\t", b"\t", b"  ", b" \t", b"\t ", b"\x0b", b"\x0c", b"\r", b"\x0b ", b"\n"]
GARB = [b"+5", b"-5", b"-0", b"5x", b"x5", b"5 5", b"0x10", b"5.0", b"", b" ", b"\xb5", b"5\xff", b"5;q=1", b"1e3",
        b"\"5\"", b"5\"", b"--5", b"5-", b"five", b"\x0b", b"5\x00", b"0 0"]


def rand_num(rng, base):
    k = rng.random()
    if k < 0.62:
        n = base
    elif k < 0.74:
        n = rng.choice([0, 1, base + 1, max(base - 1, 0), rng.randrange(0, 100000)])
    elif k < 0.88:
        n = rng.choice(BIG)
    else:
        n = rng.randrange(10 ** 17, 10 ** 21)
    s = str(n).encode()
    if rng.random() < 0.12:
        s = b"0" * rng.choice([1, 2, 5, 20]) + s
    return s


def rand_token(rng, base):
    if rng.random() < 0.13:
        return rng.choice(GARB)
    return rng.choice(WSS) + rand_num(rng, base) + rng.choice(WSS)


def rand_value(rng, base, allow_nul=False):
    k = rng.random()
    if k < 0.62:
        v = rand_token(rng, base)
    else:
        pieces = []
        for _ in range(rng.choice([1, 2, 2, 3, 3, 4])):
            q = rng.random()
            if q < 0.78: pieces.append(rand_token(rng, base))
            elif q < 0.90: pieces.append(rng.choice([b"", b" ", b"\t ", b"\r"]))
            elif q < 0.95: pieces.append(rng.choice([b"\x0b", b"\x0c", b" \x0b ", b"\x0c\x0b"]))
            else: pieces.append(rng.choice([b"\"1,2\"", b"\"", b"\"\\\",\"", b"\\"]))
        v = b",".join(pieces)
        if len(pieces) == 1:
            v += b","
    if not allow_nul:
        v = v.replace(b"\x00", b"")
    return v


def gen_po(rng):
    k = rng.random()
    pre = rng.choice([b"", b"", b" ", b"\t\n", b"\x0b\x0c\r ", b"x"])
    sign = rng.choice([b"", b"", b"", b"-", b"+", b"--", b"+-"])
    if k < 0.5:
        n = rng.choice(BIG + [0, 1, 7, 12345])
    elif k < 0.8:
        n = rng.randrange(0, 10 ** rng.choice([1, 5, 18, 19, 20, 22]))
    else:
        n = TWO63 + rng.randrange(-3, 4)
    digits = str(n).encode() if rng.random() < 0.93 else b""
    post = rng.choice([b"", b"", b" ", b"x", b",5", b"\x00" + b"9", b".5", b"-"])
    return "po " + hx(pre + sign + digits + post)


def gen_ci(rng):
    mode = rng.choice([1, 1, 1, 0, 0, -1])
    base = rng.choice([0, 5, 5, 42, 1000, TWO63 - 1])
    n = rng.choice([0, 1, 1, 1, 1, 1, 2, 2, 2, 3, 4]) if rng.random() < 0.98 else 0
    vals = [rand_value(rng, base) for _ in range(n)]
    if mode == 0 and rng.random() < 0.5:     # strict mode: keep the accept share up
        vals = [v for v in vals[:1] if True]
        if vals and rng.random() < 0.7:
            vals = [rng.choice([b"", b" ", b"\t"]) + rand_num(rng, base) + rng.choice([b"", b"", b" "])]
    return "ci %d %s" % (mode, " ".join(hx(v) for v in vals)) if vals else "ci %d" % mode


CLNAMES = [b"Content-Length"] * 8 + [b"content-length", b"CONTENT-LENGTH", b"Content-length", b"Content-Length ",
                                     b"Content-Length\t", b"Content-Lengthx", b"Content_Length", b"Content-Lengt"]
TEVALS = [b"chunked", b"chunked", b"Chunked", b"gzip", b"chunked, gzip", b"gzip, chunked", b"", b"identity"]
OTHERS = [b"Host: example.com", b"X-A: 1,2", b"Accept: */*", b"X-Empty:", b"Content-Type: text/plain", b"Bad Name: x",
          b"NoColonHere", b": novalue", b"X-B : y"]


def gen_hp(rng):
    mode = rng.choice([1, 1, 1, 0, 0, -1])
    owner = rng.choice("qp")
    proh = rng.choice([0] * 12 + [1, 2])
    base = rng.choice([0, 5, 5, 42, 1000, TWO63 - 1])
    ncl = rng.choice([0, 1, 1, 1, 1, 1, 2, 2, 2, 3])
    if mode == 0 and rng.random() < 0.6:
        ncl = min(ncl, 1)
    fields = []
    for _ in range(ncl):
        if mode == 0 and rng.random() < 0.6:
            v = rand_num(rng, base)
        else:
            v = rand_value(rng, base, allow_nul=rng.random() < 0.02)
        v = v.replace(b"\n", b"")                     # an LF would start a new line; folding is produced below
        if rng.random() < 0.04:
            cut = rng.randrange(0, len(v) + 1); v = v[:cut] + b"\r\n" + rng.choice([b" ", b"\t"]) + v[cut:]
        fields.append(rng.choice(CLNAMES) + b":" + rng.choice([b"", b" ", b" ", b" ", b"  ", b"\t"]) + v)
    if rng.random() < 0.14:
        for _ in range(rng.choice([1, 1, 2])):
            fields.append(rng.choice([b"Transfer-Encoding", b"transfer-encoding", b"Transfer-Encoding"]) + b": " + rng.choice(TEVALS))
    for _ in range(rng.choice([0, 0, 1, 1, 2])):
        o = rng.choice(OTHERS[:5]) if rng.random() < 0.9 else rng.choice(OTHERS)
        if rng.random() < 0.05:
            o += b"\r\n folded"
        fields.append(o)
    rng.shuffle(fields)
    blk = b""
    for f in fields:
        blk += f + (b"\r\n" if rng.random() < 0.88 else rng.choice([b"\n", b"\n", b"\r\r\n", b" \r\n"]))
    k = rng.random()
    if k < 0.88: blk += b"\r\n"
    elif k < 0.92: blk += b"\n"
    elif k < 0.96: pass
    else: blk += rng.choice([b"\r\nX: y\r\n", b"\r\n\r\n", b" \r\n", b"\r", b"X: y"])
    if rng.random() < 0.08 and blk:                    # mutation stream
        b = bytearray(blk)
        for _ in range(rng.choice([1, 1, 2])):
            i = rng.randrange(len(b))
            r = rng.random()
            if r < 0.5: b[i] = rng.choice(b"\r\n \t:,\x00\x0b\"0195-")
            elif r < 0.75: del b[i]
            else: b.insert(i, rng.choice(b"\r\n \t:,\x0b05"))
            if not b: break
        blk = bytes(b)
    return "hp %d %s %d %s" % (mode, owner, proh, hx(blk))


def gen_cases(rng, n):
    out = []
    for _ in range(n):
        k = rng.random()
        out.append(gen_po(rng) if k < 0.08 else gen_ci(rng) if k < 0.50 else gen_hp(rng))
    return out


# ------------------------------------------------------------------ oracle (independent of the model)
ISSPACE = b" \t\n\x0b\x0c\r"


def token_value(p, relaxed):
    """optional-whitespace-delimited non-negative decimal that fits int64, else None"""
    ws = dl = b" \t"          # RFC 9110 OWS = SP / HTAB, in both parser modes
    i = 0
    while i < len(p) and p[i] in ws: i += 1
    j = i
    while j < len(p) and 48 <= p[j] <= 57: j += 1
    if j == i or any(c not in dl for c in p[j:]):
        return None
    v = int(p[i:j])
    return v if v < TWO63 else None


def interpret(values, relaxed):
    """The property's reading of a sequence of Content-Length field values:
    'absent' | 'novalues' | None (ambiguous/invalid) | v."""
    if not values:
        return "absent"
    occ = []
    for val in values:
        if b"," in val:
            if not relaxed:
                return None
            for piece in val.split(b","):
                core = piece.strip(ISSPACE)
                if core == b"":
                    continue
                occ.append(token_value(core, relaxed) if core.isdigit() else None)
        else:
            occ.append(token_value(val, relaxed))
    if not occ:
        return "novalues"
    if any(v is None for v in occ) or len(set(occ)) > 1:
        return None
    if not relaxed and len(occ) > 1:
        return None
    return occ[0]


def kv(out):
    d = {}
    for w in out.split()[0:]:
        if "=" in w:
            k, v = w.split("=", 1); d[k] = v
    return d


def ref_strtoll(s):
    s = s.split(b"\x00")[0]
    i = 0
    while i < len(s) and s[i] in ISSPACE: i += 1
    neg = False
    if i < len(s) and s[i] in b"+-":
        neg = s[i] == 45; i += 1
    j = i
    while j < len(s) and 48 <= s[j] <= 57: j += 1
    if j == i:
        return "fail"
    v = int(s[i:j]); v = -v if neg else v
    if v < -TWO63 or v > TWO63 - 1:
        return "fail"
    return "ok %d %d" % (v, j)


SIMPLE_BLOCK = re.compile(rb"\A(?:[!#$%&'*+.^_`|~0-9A-Za-z-]+:[^\r\n\x00]*\r\n)*\r\n\Z")


def block_fields(blk):
    """(name, value, folded) per field as RFC 9112 reads the block: lines end in LF, a line starting with SP/HT
    continues the previous field; name = text before ':' without trailing white space; value trimmed"""
    fields = []
    for ln in blk.split(b"\n"):
        if ln[:1] in (b" ", b"\t") and fields:
            fields[-1][0] += b"\n" + ln; fields[-1][1] = True
        else:
            fields.append([ln, False])
    out = []
    for text, folded in fields:
        if b":" not in text:
            continue
        name, value = text.split(b":", 1)
        name = name.rstrip(ISSPACE).lower()
        if value.endswith(b"\r"):
            value = value[:-1]                       # the CR of the CRLF line terminator
        # only SP / HTAB are trimmed around the framing fields; anything else stays part of the value
        value = value.strip(b" \t") if name in (b"content-length", b"transfer-encoding") else value.strip(ISSPACE)
        out.append((name, value, folded))
    return out


def judge(got_accept, got_val, flagged, values, relaxed, complete_ok):
    """compare the implementation's verdict on a Content-Length sequence with the property; returns None or (sig, why)"""
    def problem(r):
        if got_accept:
            return None if (isinstance(r, int) and r == got_val) else \
                ("accepted-ambiguous", "accepted as %s but the property reads the values as %s" % (got_val, r))
        if r is None:
            return None if flagged else ("not-flagged", "ambiguous/invalid, yet neither used nor flagged as bad framing")
        if isinstance(r, int) and complete_ok:
            return ("rejected-unambiguous", "unambiguous (= %s) but not accepted" % r)
        return None
    p = problem(interpret(values, relaxed))
    if p is None:
        return None
    return ("oracle:" + p[0], "Content-Length %r: %s" % (values, p[1]))


def oracle(case, out):
    a = case.split()
    op = a[0]
    if out.startswith(("CRASH", "EXC", "ERR")) or "BAD-" in out:
        return ("oracle:crash", "implementation crashed / threw / left an inconsistent header: " + out[:200])
    try:
        if op == "po":
            exp = ref_strtoll(unhx(a[1]))
            return None if out == exp else ("oracle:parse-offset", "httpHeaderParseOffset: expected %s" % exp)
        if op == "ci":
            relaxed = int(a[1]) != 0
            values = [unhx(x) for x in a[2:]]
            d = kv(out)
            accept = d["bad"] == "0" and d["good"] == "1"
            val = int(d["val"]) if accept else None
            complete_ok = not any(b"\n" in v or b"\x00" in v for v in values)
            return judge(accept, val, d["bad"] == "1", values, relaxed, complete_ok)
        if op == "hp":
            relaxed = int(a[1]) != 0
            blk = unhx(a[4])
            proh = a[3] != "0"
            fs = block_fields(blk)
            values = [v for (n, v, f) in fs if n == b"content-length"]
            has_te = any(n == b"transfer-encoding" for (n, v, f) in fs)
            simple = bool(SIMPLE_BLOCK.match(blk))
            if out == "fail":
                if simple:
                    ref = interpret(values, relaxed)
                    okref = isinstance(ref, str) or ref is not None
                    if okref and (relaxed or not any(b"," in v for v in values)) and \
                       (relaxed or len(values) <= 1):
                        return ("oracle:rejected-unambiguous", "well-formed header block with unambiguous Content-Length %r rejected" % (values,))
                return None
            d = kv(out)
            cl = int(d["cl"])
            if cl != -1:
                if d["ncl"] != "1" or not re.fullmatch(rb"[0-9]+", unhx(d["clv"])) or int(unhx(d["clv"])) != cl:
                    return ("oracle:clen-entry", "header keeps %s Content-Length entries, first %r, but reports %d"
                            % (d["ncl"], unhx(d["clv"]), cl))
            elif d["ncl"] != "0":
                return ("oracle:clen-entry", "unusable Content-Length entry %r left in the header" % unhx(d["clv"]))
            if proh or has_te:
                if cl != -1:
                    return ("oracle:clen-used-despite-te", "Content-Length %d used although Transfer-Encoding is present / the message prohibits it" % cl)
                return None
            if any(f for (n, v, f) in fs if n == b"content-length"):
                return ("oracle:folded-accepted", "header block with a folded Content-Length field was accepted")
            return judge(cl != -1, cl if cl != -1 else None, d["conf"] == "1", values, relaxed,
                         simple and not proh)
    except Exception as ex:
        return ("oracle:unparsable", "unparsable implementation output %r (%s)" % (out[:100], ex))
    return None


def mutate(rng, case):
    a = case.split()
    if len(a) > 2 and rng.random() < 0.25:
        a[1] = str(rng.choice([0, 1]))
        return " ".join(a)
    idx = [i for i in range(1, len(a)) if len(a[i]) >= 2 and len(a[i]) % 2 == 0 and re.fullmatch(r"[0-9a-f]+", a[i])
           and not (a[0] != "po" and i < (2 if a[0] == "ci" else 4))]
    if not idx:
        return " ".join(a)
    i = rng.choice(idx)
    b = bytearray(unhx(a[i]))
    r = rng.random()
    j = rng.randrange(len(b))
    if r < 0.6: b[j] = rng.choice(b"0123456789 ,\t\r\n\x0b\x0c+-\"x")
    elif r < 0.8: del b[j]
    else: b.insert(j, rng.choice(b"0159 ,\x0b"))
    a[i] = hx(b)
    return " ".join(a)


def kind(c, o):
    op = c.split()[0]
    if op == "po":
        return "po:" + o.split()[0]
    d = kv(o)
    if op == "ci":
        return "ci:" + ("accept" if d.get("bad") == "0" and d.get("good") == "1" else "bad" if d.get("bad") == "1" else "none")
    if o == "fail":
        return "hp:fail"
    return "hp:" + ("clen" if d.get("cl") != "-1" else "flagged" if d.get("conf") == "1" else "no-clen")


def nontrivial(c, o):
    op = c.split()[0]
    if op == "po":
        return o.startswith("ok")
    if op == "ci":
        return len(c.split()) > 2
    return o.startswith("ok") and ("good=1" in o or "bad=1" in o or "san=1" in o)


def run(res, tier):
    res.rule = ("po: white space/sign/digit strings around INT64 limits; ci: 0-4 Content-Length field values built from "
                "decimals (equal, different, 19-21 digits, leading zeros), SP/HT/VT/FF/CR/LF, signs, garbage, lists, quotes, "
                "modes on/off/warn; hp: header blocks with 0-3 Content-Length fields (name case, BWS), Transfer-Encoding, "
                "other fields, CRLF/LF/CRCRLF, folds, bare CR, NUL, missing terminator, byte mutations, request/reply owner, "
                "204/trailer rules. Non-trivial: po parsed a number; ci has at least one value; hp reached the "
                "Content-Length interpreter in an accepted block")
    res.trusted.append("HttpHeaderEntry::parse name lookup is modelled only for Content-Length and Transfer-Encoding "
                       "(case-insensitive); owners modelled: hoRequest, hoReply")
    std.run_standard(res, PID, tier, area="clen", build_impl=impl, gen_cases=gen_cases, oracle=oracle,
                     corr_name="ClenModel vs src/http/ContentLengthInterpreter.cc, src/HttpHeaderTools.cc, src/HttpHeader.cc",
                     gens=["charsets"], n_quick=40000, n_thorough=800000, seed_salt=26, mutate=mutate,
                     kind_fn=kind, nontrivial_fn=nontrivial)
