// Harness for C21/C22/C62: the real Http::One::RequestParser (src/http/one/RequestParser.cc,
// src/http/one/Parser.cc, src/mime_header.cc, src/http/RequestMethod.cc, src/parser/Tokenizer.cc)
// from /repo's working tree.
// stdin: one case per line (same syntax as ml/run_reqparse.ml); stdout: one result line.
//
//   rp.seg <relaxed 0|1> <limit> <seg1> [<seg2> ...]
//        W=<obs of one parse() of the concatenation by a fresh parser>
//        I=<obs after the caller's loop (ConnStateData::parseHttpRequest) over the segments>
//   rp.one <relaxed 0|1> <limit> <input>      -> <obs> of one parse() by a fresh parser
//
//   obs = kind,stage,code,methodId,methodImage,uri,isHttp,major.minor,mime,firstLineSize,remaining,unfed
//   kind: M = needsMoreData(), A = parse() returned true, R = returned false and no more data needed
#include "squid.h"
#include <string>
#include <vector>
#include <sstream>
#include <iostream>
#include "base/CharacterSet.h"
#include "sbuf/SBuf.h"
#include "anyp/ProtocolVersion.h"
#include "http/StatusCode.h"
#include "http/RequestMethod.h"
#include "parser/Tokenizer.h"
#include "mime_header.h"
#define private public
#define protected public
#include "http/one/Parser.h"
#include "http/one/RequestParser.h"
#undef private
#undef protected
#include "SquidConfig.h"
#include "hcommon.h"

static SBuf sb(const std::string &hex) { std::string r = unhex(hex); return SBuf(r.data(), r.size()); }
static std::string hx(const SBuf &b) { return tohex(b.rawContent(), b.length()); }

static const char *stageName(const Http1::ParseState s) {
    switch (s) {
    case Http1::HTTP_PARSE_NONE: return "N";
    case Http1::HTTP_PARSE_FIRST: return "F";
    case Http1::HTTP_PARSE_MIME: return "M";
    case Http1::HTTP_PARSE_DONE: return "D";
    default: return "?";
    }
}

static std::string obs(const bool ok, const Http1::RequestParser &p, const SBuf &unfed) {
    std::ostringstream o;
    const char *kind = p.needsMoreData() ? "M" : (ok ? "A" : "R");
    o << kind << "," << stageName(p.parsingStage_) << "," << static_cast<int>(p.parseStatusCode) << ","
      << static_cast<int>(p.method().id()) << "," << hx(p.method().image()) << "," << hx(p.requestUri()) << ","
      << (p.messageProtocol().protocol == AnyP::PROTO_HTTP ? 1 : (p.messageProtocol().protocol == AnyP::PROTO_NONE ? 0 : 2)) << ","
      << p.messageProtocol().major << "." << p.messageProtocol().minor << ","
      << hx(p.mimeHeader()) << "," << p.firstLineSize() << "," << hx(p.remaining()) << "," << hx(unfed);
    if (ok && p.needsMoreData()) o << ",BAD-TRUE-BUT-NEEDS-MORE";
    if (p.needsMoreData() != (p.parsingStage_ != Http1::HTTP_PARSE_DONE)) o << ",BAD-NEEDSMORE";
    return o.str();
}

int main() {
    std::string line;
    while (std::getline(std::cin, line)) {
        auto a = splitws(line);
        if (a.empty()) { std::cout << "\n"; continue; }
        const std::string &op = a[0];
        std::ostringstream o;
        try {
            if (op == "rp.one" && a.size() == 4) {
                Config.onoff.relaxed_header_parser = (a[1] == "1") ? 1 : 0;
                Config.maxRequestHeaderSize = static_cast<size_t>(std::stoull(a[2]));
                Http1::RequestParser p;
                const SBuf in = sb(a[3]);
                const bool ok = p.parse(in);
                o << obs(ok, p, SBuf());
            } else if (op == "rp.seg" && a.size() >= 4) {
                Config.onoff.relaxed_header_parser = (a[1] == "1") ? 1 : 0;
                Config.maxRequestHeaderSize = static_cast<size_t>(std::stoull(a[2]));
                std::vector<SBuf> segs;
                SBuf whole;
                for (size_t i = 3; i < a.size(); ++i) { segs.push_back(sb(a[i])); whole.append(segs.back()); }
                {
                    Http1::RequestParser p;
                    const bool ok = p.parse(whole);
                    o << "W=" << obs(ok, p, SBuf());
                }
                // the caller's loop: ConnStateData::parseHttpRequest() via Http::One::Server::parseOneRequest()
                Http1::RequestParserPointer hp = new Http1::RequestParser(true); // preserveParsed_, as for the first request
                SBuf inBuf;
                bool ok = false;
                size_t i = 0;
                for (; i < segs.size(); ++i) {
                    inBuf.append(segs[i]);                 // a read appends to inBuf
                    ok = hp->parse(inBuf);
                    inBuf = hp->remaining();               // sync the buffers after parsing
                    if (!hp->needsMoreData()) { ++i; break; }
                }
                SBuf unfed;
                for (; i < segs.size(); ++i) unfed.append(segs[i]);
                o << " I=" << obs(ok, *hp, unfed);
            } else o << "ERR unknown-entry " << op;
        } catch (const std::exception &e) { o.str(""); o << "EXC " << e.what(); }
        catch (...) { o.str(""); o << "EXC"; }
        std::cout << o.str() << "\n" << std::flush;
    }
    return 0;
}
