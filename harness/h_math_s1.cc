#define H_MATH_PART 1
#include "h_math_part.h"
