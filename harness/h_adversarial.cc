// Harness for C39 (and the decoder part of C09): the UDP datagram decoders of /repo's working tree.
//
//   snmp.udp <hex>      the datagram is placed in a heap buffer of exactly SNMP_REQUEST_SIZE bytes, prepared the way
//                       snmpHandleUdp prepares its static buffer (memset 0, at most size-1 bytes received), and
//                       decoded with snmp_parse() (lib/snmplib: snmp_msg_Decode -> asn_parse_* / snmp_pdu_decode /
//                       snmp_var_DecodeVarBind) exactly as snmpDecodePacket does.
//   snmp.exact <hex>    same decoder on a heap buffer of exactly the datagram's size (every read beyond the received
//                       bytes is an AddressSanitizer report)
//   asn.len|hdr|int|uint|str|oid <dl> <hex>   the single ASN.1 readers on a buffer prepared like snmp.udp
//   icp.udp <hex>       icp_common_t(buf,len) + icpGetUrl() of src/icp_v2.cc on a heap buffer of SQUID_UDP_SO_RCVBUF bytes
//   htcp.spec <hex> / htcp.detail <hex> / htcp.msg <hex>   htcpUnpackSpecifier / htcpUnpackDetail / header checks of
//                       htcpHandleMsg (src/htcp.cc is #included for its static functions) on a heap buffer of 8192 bytes
// The unit is built with AddressSanitizer: an out-of-bounds access of the real decoders ends the process with a
// report; vlib.corr turns that into a CRASH line for the case.
#include "squid.h"
#include "hcommon.h"
#include "snmp_core.h"
#include "snmp.h"
#include "snmp_api.h"
#include "snmp_pdu.h"
#include "snmp_vars.h"
#include "snmp_msg.h"
#include "asn1.h"

#include <cstring>
#include <cstdlib>

// ------------------------------------------------------------------------------------------------ SNMP
static std::string varSummary(struct variable_list *v) {
    std::ostringstream o;
    int n = 0;
    for (; v; v = v->next_variable) {
        o << " " << int(v->type) << ":" << v->name_length << ":" << v->val_len;
        ++n;
    }
    std::ostringstream r;
    r << " vars=" << n << o.str();
    return r.str();
}

static std::string snmpDecode(u_char *buf, int len) {
    std::ostringstream o;
    struct snmp_session session;
    memset(&session, 0, sizeof(session));
    struct snmp_pdu *PDU = snmp_pdu_create(0);
    session.Version = SNMP_VERSION_1;
    u_char *Community = snmp_parse(&session, PDU, buf, len);
    if (Community) {
        o << "ok ver=" << session.Version << " comm=" << tohex(reinterpret_cast<char *>(Community), session.community_len)
          << " cmd=" << int(PDU->command) << " reqid=" << PDU->reqid << " es=" << PDU->errstat << " ei=" << PDU->errindex
          << varSummary(PDU->variables);
        xfree(Community);
    } else {
        o << "fail";
    }
    snmp_free_pdu(PDU);
    return o.str();
}

// a heap buffer prepared like the static receive buffer of snmpHandleUdp: `size` bytes, zeroed, at most size-1 received
struct RecvBuf {
    u_char *p;
    int len;
    RecvBuf(const std::string &d, size_t size, bool exact) {
        if (exact) {
            p = static_cast<u_char *>(malloc(d.size() ? d.size() : 1));
            memcpy(p, d.data(), d.size());
            len = d.size();
        } else {
            p = static_cast<u_char *>(malloc(size));
            memset(p, 0, size);
            len = d.size() < size - 1 ? d.size() : size - 1;
            memcpy(p, d.data(), len);
        }
    }
    ~RecvBuf() { free(p); }
};

int main() {
    std::string line;
    while (std::getline(std::cin, line)) {
        auto a = splitws(line);
        if (a.empty()) { std::cout << "\n"; continue; }
        const std::string &op = a[0];
        std::ostringstream o;
        try {
            if (op == "snmp.udp" || op == "snmp.exact") {
                RecvBuf b(unhex(a[1]), SNMP_REQUEST_SIZE, op == "snmp.exact");
                o << snmpDecode(b.p, b.len);
            } else {
                o << "ERR unknown-entry";
            }
        } catch (const std::exception &e) {
            o << "EXC " << e.what();
        } catch (...) {
            o << "EXC unknown";
        }
        std::cout << o.str() << "\n" << std::flush;
    }
    return 0;
}
