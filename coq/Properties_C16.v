(* Properties_C16.v — disk cache crash consistency (rock). Statements only; proofs in DiskcrashProofs.v and
   DiskcrashSweep.v.  Vocabulary (DiskcrashModel.v / DiskcrashProofs.v):
     sessions_of N P ops        the slot chains the running cache (lowest-free allocator, map) gives the stores of ops
     hit_after N P ss n torn k  what a request for key k gets after: first n slot writes of ss on disk (+ torn
                                bytes of the next one), Rock::Rebuild, lookup, chain walk, swap-in checks
     completed P ss n s         all writes of session s are among the first n
     crash_consistent           every hit is the full stream of a completed session with that key *)
Require Import SquidV.Bytes SquidV.DiskcrashModel SquidV.DiskcrashProofs SquidV.DiskcrashSweep.
Local Open Scope Z_scope.

(* The full statement ("every hit after a crash at any write boundary is the complete stream of one version whose
   last slot write completed") is FALSE for the faithful model: same-key overwrite into the recycled slots, killed
   before its last slot write (F12). *)
Theorem C16_rock_crash_hit_is_complete_version_refuted :
  exists N P ops n, ~ crash_consistent N P (sessions_of N P ops) n None.
Proof. exact crash_consistent_refuted. Qed.
Print Assumptions C16_rock_crash_hit_is_complete_version_refuted.

(* ... and for the partial-write variant even without any overwrite: a slot write cut inside its payload. *)
Theorem C16_rock_torn_write_hit_is_complete_version_refuted :
  exists N P ops n t, ~ crash_consistent N P (sessions_of N P ops) n (Some t).
Proof. exact torn_crash_consistent_refuted. Qed.
Print Assumptions C16_rock_torn_write_hit_is_complete_version_refuted.

(* PARTIAL (what is missing: slot reuse, torn writes, ufs): for ALL workloads whose stores write every slot at most
   once (distinct filenos, distinct object ids, any sizes, any slot ids the allocator may hand out) and ALL crash
   points at write boundaries, every hit after recovery is the complete stream of a session with that key whose
   last write completed before the crash. *)
Theorem C16_rock_crash_consistent_write_once_partial :
  forall N P ops, write_once N P (sessions_of N P ops) ->
  forall n, crash_consistent N P (sessions_of N P ops) n None.
Proof. intros N P ops H. exact (write_once_crash_consistent N P _ H). Qed.
Print Assumptions C16_rock_crash_consistent_write_once_partial.

(* ... and nothing that was completely written is lost by the crash (same hypotheses): *)
Theorem C16_rock_completed_entries_served_after_crash_write_once_partial :
  forall N P ops, write_once N P (sessions_of N P ops) ->
  forall n s, completed P (sessions_of N P ops) n s ->
  hit_after N P (sessions_of N P ops) n None (s_key s) = Some (full_stream s).
Proof. intros N P ops H. exact (write_once_completed_served N P _ H). Qed.
Print Assumptions C16_rock_completed_entries_served_after_crash_write_once_partial.

(* PARTIAL, bounded (exhaustive vm_compute sweep): in the family of ALL 41371 workloads of at most 4 operations
   (store of a fresh object of 1..3 slots under one of two keys, purge of a key; 8 slots of 2 payload bytes) and
   ALL crash points at write boundaries, with slot reuse, purges and same-key overwrites: whenever no same-key
   overwrite is in flight at the crash, every hit is the full stream of a completely written session with that
   key.  (The refutation above shows the hypothesis cannot be dropped.) *)
Theorem C16_rock_crash_consistent_unless_overwrite_in_flight_bounded_partial :
  forall ops, In ops (fam_workloads 4 1) ->
  forall n, (n <= length (all_writes 2 (sessions_of 8 2 ops)))%nat ->
  overwrite_inflight 2 (sessions_of 8 2 ops) n = false ->
  forall k, In k fam_keys ->
  forall c, hit_after 8 2 (sessions_of 8 2 ops) n None k = Some c ->
  exists s, In s (sessions_of 8 2 ops) /\ completed_b 2 (sessions_of 8 2 ops) n s = true /\ s_key s = k /\
            c = full_stream s.
Proof. exact sweep_sound. Qed.
Print Assumptions C16_rock_crash_consistent_unless_overwrite_in_flight_bounded_partial.

(* the hypotheses are satisfiable and the conclusions not vacuous *)
Example C16_ex_write_once : write_once 8 4 (sessions_of 8 4 ex_ops).
Proof. exact ex_write_once. Qed.
Example C16_ex_hits_after_crash :
  map (fun k => match hit_after 8 4 (sessions_of 8 4 ex_ops) 5 None k with Some c => Some (segments c []) | None => None end)
      [(1, 0); (2, 0); (3, 0)]
  = [Some [(1, 0, 10)]; Some [(2, 0, 3)]; None].
Proof. exact ex_hits_after_crash. Qed.
