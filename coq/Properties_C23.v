(* Properties_C23.v — C23: status-line parsing is correct and segmentation-independent.
   Statements only; proofs live in RespparseProofs.v. *)
Require Import SquidV.Bytes SquidV.TokModel SquidV.RespparseModel SquidV.RespparseProofs.
Require Import SquidV.gen.CharSets_gen SquidV.gen.RespTabs_gen.
Local Open Scope N_scope.

(* For every input, every way of cutting it into segments (empty segments included), both parser
   modes and every header-size limit: the callers' read loop (append segment, parse(), keep
   remaining()) ends in the same outcome as one parse() of the whole input -- the same need-more
   state and retained bytes, or the same accepted fields with the same unconsumed bytes, or the
   same error codes. *)
Theorem C23_segmentation_independent : forall relaxed limit segs, segs <> [] ->
  drive relaxed limit pst0 [] segs = step relaxed limit pst0 (concat segs).
Proof. exact resp_parse_segmentation_independent. Qed.
Print Assumptions C23_segmentation_independent.
