(* handlers for the refresh area (C12).  A step is one token of comma-separated integers:
     now,rt, REQ(11): ignore_cc,has_cc,no_cache,max_age,max_stale,min_fresh,only_if_cached,pragma_no_cache,ims,has_inm,method_other
             REPLY(18): date,has_cc,s_maxage,max_age,has_expires,expires_hdr,age,last_modified,must_revalidate,
                        proxy_revalidate,no_cache,no_cache_params,private,no_store,immutable,pragma_no_cache,strong_etag,content_length
   (-1 = absent for optional values).  A configuration is "default" or 17 comma-separated integers:
     min,max,rule_max_stale,refresh_ims,store_stale,override_expire,override_lastmod,reload_into_ims,ignore_reload,
     ignore_no_store,ignore_private, max_stale,minimum_expiry_time,refresh_all_ims,reload_into_ims,offline,nocache_hack *)
let ints (s : string) : z list = List.map z_of_string (String.split_on_char ',' s)
let zb (v : z) : bool = (v <> Z0)
let zo (v : z) : z option = (match v with Zneg _ -> None | _ -> Some v)
let bz (b : bool) : string = if b then "1" else "0"

let req_of = function
  | [icc; hcc; nc; ma; ms; mf; oic; pnc; ims; inm; mo] ->
    { q_ignore_cc = zb icc; q_has_cc = zb hcc; q_no_cache = zb nc; q_max_age = zo ma; q_max_stale = zo ms;
      q_min_fresh = zo mf; q_only_if_cached = zb oic; q_pragma_no_cache = zb pnc; q_ims = ims; q_has_inm = zb inm;
      q_method_other = zb mo }
  | _ -> failwith "req"
let reply_of = function
  | [date; hcc; sma; ma; hexp; exph; age; lm; mr; pr; nc; ncp; pv; ns; imm; pnc; etag; cl] ->
    { rp_date = date; rp_has_cc = zb hcc; rp_s_maxage = zo sma; rp_max_age = zo ma; rp_has_expires = zb hexp;
      rp_expires_hdr = exph; rp_age = age; rp_last_modified = lm; rp_must_revalidate = zb mr; rp_proxy_revalidate = zb pr;
      rp_no_cache = zb nc; rp_no_cache_params = zb ncp; rp_private = zb pv; rp_no_store = zb ns; rp_immutable = zb imm;
      rp_pragma_no_cache = zb pnc; rp_strong_etag = zb etag; rp_content_length = cl }
  | _ -> failwith "reply"
let rec take n l = if n = 0 then [] else (match l with x :: r -> x :: take (n - 1) r | [] -> failwith "short")
let rec drop n l = if n = 0 then l else (match l with _ :: r -> drop (n - 1) r | [] -> failwith "short")
let step_of (s : string) : step =
  match ints s with
  | now :: rt :: rest when List.length rest = 29 ->
    { s_now = now; s_rt = rt; s_req = req_of (take 11 rest); s_reply = reply_of (drop 11 rest) }
  | _ -> failwith "step"
let cfg_of (s : string) : config =
  if s = "default" then default_config else
  match ints s with
  | [mn; mx; rms; rims; ss; oe; ol; rii; ir; ins; ip; gms; mexp; rai; grii; off; hack] ->
    { c_rule = { r_min = mn; r_max = mx; r_max_stale = rms; r_refresh_ims = zb rims; r_store_stale = zb ss;
                 r_override_expire = zb oe; r_override_lastmod = zb ol; r_reload_into_ims = zb rii; r_ignore_reload = zb ir;
                 r_ignore_no_store = zb ins; r_ignore_private = zb ip };
      c_max_stale = gms; c_min_expiry = mexp; c_refresh_all_ims = zb rai; c_reload_into_ims = zb grii; c_offline = zb off;
      c_nocache_hack = zb hack }
  | _ -> failwith "cfg"
let obs_str = function
  | OHit None -> "hit:-"
  | OHit (Some a) -> "hit:" ^ string_of_z a
  | OReval (ims, inm) -> "reval:" ^ string_of_z ims ^ ":" ^ bz inm
  | OMiss -> "miss"
  | OOnlyIfCached -> "oic"
let cfg_str (c : config) : string =
  (* the directives of the default configuration as the cache manager's config action names them; the last four are
     modelling assumptions (features the model leaves out must be off, and no refresh_pattern line may exist) *)
  String.concat " " [
    "max_stale=" ^ string_of_z c.c_max_stale; "minimum_expiry_time=" ^ string_of_z c.c_min_expiry;
    "refresh_all_ims=" ^ bz c.c_refresh_all_ims; "reload_into_ims=" ^ bz c.c_reload_into_ims; "offline_mode=" ^ bz c.c_offline;
    "negative_ttl=0"; "vary_ignore_expire=0"; "collapsed_forwarding=0"; "refresh_pattern_lines=0" ]

let () =
  reg "refresh.hist" (fun (c :: steps) ->
    let ss = List.map step_of steps in
    let os = if c = "default" then run_default ss else run_with (cfg_of c) ss in
    String.concat " " (List.map obs_str os));
  reg "refresh.config" (fun [] -> "config " ^ cfg_str default_config);
  (* refresh.parse <now> <hex of the response head (for the harness)> <reply(18)>: echoes the reply and appends reply->expires *)
  reg "refresh.parse" (fun [now; _; r] ->
    "parsed " ^ r ^ " " ^ string_of_z (hdr_expiration_time (reply_of (ints r)) (z_of_string now)));
  (* refresh.check <cfg> <entry: timestamp,expires,lastmod,reval_always,reval_stale,immutable> <now> <delta> <req(11)|-> *)
  reg "refresh.check" (fun [c; e; now; delta; q] ->
    match ints e with
    | [ts; exp; lm; ra; rs; imm] ->
      let rp = reply_of (List.map z_of_string ["-1"; bz (zb imm); "-1"; "-1"; "0"; "-1"; "-1"; "-1"; "0"; "0"; "0"; "0"; "0"; "0";
                                               bz (zb imm); "0"; "0"; "-1"]) in
      let en = { e_timestamp = ts; e_expires = exp; e_lastmod = lm; e_reval_always = zb ra; e_reval_stale = zb rs;
                 e_reply = rp; e_rexpires = exp; e_recv = ts } in
      let oq = if q = "-" then None else Some (req_of (ints q)) in
      let (reason, nc) = check_reason (cfg_of c) en oq (z_of_string now) (z_of_string delta) in
      "reason " ^ string_of_z reason ^ " " ^ bz nc
    | _ -> failwith "entry");
  (* refresh.store <reply(18)> <now> <rt>: reply->expires, then timestamp, expires, lastModified() of the new entry *)
  reg "refresh.store" (fun [r; now; rt] ->
    let rp = reply_of (ints r) in
    let e = new_entry rp (z_of_string now) (z_of_string rt) in
    "stored " ^ String.concat " " (List.map string_of_z [e.e_rexpires; e.e_timestamp; e.e_expires; last_modified e]))
