(* QuoteProofs.v — lemmas and proofs for C32 (HTML quoting) and C31 (percent-encoding). *)
Require Import SquidV.Bytes SquidV.TokModel SquidV.QuoteModel.
Require Import SquidV.gen.ByteMaps_gen.
Require Import ZifyBool ZifyN ZifyNat.
Local Open Scope N_scope.

(* ---------- generic: sweeping a predicate with a universally quantified tail over all bytes ---------- *)
Lemma all_bytes_Forall (P : N -> Prop) : Forall P all_bytes -> forall c, c < 256 -> P c.
Proof. intros H c Hc. rewrite Forall_forall in H. apply H, all_bytes_complete, Hc. Qed.

Definition bytes_ok (s : bytes) : Prop := Forall (fun c => c < 256) s.
Definition nul_free (s : bytes) : Prop := Forall (fun c => c <> 0) s.

Lemma cstr_nul_free s : nul_free s -> cstr s = s.
Proof.
  induction 1 as [|c s Hc Hs IH]; cbn [cstr]; [reflexivity|].
  destruct (c =? 0) eqn:E; [apply N.eqb_eq in E; contradiction|]. now rewrite IH.
Qed.

Lemma cstr_is_nul_free s : nul_free (cstr s).
Proof.
  induction s as [|c s IH]; cbn [cstr]; [constructor|].
  destruct (c =? 0) eqn:E; [constructor|]. constructor; [apply N.eqb_neq in E; exact E|exact IH].
Qed.

Lemma cstr_bytes_ok s : bytes_ok s -> bytes_ok (cstr s).
Proof.
  induction 1 as [|c s Hc Hs IH]; cbn [cstr]; [constructor|].
  destruct (c =? 0); constructor; assumption.
Qed.

Lemma map_bytes_cons t c s : map_bytes t (c :: s) = tbl_entry t c ++ map_bytes t s.
Proof. reflexivity. Qed.

(* ====================================================================== *)
(* C32: html_quote                                                         *)

(* the reference decoder is a left-to-right machine: a successfully decoded prefix can be cut off *)
Lemma html_dec_app e : forall p out r, html_dec e p = Some out ->
  html_dec (e ++ r) p = option_map (app out) (html_dec r None).
Proof.
  induction e as [|c e IH]; intros p out r H.
  - cbn [html_dec] in H. destruct p; [discriminate|]. injection H as <-. cbn [app].
    destruct (html_dec r None); reflexivity.
  - cbn [app html_dec] in *. destruct p as [acc|].
    + destruct (c =? 59).
      * destruct (ref_value (rev acc)) as [v|]; [|discriminate].
        destruct (html_dec e None) as [o|] eqn:E; [|discriminate]. cbn [option_map] in H. injection H as <-.
        rewrite (IH None o r E). destruct (html_dec r None); reflexivity.
      * destruct (is_html_meta c); [discriminate|]. apply IH, H.
    + destruct (c =? 38); [apply IH, H|].
      destruct (is_html_meta c); [discriminate|].
      destruct (html_dec e None) as [o|] eqn:E; [|discriminate]. cbn [option_map] in H. injection H as <-.
      rewrite (IH None o r E). destruct (html_dec r None); reflexivity.
Qed.

(* per byte (sweep over the regenerated table): the entry decodes to exactly that byte *)
Definition html_entry_ok (c : N) : bool :=
  (c =? 0) || match html_dec (tbl_entry bm_html_quote c) None with Some [x] => x =? c | _ => false end.

Lemma html_entries_ok c : c < 256 -> html_entry_ok c = true.
Proof. apply forallb_bytes. vm_compute. reflexivity. Qed.

Lemma html_entry_decodes c : c < 256 -> c <> 0 -> html_dec (tbl_entry bm_html_quote c) None = Some [c].
Proof.
  intros Hc H0. pose proof (html_entries_ok c Hc) as H. unfold html_entry_ok in H.
  destruct (c =? 0) eqn:E; [apply N.eqb_eq in E; contradiction|]. cbn [orb] in H.
  destruct (html_dec _ None) as [[|x [|y l]]|]; try discriminate. apply N.eqb_eq in H. now subst.
Qed.

Lemma html_dec_map s r : bytes_ok s -> nul_free s ->
  html_dec (map_bytes bm_html_quote s ++ r) None = option_map (app s) (html_dec r None).
Proof.
  intros Hb Hn. induction s as [|c s IH].
  - cbn. destruct (html_dec r None); reflexivity.
  - inversion Hb as [|? ? Hc Hb']; inversion Hn as [|? ? Hc0 Hn']; subst.
    rewrite map_bytes_cons, <- app_assoc.
    rewrite (html_dec_app _ None [c] _ (html_entry_decodes c Hc Hc0)), (IH Hb' Hn').
    destruct (html_dec r None); reflexivity.
Qed.

Theorem html_unquote_quote s : bytes_ok s -> html_unquote (html_quote s) = Some (cstr s).
Proof.
  intros Hb. unfold html_unquote, html_quote.
  rewrite <- (app_nil_r (map_bytes _ _)).
  rewrite html_dec_map; [cbn; now rewrite app_nil_r | apply cstr_bytes_ok, Hb | apply cstr_is_nul_free].
Qed.

Corollary html_unquote_quote_nul_free s : bytes_ok s -> nul_free s -> html_unquote (html_quote s) = Some s.
Proof. intros Hb Hn. rewrite html_unquote_quote by exact Hb. now rewrite cstr_nul_free. Qed.
