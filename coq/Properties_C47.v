(* Properties_C47.v — C47: helper replies reach the request that asked. Statements only; proofs in AuthhelperProofs.v.
   The reader model (hread = helperHandleRead + helperReturnBuffer + popRequest, one call per read(2) chunk) is in
   AuthhelperModel.v. `spec_stream` is the reading-independent meaning of a reply stream: every complete line, by
   itself, selects the waiting request by the decimal number it starts with (concurrent helpers; the oldest request
   otherwise) and hands it the rest of the line. `dsim` compares callback sequences up to blanks at both ends of
   the reply text; `wf` says that no line of the stream starts with a blank (concurrent protocol). *)
Require Import SquidV.Bytes SquidV.AuthhelperModel SquidV.AuthhelperProofs.
Local Open Scope N_scope.

(* for EVERY request table, EVERY reply stream and EVERY way of cutting it into reads, the callbacks are those of
   the per-line reading: all of them when the helper was not killed meanwhile ("spoke without being spoken to"),
   a prefix of them otherwise *)
Theorem C47_dispatch_follows_lines_for_every_fragmentation : forall c st chunks,
  fresh_st (h_reqs st) st -> wf (hc_conc c) (concat chunks) ->
  (exists k, dsim (snd (hreads c st chunks)) (firstn k (spec_stream (hc_conc c) (h_reqs st) (concat chunks)))) /\
  (h_closed (fst (hreads c st chunks)) = false ->
   dsim (snd (hreads c st chunks)) (spec_stream (hc_conc c) (h_reqs st) (concat chunks))).
Proof. exact dispatch_is_spec. Qed.
Print Assumptions C47_dispatch_follows_lines_for_every_fragmentation.

(* two fragmentations of the same bytes give the same callbacks *)
Theorem C47_fragmentation_independent : forall c st chunks1 chunks2,
  fresh_st (h_reqs st) st -> concat chunks1 = concat chunks2 -> wf (hc_conc c) (concat chunks1) ->
  h_closed (fst (hreads c st chunks1)) = false -> h_closed (fst (hreads c st chunks2)) = false ->
  dsim (snd (hreads c st chunks1)) (snd (hreads c st chunks2)).
Proof. exact fragmentation_independent. Qed.
Print Assumptions C47_fragmentation_independent.

(* a reply is applied only to the request waiting on the channel whose number starts that reply line *)
Theorem C47_reply_applied_to_its_channel : forall c st chunks tag d,
  hc_conc c = true -> fresh_st (h_reqs st) st -> wf true (concat chunks) ->
  In (tag, d) (snd (hreads c st chunks)) ->
  exists l, In l (fst (split_lf (concat chunks))) /\ (0 <= line_number l)%Z /\
            In (Z.to_N (line_number l), tag) (h_reqs st).
Proof. exact reply_applied_to_its_channel. Qed.
Print Assumptions C47_reply_applied_to_its_channel.

(* replies for channels nobody waits on (unknown, already answered, negative) are applied to no request *)
Theorem C47_unknown_channel_dropped : forall c st chunks,
  hc_conc c = true -> fresh_st (h_reqs st) st -> wf true (concat chunks) ->
  (forall l, In l (fst (split_lf (concat chunks))) ->
             (line_number l < 0)%Z \/ forall tag, ~ In (Z.to_N (line_number l), tag) (h_reqs st)) ->
  snd (hreads c st chunks) = [].
Proof. exact unknown_channel_dropped. Qed.
Print Assumptions C47_unknown_channel_dropped.

(* helpers without channels: over any sequence of submissions and reads the callbacks go to the transactions in the
   order in which they asked (`order` = current + sent + queued transactions, oldest first) *)
Theorem C47_nonconcurrent_fifo : forall c ops st,
  hc_conc c = false -> (forall op, In op ops -> op <> HEof) ->
  order st ++ submitted ops = tags (snd (hrun c st ops)) ++ order (fst (hrun c st ops)).
Proof. exact nonconcurrent_fifo. Qed.
Print Assumptions C47_nonconcurrent_fifo.

(* "the request whose channel ID it carries", exactly: the channel a reply line names is the decimal number it
   starts with - however many digits - or no channel at all when that number does not fit an int (/repo 2adec67;
   before that repair the number wrapped modulo 2^32: former finding C47-channel-number-wrapped, now a regression
   scenario of the check) *)
Theorem C47_channel_number_exact : forall ds rest,
  ds <> [] -> forallb isdigit ds = true -> match rest with [] => True | c :: _ => isdigit c = false end ->
  fst (strtol (ds ++ rest)) = dec_exact 0 ds \/
  (fst (strtol (ds ++ rest)) = (-1)%Z /\ (INT_MAX < dec_exact 0 ds)%Z).
Proof. exact channel_number_exact. Qed.
Print Assumptions C47_channel_number_exact.

(* the former witnesses: `4294967298 X` (2^32+2) and `18446744073709551618 X` (2^64+2) call nobody back *)
Theorem C47_out_of_range_channel_number_dropped :
  snd (hreads cfg16 two_waiting [bytes_of [52;50;57;52;57;54;55;50;57;56;32;88;10]%nat]) = [] /\
  snd (hreads cfg16 two_waiting [bytes_of [49;56;52;52;54;55;52;52;48;55;51;55;48;57;53;53;49;54;49;56;32;88;10]%nat]) = [] /\
  line_number (bytes_of [52;50;57;52;57;54;55;50;57;56;32;88]%nat) = (-1)%Z.
Proof. exact out_of_range_channel_number_dropped. Qed.
Print Assumptions C47_out_of_range_channel_number_dropped.

(* REFUTED: exact equality of the reply text under fragmentation. `1 OK CR LF` in one read gives the text `OK`,
   cut between CR and LF it gives `OK CR`, which Helper::Reply::finalize does not recognise as OK
   (known finding C47-crlf-split-result, replayed against the running proxy) *)
Theorem C47_crlf_cut_changes_text_refuted :
  let one := snd (hreads cfg16 two_waiting [bytes_of [49;32;79;75;13;10]%nat]) in
  let two := snd (hreads cfg16 two_waiting [bytes_of [49;32;79;75;13]%nat; bytes_of [10]%nat]) in
  one = [(1, Some (bytes_of [79;75]%nat))] /\ two = [(1, Some (bytes_of [79;75;13]%nat))] /\
  fst (fst (finalize (bytes_of [79;75]%nat))) = ROkay /\ fst (fst (finalize (bytes_of [79;75;13]%nat))) = RUnknown.
Proof. exact crlf_cut_changes_text. Qed.
Print Assumptions C47_crlf_cut_changes_text_refuted.

(* REFUTED without the `wf` hypothesis: a line that starts with a blank is channel 1's reply when read at once and
   is read as channel 0 (dropped) when the read ends after the blank *)
Theorem C47_leading_blank_cut_refuted :
  snd (hreads cfg16 two_waiting [bytes_of [32;49;32;79;75;10]%nat]) = [(1, Some (bytes_of [79;75]%nat))] /\
  snd (hreads cfg16 two_waiting [bytes_of [32]%nat; bytes_of [49;32;79;75;10]%nat]) = [].
Proof. exact leading_blank_cut_changes_channel. Qed.
Print Assumptions C47_leading_blank_cut_refuted.

(* the hypotheses are satisfiable: two requests waiting on channels 1 and 2; a stream cut inside a line, answering
   out of order, with a CR LF terminator *)
Example C47_example_state : fresh_st (h_reqs two_waiting) two_waiting /\ h_reqs two_waiting = [(1, 1); (2, 2)].
Proof. exact two_waiting_fresh. Qed.
Example C47_example_stream :
  wf true (concat [bytes_of [50;32;79]%nat; bytes_of [75;10;49]%nat; bytes_of [32;69;82;82;13;10]%nat]) /\
  snd (hreads cfg16 two_waiting [bytes_of [50;32;79]%nat; bytes_of [75;10;49]%nat; bytes_of [32;69;82;82;13;10]%nat])
  = [(2, Some (bytes_of [79;75]%nat)); (1, Some (bytes_of [69;82;82]%nat))].
Proof. exact example_stream_wf. Qed.
