(* B64Model.v — executable model of the base64 coder bundled in /repo/lib/base64.cc
   (a copy of Nettle 3.4; the libnettle linked into this build has the same tables, see
   Properties_C36.v) and of the Basic credential decoding in
   /repo/src/auth/basic/Config.cc (decodeCleartext + the user/password split in decode()).
   Definitions only; a transcription of the code that exists, quirks included:
     - the decoder context is {unsigned short word; unsigned char bits; unsigned char padding};
       word is truncated to 16 bits on every store, bits/padding wrap at 256;
     - decode_single writes nothing on error, decode_update stops at the first error but the
       bytes stored before it stay written;
     - two decoders are modelled, selected by the flag [nettle]: the bundled copy of /repo HEAD
       (after bb5de60: '=' refused when padding >= 2) and the libnettle 3.8 decoder this build
       links (the same code with the older test padding > 2 made *before* the increment, so a
       third '=' is accepted when a single 6-bit symbol of value 0 is buffered: "A===");
     - encode_raw fills its output backwards from the end;
     - encode_update runs single-byte steps while bits are buffered, then a bulk encode_raw
       over a multiple of three bytes (which does not touch ctx->word), then single-byte steps;
     - decodeCleartext (after 06c1c79) refuses decoded credentials containing a NUL, then works
       on C strings; it calls whatever base64_decode_* the build links (libnettle here). *)
Require Import SquidV.Bytes.
Require Import SquidV.gen.Base64_gen.
Local Open Scope N_scope.

(* ------------------------------------------------------------------ *)
(* tables (regenerated from the code on every run)                      *)

(* ENCODE(alphabet,x) ((alphabet)[0x3F & (x)]) *)
Definition ENC (x : N) : N := tbl_get 0 b64_enc_tbl (N.land 63 x).

(* ctx->table[(uint8_t) src] *)
Definition dec_lookup (src : N) : Z := tbl_get (-1)%Z b64_dec_tbl (src mod 256).

Definition TABLE_INVALID : Z := (-1)%Z.
Definition TABLE_SPACE : Z := (-2)%Z.
Definition TABLE_END : Z := (-3)%Z.
Definition PAD : N := 61. (* '=' *)

(* length macros of include/base64.h *)
Definition BASE64_ENCODE_LENGTH (n : N) : N := (n * 8 + 4) / 6.
Definition BASE64_ENCODE_FINAL_LENGTH : N := 3.
Definition BASE64_ENCODE_RAW_LENGTH (n : N) : N := ((n + 2) / 3) * 4.
Definition BASE64_DECODE_LENGTH (n : N) : N := ((n + 1) * 6) / 8.
Definition base64_encode_len (n : N) : N := BASE64_ENCODE_LENGTH n + BASE64_ENCODE_FINAL_LENGTH + 1.

(* ------------------------------------------------------------------ *)
(* decoder                                                              *)

Record dctx := mkD { d_word : N; d_bits : N; d_pad : N }.
Definition dctx_init : dctx := mkD 0 0 0.

Inductive sres := SErr | SNone | SByte (b : N) | SAbort.

(* '=' seen with [pad] padding characters counted so far: refused?
   bundled (lib/base64.cc HEAD): ctx->padding >= 2      libnettle 3.8: ctx->padding > 2 *)
Definition pad_full (nettle : bool) (pad : N) : bool := if nettle then 2 <? pad else 2 <=? pad.

(* base64_decode_single *)
Definition decode_single (nettle : bool) (ctx : dctx) (src : N) : dctx * sres :=
  let data := dec_lookup src in
  if (data =? TABLE_INVALID)%Z then (ctx, SErr)
  else if (data =? TABLE_SPACE)%Z then (ctx, SNone)
  else if (data =? TABLE_END)%Z then
    (* There can be at most two padding characters. *)
    if (d_bits ctx =? 0) || pad_full nettle (d_pad ctx) then (ctx, SErr)
    else if negb (N.land (d_word ctx) (N.shiftl 1 (d_bits ctx) - 1) =? 0) then (ctx, SErr)
    else (mkD (d_word ctx) ((d_bits ctx + 254) mod 256) ((d_pad ctx + 1) mod 256), SNone)
  else if ((0 <=? data) && (data <? 64))%Z then   (* default: assert(data >= 0 && data < 0x40) *)
    if negb (d_pad ctx =? 0) then (ctx, SErr)
    else
      let word := (N.lor (N.shiftl (d_word ctx) 6) (Z.to_N data)) mod 65536 in
      let bits := (d_bits ctx + 6) mod 256 in
      if 8 <=? bits then
        let bits' := bits - 8 in
        (mkD word bits' (d_pad ctx), SByte ((N.shiftr word bits') mod 256))
      else (mkD word bits (d_pad ctx), SNone)
  else (ctx, SAbort).

(* result of one base64_decode_update call: the bytes stored at dst[0..done) are reported in
   both cases, because on error they have been written all the same *)
Inductive ures := UOk (out : bytes) | UFail (written : bytes) | UAbort (written : bytes).

Definition ucons (b : N) (u : ures) : ures :=
  match u with UOk o => UOk (b :: o) | UFail w => UFail (b :: w) | UAbort w => UAbort (b :: w) end.

Definition uwritten (u : ures) : bytes :=
  match u with UOk o => o | UFail w => w | UAbort w => w end.

(* base64_decode_update *)
Fixpoint decode_update (nettle : bool) (ctx : dctx) (src : bytes) : dctx * ures :=
  match src with
  | [] => (ctx, UOk [])
  | c :: r =>
    match decode_single nettle ctx c with
    | (ctx', SErr) => (ctx', UFail [])
    | (ctx', SAbort) => (ctx', UAbort [])
    | (ctx', SNone) => decode_update nettle ctx' r
    | (ctx', SByte b) => let '(c2, u) := decode_update nettle ctx' r in (c2, ucons b u)
    end
  end.

(* base64_decode_final *)
Definition decode_final (ctx : dctx) : bool := d_bits ctx =? 0.

(* init; one update; final  (what every caller in squid does) *)
Definition b64_decode (nettle : bool) (src : bytes) : option bytes :=
  match decode_update nettle dctx_init src with
  | (c, UOk o) => if decode_final c then Some o else None
  | _ => None
  end.

(* init; one update per chunk (stopping at the first failing one); final *)
Inductive dres := DOk (out : bytes) | DTrunc (out : bytes) | DRej (written : bytes) | DAbort.
Fixpoint decode_chunks (nettle : bool) (ctx : dctx) (chunks : list bytes) (acc : bytes) : dres :=
  match chunks with
  | [] => if decode_final ctx then DOk acc else DTrunc acc
  | s :: r =>
    match decode_update nettle ctx s with
    | (c, UOk o) => decode_chunks nettle c r (acc ++ o)
    | (_, UFail w) => DRej (acc ++ w)
    | (_, UAbort _) => DAbort
    end
  end.

(* ------------------------------------------------------------------ *)
(* encoder                                                              *)

(* static encode_raw: output produced back to front.  [rsrc] is the not yet consumed part of the
   input, reversed (the code walks `in` down from src+length to src three bytes at a time) *)
Fixpoint raw_loop (rsrc : bytes) (acc : bytes) : bytes :=
  match rsrc with
  | i2 :: i1 :: i0 :: r =>
      raw_loop r (ENC (N.shiftr i0 2)
                  :: ENC (N.lor (N.shiftl i0 4) (N.shiftr i1 4))
                  :: ENC (N.lor (N.shiftl i1 2) (N.shiftr i2 6))
                  :: ENC i2 :: acc)
  | _ => acc  (* in == src *)
  end.

Definition encode_raw (src : bytes) : bytes :=
  let left_over := lenN src mod 3 in
  let r := rev_append src [] in   (* = rev src; walks the input from its end *)
  if left_over =? 0 then raw_loop r []
  else if left_over =? 1 then
    match r with
    | i0 :: r' => raw_loop r' [ENC (N.shiftr i0 2); ENC (N.shiftl i0 4); PAD; PAD]
    | _ => []
    end
  else
    match r with
    | i1 :: i0 :: r' =>
        raw_loop r' [ENC (N.shiftr i0 2); ENC (N.lor (N.shiftl i0 4) (N.shiftr i1 4));
                     ENC (N.shiftl i1 2); PAD]
    | _ => []
    end.

Record ectx := mkE { e_word : N; e_bits : N }.
Definition ectx_init : ectx := mkE 0 0.

(* while (bits >= 6) { bits -= 6; dst[done++] = ENCODE(word >> bits); }
   fuel = bits is always enough (bits strictly decreases); see enc_emit_fuel in B64Proofs *)
Fixpoint enc_emit (fuel : nat) (word bits : N) : bytes * N :=
  match fuel with
  | O => ([], bits)
  | S f => if 6 <=? bits
           then let bits' := bits - 6 in
                let '(o, b) := enc_emit f word bits' in (ENC (N.shiftr word bits') :: o, b)
           else ([], bits)
  end.

(* base64_encode_single: unsigned word = ctx->word << 8 | src; unsigned bits = ctx->bits + 8 *)
Definition encode_single (ctx : ectx) (src : N) : bytes * ectx :=
  let word := N.lor (N.shiftl (e_word ctx) 8) (src mod 256) in
  let bits := e_bits ctx + 8 in
  let '(o, bits') := enc_emit (N.to_nat bits) word bits in
  (o, mkE (word mod 65536) (bits' mod 256)).

Fixpoint enc_singles (ctx : ectx) (src : bytes) : bytes * ectx :=
  match src with
  | [] => ([], ctx)
  | s :: r => let '(o, c1) := encode_single ctx s in
              let '(o2, c2) := enc_singles c1 r in (o ++ o2, c2)
  end.

(* while (ctx->bits && left) { left--; done += base64_encode_single(ctx, dst + done, *src++); } *)
Fixpoint enc_phase1 (ctx : ectx) (src : bytes) : bytes * ectx * bytes :=
  match src with
  | [] => ([], ctx, [])
  | s :: r => if e_bits ctx =? 0 then ([], ctx, src)
              else let '(o, c1) := encode_single ctx s in
                   let '(o2, c2, rest) := enc_phase1 c1 r in (o ++ o2, c2, rest)
  end.

(* base64_encode_update *)
Definition encode_update (ctx : ectx) (src : bytes) : bytes * ectx :=
  let '(o1, c1, rest) := enc_phase1 ctx src in
  let left := lenN rest in
  let left_over := left mod 3 in
  let bulk := left - left_over in
  let o2 := if bulk =? 0 then [] else encode_raw (takeN bulk rest) in
  let '(o3, c3) := enc_singles c1 (dropN bulk rest) in
  (o1 ++ o2 ++ o3, c3).

(* for (; bits < 6; bits += 2) dst[done++] = '='; *)
Fixpoint pad_loop (fuel : nat) (bits : N) : bytes :=
  match fuel with
  | O => []
  | S f => if bits <? 6 then PAD :: pad_loop f (bits + 2) else []
  end.

(* base64_encode_final *)
Definition encode_final (ctx : ectx) : bytes * ectx :=
  if e_bits ctx =? 0 then ([], ctx)
  else (ENC (N.shiftl (e_word ctx) (6 - e_bits ctx)) :: pad_loop 3 (e_bits ctx), mkE (e_word ctx) 0).

(* init; one update per chunk; final *)
Fixpoint encode_chunks (ctx : ectx) (chunks : list bytes) : bytes :=
  match chunks with
  | [] => fst (encode_final ctx)
  | s :: r => let '(o, c) := encode_update ctx s in o ++ encode_chunks c r
  end.

Definition b64_encode (src : bytes) : bytes := encode_chunks ectx_init [src].

(* ------------------------------------------------------------------ *)
(* Basic credentials: Auth::Basic::Config::decodeCleartext and the split in ::decode()    *)

Definition xisgraph (c : N) : bool := (33 <=? c) && (c <=? 126).
Definition xisspace (c : N) : bool := ((9 <=? c) && (c <=? 13)) || (c =? 32).
Definition xtolower (c : N) : N := if (65 <=? c) && (c <=? 90) then c + 32 else c.

(* a char* seen as a C string: the bytes before the first NUL *)
Definition cstr (s : bytes) : bytes := fst (span (fun c => negb (c =? 0)) s).

(* strtok(eek, "\n") followed by strlen(eek): leading delimiters are skipped, the first
   delimiter after the token is overwritten with NUL; eek itself still starts at the old place *)
Definition strtok_nl_strlen (eek : bytes) : bytes :=
  let '(lead, rest) := span (fun c => c =? 10) eek in
  lead ++ fst (span (fun c => negb (c =? 10)) rest).

(* decodeCleartext with utf8 == false; None = nullptr.  [nettle] = which base64_decode_* is linked *)
Definition decodeCleartext (nettle : bool) (httpAuthHeader : bytes) : option bytes :=
  let h := cstr httpAuthHeader in
  let p1 := snd (span xisgraph h) in          (* trim BASIC from string *)
  let p2 := snd (span xisspace p1) in         (* trim leading whitespace *)
  let eek := strtok_nl_strlen p2 in
  match b64_decode nettle eek with
  | Some cleartext =>
      (* if (memchr(cleartext, '\0', dstLen)) return nullptr; *)
      if existsb (fun c => c =? 0) cleartext then None else
      let ct := cstr cleartext in              (* cleartext[dstLen] = '\0'; C string from here on *)
      (* strcspn(cleartext, "\r\n") != strlen(cleartext) *)
      if existsb (fun c => (c =? 13) || (c =? 10)) ct then None else Some ct
  | None => None
  end.

(* decode(): strchr(cleartext, ':'), *separator = 0, passwd = xstrdup(separator+1),
   Tolower(cleartext) unless casesensitive, empty password dropped.
   Result: None when there is no cleartext; else (username, passwd or None) *)
Definition basic_split (casesensitive : bool) (ct : bytes) : bytes * option bytes :=
  let '(u, rest) := span (fun c => negb (c =? 58)) ct in
  let user := if casesensitive then u else map xtolower u in
  match rest with
  | [] => (user, None)                                  (* no password in header *)
  | _ :: pw => (user, match pw with [] => None | _ => Some pw end)  (* empty password disallowed *)
  end.

Definition basic_decode (nettle casesensitive : bool) (hdr : bytes) : option (bytes * option bytes) :=
  match decodeCleartext nettle hdr with
  | None => None
  | Some ct => Some (basic_split casesensitive ct)
  end.
