(* Properties_C55.v — C55 (placeholder while the development is being built) *)
Require Import SquidV.Bytes SquidV.RwlockModel SquidV.RwlockProofs SquidV.StoremapModel SquidV.StoremapProofs.
Local Open Scope Z_scope.

Theorem C55_reach_nil : forall n scripts, sreach n scripts [] = sinit n scripts.
Proof. exact sreach_nil. Qed.
Print Assumptions C55_reach_nil.
