(* handlers for the respparse area (Http::One::ResponseParser, C23) *)
let stage_s = function SNone -> "N" | SFirst -> "F" | SMime -> "M" | SDone -> "D"
let proto_s = function PNone -> "none" | PHttp -> "http" | PIcy -> "icy"
(* one observation: return value and every member of the parser after a parse() call *)
let obs ((ok, s), rem) =
  String.concat "," [ b2s ok; stage_s s.p_stage; proto_s s.p_proto; string_of_n s.p_major; string_of_n s.p_minor;
                      b2s s.p_completed; string_of_n s.p_status; hex_of_bytes s.p_reason; hex_of_bytes s.p_mime;
                      string_of_n s.p_code; string_of_n (first_line_size s); hex_of_bytes rem ]
let rec last = function [x] -> x | _ :: r -> last r | [] -> failwith "empty"
let rec drop k l = if k = 0 then l else match l with [] -> [] | _ :: r -> drop (k - 1) r

let () =
  (* resp.parse <relaxed> <limit> <seg>+ : one-shot parse of the concatenation and the callers' incremental loop *)
  reg "resp.parse" (fun (rel :: lim :: segs) ->
      let relaxed = (rel = "1") in
      let limit = n_of_string lim in
      let segs = List.map bytes_of_hex segs in
      let whole = List.concat segs in
      let w = parse relaxed limit pst0 whole in
      let tr = drive_trace relaxed limit pst0 [] segs in
      let ((_, sl), reml) = last tr in
      let rest = if needs_more sl then reml else reml @ List.concat (drop (List.length tr) segs) in
      "W=" ^ obs w ^ " I=" ^ String.concat ";" (List.map obs tr) ^ " R=" ^ hex_of_bytes rest);
  reg "resp.status" (fun [rel; inp] ->
      match parse_status (rel = "1") (bytes_of_hex inp) with
      | PSok (v, r) -> "ok " ^ string_of_n v ^ " " ^ hex_of_bytes r
      | PSmore -> "more 0"
      | PSbad (Some v) -> "bad " ^ string_of_n v
      | PSbad None -> "bad 0");
  reg "resp.hend" (fun [inp] -> let (e, f) = headers_end (bytes_of_hex inp) in string_of_n e ^ " " ^ b2s f);
  reg "resp.clean" (fun [inp] -> hex_of_bytes (clean_mime_prefix (bytes_of_hex inp)));
  reg "resp.unfold" (fun [inp] -> hex_of_bytes (unfold_mime (bytes_of_hex inp)))
