(* Incremental.v — segmentation independence of restartable parsers, proved once.

   A restartable parser is a function  P : St -> bytes -> res  where a call sees
   the bytes retained by the previous call followed by the newly arrived bytes:
     Done r rest   the unit is complete; rest = unconsumed bytes
     Bad e         definitive rejection
     More s keep   more input needed; s = parser state, keep = what the caller
                   retains (remaining()) and prefixes to the next read.
   If, for the parser states satisfying an invariant [Inv] (take [fun _ => True] when
   none is needed) and on the inputs admitted by a side condition [Good] (for
   instance "no longer than the buffer type can hold"; again [fun _ => True] if none),
     (i)  definitive outcomes are stable under extension of the input, and
     (ii) a More checkpoint commutes with extension (the new state satisfies Inv and
          what is retained stays Good),
   then the caller's read loop over ANY segmentation of an input ends in exactly
   the outcome of a single call on the whole input.

   Used by C21 (request parser); written so that C23 (response parser), C24
   (chunked decoder), C38 (PROXY header) can instantiate it. *)
Require Import SquidV.Bytes.

Section Incremental.
  Variables St R E : Type.

  Inductive res :=
  | Done (r : R) (rest : bytes)
  | Bad (e : E)
  | More (s : St) (keep : bytes).

  Variable P : St -> bytes -> res.
  Variable Inv : St -> Prop.
  Variable Good : bytes -> Prop.

  Definition stable_done : Prop :=
    forall s b r rest x, Inv s -> Good (b ++ x) -> P s b = Done r rest -> P s (b ++ x) = Done r (rest ++ x).
  Definition stable_bad : Prop :=
    forall s b e x, Inv s -> Good (b ++ x) -> P s b = Bad e -> P s (b ++ x) = Bad e.
  Definition checkpoint_commutes : Prop :=
    forall s b s' keep x, Inv s -> Good (b ++ x) -> P s b = More s' keep ->
      P s (b ++ x) = P s' (keep ++ x) /\ Inv s' /\ Good (keep ++ x).

  (* the caller's loop: retained bytes ++ next segment; segments after a
     definitive outcome are never looked at and stay behind the rest *)
  Fixpoint drive (s : St) (keep : bytes) (segs : list bytes) : res :=
    match segs with
    | [] => More s keep
    | x :: more =>
        match P s (keep ++ x) with
        | Done r rest => Done r (rest ++ concat more)
        | Bad e => Bad e
        | More s' keep' => drive s' keep' more
        end
    end.

  Hypothesis Hdone : stable_done.
  Hypothesis Hbad : stable_bad.
  Hypothesis Hmore : checkpoint_commutes.

  Theorem drive_cons_oneshot : forall more s keep x,
    Inv s -> Good (keep ++ x ++ concat more) ->
    drive s keep (x :: more) = P s (keep ++ x ++ concat more).
  Proof.
    induction more as [|y more IH]; intros s keep x HI HG.
    - cbn [drive concat]. rewrite app_nil_r.
      destruct (P s (keep ++ x)) as [r rest|e|s' keep']; [now rewrite app_nil_r| reflexivity | reflexivity].
    - cbn [drive]. cbn [drive] in IH.
      assert (HG' : Good ((keep ++ x) ++ concat (y :: more))) by (rewrite <- app_assoc; exact HG).
      destruct (P s (keep ++ x)) as [r rest|e|s' keep'] eqn:HP.
      + pose proof (Hdone s (keep ++ x) r rest (concat (y :: more)) HI HG' HP) as G.
        rewrite <- app_assoc in G. symmetry. exact G.
      + pose proof (Hbad s (keep ++ x) e (concat (y :: more)) HI HG' HP) as G.
        rewrite <- app_assoc in G. symmetry. exact G.
      + destruct (Hmore s (keep ++ x) s' keep' (concat (y :: more)) HI HG' HP) as (G & Gi & Gk).
        cbn [concat] in Gk. rewrite (IH s' keep' y Gi Gk).
        rewrite <- app_assoc in G. symmetry. exact G.
  Qed.

  (* any non-empty list of segments, starting from any state / retained bytes *)
  Theorem drive_oneshot : forall segs s keep, segs <> [] -> Inv s -> Good (keep ++ concat segs) ->
    drive s keep segs = P s (keep ++ concat segs).
  Proof.
    intros [|x more] s keep H HI HG; [congruence|]. cbn [concat] in *. apply drive_cons_oneshot; assumption.
  Qed.

  (* a parser that has asked for more data asks for the same when re-run on what it retained *)
  Lemma more_idempotent : forall s b s' keep, Inv s -> Good b -> P s b = More s' keep -> P s' keep = More s' keep.
  Proof.
    intros s b s' keep HI HG H. rewrite <- (app_nil_r b) in HG.
    destruct (Hmore s b s' keep [] HI HG H) as [G _].
    rewrite !app_nil_r in G. congruence.
  Qed.

  (* every segmentation of the same bytes gives the same outcome *)
  Theorem drive_segmentation_irrelevant : forall segs1 segs2 s keep,
    segs1 <> [] -> segs2 <> [] -> concat segs1 = concat segs2 -> Inv s -> Good (keep ++ concat segs1) ->
    drive s keep segs1 = drive s keep segs2.
  Proof.
    intros segs1 segs2 s keep H1 H2 Hc HI HG.
    rewrite (drive_oneshot segs1) by assumption.
    rewrite (drive_oneshot segs2) by (try assumption; rewrite <- Hc; exact HG).
    now rewrite Hc.
  Qed.
End Incremental.

Arguments Done {St R E}.
Arguments Bad {St R E}.
Arguments More {St R E}.
