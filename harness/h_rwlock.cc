// Harness for C54: the real Ipc::ReadWriteLock (src/ipc/ReadWriteLock.cc compiled
// unmodified from /repo's working tree with `-include sched_atomic.h`) driven by
// 1..8 cooperative threads under an explicit schedule.
//
// case line:  rw.run <n> <script_0> ... <script_{n-1}> <schedule>
//   script   = string over  S s X x H h D U A a   ('-' = empty)
//              S lockShared            s unlockShared
//              X lockExclusive         x unlockExclusive
//              H lockHeaders           h unlockHeaders
//              D switchExclusiveToShared            (downgrade)
//              U unlockSharedAndSwitchToExclusive   (upgrade)
//              A startAppending        a stopAppendingAndRestoreExclusive
//   schedule = string of thread digits ('-' = empty); one digit = the named thread
//              performs ONE scheduling step: either its "use" step (between two
//              method calls: the holder looks at the protected data, then picks
//              its next legal operation) or one atomic operation inside a method.
//
// Each thread is a client that follows the documented protocol: it keeps a mode
// (I idle, S shared, H shared+headers, X exclusive, A exclusive in append mode,
// B writer whose stopAppending() answered "not exclusive") and skips script
// operations that are not legal in its mode (e.g. unlockShared without a lock).
//
// result line: events in global order, then the final raw lock fields, the
// final modes and the result of probing the lock single-threaded:
//   <t><op>+ / <t><op>-   method returned true / false      <t><op>.  void method returned
//   <t>@<mode>            use step of a thread in <mode> (its hold of <mode> ends here)
//   <t>!<mode>            thread ended (script exhausted) still in <mode>
//   <t>#                  an assert() of ReadWriteLock.cc failed in thread t (thread ends)
//   | R=<readers> W=<writing> A=<appending> U=<updating> rl=<readLevel> wl=<writeLevel>
//   | m=<modes> | p=<X><S><H>   (+/- results of lockExclusive, lockShared, lockHeaders tried alone, each undone)
#include "squid.h"
#define private public
#include "ipc/ReadWriteLock.h"
#undef private
#include "hcommon.h"
#include <new>

// squid's assert() -> xassert(); here a failed assertion ends the calling thread
struct AssertFailed {
    const char *msg;
};
extern "C" void xassert(const char *msg, const char *, int) { throw AssertFailed{msg}; }
// ReadWriteLockStats::dump() (never called here) needs this symbol
class StoreEntry;
void storeAppendPrintf(StoreEntry *, const char *, ...) {}

enum Mode { I, S, H, X, A, B };
static const char ModeChar[] = "ISHXAB";

static bool legal(Mode m, char o) {
    switch (m) {
    case I: return o == 'S' || o == 'X' || o == 'H';
    case S: return o == 's' || o == 'U';
    case H: return o == 'h';
    case X: return o == 'x' || o == 'D' || o == 'A';
    case A: return o == 'x' || o == 'D' || o == 'a';
    case B: return o == 'x' || o == 'D' || o == 'A';
    }
    return false;
}

struct Case {
    Ipc::ReadWriteLock *lock;
    std::vector<std::string> scripts;
    std::vector<Mode> mode;
    std::vector<bool> crashed;
    std::string log;
};

static void ev(Case &c, int t, char a, char b) {
    if (!c.log.empty())
        c.log.push_back(' ');
    c.log.push_back(static_cast<char>('0' + t));
    c.log.push_back(a);
    if (b)
        c.log.push_back(b);
}

static void client(Case &c, int t) {
    Ipc::ReadWriteLock &lock = *c.lock;
    const std::string &script = c.scripts[t];
    Mode &m = c.mode[t];
    size_t ip = 0;
    try {
        for (;;) {
            verif_sched::point(); // the use step
            while (ip < script.size() && !legal(m, script[ip]))
                ++ip;
            if (ip == script.size()) {
                ev(c, t, '!', ModeChar[m]);
                return;
            }
            ev(c, t, '@', ModeChar[m]);
            const char o = script[ip++];
            bool r = true;
            char shown = '.';
            switch (o) {
            case 'S': r = lock.lockShared(); shown = r ? '+' : '-'; m = r ? S : I; break;
            case 's': lock.unlockShared(); m = I; break;
            case 'X': r = lock.lockExclusive(); shown = r ? '+' : '-'; m = r ? X : I; break;
            case 'x': lock.unlockExclusive(); m = I; break;
            case 'H': r = lock.lockHeaders(); shown = r ? '+' : '-'; m = r ? H : I; break;
            case 'h': lock.unlockHeaders(); m = I; break;
            case 'D': lock.switchExclusiveToShared(); m = S; break;
            case 'U': r = lock.unlockSharedAndSwitchToExclusive(); shown = r ? '+' : '-'; m = r ? X : I; break;
            case 'A': lock.startAppending(); m = A; break;
            case 'a': r = lock.stopAppendingAndRestoreExclusive(); shown = r ? '+' : '-'; m = r ? X : B; break;
            }
            ev(c, t, o, shown);
        }
    } catch (const AssertFailed &) {
        c.crashed[t] = true;
        ev(c, t, '#', 0);
    } catch (...) {
        c.crashed[t] = true;
        ev(c, t, '#', '?');
    }
}

int main() {
    std::string line;
    verif_sched::Scheduler sched;
    while (std::getline(std::cin, line)) {
        auto a = splitws(line);
        if (a.empty()) { std::cout << "\n"; continue; }
        std::ostringstream o;
        try {
            if (a[0] == "rw.run" && a.size() >= 3) {
                const int n = std::stoi(a[1]);
                if (n < 1 || n > 8 || a.size() != static_cast<size_t>(n) + 3) {
                    o << "ERR bad-args";
                } else {
                    Case c;
                    // like squid: the lock lives in zero-filled (shared) memory and is
                    // constructed in place; its constructor does not initialise `updating`
                    void *mem = calloc(1, sizeof(Ipc::ReadWriteLock));
                    c.lock = new (mem) Ipc::ReadWriteLock();
                    for (int i = 0; i < n; ++i)
                        c.scripts.push_back(a[2 + i] == "-" ? std::string() : a[2 + i]);
                    c.mode.assign(n, I);
                    c.crashed.assign(n, false);
                    std::vector<int> schedule;
                    if (a[2 + n] != "-")
                        for (char ch : a[2 + n])
                            schedule.push_back(ch - '0');
                    const bool finished = sched.run(n, [&c](int t) { client(c, t); }, schedule);
                    o << (c.log.empty() ? "-" : c.log);
                    if (!finished)
                        o << " LIVELOCK";
                    Ipc::ReadWriteLock &l = *c.lock;
                    o << " | R=" << l.readers.v << " W=" << (l.writing.v ? 1 : 0) << " A=" << (l.appending.v ? 1 : 0)
                      << " U=" << (l.updating.v ? 1 : 0) << " rl=" << l.readLevel.v << " wl=" << l.writeLevel.v;
                    o << " | m=";
                    for (int i = 0; i < n; ++i)
                        o << (c.crashed[i] ? '#' : ModeChar[c.mode[i]]);
                    // probe, single-threaded (no scheduler: operations execute directly)
                    o << " | p=";
                    try {
                        bool r = l.lockExclusive();
                        o << (r ? '+' : '-');
                        if (r) l.unlockExclusive();
                        r = l.lockShared();
                        o << (r ? '+' : '-');
                        if (r) l.unlockShared();
                        r = l.lockHeaders();
                        o << (r ? '+' : '-');
                        if (r) l.unlockHeaders();
                    } catch (const AssertFailed &) {
                        o << '#';
                    }
                    o << " | steps=" << sched.steps;
                    l.~ReadWriteLock();
                    free(mem);
                }
            } else
                o << "ERR unknown-entry " << a[0];
        } catch (const std::exception &e) { o.str(""); o << "EXC " << e.what(); }
        std::cout << o.str() << "\n" << std::flush;
    }
    return 0;
}
