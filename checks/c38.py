"""C38: PROXY protocol headers are parsed faithfully and incrementally."""
import atexit, ipaddress, os, random, re, subprocess
from vlib import std, hbuild, coq, common

PID = "C38"
META = {
    "text": "29 theorems (Properties_C38.v, all closed under the global context) about a line-by-line Gallina model of "
            "ProxyProtocol::Parse (magic dispatch, v1 line isolator with the 107-byte rule, v1 field parsers through the "
            "Tokenizer int64/prefix models, v2 via BinaryTokenizer, TLV loop, Header::addressFamily/getValues): for ALL "
            "inputs and ANY IP text conversion, a definitive outcome (parsed header + size, or rejection) of a prefix is "
            "the outcome of every extension, so only 'need more' can change, and the consumed size lies within the prefix; "
            "decode(encode(fields)) = fields with consumed = header length for all well-formed v1 TCP4/TCP6/UNKNOWN lines "
            "(ports as arbitrary digit strings <= 65535, and as canonical decimals by a sweep over all 65536 ports) and "
            "all v2 headers (INET/INET6/UNIX/UNSPEC, PROXY/LOCAL, STREAM/DGRAM, any TLV list) followed by arbitrary "
            "bytes; oversized v1 lines, ports > 65535 of ANY digit count or non-numeric, family mismatches, bad v2 "
            "version/command/family/protocol, short v2 address blocks, 12+ non-magic bytes and (since the repair "
            "ea1b14e) any bytes after the v1 destination port are rejected; conversely every input reported as a v1 "
            "header with addresses starts with a well-formed TCP line whose fields are the reported ones "
            "(C38_v1_accepted_line_is_wellformed). One deviation of the real code is proved as a _refuted theorem and "
            "reproduced on the implementation (known finding): well-formed v1 TCP6 lines carrying "
            "v4-mapped IPv6 addresses are rejected (hence C38_v1_tcp_roundtrip_partial). The model is tied to the code "
            "by regenerated constants (magic strings, enumerators, HEXDIG/CR sets, in_addr sizes) and by differential "
            "runs of the extracted model against src/proxyp/*.cc, src/parser/BinaryTokenizer.cc and Tokenizer.cc "
            "compiled from the working tree (UBSan) on every prefix of generated and mutated headers; an independent "
            "strict reference decoder of the PROXY specification is the oracle on the implementation's answers.",
    "note": "IP text conversion (Ip::Address::GetHostByName -> getaddrinfo) is not modelled: it is a Section variable "
            "of the model; for correspondence its answers are obtained from the real function through the harness "
            "('ip' entry) and passed to the extracted model with each case. Trusted: Coq kernel, extraction, "
            "gen/gen_proxyp.cc, harness/h_proxyp.cc; the hand-written ProxypModel.v is validated against the code only "
            "on the generated cases. Rejection reasons (exception texts) are not compared, only the fact of rejection. "
            "Finding outside the model (reproduced by hand, not by this check, needs a DNS server on the resolver address): "
            "One::ExtractIp calls GetHostByName without AI_NUMERICHOST, so a v1 address field made of hex letters and "
            "dots (`PROXY TCP4 abc.de 1.2.3.4 1 2`) is looked up in the DNS from inside the parser (blocking): with a "
            "resolver answering A=9.9.9.9 the line is ACCEPTED with source 9.9.9.9; with a resolver that fails first and "
            "answers later, the 31-byte prefix is rejected and the 32-byte prefix is parsed, i.e. the real conversion is "
            "not a function of the bytes, which is exactly what the theorems assume of ipf. In this sandbox lookups "
            "fail at once and such lines are rejected.",
    "technique": "Coq proof (stability-under-extension lemmas for tokenizer steps, induction on TLV lists and digit "
                 "strings, exact int64 digit-loop invariant) + regenerated constant tables + extracted-model "
                 "differential correspondence on all prefixes + independent strict reference decoder as oracle",
}

FRESH = ["src/proxyp/Parser.cc", "src/proxyp/Header.cc", "src/proxyp/Elements.cc",
         "src/parser/BinaryTokenizer.cc", "src/parser/Tokenizer.cc"]
LINK = ("tests/stub_HelperChildConfig.o tests/stub_StatHist.o String.o StrList.o tests/stub_cbdata.o tests/stub_debug.o "
        "tests/stub_libmem.o tests/stub_cache_cf.o tests/stub_tools.o tests/stub_libtime.o SquidConfig.o globals.o "
        "parser/libparser.la base/libbase.la ip/libip.la sbuf/libsbuf.la ../lib/libmiscutil.la "
        "../compat/libcompatsquid.la").split()

MAGIC1 = b"PROXY"
MAGIC2 = b"\r\n\r\n\x00\r\nQUIT\n"
V4PFX = bytes(10) + b"\xff\xff"


_EXE = {}


def impl(sanitize="ubsan"):
    """built once per process (the IP oracle and the correspondence run use the same binary)"""
    if sanitize not in _EXE:
        _EXE[sanitize] = hbuild.build("h_proxyp", "h_proxyp.cc", fresh=FRESH, link=LINK, sanitize=sanitize)
    return _EXE[sanitize]


def prebuild():
    impl()


def hx(b):
    return bytes(b).hex() if len(b) else "-"


def unhx(h):
    return b"" if h == "-" else bytes.fromhex(h)


# ---------------------------------------------------------------------------
# answers of the real IP text conversion (the model's Section variable), from the harness
class IpOracle:
    def __init__(self):
        self.cache = {}
        self.proc = None

    def _start(self):
        env = dict(os.environ)
        env.setdefault("UBSAN_OPTIONS", "print_stacktrace=0:halt_on_error=1")
        self.proc = subprocess.Popen([impl()], stdin=subprocess.PIPE, stdout=subprocess.PIPE,
                                     stderr=subprocess.DEVNULL, text=True, env=env)
        atexit.register(self.close)

    def close(self):
        if self.proc:
            try:
                self.proc.stdin.close()
                self.proc.wait(timeout=5)
            except Exception:
                self.proc.kill()
            self.proc = None

    def lookup(self, text):
        if text in self.cache:
            return self.cache[text]
        if self.proc is None or self.proc.poll() is not None:
            self._start()
        self.proc.stdin.write("ip %s\n" % hx(text))
        self.proc.stdin.flush()
        line = self.proc.stdout.readline().strip()
        ans = bytes.fromhex(line.split()[1]) if line.startswith("ok ") else None
        self.cache[text] = ans
        return ans


IPO = IpOracle()
IPRUN = re.compile(rb"[0-9A-Fa-f.:]+")


def ipmap(inp):
    """the <ipmap> argument: real conversion results for every maximal run of ".:"+HEXDIG characters"""
    if not inp.startswith(MAGIC1):
        return "-"
    ent = []
    seen = set()
    for m in IPRUN.finditer(inp, 5, 5 + 110):
        t = m.group(0)
        if t in seen:
            continue
        seen.add(t)
        a = IPO.lookup(t)
        if a is not None:
            ent.append("%s:%s" % (hx(t), hx(a)))
    return ",".join(ent) if ent else "-"


def case_of(entry, inp, extra=()):
    return " ".join([entry] + [str(x) for x in extra] + [hx(inp), ipmap(inp)])


# ---------------------------------------------------------------------------
# reference encoder
def enc_v1(fam, src, dst, sp, dp):
    return b"PROXY TCP" + fam + b" " + src + b" " + dst + b" " + sp + b" " + dp + b"\r\n"


def enc_tlvs(tlvs):
    return b"".join(bytes([t]) + len(v).to_bytes(2, "big") + v for t, v in tlvs)


def enc_v2(cmd, fam, proto, payload, ver=2, length=None):
    n = len(payload) if length is None else length
    return MAGIC2 + bytes([(ver << 4) | cmd, (fam << 4) | proto]) + (n & 0xffff).to_bytes(2, "big") + payload


V4S = [b"1.2.3.4", b"192.168.0.1", b"255.255.255.255", b"0.0.0.0", b"10.0.0.254", b"127.0.0.1", b"8.8.8.8", b"203.0.113.77"]
V6S = [b"::1", b"fe80::1", b"2001:db8::1", b"2001:db8:0:1:2:3:4:5", b"::", b"ffff:ffff:ffff:ffff:ffff:ffff:ffff:ffff",
       b"2001:DB8::A", b"64:ff9b::1.2.3.4", b"1:2:3:4:5:6:7:8"]
V6MAPPED = [b"::ffff:1.2.3.4", b"::ffff:192.168.0.1", b"::FFFF:10.0.0.1", b"0:0:0:0:0:ffff:102:304"]
ODDIP = [b"1.2.3", b"010.1.1.1", b"1", b"1.2.3.256", b"1.2.3.4.", b"abc", b"dead.beef", b"1:2", b":", b".", b"a::b::c",
         b"1.2.3.4.5", b"4294967295", b"00000001.2.3.4", b"::1.2.3.4", b"1::2::3", b"12345::1", b"fe80::1:", b"face.b00c"]
PORTS = [b"0", b"1", b"80", b"443", b"8080", b"65535", b"65534", b"12345", b"3128"]
BADPORTS = [b"65536", b"65537", b"99999", b"100000", b"9223372036854775807", b"9223372036854775808", b"18446744073709551616",
            b"99999999999999999999999", b"-1", b"+80", b"", b"x", b"8x", b"0x50", b" 80", b"080", b"00000", b"0000000080"]
TAILS = [b"", b"GET / HTTP/1.1\r\nHost: x\r\n\r\n", b"\r\n", b"\x16\x03\x01", b"PROXY", b"\x00", b"X"]


def rand_v4(rng):
    return rng.choice(V4S) if rng.random() < 0.5 else (".".join(str(rng.choice([0, 1, 9, 10, 99, 100, 199, 255, rng.randrange(256)])) for _ in range(4))).encode()


def rand_v6(rng):
    if rng.random() < 0.5:
        return rng.choice(V6S)
    a = ipaddress.IPv6Address(rng.getrandbits(128) & rng.choice([(1 << 128) - 1, ((1 << 64) - 1) << 64, (1 << 128) - 1 - (((1 << 48) - 1) << 32)]))
    s = (a.compressed if rng.random() < 0.6 else a.exploded).encode()
    if a.ipv4_mapped is not None:
        return b"2001:db8::2"
    return s.upper() if rng.random() < 0.2 else s


def rand_port(rng):
    return rng.choice(PORTS) if rng.random() < 0.6 else str(rng.choice([rng.randrange(65536), rng.randrange(10), rng.randrange(60000, 65536)])).encode()


def rand_tlvs(rng):
    n = rng.choice([0, 0, 1, 1, 2, 3, 5])
    out = []
    for _ in range(n):
        t = rng.choice([1, 2, 3, 4, 0x20, 0x21, 0x30, 0, 255, 0xE0, rng.randrange(256)])
        ln = rng.choice([0, 0, 1, 2, 3, 7, 16, 40])
        out.append((t, bytes(rng.choice([0, 0x41, 0x2c, 0xff, rng.randrange(256)]) for _ in range(ln))))
    return out


def addr_block(rng, fam):
    if fam == 1:
        return bytes(rng.choice([0, 1, 127, 255, rng.randrange(256)]) for _ in range(8)) + rng.choice([0, 80, 65535, rng.randrange(65536)]).to_bytes(2, "big") + rng.randrange(65536).to_bytes(2, "big")
    if fam == 2:
        a = rng.choice([bytes(16), V4PFX + bytes([1, 2, 3, 4]), bytes(rng.randrange(256) for _ in range(16)), b"\xfe\x80" + bytes(13) + b"\x01"])
        b = bytes(rng.randrange(256) for _ in range(16))
        return a + b + rng.randrange(65536).to_bytes(2, "big") + rng.choice([443, 0, 65535]).to_bytes(2, "big")
    if fam == 3:
        return bytes(rng.choice([0, 0x2f, 0x61]) for _ in range(216))
    return bytes(rng.randrange(256) for _ in range(rng.choice([0, 0, 4, 12, 36])))


def gen_wellformed(rng):
    k = rng.random()
    if k < 0.22:
        return enc_v1(b"4", rand_v4(rng), rand_v4(rng), rand_port(rng), rand_port(rng))
    if k < 0.40:
        return enc_v1(b"6", rand_v6(rng), rand_v6(rng), rand_port(rng), rand_port(rng))
    if k < 0.47:
        junk = rng.choice([b"", b" ", b" 1.2.3.4 5.6.7.8 1 2", b" ffff::1 ffff::2 65535 65535", b"x", bytes(rng.choice([32, 65, 0, 10, 255]) for _ in range(rng.randrange(0, 95)))])
        return b"PROXY UNKNOWN" + junk.replace(b"\r", b"") + b"\r\n"
    cmd = rng.choice([1, 1, 1, 0])
    fam = rng.choice([1, 1, 2, 2, 3, 0])
    proto = rng.choice([1, 1, 2, 0]) if fam else rng.choice([0, 0, 1])
    payload = addr_block(rng, fam)
    if fam and proto:
        payload += enc_tlvs(rand_tlvs(rng))
    elif rng.random() < 0.5:
        payload += enc_tlvs(rand_tlvs(rng))
    return enc_v2(cmd, fam, proto, payload)


def gen_boundary(rng):
    k = rng.randrange(16)
    if k == 0:      # v1 line length around the 107-byte rule, UNKNOWN with padding
        total = rng.choice([105, 106, 107, 108, 109, 120])
        pad = total - len(b"PROXY UNKNOWN\r\n")
        return b"PROXY UNKNOWN" + bytes(rng.choice([32, 97]) for _ in range(pad)) + b"\r\n"
    if k == 1:      # TCP6 with the longest addresses and ports, then stretched
        a = b"ffff:ffff:ffff:ffff:ffff:ffff:ffff:ffff"
        base = enc_v1(b"6", a, a, b"65535", b"65535")     # 104 bytes
        z = rng.choice([b"", b"0", b"00", b"000", b"0000", b"00000"])
        return enc_v1(b"6", a, a, z + b"65535", b"65535") if rng.random() < 0.7 else base
    if k == 2:      # ports at the edges
        p = rng.choice(BADPORTS + PORTS)
        q = rng.choice(BADPORTS + PORTS) if rng.random() < 0.3 else rng.choice(PORTS)
        if rng.random() < 0.5:
            p, q = q, p
        return enc_v1(b"4", rand_v4(rng), rand_v4(rng), p, q)
    if k == 3:      # family mismatches and odd address texts
        fam = rng.choice([b"4", b"6", b"4", b"6", b"5", b"", b"46", b"44"])
        pool = [rand_v4, rand_v6, lambda r: r.choice(V6MAPPED), lambda r: r.choice(ODDIP)]
        return enc_v1(fam, rng.choice(pool)(rng), rng.choice(pool)(rng), rand_port(rng), rand_port(rng))
    if k == 4:      # trailing bytes after the destination port (must be rejected) and other separators
        base = enc_v1(b"4", rand_v4(rng), rand_v4(rng), rand_port(rng), rand_port(rng))[:-2]
        return base + rng.choice([b" ", b"x", b" extra", b"\t", b"abc", b"\n", b" 1"]) + b"\r\n"
    if k == 5:      # line terminators
        base = enc_v1(b"4", rand_v4(rng), rand_v4(rng), rand_port(rng), rand_port(rng))[:-2]
        return base + rng.choice([b"\n", b"\r", b"\r\r\n", b"\rX", b"\n\r\n", b"\r\n\r\n", b""])
    if k == 6:      # v1 keyword variations
        w = rng.choice([b"PROXY TCP4", b"PROXY  TCP4", b"PROXYTCP4", b"PROXY tcp4", b"PROXY TCP", b"PROXY UNKNOWNX", b"PROXY UNKNOW",
                        b"PROXY UDP4", b"PROXY\tTCP4", b"PROXY", b"PROXY ", b"PROXY TCP4 ", b"proxy TCP4", b"PROXY TCP6"])
        return w + b" 1.2.3.4 5.6.7.8 1 2\r\n"
    if k == 7:      # not a magic at all, lengths around 12
        n = rng.choice([0, 1, 4, 5, 11, 12, 13, 20])
        s = rng.choice([b"GET / HTTP/1.1\r\nHost: example\r\n\r\n", b"PROXZ TCP4 1.2.3.4 5.6.7.8 1 2\r\n", MAGIC2[:11] + b"X" + b"\x21\x11\x00\x0c" + bytes(12),
                        b"\r\n\r\n", b"PROX", MAGIC2[:6] + MAGIC2[:6] + bytes(8), bytes(rng.randrange(256) for _ in range(20))])
        return s[:n]
    if k == 8:      # v2 version/command/family/proto nibbles
        vc = rng.choice([0x20, 0x21, 0x22, 0x2f, 0x11, 0x31, 0x01, 0xf1, 0x00, rng.randrange(256)])
        fp = rng.choice([0x11, 0x12, 0x13, 0x21, 0x22, 0x31, 0x32, 0x41, 0x10, 0x01, 0x00, 0x03, 0x23, 0xf1, 0x1f, rng.randrange(256)])
        fam = fp >> 4
        pl = addr_block(rng, fam if fam <= 3 else 1)
        return MAGIC2 + bytes([vc, fp]) + len(pl).to_bytes(2, "big") + pl
    if k == 9:      # v2 declared length vs address block size
        fam = rng.choice([1, 2, 3])
        need = {1: 12, 2: 36, 3: 216}[fam]
        n = rng.choice([0, 1, need - 1, need, need + 1, need + 2, need + 3, need + 4])
        pl = (addr_block(rng, fam) + bytes([4, 0, 1, 0x55, 7, 0, 0, 9]))[:n]
        pl = pl + bytes(n - len(pl))
        return enc_v2(rng.choice([0, 1]), fam, rng.choice([1, 2]), pl)
    if k == 10:     # TLV length fields around what remains
        fam = rng.choice([1, 2])
        tl = rng.choice([0, 1, 2, 3, 4, 5, 255, 256, 65535])
        body = bytes(rng.randrange(256) for _ in range(rng.choice([0, 1, 2, 3, 4, 5])))
        tlv = bytes([rng.choice([1, 4, 0x20])]) + tl.to_bytes(2, "big") + body
        pl = addr_block(rng, fam) + enc_tlvs(rand_tlvs(rng)) + tlv[:rng.choice([1, 2, 3, len(tlv)])]
        return enc_v2(rng.choice([1, 1, 0]), fam, 1, pl)
    if k == 11:     # declared length larger / smaller than what follows
        fam = rng.choice([1, 2])
        pl = addr_block(rng, fam) + enc_tlvs(rand_tlvs(rng))
        return enc_v2(1, fam, 1, pl, length=max(0, len(pl) + rng.choice([-13, -1, 1, 5, 300, 65535 - len(pl)])))
    if k == 12:     # big TLV
        fam = 1
        v = bytes(rng.choice([0x41, 0]) for _ in range(rng.choice([300, 1000, 4000])))
        return enc_v2(1, fam, 1, addr_block(rng, fam) + enc_tlvs([(2, v), (2, b"")]))
    if k == 13:     # empty / partial magic
        m = rng.choice([MAGIC1, MAGIC2])
        return m[:rng.randrange(len(m) + 1)]
    if k == 14:     # v1 with leading-zero / long numeric ports that still fit
        return enc_v1(b"4", rand_v4(rng), rand_v4(rng), b"0" * rng.randrange(1, 20) + rand_port(rng), rand_port(rng))
    # CR inside the line
    base = bytearray(enc_v1(b"4", rand_v4(rng), rand_v4(rng), rand_port(rng), rand_port(rng)))
    base.insert(rng.randrange(5, len(base)), 13)
    return bytes(base)


def mutate_bytes(rng, b):
    b = bytearray(b)
    for _ in range(rng.choice([1, 1, 1, 2, 3])):
        k = rng.random()
        if not b:
            b.append(rng.randrange(256))
        elif k < 0.45:
            b[rng.randrange(len(b))] = rng.choice([rng.randrange(256), 0, 13, 10, 32, 48, 57, 58, 255, 0x21, 0x11])
        elif k < 0.6:
            del b[rng.randrange(len(b))]
        elif k < 0.75:
            b.insert(rng.randrange(len(b) + 1), rng.choice([rng.randrange(256), 32, 13, 48, 0]))
        elif k < 0.85:
            b = b[:rng.randrange(len(b) + 1)]
        elif k < 0.93:
            i = rng.randrange(len(b)); j = rng.randrange(i, min(len(b), i + 8) + 1)
            b[i:i] = b[i:j]
        else:
            i = rng.randrange(len(b)); b[i] ^= 1 << rng.randrange(8)
    return bytes(b)


def gen_cases(rng, n):
    cases = []
    for _ in range(n):
        k = rng.random()
        if k < 0.40:
            inp = gen_wellformed(rng) + rng.choice(TAILS)
        elif k < 0.70:
            inp = gen_boundary(rng) + (rng.choice(TAILS) if rng.random() < 0.5 else b"")
        else:
            inp = mutate_bytes(rng, gen_wellformed(rng) if rng.random() < 0.7 else gen_boundary(rng)) + (rng.choice(TAILS) if rng.random() < 0.3 else b"")
        e = rng.random()
        if e < 0.62 and len(inp) <= 400:
            cases.append(case_of("pp.prefixes", inp))
        elif e < 0.90:
            cases.append(case_of("pp.parse", inp))
        elif e < 0.95:
            cases.append(case_of("pp.values", inp, extra=(rng.choice([1, 2, 4, 0x20, 0, 255]), rng.choice([44, 59, 0, 32]))))
        else:
            ops = ",".join(rng.choice(["b", "w", "t", "d", "p", "q", "r", "4", "6", "e", "a%d" % rng.choice([0, 1, 2, 5, 300]),
                                        "s%d" % rng.choice([0, 1, 3, 216])]) for _ in range(rng.randrange(1, 8)))
            data = bytes(rng.choice([0, 0, 1, 2, 3, 255, rng.randrange(256)]) for _ in range(rng.choice([0, 1, 2, 3, 5, 9, 20, 40])))
            cases.append("bt.seq %d %s %s" % (rng.randrange(2), ops, hx(data)))
    return cases


# ---------------------------------------------------------------------------
# independent strict reference decoder (PROXY protocol specification), used only by the oracle
V4RE = re.compile(rb"(0|[1-9][0-9]{0,2})\.(0|[1-9][0-9]{0,2})\.(0|[1-9][0-9]{0,2})\.(0|[1-9][0-9]{0,2})")
PORTRE = re.compile(rb"(0|[1-9][0-9]{0,4})")
V6CHARS = re.compile(rb"[0-9A-Fa-f:.]+")


def ref_v4(t):
    m = V4RE.fullmatch(t)
    if not m or any(int(x) > 255 for x in m.groups()):
        return None
    return V4PFX + bytes(int(x) for x in m.groups())


def ref_v6(t):
    if not V6CHARS.fullmatch(t) or b":" not in t:
        return None
    try:
        return ipaddress.IPv6Address(t.decode()).packed
    except ValueError:
        return None


def ref_decode(inp):
    """('wf', fields, length) | ('bad', cls) | ('known', cls, fields, length) | None (no statement / incomplete)"""
    if inp.startswith(MAGIC2):
        if len(inp) < 16:
            return None
        vc, fp = inp[12], inp[13]
        n = int.from_bytes(inp[14:16], "big")
        if vc >> 4 != 2: return ("bad", "v2-version")
        if vc & 15 > 1: return ("bad", "v2-command")
        if fp >> 4 > 3: return ("bad", "v2-family")
        if fp & 15 > 2: return ("bad", "v2-proto")
        if len(inp) < 16 + n:
            return None
        pl = inp[16:16 + n]
        cmd, fam, proto = vc & 15, fp >> 4, fp & 15
        f = {"v": b"2.0", "cmd": cmd, "ign": 0, "src": bytes(16), "sp": 0, "dst": bytes(16), "dp": 0, "tlvs": []}
        if fam == 0 or proto == 0:
            f["ign"] = 1
            return ("wf", f, 16 + n)
        need = {1: 12, 2: 36, 3: 216}[fam]
        if n < need:
            return ("bad", "v2-short-address-block")
        if fam == 1:
            f["src"], f["dst"] = V4PFX + pl[0:4], V4PFX + pl[4:8]
            f["sp"], f["dp"] = int.from_bytes(pl[8:10], "big"), int.from_bytes(pl[10:12], "big")
        elif fam == 2:
            f["src"], f["dst"] = pl[0:16], pl[16:32]
            f["sp"], f["dp"] = int.from_bytes(pl[32:34], "big"), int.from_bytes(pl[34:36], "big")
        if cmd == 1:     # LOCAL: the receiver discards the block; TLVs are not reported
            rest = pl[need:]
            while rest:
                if len(rest) < 3: return ("bad", "v2-truncated-tlv")
                ln = int.from_bytes(rest[1:3], "big")
                if len(rest) < 3 + ln: return ("bad", "v2-truncated-tlv")
                f["tlvs"].append((rest[0], rest[3:3 + ln]))
                rest = rest[3 + ln:]
        return ("wf", f, 16 + n)
    if inp.startswith(MAGIC1):
        end = inp.find(b"\r\n")
        if end < 0 or end + 2 > 107:
            if len(inp) >= 107:
                return ("bad", "v1-oversized")
            return None
        if b"\r" in inp[:end]:
            return None
        line = inp[5:end]
        f = {"v": b"1.0", "cmd": 1, "ign": 0, "src": bytes(16), "sp": 0, "dst": bytes(16), "dp": 0, "tlvs": []}
        if line.startswith(b" UNKNOWN"):
            f["ign"] = 1
            return ("wf", f, end + 2)
        if not (line.startswith(b" TCP4 ") or line.startswith(b" TCP6 ")):
            return None
        fam = line[4:5]
        tk = line[6:].split(b" ")
        if len(tk) < 4:
            return None
        conv = ref_v4 if fam == b"4" else ref_v6
        other = ref_v6 if fam == b"4" else ref_v4
        s, d = conv(tk[0]), conv(tk[1])
        if s is None or d is None:
            so, do = other(tk[0]), other(tk[1])
            # IPv6-syntax texts of v4-mapped addresses are left without a statement (Squid treats them as IPv4)
            v6mapped = lambda t: ref_v6(t) is not None and ref_v6(t)[:12] == V4PFX
            if (s is not None or so is not None) and (d is not None or do is not None) \
               and not v6mapped(tk[0]) and not v6mapped(tk[1]):
                return ("bad", "v1-family-mismatch")
            return None
        if not re.fullmatch(rb"[0-9]+", tk[2]) or int(tk[2]) > 65535:
            return ("bad", "v1-bad-port")        # source port: digits then SP, at most 65535
        p2 = tk[3]
        m = re.match(rb"^[0-9]+", p2)
        if not m or int(m.group(0)) > 65535:
            return ("bad", "v1-bad-port")
        if not PORTRE.fullmatch(tk[2]) or not PORTRE.fullmatch(m.group(0)):
            return None          # leading zeros: no statement
        f["src"], f["dst"], f["sp"], f["dp"] = s, d, int(tk[2]), int(m.group(0))
        if len(tk) > 4 or m.group(0) != p2:
            return ("bad", "v1-trailing-garbage")      # bytes after the destination port
        if fam == b"6" and (s[:12] == V4PFX or d[:12] == V4PFX):
            return ("known", "v1-tcp6-v4mapped", f, end + 2)
        return ("wf", f, end + 2)
    if len(inp) >= 12:
        return ("bad", "invalid-magic")
    return None


def parse_ok(words):
    """fields of an 'OK ...' outcome as printed by the harness"""
    d = {"size": int(words[1])}
    for w in words[2:]:
        k, v = w.split("=", 1)
        d[k] = v
    f = {"v": unhx(d["v"]), "cmd": int(unhx(d["cmd"]).decode()), "ign": int(d["ign"]), "fwd": int(d["fwd"]),
         "src": unhx(d["src"].split("/")[0]), "sp": int(d["src"].split("/")[1]),
         "dst": unhx(d["dst"].split("/")[0]), "dp": int(d["dst"].split("/")[1]), "tlvs": []}
    if d["tlvs"] != "-":
        for e in d["tlvs"].split(";"):
            t, v = e.split(":")
            f["tlvs"].append((int(t), unhx(v)))
    return d["size"], f


V1LINE = re.compile(rb"PROXY TCP([46]) ([0-9A-Fa-f.:]+) ([0-9A-Fa-f.:]+) ([0-9]+) ([0-9]+)\r\n")


def check_accept_shape(inp, final):
    """converse direction: whatever is reported as a v1 header with addresses must be a line of exactly the
    shape PROXY TCPx SP addr SP addr SP digits SP digits CRLF (<= 107 bytes) with the reported ports"""
    w = final.split()
    if w[0] != "OK":
        return None
    size, g = parse_ok(w)
    if g["v"] != b"1.0" or g["ign"]:
        return None
    m = V1LINE.fullmatch(inp[:size])
    if not m or size > 107:
        return ("oracle:v1-accepted-not-wellformed", "reported a v1 header for a line that is not of the form "
                "PROXY TCPx SP addr SP addr SP port SP port CRLF within 107 bytes: %r" % inp[:size][:120])
    if int(m.group(4)) != g["sp"] or int(m.group(5)) != g["dp"]:
        return ("oracle:field:port", "reported ports %d/%d differ from the written %s/%s" % (g["sp"], g["dp"], m.group(4), m.group(5)))
    return None


def check_final(inp, final):
    """the last two sentences of the property on the outcome for the whole input"""
    v = check_accept_shape(inp, final)
    if v:
        return v
    ref = ref_decode(inp)
    if ref is None:
        return None
    w = final.split()
    if ref[0] == "bad":
        if w[0] != "REJ":
            return ("oracle:malformed-accepted:" + ref[1], "malformed header (%s) is not rejected" % ref[1])
        return None
    kind, f, length = (ref[0], ref[1], ref[2]) if ref[0] == "wf" else (ref[0] + ":" + ref[1], ref[2], ref[3])
    if kind == "known:v1-tcp6-v4mapped":
        if w[0] == "REJ":
            return ("oracle:v1-tcp6-v4mapped-rejected", "well-formed v1 TCP6 header with a v4-mapped IPv6 address is rejected")
        kind = "wf"
    if w[0] != "OK":
        return ("oracle:wellformed-not-parsed", "well-formed header is answered %s" % w[0])
    size, g = parse_ok(w)
    if size != length:
        return ("oracle:size", "consumed %d bytes, header length is %d" % (size, length))
    for k in ("v", "cmd", "ign", "src", "sp", "dst", "dp", "tlvs"):
        if f[k] != g[k]:
            return ("oracle:field:" + k, "parsed %s=%r differs from the encoded %r" % (k, g[k], f[k]))
    return None


def oracle(case, out):
    a = case.split()
    op = a[0]
    if out.startswith(("CRASH", "EXC", "ERR")):
        return ("oracle:crash", "implementation crashed / threw an unexpected exception: " + out[:200])
    try:
        if op == "pp.parse":
            inp = unhx(a[1])
            if out.split()[0] == "OK" and int(out.split()[1]) > len(inp):
                return ("oracle:size", "consumed more than the input")
            return check_final(inp, out)
        if op == "pp.prefixes":
            inp = unhx(a[1])
            segs = []
            for s in out.split(" | "):
                rng_, rest = s.split(" ", 1)
                lo, hi = rng_.split("-")
                segs.append((int(lo), int(hi), rest))
            if segs[0][0] != 0 or segs[-1][1] != len(inp) or any(segs[i][1] + 1 != segs[i + 1][0] for i in range(len(segs) - 1)):
                return ("oracle:format", "prefix ranges do not cover 0..%d" % len(inp))
            # first sentence: a prefix answer is 'more', or the answer for the complete input
            final = segs[-1][2]
            for lo, hi, o in segs[:-1]:
                if o != "MORE":
                    return ("oracle:prefix-instability", "prefixes of length %d..%d are answered `%s` but the complete input `%s`" % (lo, hi, o[:80], final[:80]))
            if final.startswith("OK"):
                size = int(final.split()[1])
                if size != segs[-1][0]:
                    return ("oracle:size", "header reported with size %d but first parsed from a prefix of length %d" % (size, segs[-1][0]))
            return check_final(inp, final)
        if op == "pp.values":
            ty, sep, inp = int(a[1]), int(a[2]), unhx(a[3])
            ref = ref_decode(inp)
            if ref and ref[0] == "wf" and ty < 256:
                vals = [v for t, v in ref[1]["tlvs"] if t == ty]
                exp = b""
                for v in vals:      # Header.cc: separator only once the result is not empty
                    exp = (exp + bytes([sep]) if exp else exp) + v
                if out != "val " + hx(exp):
                    return ("oracle:getValues", "expected val %s" % hx(exp))
            return None
        if op == "bt.seq":
            em, ops, data = a[1] == "1", a[2].split(","), unhx(a[3])
            pos = 0
            exp = []
            def take(n):
                nonlocal pos
                if pos + n > len(data):
                    raise EOFError
                r = data[pos:pos + n]; pos += n
                return r
            try:
                for o in ops:
                    c = o[0]
                    if c in "bwtd":
                        exp.append(c + str(int.from_bytes(take({"b": 1, "w": 2, "t": 3, "d": 4}[c]), "big")))
                    elif c == "a": exp.append("a" + hx(take(int(o[1:]))))
                    elif c == "s": take(int(o[1:])); exp.append("s")
                    elif c in "pqr":
                        ln = int.from_bytes(take({"p": 1, "q": 2, "r": 3}[c]), "big")
                        exp.append(c + hx(take(ln)))
                    elif c == "4": exp.append("4" + hx(V4PFX + take(4)))
                    elif c == "6": exp.append("6" + hx(take(16)))
                    elif c == "e": exp.append("e%d" % (1 if pos >= len(data) else 0))
                exp.append("END parsed=%d left=%s" % (pos, hx(data[pos:])))
            except EOFError:
                exp.append("MORE" if em else "REJ")
            if out != " ".join(exp):
                return ("oracle:binary-tokenizer", "expected `%s`" % " ".join(exp)[:200])
            return None
    except Exception as ex:
        return ("oracle:format", "unparsable implementation output %r (%s)" % (out[:120], ex))
    return None


def mutate(rng, case):
    a = case.split()
    if a[0] == "bt.seq":
        b = bytearray(unhx(a[3]) or b"\0"); b[rng.randrange(len(b))] = rng.randrange(256)
        return "bt.seq %s %s %s" % (a[1], a[2], hx(b))
    inp = mutate_bytes(rng, unhx(a[-2]))
    return " ".join(a[:-2] + [hx(inp), ipmap(inp)])


def final_word(c, o):
    if c.startswith("bt.seq"):
        return "END" if " END " in " " + o else o.split(" ")[-1]
    if c.startswith("pp.prefixes"):
        return o.split(" | ")[-1].split(" ")[1] if " " in o else o
    return o.split(" ")[0] if o else ""


def nontrivial(c, o):
    if c.startswith("pp.p"):
        return final_word(c, o) in ("OK", "REJ") and len(c.split()[1]) >= 12
    if c.startswith("pp.values"):
        return o.startswith("val ") and o != "val -"
    return len(o.split()) > 1


def run(res, tier):
    res.rule = ("headers from a reference encoder (v1 TCP4/TCP6/UNKNOWN, v2 INET/INET6/UNIX/UNSPEC x PROXY/LOCAL x STREAM/DGRAM "
                "with TLV lists) followed by payload bytes; boundary stream (107-byte rule, port edges, family mismatches, "
                "terminators, v2 nibbles, declared length vs address block, TLV lengths, partial magics); byte mutations; "
                "each input is parsed on EVERY prefix (pp.prefixes) or once (pp.parse); plus Header::getValues and raw "
                "BinaryTokenizer operation sequences. A case is non-trivial when the parser reached a definitive outcome "
                "(header or rejection) on an input of at least 6 bytes")
    res.trusted.append("IP text conversion (getaddrinfo) is a Section variable of the model; its answers for the texts of each "
                       "case are taken from the real Ip::Address::GetHostByName through the harness and passed to the model")
    try:
        std.run_standard(res, PID, tier, area="proxyp", build_impl=impl, gen_cases=gen_cases, oracle=oracle,
                         corr_name="ProxypModel vs src/proxyp/Parser.cc, src/proxyp/Header.cc, src/parser/BinaryTokenizer.cc",
                         gens=["proxyp"], n_quick=16000, n_thorough=240000, seed_salt=38, mutate=mutate,
                         kind_fn=lambda c, o: c.split()[0] + ":" + final_word(c, o),
                         nontrivial_fn=nontrivial)
    finally:
        IPO.close()
