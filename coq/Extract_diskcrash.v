(* Extract_diskcrash.v — extraction of the rock crash/restart model (ExtrOcamlBasic only). *)
Require Import ExtrOcamlBasic.
Require Import SquidV.Bytes SquidV.DiskcrashModel.
Extraction "m_diskcrash.ml" lenN run_case sessions_of all_writes crash_disk rebuild hit segments fileno_of.
