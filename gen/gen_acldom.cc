// Table generator for the acldom area (C41): the per-byte map xtolower() that
// matchDomainName() and Tolower() apply, as the code (and this libc) define it *now*.
// Prints Coq source; sections are introduced by "@@FILE <name>".
#include "squid.h"
#include <iostream>
#include <cctype>

int main() {
    std::cout << "@@FILE AclDom_gen.v\n";
    std::cout << "(* generated from /repo by gen/gen_acldom.cc -- do not edit *)\n"
              "Require Import SquidV.Bytes.\n"
              "Local Open Scope N_scope.\n";
    std::cout << "Definition xtolower_tbl : list N := [";
    for (int c = 0; c < 256; ++c) {
        const char ch = static_cast<char>(c);
        std::cout << (c ? ";" : "") << static_cast<int>(xtolower(ch));
    }
    std::cout << "].\n";
    return 0;
}
