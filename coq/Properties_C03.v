(* Properties_C03.v — C03: no request smuggling: forwarded messages match strict client framing.
   Statements only; proofs live in SmugglingProofs.v.  Model: SmugglingModel.v
     process_one cf buf   one turn of ConnStateData::parseRequests on inBuf = buf: request parser (C21/C22 model),
                          HttpHeader::parse (C25/C26 models), checkEntityFraming, the body-length decision of
                          clientProcessRequest, the chunked decoder (C24 model), the upstream framing fields of http.cc
     run_stream cf s      the whole connection: the events EForward start f | EPartial | EReject | EReset | EClose
     cf                   relaxed_header_parser, request_header_max_size, body pipe capacity
   Vocabulary (SmugglingProofs.v):
     line_ok l            a head line as a strict RFC 9112 reader sees it: not empty, no LF inside, not starting with CR
     enc_lines ls         the lines, each followed by CRLF;  crlf = CR LF
     fwd_ok f             at most one Content-Length value goes upstream, and none together with Transfer-Encoding
     fits b               the buffer is no longer than an SBuf can be (2^32 - 1)
   The strict reader is given by the SHAPE of what it accepts:  line1 CRLF *( line CRLF ) CRLF body tail  with the body
   either `n` octets or the RFC 9112 7.1 chunked-body grammar (ChunkedProofs.encode / message_ok, property C24). *)
Require Import SquidV.Bytes SquidV.TokModel SquidV.Incremental SquidV.ReqparseModel SquidV.ReqparseProofs.
Require SquidV.ClenModel SquidV.HdrparseModel SquidV.ChunkedModel SquidV.ChunkedProofs.
Require Import SquidV.SmugglingModel SquidV.SmugglingProofs.
Require Import SquidV.gen.Smuggling_gen.
Local Open Scope N_scope.

(* --- boundaries: the head.  For EVERY buffer that starts with a line-structured head (any bytes may follow), in both
       parser modes and for every header size limit: if Squid's request parser accepts the buffer as an HTTP/1.x
       message, the bytes it leaves for body and next message are exactly those after the head's empty line --- *)
Theorem C03_head_extent_agrees : forall relaxed limit line1 ls x f rest,
  line_ok line1 -> Forall line_ok ls -> nolf line1 ->
  fits (line1 ++ crlf ++ enc_lines ls ++ crlf ++ x) ->
  parse_whole relaxed limit (line1 ++ crlf ++ enc_lines ls ++ crlf ++ x) = Done f rest ->
  f_major f = 1 ->
  rest = x.
Proof. exact head_extent. Qed.
Print Assumptions C03_head_extent_agrees.

(* the field block ends where headersEnd says, for every line-structured block *)
Theorem C03_field_block_ends_at_empty_line : forall ls rest, Forall line_ok ls -> exists fold,
  headers_end (enc_lines ls ++ crlf ++ rest) = (lenN (enc_lines ls ++ crlf), fold).
Proof. exact headers_end_of_lines. Qed.
Print Assumptions C03_field_block_ends_at_empty_line.

(* --- boundaries: the whole message (PARTIAL).  If Squid forwards a message from a buffer whose front the strict reader
       delimits as head ++ body_enc, leaving tail, and Squid's framing DECISION is the strict reader's (not chunked and
       the length Squid uses = |body_enc|; or chunked and body_enc is a chunked-body of the RFC grammar), then Squid's
       message ends where the strict one ends (the next message is parsed from exactly `tail`), the head/total extents
       are the strict ones and the body handed upstream is the strict body.
       Missing for the full statement: (1) that the decision agrees on every strictly valid field block is not
       composed here through the field splitter (component facts: C25 block_fields_is_reference, C26
       strict_iff / relaxed_nolist_iff, and C03_parsed_header_single_content_length below); (2) the chunked case is
       shown for a chunked message that ENDS the buffer (tail = []): C24's exactness theorem bounds what the decoder
       leaves only from one side when more bytes follow in the same buffer; (3) the stream-level statement follows from
       this one and C03_extents_chain by induction over the messages, not spelled out. --- *)
Theorem C03_message_extent_agrees_partial : forall cf line1 ls body_enc tail f persist rest,
  line_ok line1 -> Forall line_ok ls ->
  fits (line1 ++ crlf ++ enc_lines ls ++ crlf ++ body_enc ++ tail) ->
  process_one cf (line1 ++ crlf ++ enc_lines ls ++ crlf ++ body_enc ++ tail) = MForward f persist rest ->
  fw_major f = 1 ->
  (fw_chunked f = false /\ lenN body_enc = Z.to_N (fw_clen f)) \/
  (fw_chunked f = true /\ tail = [] /\
   exists m, ChunkedProofs.message_ok m /\ body_enc = ChunkedProofs.encode m /\ lenN (ChunkedProofs.body m) <= c_cap cf) ->
  rest = tail /\
  fw_head f = lenN (line1 ++ crlf ++ enc_lines ls ++ crlf) /\
  fw_used f = lenN (line1 ++ crlf ++ enc_lines ls ++ crlf ++ body_enc) /\
  (fw_chunked f = false -> fw_body f = body_enc) /\
  (fw_chunked f = true -> forall m, ChunkedProofs.message_ok m -> body_enc = ChunkedProofs.encode m ->
                          lenN (ChunkedProofs.body m) <= c_cap cf -> fw_body f = ChunkedProofs.body m).
Proof. exact message_extent. Qed.
Print Assumptions C03_message_extent_agrees_partial.

(* --- boundaries: the stream (PARTIAL).  For EVERY stream that the strict reader delimits into the messages ms (each a
       line-structured head and the octets of its body) followed by arbitrary bytes, every configuration and every
       offset: if Squid's framing decision for each message it forwards is the strict one (agree: HTTP/1.x, body of a
       declared length, that length), then the i-th forwarded message starts where the strict reader's i-th message
       starts, has its length and carries its body (aligned) — no byte of one client message is forwarded as part of
       another.  Partial as C03_message_extent_agrees_partial is: the decision agreement is a hypothesis, chunked
       messages are not covered at stream level. --- *)
Theorem C03_squid_boundaries_agree_partial : forall ms cf tail,
  Forall smsg_ok ms -> fits (stream_of ms ++ tail) ->
  agree ms (run_stream cf (stream_of ms ++ tail)) ->
  aligned 0 ms (run_stream cf (stream_of ms ++ tail)).
Proof. intros ms cf tail. apply stream_aligned. Qed.
Print Assumptions C03_squid_boundaries_agree_partial.

(* a chunked-body of the grammar that is all the buffer holds is decoded to its body with nothing left (from C24) *)
Theorem C03_chunked_body_decoded_exactly : forall relaxed cap m,
  ChunkedProofs.message_ok m -> lenN (ChunkedProofs.body m) <= cap ->
  exists st, ChunkedModel.parse relaxed cap ChunkedModel.init_state (ChunkedProofs.encode m) =
             ChunkedModel.PRet true st [] (ChunkedProofs.body m).
Proof. exact chunked_whole. Qed.
Print Assumptions C03_chunked_body_decoded_exactly.

(* events carry consecutive extents: every event starts where the previous forwarded message ended *)
Theorem C03_extents_chain : forall cf s, chained 0 (run_stream cf s).
Proof. intros cf s. apply run_conn_chained. Qed.
Print Assumptions C03_extents_chain.

(* --- one framing upstream: for ALL streams and configurations, every request that goes upstream (completely or with
       an unfinished body) carries at most one Content-Length value and never Content-Length together with
       Transfer-Encoding; a completely forwarded request never carries Transfer-Encoding --- *)
Theorem C03_forwarded_framing_single : forall cf s e, In e (run_stream cf s) ->
  match e with
  | EForward _ f => fwd_ok f /\ fw_te f = false
  | EPartial _ f => fwd_ok f
  | _ => True
  end.
Proof. intros cf s e. apply run_conn_fwd_ok. Qed.
Print Assumptions C03_forwarded_framing_single.

(* the reason, for ALL header blocks: HttpHeader::parse leaves at most one Content-Length entry and none next to a
   Transfer-Encoding entry *)
Theorem C03_parsed_header_single_content_length : forall relaxed req proh block hr,
  HdrparseModel.h_parse relaxed req proh block = Some hr ->
  (n_cl (HdrparseModel.hr_entries hr) <= 1)%nat /\
  (HdrparseModel.h_has_id HdrparseModel.ID_TE (HdrparseModel.hr_entries hr) = true -> n_cl (HdrparseModel.hr_entries hr) = 0%nat).
Proof. exact parsed_header_one_cl. Qed.
Print Assumptions C03_parsed_header_single_content_length.

(* --- a rejection ends the connection: for ALL streams, whatever is not a completely forwarded message (an error
       answer 400/411/417/501/505..., a reset, a close, an unfinished body) is the LAST event: no byte after it is
       interpreted --- *)
Theorem C03_reject_stops_reading : forall cf s pre e post,
  run_stream cf s = pre ++ e :: post -> is_forward e = false -> post = [].
Proof. intros cf s. apply run_conn_terminal_last. Qed.
Print Assumptions C03_reject_stops_reading.

(* --- the former finding C03-vt-ff-as-ows is REPAIRED in /repo (cc868a1: only SP / HTAB are trimmed around
       Content-Length and Transfer-Encoding values, the Content-Length interpreter accepts only SP / HTAB around the
       digits in every mode).  Its witnesses, as theorems about the model of /repo HEAD and as regression scenarios
       replayed against the running proxy (corpus/C03/regress.jsonl): `Transfer-Encoding: chunked<VT>` with a
       Content-Length covering an embedded request is answered 501 in both parser modes and nothing after it is read;
       `Content-Length: <VT>5` and `Content-Length: 5<FF>` are answered 400 --- *)
Theorem C03_vt_after_chunked_rejected : forall relaxed,
  run_stream (sm_default_cfg relaxed) w_stream = [EReject 0 sm_sc_not_implemented] /\
  Forall line_ok [w_l1; w_host; w_te_line; w_cl_line] /\
  w_te_line = ClenModel.name_transfer_encoding ++ [58; 32] ++ ClenModel.word_chunked ++ [11].
Proof. exact vt_after_chunked_rejected. Qed.
Print Assumptions C03_vt_after_chunked_rejected.

Theorem C03_vt_content_length_rejected : forall relaxed,
  run_stream (sm_default_cfg relaxed) w_cl_vt_stream = [EReject 0 sm_sc_bad_request] /\
  run_stream (sm_default_cfg relaxed) w_cl_ff_stream = [EReject 0 sm_sc_bad_request].
Proof. exact vt_content_length_rejected. Qed.
Print Assumptions C03_vt_content_length_rejected.

(* --- what the faithful model of /repo HEAD still REFUTES of "forwarded messages are messages a strict reader delimits"
       (known findings, confirmed on the running proxy by corpus/C03/known.jsonl): with relaxed_header_parser on, VT is
       read as bad white space inside a chunk extension (C03-chunk-line-bws) and next to an element of a Content-Length
       list (C03-cl-list-vt-ff); with it off both streams are refused.  In both cases the message still ends where its
       CRLF-delimited lines / its declared length say: no byte crosses a message boundary --- *)
Theorem C03_vt_in_chunk_ext_refuted : exists f,
  run_stream (sm_default_cfg true) w_chunk_vt_stream = [EForward 0 f] /\ fw_chunked f = true /\ fw_body f = w_hello /\
  run_stream (sm_default_cfg false) w_chunk_vt_stream = [EReset 0].
Proof. exact vt_in_chunk_ext_refuted. Qed.
Print Assumptions C03_vt_in_chunk_ext_refuted.

Theorem C03_vt_in_content_length_list_refuted : exists f,
  run_stream (sm_default_cfg true) w_cl_list_vt_stream = [EForward 0 f] /\ fw_body f = w_hello /\ fw_cl f = [[53]] /\
  run_stream (sm_default_cfg false) w_cl_list_vt_stream = [EReject 0 sm_sc_bad_request].
Proof. exact vt_in_content_length_list_refuted. Qed.
Print Assumptions C03_vt_in_content_length_list_refuted.

(* --- non-vacuity --- *)
(* "Host: h" is a head line; a line starting with CR or containing LF is not *)
Example C03_ex_line_ok : line_ok [72;111;115;116;58;32;104] /\ ~ line_ok [13;88] /\ ~ line_ok [88;10;89].
Proof.
  split; [split; [reflexivity|discriminate]|]. split; intros [H1 H2]; [apply H2; reflexivity|discriminate H1].
Qed.
(* the hypotheses of C03_message_extent_agrees_partial hold for POST http://o/m0 HTTP/1.1 / Host: h / Content-Length: 5 /
   hello followed by the bytes "GET": Squid forwards with the 5-byte body, not chunked, HTTP/1.x *)
Example C03_ex_message : exists f,
  process_one (sm_default_cfg true)
    (w_l1 ++ crlf ++ enc_lines [w_host; [67;111;110;116;101;110;116;45;76;101;110;103;116;104;58;32;53]] ++ crlf ++
     [104;101;108;108;111] ++ [71;69;84]) = MForward f true [71;69;84] /\
  fw_major f = 1 /\ fw_chunked f = false /\ Z.to_N (fw_clen f) = 5 /\ fw_body f = [104;101;108;108;111].
Proof. eexists. vm_compute. repeat split; reflexivity. Qed.
(* a rejection event exists: two different Content-Length values *)
Example C03_ex_reject : exists c,
  run_stream (sm_default_cfg true)
    (w_l1 ++ crlf ++ enc_lines [[67;111;110;116;101;110;116;45;76;101;110;103;116;104;58;32;53];
                               [67;111;110;116;101;110;116;45;76;101;110;103;116;104;58;32;54]] ++ crlf ++ [104]) = [EReject 0 c] /\
  c = sm_sc_bad_request.
Proof. eexists. vm_compute. split; reflexivity. Qed.
(* the hypotheses of C03_squid_boundaries_agree_partial hold for a pipeline of two messages (POST with 5 octets, then the
   same again) followed by "GET" *)
Definition ex_msg : smsg :=
  {| sm_line1 := w_l1; sm_lines := [w_host; [67;111;110;116;101;110;116;45;76;101;110;103;116;104;58;32;53]];
     sm_body_enc := [104;101;108;108;111] |}.
Example C03_ex_stream : Forall smsg_ok [ex_msg; ex_msg] /\
  agree [ex_msg; ex_msg] (run_stream (sm_default_cfg true) (stream_of [ex_msg; ex_msg] ++ [71;69;84])) /\
  length (filter is_forward (run_stream (sm_default_cfg true) (stream_of [ex_msg; ex_msg] ++ [71;69;84]))) = 2%nat.
Proof.
  split; [repeat constructor; try discriminate|]. split; [vm_compute; repeat split; reflexivity|vm_compute; reflexivity].
Qed.
