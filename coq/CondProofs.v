(* CondProofs.v — proofs for C14 (conditional requests) *)
Require Import SquidV.Bytes SquidV.HopModel SquidV.HopProofs SquidV.CondModel.
Require Import SquidV.gen.HdrTable_gen.
Require Import ZifyBool.
Local Open Scope N_scope.

(* ================= generic helpers ================= *)
Lemma leqb_refl (a : bytes) : list_eqb a a = true.
Proof. induction a as [|x a IH]; cbn [list_eqb]; [reflexivity|]. now rewrite N.eqb_refl, IH. Qed.
Lemma leqb_eq (a : bytes) : forall b, list_eqb a b = true -> a = b.
Proof.
  induction a as [|x a IH]; intros [|y b] H; cbn [list_eqb] in H; try discriminate; [reflexivity|].
  apply andb_prop in H. destruct H as [H1 H2]. apply N.eqb_eq in H1. subst y. f_equal. now apply IH.
Qed.
Lemma leqb_iff (a b : bytes) : list_eqb a b = true <-> a = b.
Proof. split; [apply leqb_eq| intros ->; apply leqb_refl]. Qed.

Definition no_nul (l : bytes) : bool := forallb (fun c => negb (c =? 0)) l.
Lemma span_forall {A} (p : A -> bool) l : forallb p l = true -> span p l = (l, []).
Proof.
  induction l as [|x l IH]; intros H; cbn [span]; [reflexivity|].
  cbn [forallb] in H. apply andb_prop in H. destruct H as [Hx Hl]. rewrite Hx, (IH Hl). reflexivity.
Qed.
Lemma c_str_no_nul l : no_nul l = true -> c_str l = l.
Proof. intros H. unfold c_str. now rewrite (span_forall _ l H). Qed.

(* ================= 1. etagParseInit ================= *)
(* the text of an entity-tag: optional W/ then DQUOTE mid DQUOTE *)
Definition render_tag (w : bool) (mid : bytes) : bytes := (if w then [87; 47] else []) ++ 34 :: mid ++ [34].

Lemma is_quoted_iff t : is_quoted t = true <-> exists mid, t = 34 :: mid ++ [34].
Proof.
  split.
  - destruct t as [|c r]; cbn [is_quoted]; [discriminate|].
    destruct (c =? 34) eqn:Ec; cbn [andb]; [|discriminate]. apply N.eqb_eq in Ec. subst c.
    destruct (rev r) as [|d x] eqn:E; [discriminate|].
    intros Hd. apply N.eqb_eq in Hd. subst d.
    exists (rev x). f_equal. rewrite <- (rev_involutive r), E. reflexivity.
  - intros [mid ->]. cbn [is_quoted]. rewrite rev_app_distr. reflexivity.
Qed.

Lemma etag_parse_render w mid :
  no_nul mid = true ->
  etag_parse (render_tag w mid) = Some {| et_weak := w; et_str := 34 :: mid ++ [34] |}.
Proof.
  intros Hn. unfold etag_parse.
  assert (Hq : is_quoted (34 :: mid ++ [34]) = true) by (apply is_quoted_iff; now exists mid).
  assert (Hnn : no_nul (render_tag w mid) = true).
  { unfold render_tag, no_nul in *. rewrite forallb_app. cbn [forallb]. rewrite forallb_app, Hn.
    destruct w; reflexivity. }
  rewrite (c_str_no_nul _ Hnn). unfold render_tag. destruct w.
  - change ([87; 47] ++ 34 :: mid ++ [34]) with (87 :: 47 :: 34 :: mid ++ [34]).
    replace (starts_with (87 :: 47 :: 34 :: mid ++ [34]) [87; 47]) with true by reflexivity.
    replace (dropN 2 (87 :: 47 :: 34 :: mid ++ [34])) with (34 :: mid ++ [34]) by reflexivity.
    now rewrite Hq.
  - change ([] ++ 34 :: mid ++ [34]) with (34 :: mid ++ [34]).
    replace (starts_with (34 :: mid ++ [34]) [87; 47]) with false by reflexivity.
    now rewrite Hq.
Qed.

(* accepted exactly: [W/] DQUOTE ... DQUOTE (for NUL-free strings, which is all a header value can be) *)
Theorem etag_parse_spec s t :
  no_nul s = true ->
  (etag_parse s = Some t <-> exists mid, s = render_tag (et_weak t) mid /\ et_str t = 34 :: mid ++ [34]).
Proof.
  intros Hn. split.
  - unfold etag_parse. rewrite (c_str_no_nul s Hn).
    destruct (starts_with s [87; 47]) eqn:Ew.
    + destruct s as [|a [|b s2]]; cbn [starts_with] in Ew; try discriminate.
      apply andb_prop in Ew. destruct Ew as [Ea Eb]. apply andb_prop in Eb. destruct Eb as [Eb _].
      apply N.eqb_eq in Ea, Eb. subst a b.
      assert (Hd : dropN 2 (87 :: 47 :: s2) = s2) by (destruct s2; reflexivity). rewrite Hd.
      destruct (is_quoted s2) eqn:Eq; [|discriminate].
      intros H. injection H as <-. cbn [et_weak et_str]. apply is_quoted_iff in Eq. destruct Eq as [mid ->].
      exists mid. split; reflexivity.
    + destruct (is_quoted s) eqn:Eq; [|discriminate].
      intros H. injection H as <-. cbn [et_weak et_str]. apply is_quoted_iff in Eq. destruct Eq as [mid Em].
      exists mid. split; [|exact Em]. unfold render_tag. cbn [app]. exact Em.
  - intros [mid [Hs Ht]]. subst s.
    assert (Hm : no_nul mid = true).
    { unfold render_tag, no_nul in Hn. rewrite forallb_app in Hn. apply andb_prop in Hn. destruct Hn as [_ Hn].
      cbn [forallb] in Hn. apply andb_prop in Hn. destruct Hn as [_ Hn]. rewrite forallb_app in Hn.
      now apply andb_prop in Hn. }
    rewrite (etag_parse_render _ _ Hm). destruct t as [w st]. cbn [et_weak et_str] in *. now subst st.
Qed.

(* ================= 2. comparison functions (RFC 7232 2.3.2) ================= *)
Theorem weak_eq_spec a b : etag_weak_eq a b = true <-> et_str a = et_str b.
Proof. unfold etag_weak_eq, etag_strings_match. apply leqb_iff. Qed.
Theorem strong_eq_spec a b :
  etag_strong_eq a b = true <-> et_weak a = false /\ et_weak b = false /\ et_str a = et_str b.
Proof.
  unfold etag_strong_eq, etag_strings_match. rewrite !andb_true_iff, !negb_true_iff, leqb_iff. tauto.
Qed.
Theorem weak_eq_equivalence :
  (forall a, etag_weak_eq a a = true) /\
  (forall a b, etag_weak_eq a b = etag_weak_eq b a) /\
  (forall a b c, etag_weak_eq a b = true -> etag_weak_eq b c = true -> etag_weak_eq a c = true).
Proof.
  repeat split.
  - intros a. apply weak_eq_spec. reflexivity.
  - intros a b. destruct (etag_weak_eq a b) eqn:E1; destruct (etag_weak_eq b a) eqn:E2; try reflexivity.
    + apply weak_eq_spec in E1. symmetry in E1. apply weak_eq_spec in E1. congruence.
    + apply weak_eq_spec in E2. symmetry in E2. apply weak_eq_spec in E2. congruence.
  - intros a b c H1 H2. apply weak_eq_spec in H1, H2. apply weak_eq_spec. congruence.
Qed.
Theorem strong_implies_weak a b : etag_strong_eq a b = true -> etag_weak_eq a b = true.
Proof. intros H. apply strong_eq_spec in H. apply weak_eq_spec. tauto. Qed.

(* ================= 4. processConditional ================= *)
Section Decision.
Variable pd : bytes -> Z.

Definition im_present (r : creq) := has_id ID_IF_MATCH (rq_hdrs r).
Definition inm_present (r : creq) := has_id ID_IF_NONE_MATCH (rq_hdrs r).
(* effective modification time is known and not later than the client's date *)
Definition not_modified_since (e : centry) (ims : Z) : Prop :=
  (0 <= last_modified pd e <= ims)%Z.

Lemma modified_since_false e ims : modified_since pd e ims = false <-> not_modified_since e ims.
Proof.
  unfold modified_since, not_modified_since.
  destruct (last_modified pd e <? 0)%Z eqn:E1; [split; [discriminate|lia]|].
  destruct (ims <? last_modified pd e)%Z eqn:E2; [split; [discriminate|lia]|].
  destruct (last_modified pd e <? ims)%Z eqn:E3; split; intros; try reflexivity; lia.
Qed.

(* 304 exactly when: stored 200, If-Match (if any) holds, and either If-None-Match is present, matches and the method
   is GET/HEAD, or If-None-Match is absent and a parsed If-Modified-Since (> 0) covers the modification time *)
Theorem verdict_304_iff r e :
  process_conditional pd r e = V304 <->
  en_status e = 200 /\
  (im_present r = true -> has_if_match_etag e r = true) /\
  ((inm_present r = true /\ has_if_none_match_etag e r = true /\ rq_get_or_head r = true) \/
   (inm_present r = false /\ (0 < rq_ims pd r)%Z /\ not_modified_since e (rq_ims pd r))).
Proof.
  unfold process_conditional, im_present, inm_present, ims_flag.
  pose proof (modified_since_false e (rq_ims pd r)) as Hms. unfold not_modified_since in *.
  destruct (en_status e =? 200) eqn:Es; [apply N.eqb_eq in Es | apply N.eqb_neq in Es]; cbn [negb];
  destruct (has_id ID_IF_MATCH (rq_hdrs r)); destruct (has_if_match_etag e r);
  destruct (has_id ID_IF_NONE_MATCH (rq_hdrs r)); destruct (has_if_none_match_etag e r); destruct (rq_get_or_head r);
  destruct (0 <? rq_ims pd r)%Z eqn:Ei; destruct (modified_since pd e (rq_ims pd r)); cbn [andb negb];
  intuition (try discriminate; try congruence; try lia).
Qed.

(* 412 exactly when: stored 200 and If-Match fails, or (If-Match holds and) If-None-Match matches on a non-GET/HEAD *)
Theorem verdict_412_iff r e :
  process_conditional pd r e = V412 <->
  en_status e = 200 /\
  ((im_present r = true /\ has_if_match_etag e r = false) \/
   ((im_present r = true -> has_if_match_etag e r = true) /\
    inm_present r = true /\ has_if_none_match_etag e r = true /\ rq_get_or_head r = false)).
Proof.
  unfold process_conditional, im_present, inm_present, ims_flag.
  pose proof (modified_since_false e (rq_ims pd r)) as Hms. unfold not_modified_since in *.
  destruct (en_status e =? 200) eqn:Es; [apply N.eqb_eq in Es | apply N.eqb_neq in Es]; cbn [negb];
  destruct (has_id ID_IF_MATCH (rq_hdrs r)); destruct (has_if_match_etag e r);
  destruct (has_id ID_IF_NONE_MATCH (rq_hdrs r)); destruct (has_if_none_match_etag e r); destruct (rq_get_or_head r);
  destruct (0 <? rq_ims pd r)%Z eqn:Ei; destruct (modified_since pd e (rq_ims pd r)); cbn [andb negb];
  intuition (try discriminate; try congruence; try lia).
Qed.

(* everything else is a full response: a plain hit, or (stored status other than 200) a forwarded miss *)
Theorem verdict_otherwise_full r e :
  process_conditional pd r e <> V304 -> process_conditional pd r e <> V412 ->
  (process_conditional pd r e = VHit /\ en_status e = 200) \/ (process_conditional pd r e = VMiss /\ en_status e <> 200).
Proof.
  unfold process_conditional.
  destruct (en_status e =? 200) eqn:Es; cbn [negb].
  2:{ intros _ _. right. split; [reflexivity|]. now apply N.eqb_neq. }
  apply N.eqb_eq in Es. intros H1 H2. left. split; [|exact Es].
  destruct (has_id ID_IF_MATCH (rq_hdrs r) && negb (has_if_match_etag e r)); [contradiction|].
  destruct (has_id ID_IF_NONE_MATCH (rq_hdrs r)).
  - destruct (has_if_none_match_etag e r); [destruct (rq_get_or_head r); contradiction|reflexivity].
  - destruct (ims_flag pd r); [|reflexivity]. destruct (modified_since pd e (rq_ims pd r)); [reflexivity|contradiction].
Qed.

(* a request that is not conditional is never answered 304/412 from the hit path *)
Theorem unconditional_is_hit r e : is_conditional pd r = false -> hit_verdict pd r e = VHit.
Proof. unfold hit_verdict. now intros ->. Qed.
End Decision.

(* If-None-Match makes If-Modified-Since irrelevant: with If-None-Match present the verdict is the same for every
   date parser, i.e. whatever the If-Modified-Since / Last-Modified values are *)
Theorem inm_overrides_ims pd1 pd2 r e :
  has_id ID_IF_NONE_MATCH (rq_hdrs r) = true -> hit_verdict pd1 r e = hit_verdict pd2 r e.
Proof.
  intros H. unfold hit_verdict, is_conditional, process_conditional. rewrite H, !orb_true_r. reflexivity.
Qed.

(* weak comparison is used only for GET/HEAD without Range *)
Theorem weak_only_get_head_unranged e r :
  (rq_ranged r = true \/ rq_get_or_head r = false) ->
  has_if_none_match_etag e r = has_one_of_etags (get_etag (en_hdrs e)) (get_list ID_IF_NONE_MATCH (rq_hdrs r)) false.
Proof.
  intros H. unfold has_if_none_match_etag, allow_weak_match.
  destruct H as [-> | ->]; [reflexivity|]. now rewrite andb_false_r.
Qed.
(* If-Match always uses the strong comparison *)
Theorem if_match_is_strong e r :
  has_if_match_etag e r = has_one_of_etags (get_etag (en_hdrs e)) (get_list ID_IF_MATCH (rq_hdrs r)) false.
Proof. reflexivity. Qed.

(* ================= 3. the list walk of hasOneOfEtags ================= *)
(* An element of an If-Match / If-None-Match list: `*` or an entity-tag, followed by optional whitespace (el_ws)
   and, when another element follows, a comma and any mix of whitespace and further commas (el_dl). *)
Record elem := { el_star : bool; el_weak : bool; el_mid : bytes; el_ws : bytes; el_dl : bytes }.
Definition elem_text (e : elem) : bytes := if el_star e then asterisk else render_tag (el_weak e) (el_mid e).
Definition is_dl (c : N) : bool := is_ows c || (c =? 44).
(* etagc of RFC 7232 minus the backslash: any byte except DQUOTE, backslash, NUL *)
Definition etagc_nb (c : N) : bool := negb (c =? 34) && negb (c =? 92) && negb (c =? 0).
Definition elem_ok (e : elem) : bool :=
  forallb etagc_nb (el_mid e) && forallb is_ows (el_ws e) && forallb is_dl (el_dl e).
Fixpoint render (es : list elem) : bytes :=
  match es with
  | [] => []
  | e :: r => elem_text e ++ el_ws e ++ match r with [] => [] | _ => 44 :: el_dl e ++ render r end
  end.
(* what may follow the last element: nothing, or a comma and more delimiters *)
Definition post_ok (p : bytes) : bool := match p with [] => true | c :: q => (c =? 44) && forallb is_dl q end.

(* --- the scanner on the pieces of an element --- *)
Lemma scan_plain p : forall l acc,
  forallb (fun c => negb (c =? 34) && negb (c =? 44)) p = true ->
  scan_item 44 false (p ++ l) acc = scan_item 44 false l (rev p ++ acc).
Proof.
  induction p as [|c p IH]; intros l acc H; [reflexivity|].
  cbn [forallb] in H. apply andb_prop in H. destruct H as [Hc Hp].
  apply andb_prop in Hc. destruct Hc as [H34 H44]. apply negb_true_iff in H34, H44.
  cbn [app scan_item]. rewrite H34, H44. cbn [orb]. rewrite (IH l (c :: acc) Hp). cbn [rev]. now rewrite <- app_assoc.
Qed.
Lemma scan_quoted mid : forall l acc,
  forallb etagc_nb mid = true ->
  scan_item 44 true (mid ++ 34 :: l) acc = scan_item 44 false l (34 :: rev mid ++ acc).
Proof.
  induction mid as [|c m IH]; intros l acc H.
  - cbn [app scan_item rev]. reflexivity.
  - cbn [forallb] in H. apply andb_prop in H. destruct H as [Hc Hm]. unfold etagc_nb in Hc.
    apply andb_prop in Hc. destruct Hc as [Hc H0]. apply andb_prop in Hc. destruct Hc as [H34 H92].
    apply negb_true_iff in H34, H92.
    cbn [app scan_item]. rewrite H34, H92. rewrite (IH l (c :: acc) Hm). cbn [rev]. now rewrite <- !app_assoc.
Qed.
Lemma scan_stop rest acc :
  match rest with [] => True | c :: _ => c = 44 end -> scan_item 44 false rest acc = (rev acc, rest).
Proof. destruct rest as [|c q]; intros H; [reflexivity|]. subst c. reflexivity. Qed.

Lemma ows_plain ws : forallb is_ows ws = true -> forallb (fun c => negb (c =? 34) && negb (c =? 44)) ws = true.
Proof.
  intros H. rewrite forallb_forall in *. intros c Hc. specialize (H c Hc). unfold is_ows in H. lia.
Qed.

Lemma scan_elem e rest :
  elem_ok e = true -> match rest with [] => True | c :: _ => c = 44 end ->
  scan_item 44 false (elem_text e ++ el_ws e ++ rest) [] = (elem_text e ++ el_ws e, rest).
Proof.
  intros Hok Hrest. unfold elem_ok in Hok. apply andb_prop in Hok. destruct Hok as [Hok Hdl].
  apply andb_prop in Hok. destruct Hok as [Hmid Hws].
  assert (Hfin : forall acc, scan_item 44 false (el_ws e ++ rest) acc = (rev acc ++ el_ws e, rest)).
  { intros acc. rewrite (scan_plain _ _ _ (ows_plain _ Hws)), (scan_stop _ _ Hrest).
    now rewrite rev_app_distr, rev_involutive. }
  unfold elem_text. destruct (el_star e).
  - unfold asterisk. cbn [app scan_item]. replace (42 =? 34) with false by reflexivity.
    replace ((42 =? 44) || (42 =? 44)) with false by reflexivity. rewrite Hfin. reflexivity.
  - unfold render_tag. destruct (el_weak e).
    + change (([87; 47] ++ 34 :: el_mid e ++ [34]) ++ el_ws e ++ rest)
        with (87 :: 47 :: 34 :: (el_mid e ++ [34]) ++ el_ws e ++ rest).
      rewrite <- app_assoc. cbn [app].
      cbn [scan_item]. replace (87 =? 34) with false by reflexivity. replace ((87 =? 44) || (87 =? 44)) with false by reflexivity.
      replace (47 =? 34) with false by reflexivity. replace ((47 =? 44) || (47 =? 44)) with false by reflexivity.
      rewrite N.eqb_refl. rewrite (scan_quoted _ _ _ Hmid), Hfin. cbn [rev app]. rewrite rev_app_distr, rev_involutive.
      cbn [rev app]. now rewrite <- !app_assoc.
    + change (([] ++ 34 :: el_mid e ++ [34]) ++ el_ws e ++ rest) with (34 :: (el_mid e ++ [34]) ++ el_ws e ++ rest).
      rewrite <- app_assoc. cbn [app].
      cbn [scan_item]. rewrite N.eqb_refl. rewrite (scan_quoted _ _ _ Hmid), Hfin. cbn [rev app].
      rewrite rev_app_distr, rev_involutive. cbn [rev app]. now rewrite <- !app_assoc.
Qed.

(* --- trimming and delimiter skipping --- *)
Lemma drop_xspace_rev_ows ws a c :
  forallb is_ows ws = true -> is_xspace c = false ->
  drop_while is_xspace (rev ws ++ c :: a) = c :: a.
Proof.
  intros Hws Hc. rewrite <- (rev_involutive ws) in Hws. revert Hws. generalize (rev ws) as w. clear ws.
  induction w as [|x w IH]; intros Hws; cbn [app drop_while]; [now rewrite Hc|].
  cbn [rev] in Hws. rewrite forallb_app in Hws. apply andb_prop in Hws. destruct Hws as [Hw Hx].
  cbn [forallb] in Hx. assert (Hxs : is_xspace x = true) by (unfold is_ows, is_xspace in *; lia).
  rewrite Hxs. apply IH. exact Hw.
Qed.
Lemma elem_text_last e : exists a c, elem_text e = a ++ [c] /\ is_xspace c = false.
Proof.
  unfold elem_text. destruct (el_star e).
  - exists [], 42. split; reflexivity.
  - exists ((if el_weak e then [87; 47] else []) ++ 34 :: el_mid e), 34. split; [|reflexivity].
    unfold render_tag. rewrite <- app_assoc. reflexivity.
Qed.
Lemma rtrim_elem e : forallb is_ows (el_ws e) = true -> rtrim (elem_text e ++ el_ws e) = elem_text e.
Proof.
  intros Hws. destruct (elem_text_last e) as [a [c [Ht Hc]]]. rewrite Ht. unfold rtrim.
  rewrite rev_app_distr, rev_app_distr. cbn [rev app].
  rewrite (drop_xspace_rev_ows _ _ _ Hws Hc). cbn [rev]. now rewrite rev_involutive.
Qed.
Lemma elem_text_first e : exists c t, elem_text e = c :: t /\ is_delim2 44 c = false.
Proof.
  unfold elem_text. destruct (el_star e); [exists 42, []; split; reflexivity|].
  unfold render_tag. destruct (el_weak e); [exists 87, (47 :: 34 :: el_mid e ++ [34])| exists 34, (el_mid e ++ [34])]; split; reflexivity.
Qed.
Lemma drop_delims pre c l :
  forallb is_dl pre = true -> is_delim2 44 c = false -> drop_while (is_delim2 44) (pre ++ c :: l) = c :: l.
Proof.
  intros Hp Hc. induction pre as [|x p IH]; cbn [app drop_while]; [now rewrite Hc|].
  cbn [forallb] in Hp. apply andb_prop in Hp. destruct Hp as [Hx Hp].
  assert (Hd : is_delim2 44 x = true) by (unfold is_dl, is_ows, is_delim2 in *; lia).
  rewrite Hd. apply IH, Hp.
Qed.
Lemma drop_all_delims pre : forallb is_dl pre = true -> drop_while (is_delim2 44) pre = [].
Proof.
  induction pre as [|x p IH]; intros Hp; [reflexivity|]. cbn [forallb] in Hp. apply andb_prop in Hp. destruct Hp as [Hx Hp].
  cbn [drop_while]. assert (Hd : is_delim2 44 x = true) by (unfold is_dl, is_ows, is_delim2 in *; lia).
  rewrite Hd. apply IH, Hp.
Qed.
Lemma elem_text_nonempty e : elem_text e <> [].
Proof. destruct (elem_text_first e) as [c [t [H _]]]. rewrite H. discriminate. Qed.

Lemma post_ok_dl p : post_ok p = true -> forallb is_dl p = true.
Proof.
  destruct p as [|c q]; [reflexivity|]. cbn [post_ok forallb]. intros H. apply andb_prop in H. destruct H as [Hc Hq].
  rewrite Hq, andb_true_r. unfold is_dl. now rewrite Hc, orb_true_r.
Qed.
Lemma post_ok_head p : post_ok p = true -> match p with [] => True | c :: _ => c = 44 end.
Proof. destruct p as [|c q]; [trivial|]. cbn [post_ok]. intros H. apply andb_prop in H. destruct H as [Hc _]. now apply N.eqb_eq. Qed.

(* --- the whole loop: the items Squid iterates over are exactly the rendered elements' texts --- *)
Lemma items_render es : forall f pre post,
  forallb elem_ok es = true -> forallb is_dl pre = true -> post_ok post = true ->
  (length (pre ++ render es ++ post) <= f)%nat ->
  items_fuel (S f) 44 (pre ++ render es ++ post) = map elem_text es.
Proof.
  induction es as [|e r IH]; intros f pre post Hes Hpre Hpost Hlen.
  - cbn [render app map]. rewrite items_fuel_S. cbn zeta.
    rewrite (drop_all_delims (pre ++ post)).
    + reflexivity.
    + rewrite forallb_app, Hpre. now apply post_ok_dl.
  - cbn [forallb] in Hes. apply andb_prop in Hes. destruct Hes as [He Hr].
    rewrite items_fuel_S. cbn zeta. cbn [map].
    destruct (elem_text_first e) as [c [t [Ht Hc]]].
    set (rest := match r with [] => post | _ => 44 :: el_dl e ++ render r ++ post end).
    assert (Hshape : pre ++ render (e :: r) ++ post = pre ++ elem_text e ++ el_ws e ++ rest).
    { cbn [render]. subst rest. destruct r as [|e2 r2].
      - now rewrite app_nil_r, <- !app_assoc.
      - rewrite <- !app_assoc. cbn [app]. now rewrite <- !app_assoc. }
    rewrite Hshape in *. rewrite Ht at 1. cbn [app]. rewrite (drop_delims pre c _ Hpre Hc).
    change (c :: t ++ el_ws e ++ rest) with ((c :: t) ++ el_ws e ++ rest). rewrite <- Ht.
    assert (Hrest : match rest with [] => True | c0 :: _ => c0 = 44 end).
    { subst rest. destruct r; [now apply post_ok_head|reflexivity]. }
    rewrite (scan_elem e rest He Hrest).
    assert (Hws : forallb is_ows (el_ws e) = true).
    { unfold elem_ok in He. apply andb_prop in He. destruct He as [He _]. now apply andb_prop in He. }
    rewrite (rtrim_elem e Hws).
    destruct (elem_text e) as [|c0 t0] eqn:Et; [now destruct (elem_text_nonempty e)|].
    f_equal.
    assert (Hlen2 : (S (length rest) <= f)%nat).
    { rewrite !app_length in Hlen. cbn [length] in Hlen. lia. }
    destruct f as [|f']; [lia|].
    subst rest. destruct r as [|e2 r2].
    + pose proof (IH f' post [] eq_refl (post_ok_dl _ Hpost) eq_refl) as H.
      cbn [render app] in H. rewrite app_nil_r in H. cbn [map] in *. apply H. lia.
    + assert (Hdl : forallb is_dl (44 :: el_dl e) = true).
      { cbn [forallb]. unfold elem_ok in He. apply andb_prop in He. destruct He as [_ Hd]. rewrite Hd. reflexivity. }
      change (44 :: el_dl e ++ render (e2 :: r2) ++ post) with ((44 :: el_dl e) ++ render (e2 :: r2) ++ post).
      rewrite (IH f' (44 :: el_dl e) post Hr Hdl Hpost); [reflexivity|].
      cbn [app length] in *. lia.
Qed.

Lemma is_dl_no_nul l : forallb is_dl l = true -> no_nul l = true.
Proof. unfold no_nul. intros H. rewrite forallb_forall in *. intros c Hc. specialize (H c Hc). unfold is_dl, is_ows in H. lia. Qed.
Lemma is_ows_no_nul l : forallb is_ows l = true -> no_nul l = true.
Proof. unfold no_nul. intros H. rewrite forallb_forall in *. intros c Hc. specialize (H c Hc). unfold is_ows in H. lia. Qed.
Lemma etagc_no_nul l : forallb etagc_nb l = true -> no_nul l = true.
Proof. unfold no_nul. intros H. rewrite forallb_forall in *. intros c Hc. specialize (H c Hc). unfold etagc_nb in H. lia. Qed.
Lemma no_nul_app a b : no_nul (a ++ b) = no_nul a && no_nul b.
Proof. apply forallb_app. Qed.

Lemma elem_text_no_nul e : elem_ok e = true -> no_nul (elem_text e) = true.
Proof.
  intros He. unfold elem_ok in He. apply andb_prop in He. destruct He as [He _]. apply andb_prop in He. destruct He as [Hm _].
  unfold elem_text. destruct (el_star e); [reflexivity|]. unfold render_tag.
  rewrite no_nul_app. change (no_nul (34 :: el_mid e ++ [34])) with (no_nul (el_mid e ++ [34])).
  rewrite no_nul_app, (etagc_no_nul _ Hm). destruct (el_weak e); reflexivity.
Qed.
Lemma render_no_nul es : forallb elem_ok es = true -> no_nul (render es) = true.
Proof.
  induction es as [|e r IH]; intros H; [reflexivity|].
  cbn [forallb] in H. apply andb_prop in H. destruct H as [He Hr]. cbn [render].
  rewrite !no_nul_app, (elem_text_no_nul e He).
  pose proof He as He'. unfold elem_ok in He'. apply andb_prop in He'. destruct He' as [He' Hdl]. apply andb_prop in He'. destruct He' as [_ Hws].
  rewrite (is_ows_no_nul _ Hws). destruct r as [|e2 r2]; [reflexivity|].
  change (no_nul (44 :: el_dl e ++ render (e2 :: r2))) with (no_nul (el_dl e ++ render (e2 :: r2))).
  now rewrite no_nul_app, (is_dl_no_nul _ Hdl), (IH Hr).
Qed.

(* Squid's reading of a rendered list is the list of its elements *)
Theorem list_items_render es pre post :
  forallb elem_ok es = true -> forallb is_dl pre = true -> post_ok post = true ->
  list_items 44 (pre ++ render es ++ post) = map elem_text es.
Proof.
  intros Hes Hpre Hpost. unfold list_items.
  assert (Hn : no_nul (pre ++ render es ++ post) = true).
  { rewrite !no_nul_app, (is_dl_no_nul _ Hpre), (render_no_nul _ Hes), (is_dl_no_nul _ (post_ok_dl _ Hpost)). reflexivity. }
  rewrite (c_str_no_nul _ Hn). apply items_render; auto.
Qed.

(* the RFC 7232 statement: does this listed element match the selected representation's entity-tag *)
Definition elem_matches (allow_weak : bool) (rep : etag) (e : elem) : bool :=
  el_star e ||
  (list_eqb (et_str rep) (34 :: el_mid e ++ [34]) && (allow_weak || (negb (et_weak rep) && negb (el_weak e)))).

Lemma item_matches_elem w rep e : elem_ok e = true -> item_matches w rep (elem_text e) = elem_matches w rep e.
Proof.
  intros He. unfold item_matches, elem_matches, elem_text. destruct (el_star e); [reflexivity|]. cbn [orb].
  assert (Hm : no_nul (el_mid e) = true).
  { unfold elem_ok in He. apply andb_prop in He. destruct He as [He _]. apply andb_prop in He. destruct He as [Hm _]. now apply etagc_no_nul. }
  assert (Hns : list_eqb (render_tag (el_weak e) (el_mid e)) asterisk = false).
  { unfold render_tag, asterisk. destruct (el_weak e); reflexivity. }
  rewrite Hns, (etag_parse_render _ _ Hm).
  unfold etag_weak_eq, etag_strong_eq, etag_strings_match. cbn [et_weak et_str].
  destruct w; cbn [orb]; [now rewrite andb_true_r|].
  destruct (list_eqb (et_str rep) (34 :: el_mid e ++ [34])); destruct (et_weak rep); destruct (el_weak e); reflexivity.
Qed.

(* hasOneOfEtags on a well-formed list = "some listed element matches" (entity has a valid ETag) *)
Theorem has_one_of_render es pre post rep w :
  forallb elem_ok es = true -> forallb is_dl pre = true -> post_ok post = true ->
  has_one_of_etags (Some rep) (pre ++ render es ++ post) w = existsb (elem_matches w rep) es.
Proof.
  intros Hes Hpre Hpost. unfold has_one_of_etags. rewrite (list_items_render es pre post Hes Hpre Hpost).
  induction es as [|e r IH]; [reflexivity|].
  cbn [forallb] in Hes. apply andb_prop in Hes. destruct Hes as [He Hr].
  cbn [map existsb]. now rewrite (item_matches_elem w rep e He), (IH Hr).
Qed.

Lemma ci_star_elem e : ci_eqb asterisk (elem_text e) = el_star e.
Proof.
  unfold elem_text, asterisk. destruct (el_star e); [reflexivity|]. unfold render_tag. destruct (el_weak e); reflexivity.
Qed.
(* ... and when the entity has no (valid) ETag only `*` matches *)
Theorem has_one_of_render_none es pre post w :
  forallb elem_ok es = true -> forallb is_dl pre = true -> post_ok post = true ->
  has_one_of_etags None (pre ++ render es ++ post) w = existsb el_star es.
Proof.
  intros Hes Hpre Hpost. unfold has_one_of_etags, is_member. rewrite (list_items_render es pre post Hes Hpre Hpost).
  clear Hes. induction es as [|e r IH]; [reflexivity|]. cbn [map existsb]. now rewrite ci_star_elem, IH.
Qed.

(* full RFC 7232 etagc: %x21 / %x23-7E / obs-text — the backslash included *)
Definition etagc_rfc (c : N) : bool := (c =? 33) || ((35 <=? c) && (c <=? 126)) || ((128 <=? c) && (c <=? 255)).
Definition elem_ok_rfc (e : elem) : bool :=
  forallb etagc_rfc (el_mid e) && forallb is_ows (el_ws e) && forallb is_dl (el_dl e).
Lemma elem_ok_is_rfc_without_backslash e :
  elem_ok_rfc e = true -> forallb (fun c => negb (c =? 92)) (el_mid e) = true -> elem_ok e = true.
Proof.
  unfold elem_ok_rfc, elem_ok. intros H Hb. apply andb_prop in H. destruct H as [H Hd]. apply andb_prop in H. destruct H as [Hm Hw].
  rewrite Hw, Hd, !andb_true_r. rewrite forallb_forall in *. intros c Hc. specialize (Hm c Hc). specialize (Hb c Hc).
  unfold etagc_rfc in Hm. unfold etagc_nb. lia.
Qed.

(* witness: If-Match: "a\", "v1" against the entity tag "v1" *)
Definition wit_es : list elem :=
  [ {| el_star := false; el_weak := false; el_mid := [97; 92]; el_ws := []; el_dl := [32] |};
    {| el_star := false; el_weak := false; el_mid := [118; 49]; el_ws := []; el_dl := [] |} ].
Definition wit_rep : etag := {| et_weak := false; et_str := [34; 118; 49; 34] |}.
Theorem list_walk_refuted :
  exists es rep, forallb elem_ok_rfc es = true /\
    existsb (elem_matches false rep) es = true /\ has_one_of_etags (Some rep) (render es) false = false.
Proof. exists wit_es, wit_rep. vm_compute. repeat split. Qed.

(* the same witness through processConditional: 412 although a listed tag strongly matches *)
Definition wit_req : creq :=
  {| rq_get_or_head := true; rq_ranged := false;
     rq_hdrs := [ {| h_name := map N.of_nat [73;102;45;77;97;116;99;104]%nat; h_value := render wit_es |} ] |}.
Definition wit_entry : centry :=
  {| en_status := 200; en_hdrs := [ {| h_name := map N.of_nat [69;84;97;103]%nat; h_value := [34; 118; 49; 34] |} ];
     en_timestamp := 1000%Z |}.
Theorem if_match_412_refuted :
  forall pd, get_etag (en_hdrs wit_entry) = Some wit_rep /\
    get_list ID_IF_MATCH (rq_hdrs wit_req) = render wit_es /\
    existsb (elem_matches false wit_rep) wit_es = true /\
    hit_verdict pd wit_req wit_entry = V412.
Proof. intros pd. vm_compute. repeat split. Qed.

(* the decision on requests whose If-Match / If-None-Match fields are well-formed lists *)
Definition one_field (name : list nat) (v : bytes) : hdr := {| h_name := map N.of_nat name; h_value := v |}.

(* ================= 5. HttpHeader::update / needUpdate: the 304 merge ================= *)
Lemma filter_filter {A} (p q : A -> bool) l : filter p (filter q l) = filter (fun x => q x && p x) l.
Proof.
  induction l as [|x l IH]; [reflexivity|]. cbn [filter]. destruct (q x) eqn:Eq; cbn [filter andb]; [|exact IH].
  destruct (p x); now rewrite IH.
Qed.
Lemma filter_ext_all {A} (p q : A -> bool) l : (forall x, p x = q x) -> filter p l = filter q l.
Proof. intros H. induction l as [|x l IH]; [reflexivity|]. cbn [filter]. now rewrite H, IH. Qed.
Lemma filter_true {A} (l : list A) : filter (fun _ => true) l = l.
Proof. induction l as [|x l IH]; [reflexivity|]. cbn [filter]. now rewrite IH. Qed.
Lemma existsb_false_all {A} (f : A -> bool) l : existsb f l = false -> forall x, In x l -> f x = false.
Proof.
  induction l as [|y l IH]; intros H x Hx; [destruct Hx|]. cbn [existsb] in H. apply orb_false_iff in H. destruct H as [Hy Hl].
  destruct Hx as [->|Hx]; [exact Hy|now apply IH].
Qed.

(* the sequential deletions of the first loop amount to one filter *)
Lemma update_delete_sk_closed sk fresh : forall cur,
  update_delete_sk sk fresh cur =
  filter (fun h => negb (existsb (fun e => deleted_by e h) (filter (fun e => negb (sk e)) fresh))) cur.
Proof.
  induction fresh as [|e r IH]; intros cur.
  - cbn [update_delete_sk filter existsb negb]. now rewrite filter_true.
  - cbn [update_delete_sk filter].
    destruct (sk e); cbn [negb]; [apply IH|].
    rewrite IH, filter_filter. apply filter_ext_all. intros h. cbn [existsb]. now rewrite negb_orb.
Qed.
Lemma update_delete_closed fresh cur :
  update_delete fresh cur = filter (fun h => negb (existsb (fun e => deleted_by e h) (update_added fresh))) cur.
Proof. unfold update_delete, update_added. apply update_delete_sk_closed. Qed.

(* caseless name comparison is an equivalence, and ids are a function of the caseless name *)
Lemma ci_eqb_refl a : ci_eqb a a = true.
Proof. induction a as [|x a IH]; [reflexivity|]. cbn [ci_eqb]. now rewrite N.eqb_refl, IH. Qed.
Lemma ci_eqb_sym a b : ci_eqb a b = ci_eqb b a.
Proof.
  destruct (ci_eqb a b) eqn:E1; destruct (ci_eqb b a) eqn:E2; try reflexivity.
  - pose proof (ci_eqb_trans_l a b a E1) as H. rewrite ci_eqb_refl in H. congruence.
  - pose proof (ci_eqb_trans_l b a b E2) as H. rewrite ci_eqb_refl in H. congruence.
Qed.

Fixpoint ids_unique (tbl : list (N * list N * (bool * bool * bool * bool * bool))) : bool :=
  match tbl with
  | [] => true
  | (id, _, _) :: r => negb (existsb (fun row => fst (fst row) =? id) r) && ids_unique r
  end.
Lemma table_ids_unique : ids_unique hdr_table = true.
Proof. vm_compute. reflexivity. Qed.
Lemma ids_unique_name tbl : ids_unique tbl = true -> forall id n1 f1 n2 f2,
  In (id, n1, f1) tbl -> In (id, n2, f2) tbl -> n1 = n2.
Proof.
  induction tbl as [|[[i n] f] r IH]; intros Hu id n1 f1 n2 f2 H1 H2; [destruct H1|].
  cbn [ids_unique] in Hu. apply andb_prop in Hu. destruct Hu as [Hne Hr]. apply negb_true_iff in Hne.
  assert (Hno : forall nn ff, In (i, nn, ff) r -> False).
  { intros nn ff Hin. pose proof (existsb_false_all _ _ Hne (i, nn, ff) Hin) as Hx. cbn [fst] in Hx. now rewrite N.eqb_refl in Hx. }
  destruct H1 as [E1|H1]; destruct H2 as [E2|H2].
  - congruence.
  - injection E1 as -> -> ->. exfalso. eapply Hno; eauto.
  - injection E2 as -> -> ->. exfalso. eapply Hno; eauto.
  - eapply IH; eauto.
Qed.
Lemma lookup_id_hit tbl name : lookup_id tbl name <> hdr_OTHER ->
  exists nm fl, In (lookup_id tbl name, nm, fl) tbl /\ ci_eqb name nm = true.
Proof.
  induction tbl as [|[[i n] f] r IH]; cbn [lookup_id]; intros H; [contradiction|].
  destruct (ci_eqb name n) eqn:E.
  - exists n, f. split; [now left|exact E].
  - destruct (IH H) as [nm [fl [Hin Hc]]]. exists nm, fl. split; [now right|exact Hc].
Qed.
Lemma same_id_same_name a b :
  hdr_id a = hdr_id b -> hdr_id a <> hdr_OTHER -> ci_eqb (h_name a) (h_name b) = true.
Proof.
  unfold hdr_id. intros Heq Hne.
  destruct (lookup_id_hit hdr_table (h_name a) Hne) as [n1 [f1 [Hin1 Hc1]]].
  assert (Hne2 : lookup_id hdr_table (h_name b) <> hdr_OTHER) by congruence.
  destruct (lookup_id_hit hdr_table (h_name b) Hne2) as [n2 [f2 [Hin2 Hc2]]].
  rewrite <- Heq in Hin2. pose proof (ids_unique_name _ table_ids_unique _ _ _ _ _ Hin1 Hin2) as ->.
  rewrite (ci_eqb_trans_l _ _ (h_name b) Hc1). now rewrite ci_eqb_sym.
Qed.
(* delById / delByName delete exactly the stored fields with the (caseless) name of the 304's field *)
Lemma deleted_by_name e h : deleted_by e h = ci_eqb (h_name h) (h_name e).
Proof.
  unfold deleted_by. destruct (hdr_id e =? hdr_OTHER) eqn:Eo; cbn [negb]; [reflexivity|].
  apply N.eqb_neq in Eo.
  destruct (ci_eqb (h_name h) (h_name e)) eqn:Ec.
  - apply N.eqb_eq. unfold hdr_id. now apply lookup_id_ci.
  - destruct (hdr_id h =? hdr_id e) eqn:Ei; [|reflexivity]. apply N.eqb_eq in Ei.
    assert (Hne : hdr_id h <> hdr_OTHER) by congruence.
    pose proof (same_id_same_name h e Ei Hne). congruence.
Qed.

Definition named_in (hs : list hdr) (h : hdr) : bool := existsb (fun e => ci_eqb (h_name h) (h_name e)) hs.
(* closed form of HttpHeader::update + compact: stored fields whose name no (non-Vary) 304 field bears, in their
   order, followed by the 304's non-Vary fields in their order *)
Theorem hdr_update_closed old fresh :
  hdr_update old fresh = filter (fun h => negb (named_in (update_added fresh) h)) old ++ update_added fresh.
Proof.
  unfold hdr_update. rewrite update_delete_closed. f_equal. apply filter_ext_all. intros h. unfold named_in. f_equal.
  induction (update_added fresh) as [|e r IH]; [reflexivity|]. cbn [existsb]. now rewrite deleted_by_name, IH.
Qed.

(* "old (+) new by name": the fields of any given name after the update are the 304's if it has (non-Vary) fields of
   that name, else the stored ones — as lists, order and multiplicity included *)
Definition fields_named (n : bytes) (hs : list hdr) : list hdr := filter (fun h => ci_eqb (h_name h) n) hs.
Lemma filter_none {A} (p : A -> bool) l : (forall x, In x l -> p x = false) -> filter p l = [].
Proof.
  induction l as [|x l IH]; intros H; [reflexivity|]. cbn [filter]. rewrite (H x (or_introl eq_refl)). apply IH.
  intros y Hy. apply H. now right.
Qed.
Theorem merge_by_name old fresh n :
  fields_named n (hdr_update old fresh) =
  if existsb (fun e => ci_eqb (h_name e) n) (update_added fresh)
  then fields_named n (update_added fresh) else fields_named n old.
Proof.
  rewrite hdr_update_closed. unfold fields_named. rewrite filter_app, filter_filter.
  destruct (existsb (fun e => ci_eqb (h_name e) n) (update_added fresh)) eqn:Ex.
  - rewrite filter_none; [reflexivity|]. intros h _.
    destruct (ci_eqb (h_name h) n) eqn:Eh; [|now rewrite andb_false_r].
    rewrite andb_true_r. apply negb_false_iff. unfold named_in.
    apply existsb_exists in Ex. destruct Ex as [e0 [Hin He0]]. apply existsb_exists. exists e0. split; [exact Hin|].
    rewrite (ci_eqb_trans_l _ _ (h_name e0) Eh). now rewrite ci_eqb_sym.
  - rewrite (filter_none _ (update_added fresh)).
    2:{ intros e He. exact (existsb_false_all _ _ Ex e He). }
    rewrite app_nil_r. apply filter_ext_all. intros h.
    destruct (ci_eqb (h_name h) n) eqn:Eh; [|now rewrite andb_false_r].
    rewrite andb_true_r. apply negb_true_iff. unfold named_in.
    destruct (existsb (fun e => ci_eqb (h_name h) (h_name e)) (update_added fresh)) eqn:Ey; [|reflexivity].
    apply existsb_exists in Ey. destruct Ey as [e0 [Hin He0]].
    pose proof (existsb_false_all _ _ Ex e0 Hin) as Hf. cbn beta in Hf.
    rewrite <- (ci_eqb_trans_l _ _ n He0) in Hf. congruence.
Qed.

(* needUpdate = false means the stored (joined) value of every non-Vary field name of the 304 already equals the 304's *)
Theorem need_update_false old fresh :
  need_update old fresh = false ->
  forall e, In e (update_added fresh) -> get_named old (h_name e) = Some (get_by_name fresh (h_name e)).
Proof.
  intros H e He. unfold update_added in He. apply filter_In in He. destruct He as [Hin Hs].
  apply negb_true_iff in Hs. unfold skip_entry in Hs. apply orb_false_iff in Hs. destruct Hs as [Hs _].
  apply orb_false_iff in Hs. destruct Hs as [Hs _].
  pose proof (existsb_false_all _ _ H e Hin) as Hf. cbn beta in Hf. rewrite Hs in Hf. cbn [andb negb] in Hf.
  destruct (get_named old (h_name e)) as [v|]; [|discriminate].
  apply negb_false_iff in Hf. apply leqb_eq in Hf. now subst v.
Qed.

(* the revalidation as a whole: body untouched; header either unchanged (nothing new) or merged by name *)
Theorem revalidation_merge o fresh :
  let o' := revalidated_304 o fresh in
  ob_body o' = ob_body o /\
  (need_update (ob_hdrs o) fresh = true ->
     forall n, fields_named n (ob_hdrs o') =
               if existsb (fun e => ci_eqb (h_name e) n) (update_added fresh)
               then fields_named n (update_added fresh) else fields_named n (ob_hdrs o)) /\
  (need_update (ob_hdrs o) fresh = false ->
     ob_hdrs o' = ob_hdrs o /\
     forall e, In e (update_added fresh) -> get_named (ob_hdrs o) (h_name e) = Some (get_by_name fresh (h_name e))).
Proof.
  cbn zeta. unfold revalidated_304, update_on_not_modified. cbn [ob_body ob_hdrs]. split; [reflexivity|]. split.
  - intros ->. intros n. apply merge_by_name.
  - intros Hn. rewrite Hn. split; [reflexivity|]. now apply need_update_false.
Qed.

(* Vary is never taken from a 304 (HttpHeader::skipUpdateHeader) *)
Theorem vary_not_updated old fresh h :
  In h (hdr_update old fresh) -> hdr_id h = ID_VARY -> In h old.
Proof.
  rewrite hdr_update_closed. intros Hin Hv. apply in_app_or in Hin. destruct Hin as [Hin|Hin].
  - apply filter_In in Hin. tauto.
  - unfold update_added in Hin. apply filter_In in Hin. destruct Hin as [_ Hs]. unfold skip_entry, skip_update_header in Hs.
    rewrite Hv, N.eqb_refl in Hs. discriminate.
Qed.

(* repaired code: nothing hop-by-hop of the 304 (by the registered-header table, or nominated by the 304's own
   Connection field) enters the stored header, and such fields delete nothing *)
Theorem hop_by_hop_of_304_not_merged old fresh h :
  In h (hdr_update old fresh) ->
  In h old \/
  (In h fresh /\ is_hopbyhop (hdr_id h) = false /\ is_member (conn_value fresh) (h_name h) = false /\ hdr_id h <> ID_VARY).
Proof.
  rewrite hdr_update_closed. intros Hin. apply in_app_or in Hin. destruct Hin as [Hin|Hin].
  - left. apply filter_In in Hin. tauto.
  - right. unfold update_added in Hin. apply filter_In in Hin. destruct Hin as [Hf Hs].
    apply negb_true_iff in Hs. unfold skip_entry in Hs. apply orb_false_iff in Hs. destruct Hs as [Hs Hm].
    apply orb_false_iff in Hs. destruct Hs as [Hv Hh]. repeat split; try assumption.
    unfold skip_update_header in Hv. now apply N.eqb_neq.
Qed.
Theorem stored_field_deleted_only_by_end_to_end_304_field old fresh h :
  In h old -> ~ In h (hdr_update old fresh) ->
  exists e, In e fresh /\ ci_eqb (h_name h) (h_name e) = true /\
            is_hopbyhop (hdr_id e) = false /\ is_member (conn_value fresh) (h_name e) = false.
Proof.
  rewrite hdr_update_closed. intros Hin Hnot.
  destruct (named_in (update_added fresh) h) eqn:En.
  - unfold named_in in En. apply existsb_exists in En. destruct En as [e [He Hc]].
    unfold update_added in He. apply filter_In in He. destruct He as [Hf Hs].
    apply negb_true_iff in Hs. unfold skip_entry in Hs. apply orb_false_iff in Hs. destruct Hs as [Hs Hm].
    apply orb_false_iff in Hs. destruct Hs as [_ Hh]. exists e. repeat split; assumption.
  - exfalso. apply Hnot. apply in_or_app. left. apply filter_In. split; [exact Hin|]. now rewrite En.
Qed.

(* handleIMSReply: after an origin 304 the client gets a 304 only if it sent a usable If-Modified-Since that covers
   the (updated) entity; otherwise the (updated) stored response. The cache ends up with the merged header. *)
Theorem ims_reply_304 pd r old fresh ts fail :
  let merged := update_on_not_modified (en_hdrs old) fresh in
  let e' := {| en_status := en_status old; en_hdrs := merged; en_timestamp := ts |} in
  snd (handle_ims_reply pd r old 304 fresh ts fail) = merged /\
  (fst (handle_ims_reply pd r old 304 fresh ts fail) = RForward304 <->
     (0 < rq_ims pd r)%Z /\ not_modified_since pd e' (rq_ims pd r)) /\
  (fst (handle_ims_reply pd r old 304 fresh ts fail) <> RForward304 ->
     fst (handle_ims_reply pd r old 304 fresh ts fail) = ROld).
Proof.
  cbn zeta. unfold handle_ims_reply. replace (304 =? 304) with true by reflexivity. unfold ims_flag.
  set (e' := {| en_status := en_status old; en_hdrs := update_on_not_modified (en_hdrs old) fresh; en_timestamp := ts |}).
  pose proof (modified_since_false pd e' (rq_ims pd r)) as Hms.
  destruct (0 <? rq_ims pd r)%Z eqn:Ei; destruct (modified_since pd e' (rq_ims pd r)) eqn:Em; cbn [andb negb fst snd];
    (split; [reflexivity|]); split; try (split; intros; try discriminate); try tauto; try lia; try congruence.
  all: try (destruct H as [H1 H2]; apply Hms in H2; discriminate).
  all: try (split; [lia| now apply Hms]).
  all: try (intros [H1 H2]; lia).
Qed.
