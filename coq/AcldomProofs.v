(* AcldomProofs.v — proofs for C41 (domain-name ACLs) about AcldomModel.v.

   Plan. Every byte gets a key (0 for '.', 1 + xtolower(c) otherwise); a name is
   read as the list of the keys of its characters from the END of the string
   ([rk]). In the lexicographic order of key lists every value denotes a
   half-open interval [lo v, lo v ++ [ext v]) — a single point for a plain
   name, "the root and everything that continues it with a dot" for a value
   with a leading dot — and
     * matchDomainName(h, v) is the position of rk h relative to that interval
       ([mdn_pos]);
     * Compare(a, b) is -1 / +1 when the two intervals are disjoint (in that
       order) and 0 when they overlap ([dcompare_neg], [dcompare_pos]);
     * IsSubset decides inclusion of overlapping intervals ([subset_sound],
       [subset_total]).
   The tree kept by Merge() stays sorted by "interval entirely before"
   ([sd]); both comparators are sign-monotone along such a sequence, so the
   SplayProofs theorems apply. *)
Require Import SquidV.Bytes SquidV.SplayModel SquidV.SplayProofs SquidV.AcldomModel.
Require Import SquidV.gen.AclDom_gen.
Require Import ZifyBool ZifyN ZifyNat.
Local Open Scope N_scope.

(* ------------------------------------------------------------------ *)
(* xtolower, from the regenerated table                                *)
Definition lower_ok (c : N) : bool :=
  (lower (lower c) =? lower c) && Bool.eqb (lower c =? dot) (c =? dot).

Lemma lower_ok_all c : lower_ok c = true.
Proof.
  destruct (N.ltb_spec c 256) as [H|H].
  - apply (forallb_bytes lower_ok); [vm_compute; reflexivity| exact H].
  - unfold lower_ok, lower.
    destruct (N.ltb_spec c 256) as [H'|_]; [lia|].
    destruct (N.ltb_spec c 256) as [H'|_]; [lia|].
    rewrite N.eqb_refl. cbn [andb]. apply Bool.eqb_reflx.
Qed.

Lemma lower_idem c : lower (lower c) = lower c.
Proof.
  pose proof (lower_ok_all c) as H. unfold lower_ok in H. apply andb_prop in H. destruct H as [H _].
  apply N.eqb_eq, H.
Qed.

Lemma lower_dot c : lower c = dot <-> c = dot.
Proof.
  pose proof (lower_ok_all c) as H. unfold lower_ok in H. apply andb_prop in H. destruct H as [_ H].
  apply Bool.eqb_prop in H. rewrite <- !N.eqb_eq. rewrite H. reflexivity.
Qed.

Lemma lower_dot_self : lower dot = dot.
Proof. apply lower_dot. reflexivity. Qed.

(* ------------------------------------------------------------------ *)
(* keys and the lexicographic order                                    *)
Definition key (c : N) : N := if c =? dot then 0 else N.succ (lower c).

Lemma key_zero c : key c = 0 <-> c = dot.
Proof. unfold key. destruct (N.eqb_spec c dot); split; intros; try lia; congruence. Qed.

Lemma key_lower c : key (lower c) = key c.
Proof.
  unfold key. rewrite lower_idem.
  destruct (N.eqb_spec c dot) as [->|Hc].
  - rewrite lower_dot_self, N.eqb_refl. reflexivity.
  - destruct (N.eqb_spec (lower c) dot) as [E|_]; [apply (proj1 (lower_dot c)) in E; contradiction| reflexivity].
Qed.

Lemma key_eq_iff x y : key x = key y <-> lower x = lower y.
Proof.
  unfold key.
  destruct (N.eqb_spec x dot) as [->|Hx]; destruct (N.eqb_spec y dot) as [->|Hy].
  - tauto.
  - rewrite lower_dot_self. split; [lia|]. intros E. symmetry in E. apply (proj1 (lower_dot y)) in E. contradiction.
  - rewrite lower_dot_self. split; [lia|]. intros E. apply (proj1 (lower_dot x)) in E. contradiction.
  - split; [lia| intros ->; reflexivity].
Qed.

Fixpoint lex (a b : list N) : comparison :=
  match a, b with
  | [], [] => Eq
  | [], _ :: _ => Lt
  | _ :: _, [] => Gt
  | x :: a', y :: b' => match x ?= y with Eq => lex a' b' | c => c end
  end.

Definition llt (a b : list N) : Prop := lex a b = Lt.
Definition lle (a b : list N) : Prop := lex a b <> Gt.

Lemma lex_refl a : lex a a = Eq.
Proof. induction a as [|x a IH]; cbn [lex]; [reflexivity|]. now rewrite N.compare_refl. Qed.

Lemma lex_eq a : forall b, lex a b = Eq -> a = b.
Proof.
  induction a as [|x a IH]; intros [|y b]; cbn [lex]; try discriminate; [reflexivity|].
  destruct (x ?= y) eqn:E; try discriminate. apply N.compare_eq in E. subst. intros H. f_equal. apply IH, H.
Qed.

Lemma lex_antisym a : forall b, lex b a = CompOpp (lex a b).
Proof.
  induction a as [|x a IH]; intros [|y b]; cbn [lex CompOpp]; try reflexivity.
  rewrite (N.compare_antisym x y). destruct (x ?= y); cbn [CompOpp]; [apply IH| reflexivity| reflexivity].
Qed.

Lemma lex_trans a : forall b c, lex a b = Lt -> lex b c = Lt -> lex a c = Lt.
Proof.
  induction a as [|x a IH]; intros [|y b] [|z c]; cbn [lex]; try discriminate; try reflexivity.
  destruct (x ?= y) eqn:E1; try discriminate.
  - apply N.compare_eq in E1. subst y. destruct (x ?= z); try discriminate; [apply IH| reflexivity].
  - intros _. destruct (y ?= z) eqn:E2; try discriminate.
    + apply N.compare_eq in E2. subst z. rewrite E1. reflexivity.
    + intros _. rewrite N.compare_lt_iff in *. assert (H : x < z) by lia. unfold N.lt in H. rewrite H. reflexivity.
Qed.

Lemma llt_irrefl a : ~ llt a a.
Proof. unfold llt. rewrite lex_refl. discriminate. Qed.

Lemma llt_trans a b c : llt a b -> llt b c -> llt a c.
Proof. apply lex_trans. Qed.

Lemma lle_refl a : lle a a.
Proof. unfold lle. rewrite lex_refl. discriminate. Qed.

Lemma llt_lle a b : llt a b -> lle a b.
Proof. unfold llt, lle. intros ->. discriminate. Qed.

Lemma lle_cases a b : lle a b <-> llt a b \/ a = b.
Proof.
  unfold lle, llt. destruct (lex a b) eqn:E.
  - apply lex_eq in E. split; [auto| discriminate].
  - split; [auto| discriminate].
  - split; [congruence|]. intros [H|H]; [discriminate|]. subst. rewrite lex_refl in E. discriminate.
Qed.

Lemma not_lle a b : ~ lle a b <-> llt b a.
Proof.
  unfold lle, llt. rewrite (lex_antisym a b).
  destruct (lex a b); cbn [CompOpp]; split; intros H; try congruence; try discriminate;
    try (exfalso; apply H; discriminate).
Qed.

Lemma not_llt a b : ~ llt a b <-> lle b a.
Proof.
  unfold lle, llt. rewrite (lex_antisym a b).
  destruct (lex a b); cbn [CompOpp]; split; intros H; try congruence; try discriminate;
    try (exfalso; apply H; reflexivity).
Qed.

Lemma llt_lle_trans a b c : llt a b -> lle b c -> llt a c.
Proof. intros H1 H2. apply lle_cases in H2. destruct H2 as [H2| ->]; [eapply llt_trans; eassumption| exact H1]. Qed.

Lemma lle_llt_trans a b c : lle a b -> llt b c -> llt a c.
Proof. intros H1 H2. apply lle_cases in H1. destruct H1 as [H1| ->]; [eapply llt_trans; eassumption| exact H2]. Qed.

Lemma lle_trans a b c : lle a b -> lle b c -> lle a c.
Proof.
  intros H1 H2. apply lle_cases in H1. destruct H1 as [H1| ->]; [|exact H2].
  apply llt_lle. eapply llt_lle_trans; eassumption.
Qed.

Lemma llt_snoc a e : llt a (a ++ [e]).
Proof. unfold llt. induction a as [|x a IH]; cbn [lex app]; [reflexivity|]. now rewrite N.compare_refl. Qed.

(* ------------------------------------------------------------------ *)
(* position of a point q relative to the half-open interval [P, P ++ [e]) *)
Fixpoint pos (q P : list N) (e : N) : comparison :=
  match q, P with
  | [], [] => Eq
  | [], _ :: _ => Lt
  | x :: _, [] => if x <? e then Eq else Gt
  | x :: q', y :: P' => match x ?= y with Eq => pos q' P' e | c => c end
  end.

Lemma pos_Lt q : forall P e, pos q P e = Lt <-> llt q P.
Proof.
  unfold llt. induction q as [|x q IH]; intros [|y P] e; cbn [pos lex]; try tauto.
  - destruct (x <? e); split; discriminate.
  - destruct (x ?= y); [apply IH| tauto| tauto].
Qed.

Lemma pos_Gt q : forall P e, pos q P e = Gt <-> lle (P ++ [e]) q.
Proof.
  unfold lle. induction q as [|x q IH]; intros [|y P] e; cbn [pos lex app].
  - split; [discriminate| intros H; exfalso; apply H; reflexivity].
  - split; [discriminate| intros H; exfalso; apply H; reflexivity].
  - rewrite (N.compare_antisym x e). destruct (N.ltb_spec x e) as [H|H].
    + unfold N.lt in H. rewrite H. cbn [CompOpp]. split; [discriminate| intros G; exfalso; apply G; reflexivity].
    + destruct (x ?= e) eqn:E; cbn [CompOpp].
      * split; [intros _|reflexivity]. destruct q; discriminate.
      * exfalso. rewrite N.compare_lt_iff in E. lia.
      * split; [intros _; discriminate| reflexivity].
  - rewrite (N.compare_antisym x y). destruct (x ?= y); cbn [CompOpp]; [apply IH| |].
    + split; [discriminate| intros G; exfalso; apply G; reflexivity].
    + split; [intros _; discriminate| reflexivity].
Qed.

Lemma pos_Eq q : forall P e, pos q P e = Eq <-> q = P \/ exists x w, q = P ++ x :: w /\ x < e.
Proof.
  induction q as [|x q IH]; intros [|y P] e; cbn [pos app].
  - split; [auto| reflexivity].
  - split; [discriminate|]. intros [H|(x & w & H & _)]; [discriminate| destruct P; discriminate].
  - destruct (N.ltb_spec x e) as [H|H].
    + split; [intros _; right; exists x, q; auto| reflexivity].
    + split; [discriminate|]. intros [G|(x' & w & G & L)]; [discriminate|]. inversion G; subst. lia.
  - destruct (x ?= y) eqn:E.
    + apply N.compare_eq in E. subst y. rewrite IH. split.
      * intros [->|(x' & w & -> & L)]; [left; reflexivity| right; exists x', w; auto].
      * intros [G|(x' & w & G & L)]; [inversion G; auto| inversion G; subst; right; exists x', w; auto].
    + split; [discriminate|]. intros [G|(x' & w & G & L)]; inversion G; subst; rewrite N.compare_refl in E; discriminate.
    + split; [discriminate|]. intros [G|(x' & w & G & L)]; inversion G; subst; rewrite N.compare_refl in E; discriminate.
Qed.

(* ------------------------------------------------------------------ *)
(* values as intervals                                                 *)
Definition rk (s : bytes) : list N := map key (rev s).
Definition root1 (v : bytes) : bytes := if first_is_dot v then tl v else v.
Definition lo (v : bytes) : list N := rk (root1 v).
Definition ext (v : bytes) : N := if first_is_dot v then 1 else 0.
Definition hi (v : bytes) : list N := lo v ++ [ext v].
Definition vpos (q : list N) (v : bytes) : comparison := pos q (lo v) (ext v).

(* a domain value: a non-empty name that does not start with '.', optionally preceded by one '.' *)
Definition wf (v : bytes) : Prop := root1 v <> [] /\ first_is_dot (root1 v) = false.

Lemma lo_lt_hi v : llt (lo v) (hi v).
Proof. apply llt_snoc. Qed.

Lemma vpos_Lt q v : vpos q v = Lt <-> llt q (lo v).
Proof. apply pos_Lt. Qed.
Lemma vpos_Gt q v : vpos q v = Gt <-> lle (hi v) q.
Proof. apply pos_Gt. Qed.

Lemma vpos_lo v : vpos (lo v) v = Eq.
Proof. apply pos_Eq. left. reflexivity. Qed.

Local Open Scope Z_scope.

Definition sign_is (c : comparison) (z : Z) : Prop :=
  match c with Lt => z < 0 | Eq => z = 0 | Gt => z > 0 end.

(* the comparison loop computes the position *)
Lemma mdn_loop_pos (fd : bool) : forall rh rP, rh <> [] ->
  rP ++ (if fd then [dot] else []) <> [] ->
  sign_is (pos (map key rh) (map key rP) (if fd then 1%N else 0%N))
          (mdn_loop fd rh (rP ++ (if fd then [dot] else []))).
Proof.
  induction rh as [|x rh IH]; intros rP Hne Hrd; [congruence|]. clear Hne.
  destruct rP as [|y rP].
  - (* only the leading dot of d is left *)
    destruct fd; [|cbn [app] in Hrd; congruence]. cbn [app map pos mdn_loop].
    destruct (N.eqb_spec (lower x) (lower dot)) as [E|E].
    + rewrite lower_dot_self in E. apply (proj1 (lower_dot x)) in E. subst x.
      change (key dot) with 0%N. cbn [N.ltb N.compare]. destruct rh; cbn; reflexivity.
    + rewrite N.eqb_refl.
      assert (Hk : key x <> 0%N) by (rewrite key_zero; intros ->; apply E; reflexivity).
      destruct (N.ltb_spec (key x) 1); [lia|]. cbn. lia.
  - cbn [app map pos]. cbn [mdn_loop].
    destruct (N.eqb_spec (lower x) (lower y)) as [E|E].
    + assert (Ek : key x = key y) by (apply key_eq_iff, E). rewrite Ek, N.compare_refl.
      destruct rh as [|x2 rh].
      * (* h exhausted *)
        cbn [map pos].
        destruct rP as [|y2 rP]; cbn [app map].
        -- destruct fd; cbn; reflexivity.
        -- cbn [lenN]. destruct fd; cbn [andb sign_is].
           ++ destruct (N.eqb_spec (N.succ (lenN (rP ++ [dot]))) 1) as [H|H]; [|cbn; lia].
              exfalso. rewrite lenN_app in H. cbn [lenN] in H. lia.
           ++ rewrite andb_false_r. lia.
      * destruct rP as [|y2 rP].
        -- destruct fd; cbn [app].
           ++ apply (IH [] ltac:(discriminate) ltac:(discriminate)).
           ++ cbn [map pos]. destruct (N.ltb_spec (key x2) 0); [lia|]. cbn. lia.
        -- cbn [app]. apply (IH (y2 :: rP) ltac:(discriminate)). cbn [app]. discriminate.
    + assert (Ek : key x <> key y) by (rewrite key_eq_iff; exact E).
      destruct (N.eqb_spec y dot) as [Hy|Hy].
      * subst y. change (key dot) with 0%N in *.
        destruct (key x ?= 0)%N eqn:C; [apply N.compare_eq in C; congruence| rewrite N.compare_lt_iff in C; lia| cbn; lia].
      * destruct (N.eqb_spec x dot) as [Hx|Hx].
        -- subst x. change (key dot) with 0%N in *.
           destruct (0 ?= key y)%N eqn:C; [apply N.compare_eq in C; congruence| cbn; lia| rewrite N.compare_gt_iff in C; lia].
        -- unfold key. destruct (N.eqb_spec x dot); [contradiction|]. destruct (N.eqb_spec y dot); [contradiction|].
           destruct (N.compare_spec (N.succ (lower x)) (N.succ (lower y))) as [C|C|C]; cbn [sign_is]; lia.
Qed.

Lemma strip_dots_idem h : first_is_dot (strip_dots h) = false.
Proof.
  induction h as [|c h IH]; cbn [strip_dots first_is_dot]; [reflexivity|].
  destruct (N.eqb_spec c dot) as [E|E]; [exact IH|]. cbn [first_is_dot]. apply N.eqb_neq, E.
Qed.

Lemma strip_dots_id h : first_is_dot h = false -> strip_dots h = h.
Proof. destruct h as [|c h]; cbn [first_is_dot strip_dots]; [reflexivity|]. intros ->. reflexivity. Qed.

Lemma rev_root1 d : d <> [] -> rev d = rev (root1 d) ++ (if first_is_dot d then [dot] else []).
Proof.
  destruct d as [|c d]; [congruence|]. intros _. unfold root1. cbn [first_is_dot].
  destruct (N.eqb_spec c dot) as [->|E]; cbn [tl rev]; [reflexivity| now rewrite app_nil_r].
Qed.

(* matchDomainName(h, d) is the position of the (dot-stripped) host relative to the interval of d *)
Theorem mdn_pos h d : d <> [] -> strip_dots h <> [] ->
  sign_is (vpos (rk (strip_dots h)) d) (matchDomainName h d).
Proof.
  intros Hd Hh. unfold matchDomainName.
  destruct (strip_dots h) as [|c h'] eqn:Eh; [congruence|].
  destruct d as [|c0 d']; [congruence|].
  pose proof (rev_root1 (c0 :: d') Hd) as Hr. rewrite Hr.
  unfold vpos, lo, ext, rk.
  assert (Hrh : rev (c :: h') <> []) by (cbn [rev]; destruct (rev h'); discriminate).
  assert (Hrd : rev (root1 (c0 :: d')) ++ (if first_is_dot (c0 :: d') then [dot] else []) <> [])
    by (rewrite <- Hr; cbn [rev]; destruct (rev d'); discriminate).
  exact (mdn_loop_pos (first_is_dot (c0 :: d')) (rev (c :: h')) (rev (root1 (c0 :: d'))) Hrh Hrd).
Qed.

Lemma mdn_empty_host h d : strip_dots h = [] -> matchDomainName h d = -1.
Proof. intros E. unfold matchDomainName. rewrite E. reflexivity. Qed.

(* ------------------------------------------------------------------ *)
(* Compare() on normalised values                                      *)
Lemma sign_is_lt c z : sign_is c z -> (z < 0 <-> c = Lt).
Proof. destruct c; cbn [sign_is]; intros H; split; intros G; try discriminate; try lia; reflexivity. Qed.
Lemma sign_is_eq c z : sign_is c z -> (z = 0 <-> c = Eq).
Proof. destruct c; cbn [sign_is]; intros H; split; intros G; try discriminate; try lia; reflexivity. Qed.
Lemma sign_is_gt c z : sign_is c z -> (z > 0 <-> c = Gt).
Proof. destruct c; cbn [sign_is]; intros H; split; intros G; try discriminate; try lia; reflexivity. Qed.

(* the value "." (every name ending in a dot) *)
Definition dotv : bytes := [dot].

(* What parse() hands to Merge() for a non-empty token: a well-formed value or ".". *)
Definition wfx (v : bytes) : Prop := wf v \/ v = dotv.

Lemma classic_dotv (a b : bytes) : (a = dotv /\ b = dotv) \/ ~ (a = dotv /\ b = dotv).
Proof.
  destruct (list_eq_dec N.eq_dec a dotv) as [Ha|Ha]; [|right; tauto].
  destruct (list_eq_dec N.eq_dec b dotv) as [Hb|Hb]; [left; auto| right; tauto].
Qed.

Lemma wf_nonempty v : wf v -> v <> [].
Proof. intros [H _] ->. apply H. reflexivity. Qed.

Lemma wfx_nonempty v : wfx v -> v <> [].
Proof. intros [H| ->]; [apply wf_nonempty, H| discriminate]. Qed.

Lemma wf_not_dotv v : wf v -> v <> dotv.
Proof. intros [H _] ->. apply H. reflexivity. Qed.

Lemma wf_strip v : wf v -> strip_dots v = root1 v.
Proof.
  intros [Hne Hd]. unfold root1 in *. destruct v as [|c v]; [reflexivity|].
  cbn [first_is_dot strip_dots tl] in *. destruct (N.eqb_spec c dot) as [E|E].
  - apply strip_dots_id, Hd.
  - reflexivity.
Qed.

Lemma wf_lo_nonempty v : wf v -> lo v <> [].
Proof.
  intros [H _]. unfold lo, rk. destruct (root1 v) as [|c r]; [congruence|].
  cbn [rev]. destruct (rev r); discriminate.
Qed.

(* matchDomainName between two stored-style values; the only pair it gets "wrong" is (".", ".") *)
Lemma mdn_wfx a b : wfx a -> wfx b -> ~ (a = dotv /\ b = dotv) ->
  sign_is (vpos (lo a) b) (matchDomainName a b).
Proof.
  intros [Ha| ->] Hb Hne.
  - pose proof (mdn_pos a b (wfx_nonempty b Hb)) as H.
    rewrite (wf_strip a Ha) in H. apply H. apply Ha.
  - destruct Hb as [Hb| ->]; [|exfalso; apply Hne; auto].
    rewrite (mdn_empty_host dotv b) by (vm_compute; reflexivity).
    unfold vpos. change (lo dotv) with (@nil N).
    pose proof (wf_lo_nonempty b Hb) as Hl. destruct (lo b); [congruence|]. cbn. lia.
Qed.

(* the interval of a lies entirely before the interval of b *)
Definition before (a b : bytes) : Prop := lle (hi a) (lo b).

Lemma before_lo a b : before a b -> llt (lo a) (lo b).
Proof. intros H. eapply llt_lle_trans; [apply lo_lt_hi| exact H]. Qed.

Lemma before_trans a b c : before a b -> before b c -> before a c.
Proof.
  unfold before. intros H1 H2. apply llt_lle.
  eapply lle_llt_trans; [exact H1|]. eapply llt_lle_trans; [apply lo_lt_hi| exact H2].
Qed.

Lemma before_irrefl a : ~ before a a.
Proof. intros H. apply before_lo in H. exact (llt_irrefl _ H). Qed.

Lemma before_dotv_r x : ~ before x dotv.
Proof.
  unfold before, lle, hi. change (lo dotv) with (@nil N). intros H. apply H.
  destruct (lo x); reflexivity.
Qed.

Theorem dcompare_neg a b : wfx a -> wfx b -> ~ (a = dotv /\ b = dotv) -> (dcompare a b < 0 <-> before a b).
Proof.
  intros Ha Hb Hne. pose proof (mdn_wfx a b Ha Hb Hne) as Sab.
  pose proof (mdn_wfx b a Hb Ha ltac:(tauto)) as Sba.
  unfold dcompare. split.
  - destruct (Z.eqb_spec (matchDomainName b a) 0) as [E|E]; [lia|]. intros H.
    apply (sign_is_lt _ _ Sab) in H. apply vpos_Lt in H.
    destruct (vpos (lo b) a) eqn:P.
    + exfalso. apply E. apply (sign_is_eq _ _ Sba). reflexivity.
    + apply vpos_Lt in P. exfalso. exact (llt_irrefl _ (llt_trans _ _ _ H P)).
    + apply vpos_Gt in P. exact P.
  - intros H. pose proof H as H'. apply vpos_Gt in H'. apply (sign_is_gt _ _ Sba) in H'.
    destruct (Z.eqb_spec (matchDomainName b a) 0) as [E|E]; [lia|].
    apply (sign_is_lt _ _ Sab). apply vpos_Lt. apply before_lo, H.
Qed.

Theorem dcompare_pos a b : wfx a -> wfx b -> ~ (a = dotv /\ b = dotv) -> (dcompare a b > 0 <-> before b a).
Proof.
  intros Ha Hb Hne. pose proof (mdn_wfx a b Ha Hb Hne) as Sab.
  pose proof (mdn_wfx b a Hb Ha ltac:(tauto)) as Sba.
  unfold dcompare. split.
  - destruct (Z.eqb_spec (matchDomainName b a) 0) as [E|E]; [lia|]. intros H.
    apply (sign_is_gt _ _ Sab) in H. apply vpos_Gt in H. exact H.
  - intros H. pose proof H as H'. apply vpos_Gt in H'. apply (sign_is_gt _ _ Sab) in H'.
    pose proof (before_lo _ _ H) as L. apply vpos_Lt in L. apply (sign_is_lt _ _ Sba) in L.
    destruct (Z.eqb_spec (matchDomainName b a) 0) as [E|E]; [lia| exact H'].
Qed.

Definition inI (q : list N) (v : bytes) : Prop := vpos q v = Eq.

Theorem dcompare_zero a b : wfx a -> wfx b -> ~ (a = dotv /\ b = dotv) ->
  dcompare a b = 0 -> inI (lo b) a \/ inI (lo a) b.
Proof.
  intros Ha Hb Hne. pose proof (mdn_wfx a b Ha Hb Hne) as Sab.
  pose proof (mdn_wfx b a Hb Ha ltac:(tauto)) as Sba.
  unfold dcompare, inI. destruct (Z.eqb_spec (matchDomainName b a) 0) as [E|E].
  - intros _. left. apply (sign_is_eq _ _ Sba), E.
  - intros H. right. apply (sign_is_eq _ _ Sab), H.
Qed.

Lemma dcompare_refl a : wf a -> dcompare a a = 0.
Proof.
  intros Ha. pose proof (mdn_wfx a a (or_introl Ha) (or_introl Ha)) as S. unfold dcompare.
  assert (E : matchDomainName a a = 0).
  { apply (sign_is_eq _ _ (S ltac:(intros [H _]; exact (wf_not_dotv a Ha H)))), vpos_lo. }
  rewrite E. reflexivity.
Qed.

(* the quirk: "." is not its own duplicate (its root is empty), so it may be stored several times *)
Lemma dcompare_dotv_dotv : dcompare dotv dotv = -1.
Proof. vm_compute. reflexivity. Qed.

(* ------------------------------------------------------------------ *)
(* sequences sorted by "entirely before" (copies of "." may repeat), and sign monotonicity *)
Definition ord (x y : bytes) : Prop := before x y \/ (x = dotv /\ y = dotv).

Fixpoint sd (l : list bytes) : Prop :=
  match l with
  | [] => True
  | x :: r => Forall (ord x) r /\ sd r
  end.

Lemma sd_app a b : sd (a ++ b) <-> sd a /\ sd b /\ (forall x y, In x a -> In y b -> ord x y).
Proof.
  induction a as [|x a IH]; cbn [app sd].
  - split; [intros H; repeat split; [exact H| intros x y []] | intros (_ & H & _); exact H].
  - rewrite IH. rewrite Forall_app. split.
    + intros ((Fa & Fb) & Ma & Mb & Hc). repeat split; try assumption.
      intros x0 y [<-|Hx] Hy; [rewrite Forall_forall in Fb; apply Fb, Hy| apply Hc; assumption].
    + intros ((Fa & Ma) & Mb & Hc). repeat split; try assumption.
      * rewrite Forall_forall. intros y Hy. apply Hc; [left; reflexivity| exact Hy].
      * intros x0 y Hx Hy. apply Hc; [right; exact Hx| exact Hy].
Qed.

Lemma mono_of_sd (c : bytes -> Z) l :
  (forall x y, wfx x -> wfx y -> before x y -> Z.sgn (c y) <= Z.sgn (c x)) ->
  Forall wfx l -> sd l -> mono c l.
Proof.
  intros Hc. induction l as [|x l IH]; intros W S; cbn [mono]; [exact I|].
  inversion W as [|? ? Wx Wl]; subst. destruct S as [F S]. split; [|apply IH; assumption].
  rewrite Forall_forall in *. intros y Hy.
  destruct (F y Hy) as [B|[-> ->]]; [apply Hc; [exact Wx| apply Wl, Hy| exact B]| lia].
Qed.

Theorem mono_dcompare a l : wfx a -> Forall wfx l -> sd l -> mono (dcompare a) l.
Proof.
  intros Ha. apply mono_of_sd. intros x y Wx Wy B.
  assert (Hy : y <> dotv) by (intros ->; exact (before_dotv_r x B)).
  assert (Nay : ~ (a = dotv /\ y = dotv)) by tauto.
  destruct (classic_dotv a x) as [[-> ->]|Nax].
  - (* a = x = ".": compare(".", ".") = -1, and y lies after "." *)
    rewrite dcompare_dotv_dotv.
    assert (H2 : dcompare dotv y < 0) by (apply (dcompare_neg dotv y Ha Wy Nay); exact B).
    lia.
  - destruct (Z.lt_trichotomy (dcompare a x) 0) as [H|[H|H]].
    + apply (dcompare_neg a x Ha Wx Nax) in H.
      assert (H2 : dcompare a y < 0) by (apply (dcompare_neg a y Ha Wy Nay); eapply before_trans; eassumption).
      lia.
    + destruct (Z.lt_trichotomy (dcompare a y) 0) as [G|[G|G]]; try lia.
      assert (G' : dcompare a y > 0) by lia. apply (dcompare_pos a y Ha Wy Nay) in G'.
      assert (H2 : dcompare a x > 0) by (apply (dcompare_pos a x Ha Wx Nax); eapply before_trans; eassumption).
      lia.
    + lia.
Qed.

Theorem mono_host h l : Forall wfx l -> sd l -> mono (host_cmp h) l.
Proof.
  apply mono_of_sd. intros x y Wx Wy B. unfold host_cmp.
  destruct (strip_dots h) as [|c h'] eqn:Eh.
  - rewrite !mdn_empty_host by exact Eh. lia.
  - assert (Hh : strip_dots h <> []) by (rewrite Eh; discriminate).
    pose proof (mdn_pos h x (wfx_nonempty x Wx) Hh) as Sx.
    pose proof (mdn_pos h y (wfx_nonempty y Wy) Hh) as Sy.
    rewrite Eh in Sx, Sy. set (q := rk (c :: h')) in *.
    destruct (vpos q x) eqn:Px; cbn [sign_is] in Sx.
    + (* q inside x: it cannot be at or after the end of y *)
      destruct (vpos q y) eqn:Py; cbn [sign_is] in Sy; try lia.
      exfalso. apply vpos_Gt in Py.
      assert (G : lle (hi x) q).
      { apply llt_lle. eapply llt_lle_trans; [|exact Py]. eapply lle_llt_trans; [exact B| apply lo_lt_hi]. }
      apply vpos_Gt in G. congruence.
    + apply vpos_Lt in Px.
      assert (G : llt q (lo y)) by (eapply llt_trans; [exact Px| apply before_lo, B]).
      apply vpos_Lt in G. rewrite G in Sy. cbn [sign_is] in Sy. lia.
    + lia.
Qed.

(* ------------------------------------------------------------------ *)
(* IsSubset() decides inclusion of overlapping intervals               *)
Lemma inI_plain q v : first_is_dot v = false -> (inI q v <-> q = lo v).
Proof.
  intros Hf. unfold inI, vpos, ext. rewrite Hf. rewrite pos_Eq. split; [|auto].
  intros [H|(x & w & _ & L)]; [exact H| lia].
Qed.

Lemma inI_dot q v : first_is_dot v = true -> (inI q v <-> q = lo v \/ exists w, q = lo v ++ 0%N :: w).
Proof.
  intros Hf. unfold inI, vpos, ext. rewrite Hf. rewrite pos_Eq. split.
  - intros [H|(x & w & H & L)]; [auto|]. right. exists w. assert (x = 0%N) by lia. subst x. exact H.
  - intros [H|(w & H)]; [auto|]. right. exists 0%N, w. split; [exact H| lia].
Qed.

Lemma dot_nested a b : first_is_dot a = true -> inI (lo b) a -> forall q, inI q b -> inI q a.
Proof.
  intros Fa Hb q Hq. apply (inI_dot _ _ Fa) in Hb. apply (inI_dot _ _ Fa).
  destruct (first_is_dot b) eqn:Fb.
  - apply (inI_dot _ _ Fb) in Hq.
    destruct Hb as [Hb|(w & Hb)]; rewrite Hb in Hq.
    + exact Hq.
    + right. destruct Hq as [->|(w' & ->)]; [exists w; reflexivity|].
      exists (w ++ 0%N :: w'). rewrite <- app_assoc. reflexivity.
  - apply (inI_plain _ _ Fb) in Hq. subst q. exact Hb.
Qed.

Lemma lo_length v : length (lo v) = length (root1 v).
Proof. unfold lo, rk. now rewrite map_length, rev_length. Qed.

Lemma lenN_dot v : first_is_dot v = true -> lenN v = N.succ (N.of_nat (length (lo v))).
Proof.
  intros Hf. rewrite lo_length. unfold root1. rewrite Hf. destruct v as [|c v]; [discriminate|].
  cbn [lenN tl]. now rewrite lenN_length.
Qed.

(* no condition on the two values *)
Theorem subset_sound a b : (inI (lo b) a \/ inI (lo a) b) ->
  is_subset a b = true -> forall q, inI q a -> inI q b.
Proof.
  intros Ov. unfold is_subset.
  destruct (first_is_dot a) eqn:Fa; destruct (first_is_dot b) eqn:Fb; cbn [andb negb].
  - intros L q Hq. apply N.leb_le in L.
    destruct Ov as [Hb|Ha].
    + pose proof Hb as Hb'. apply (inI_dot _ _ Fa) in Hb'. destruct Hb' as [E|(w & E)].
      * unfold inI, vpos, ext in *. rewrite Fa in Hq. rewrite Fb, E. exact Hq.
      * exfalso. rewrite (lenN_dot a Fa), (lenN_dot b Fb), E, app_length in L. cbn [length] in L. lia.
    + exact (dot_nested b a Fb Ha q Hq).
  - discriminate.
  - intros _ q Hq. apply (inI_plain _ _ Fa) in Hq. subst q.
    destruct Ov as [Hb|Ha]; [|exact Ha].
    apply (inI_plain _ _ Fa) in Hb. rewrite <- Hb. apply vpos_lo.
  - intros _ q Hq. apply (inI_plain _ _ Fa) in Hq. subst q.
    destruct Ov as [Hb|Ha]; [|exact Ha].
    apply (inI_plain _ _ Fa) in Hb. rewrite <- Hb. apply vpos_lo.
Qed.

Theorem subset_total a b : is_subset a b = false -> is_subset b a = true.
Proof.
  unfold is_subset.
  destruct (first_is_dot a) eqn:Fa; destruct (first_is_dot b) eqn:Fb; cbn [andb negb]; try discriminate; try reflexivity.
  intros L. apply N.leb_gt in L. apply N.leb_le. lia.
Qed.

(* "." is never the one that gets removed: every non-empty value is "inside" it for IsSubset() *)
Lemma is_subset_dotv v : v <> [] -> is_subset v dotv = true.
Proof.
  intros Hv. unfold is_subset. change (first_is_dot dotv) with true.
  destruct (first_is_dot v); cbn [andb negb]; [|reflexivity].
  destruct v as [|c v]; [congruence|]. cbn [lenN]. apply N.leb_le. change (lenN dotv) with 1%N. lia.
Qed.

(* ------------------------------------------------------------------ *)
(* Merge(): the stored sequence stays sorted and disjoint, its union grows by the new value *)
Definition inv (t : tree bytes) : Prop := Forall wfx (inorder t) /\ sd (inorder t).
Definition covered (q : list N) (l : list bytes) : Prop := exists x, In x l /\ inI q x.

Lemma covered_app q a b : covered q (a ++ b) <-> covered q a \/ covered q b.
Proof.
  unfold covered. split.
  - intros (x & Hx & Hq). apply in_app_or in Hx. destruct Hx; [left|right]; exists x; auto.
  - intros [(x & Hx & Hq)|(x & Hx & Hq)]; exists x; split; auto using in_or_app.
Qed.

Lemma covered_cons q x l : covered q (x :: l) <-> inI q x \/ covered q l.
Proof.
  unfold covered. split.
  - intros (y & [<-|Hy] & Hq); [left; exact Hq| right; exists y; auto].
  - intros [Hq|(y & Hy & Hq)]; [exists x; split; [left; reflexivity| exact Hq]| exists y; split; [right; exact Hy| exact Hq]].
Qed.

Lemma inv_leaf : inv Leaf.
Proof. split; [constructor| exact I]. Qed.

Theorem merge_spec : forall fuel t n v, inv t -> wfx v -> (tree_size t < fuel)%nat ->
  exists t' n', merge fuel t n v = MOk t' n' /\ inv t' /\
    (forall q, covered q (inorder t') <-> covered q (inorder t) \/ inI q v).
Proof.
  induction fuel as [|f IH]; intros t n v [W S] Wv Hf; [lia|].
  cbn [merge].
  pose proof (mono_dcompare v (inorder t) Wv W S) as M.
  destruct (sp_insert (dcompare v) v t) as [t1 [old|]] eqn:Ei.
  - destruct (sp_insert_found _ _ _ _ _ Ei) as (Hi & Hz & Hin).
    assert (Wold : wfx old) by (rewrite Forall_forall in W; apply W, Hin).
    assert (Nvo : ~ (v = dotv /\ old = dotv)).
    { intros [-> ->]. rewrite dcompare_dotv_dotv in Hz. discriminate. }
    pose proof (dcompare_zero v old Wv Wold Nvo Hz) as Ov.
    destruct (is_subset v old) eqn:S1.
    + exists t1, n. split; [reflexivity|]. split; [unfold inv; rewrite Hi; auto|].
      intros q. rewrite Hi. split; [auto|]. intros [H|H]; [exact H|].
      exists old. split; [exact Hin|]. exact (subset_sound v old Ov S1 q H).
    + pose proof (subset_total v old S1) as S2. rewrite S2.
      assert (Wo : wf old).
      { destruct Wold as [H| ->]; [exact H|]. rewrite (is_subset_dotv v (wfx_nonempty v Wv)) in S1. discriminate. }
      pose proof (wf_not_dotv old Wo) as Nod.
      destruct (in_split old (inorder t1)) as (A & B & HAB); [rewrite Hi; exact Hin|].
      rewrite Hi in HAB. rewrite HAB in W, S.
      apply Forall_app in W. destruct W as [WA WB']. inversion WB' as [|? ? _ WB]; subst.
      apply sd_app in S. destruct S as (SA & SB' & Hc). cbn [sd] in SB'. destruct SB' as [FB SB].
      assert (BA : forall y, In y A -> before y old).
      { intros y Hy. destruct (Hc y old Hy (or_introl eq_refl)) as [H|[_ H]]; [exact H| contradiction]. }
      assert (BB : forall y, In y B -> before old y).
      { intros y Hy. rewrite Forall_forall in FB. destruct (FB y Hy) as [H|[H _]]; [exact H| contradiction]. }
      assert (PA : Forall (fun y => dcompare old y > 0) A).
      { rewrite Forall_forall in *. intros y Hy.
        apply (dcompare_pos old y (or_introl Wo) (WA y Hy) ltac:(tauto)). apply BA, Hy. }
      assert (PB : Forall (fun y => dcompare old y < 0) B).
      { rewrite Forall_forall in *. intros y Hy.
        apply (dcompare_neg old y (or_introl Wo) (WB y Hy) ltac:(tauto)). apply BB, Hy. }
      destruct (sp_remove_spec (dcompare old) t1 A old B ltac:(rewrite Hi; exact HAB) (dcompare_refl old Wo) PA PB)
        as (t2 & Er & Hi2).
      rewrite Er.
      assert (Inv2 : inv t2).
      { unfold inv. rewrite Hi2. split; [apply Forall_app; auto|].
        apply sd_app. repeat split; try assumption.
        intros x y Hx Hy. left. eapply before_trans; [apply BA, Hx| apply BB, Hy]. }
      assert (Sz : (tree_size t2 < f)%nat).
      { rewrite <- (inorder_length t2), Hi2. rewrite <- (inorder_length t), HAB in Hf.
        rewrite app_length in *. cbn [length] in Hf. lia. }
      destruct (IH t2 (n - 1) v Inv2 Wv Sz) as (t' & n' & Em & Inv' & Hcov).
      exists t', n'. split; [exact Em|]. split; [exact Inv'|].
      intros q. rewrite Hcov, Hi2, HAB. rewrite !covered_app, covered_cons.
      assert (Ov' : inI (lo v) old \/ inI (lo old) v) by tauto.
      pose proof (subset_sound old v Ov' S2 q) as Hsub. tauto.
  - destruct (sp_insert_new _ v t t1 M Ei) as (A & B & HAB & Hi & PA & PB).
    rewrite HAB in W, S. apply Forall_app in W. destruct W as [WA WB].
    apply sd_app in S. destruct S as (SA & SB & Hc).
    exists t1, (n + 1)%Z. split; [reflexivity|]. split.
    + unfold inv. rewrite Hi. split; [apply Forall_app; split; [exact WA| constructor; assumption]|].
      rewrite Forall_forall in *.
      apply sd_app. split; [exact SA|]. split.
      * cbn [sd]. split; [|exact SB]. rewrite Forall_forall. intros y Hy.
        destruct (classic_dotv v y) as [[-> ->]|Nvy]; [right; auto|].
        left. apply (dcompare_neg v y Wv (WB y Hy) Nvy). apply PB, Hy.
      * intros x y Hx [<-|Hy]; [|apply Hc; assumption].
        destruct (classic_dotv v x) as [[-> ->]|Nvx].
        -- specialize (PA dotv Hx). cbn beta in PA. rewrite dcompare_dotv_dotv in PA. lia.
        -- left. apply (dcompare_pos v x Wv (WA x Hx) Nvx). apply PA, Hx.
    + intros q. rewrite Hi, HAB. rewrite !covered_app, covered_cons. tauto.
Qed.

(* lower-casing a value changes neither its well-formedness nor its interval *)
Lemma first_is_dot_lower v : first_is_dot (lower_str v) = first_is_dot v.
Proof.
  destruct v as [|c v]; [reflexivity|]. cbn [lower_str map first_is_dot].
  destruct (N.eqb_spec c dot) as [->|E].
  - rewrite lower_dot_self. apply N.eqb_refl.
  - apply N.eqb_neq. intros H. apply (proj1 (lower_dot c)) in H. contradiction.
Qed.

Lemma root1_lower v : root1 (lower_str v) = lower_str (root1 v).
Proof.
  unfold root1. rewrite first_is_dot_lower. destruct (first_is_dot v); [|reflexivity].
  destruct v; reflexivity.
Qed.

Lemma rk_lower s : rk (lower_str s) = rk s.
Proof.
  unfold rk, lower_str. rewrite <- map_rev, map_map. apply map_ext. intros c. apply key_lower.
Qed.

Lemma lo_lower v : lo (lower_str v) = lo v.
Proof. unfold lo. rewrite root1_lower. apply rk_lower. Qed.

Lemma ext_lower v : ext (lower_str v) = ext v.
Proof. unfold ext. now rewrite first_is_dot_lower. Qed.

Lemma inI_lower q v : inI q (lower_str v) <-> inI q v.
Proof. unfold inI, vpos. rewrite lo_lower, ext_lower. reflexivity. Qed.

(* skipping redundant leading dots: the result of a non-empty token is well-formed or "." *)
Lemma collapse_cons2 c c2 t :
  collapse_dots (c :: c2 :: t) = if ((c =? dot) && (c2 =? dot))%N then collapse_dots (c2 :: t) else c :: c2 :: t.
Proof. reflexivity. Qed.

Lemma collapse_lower t : collapse_dots (lower_str t) = lower_str (collapse_dots t).
Proof.
  assert (E : forall x, (lower x =? dot)%N = (x =? dot)%N).
  { intros x. destruct (N.eqb_spec x dot) as [->|H]; [rewrite lower_dot_self; apply N.eqb_refl|].
    apply N.eqb_neq. intros G. apply (proj1 (lower_dot x)) in G. contradiction. }
  induction t as [|c t IH]; [reflexivity|].
  destruct t as [|c2 t]; [reflexivity|].
  change (lower_str (c :: c2 :: t)) with (lower c :: lower c2 :: lower_str t).
  change (lower_str (c2 :: t)) with (lower c2 :: lower_str t) in IH.
  rewrite !collapse_cons2, !E.
  destruct ((c =? dot)%N && (c2 =? dot)%N); [exact IH| reflexivity].
Qed.

Lemma collapse_wfx t : t <> [] -> wfx (collapse_dots t).
Proof.
  induction t as [|c t IH]; [congruence|]. intros _.
  destruct t as [|c2 t].
  - cbn [collapse_dots]. destruct (N.eqb_spec c dot) as [->|E]; [right; reflexivity|].
    left. unfold wf, root1. cbn [first_is_dot]. destruct (N.eqb_spec c dot); [contradiction|].
    split; [discriminate|]. cbn [first_is_dot]. apply N.eqb_neq, E.
  - rewrite collapse_cons2.
    destruct (N.eqb_spec c dot) as [->|E]; cbn [andb].
    + destruct (N.eqb_spec c2 dot) as [->|E2].
      * apply IH. discriminate.
      * left. unfold wf, root1. cbn [first_is_dot]. rewrite N.eqb_refl. cbn [tl].
        split; [discriminate|]. cbn [first_is_dot]. apply N.eqb_neq, E2.
    + left. unfold wf, root1. cbn [first_is_dot]. destruct (N.eqb_spec c dot); [contradiction|].
      split; [discriminate|]. cbn [first_is_dot]. apply N.eqb_neq, E.
Qed.

(* what a configured token stands for: its value with redundant leading dots skipped *)
Definition norm (tok : bytes) : bytes := collapse_dots tok.

Lemma inI_norm_lower q tok : inI q (collapse_dots (lower_str tok)) <-> inI q (norm tok).
Proof. unfold norm. rewrite collapse_lower. apply inI_lower. Qed.

Definition nonempty (t : bytes) : Prop := t <> [].

Theorem acl_parse_from_spec : forall toks t n, inv t -> Forall nonempty toks ->
  exists t' n', acl_parse_from t n toks = MOk t' n' /\ inv t' /\
    (forall q, covered q (inorder t') <-> covered q (inorder t) \/ covered q (map norm toks)).
Proof.
  induction toks as [|tok toks IH]; intros t n Hinv W.
  - exists t, n. split; [reflexivity|]. split; [exact Hinv|].
    intros q. split; [auto|]. intros [H|(x & [] & _)]. exact H.
  - inversion W as [|? ? Wt Wr]; subst. cbn [acl_parse_from].
    assert (Wv : wfx (collapse_dots (lower_str tok))).
    { apply collapse_wfx. destruct tok; [exfalso; apply Wt; reflexivity| discriminate]. }
    destruct (merge_spec (merge_fuel t) t n _ Hinv Wv ltac:(unfold merge_fuel; lia))
      as (t1 & n1 & Em & Inv1 & Hc1).
    rewrite Em.
    destruct (IH t1 n1 Inv1 Wr) as (t' & n' & Ep & Inv' & Hc').
    exists t', n'. split; [exact Ep|]. split; [exact Inv'|].
    intros q. rewrite Hc', Hc1. cbn [map]. rewrite covered_cons, inI_norm_lower. tauto.
Qed.

(* ------------------------------------------------------------------ *)
(* match(): lookup in a sorted, disjoint sequence                       *)
Theorem acl_match_spec t host : inv t ->
  inorder (fst (acl_match t host)) = inorder t /\
  (snd (acl_match t host) = true <->
   strip_dots host <> [] /\ covered (rk (strip_dots host)) (inorder t)).
Proof.
  intros [W S]. unfold acl_match.
  pose proof (sp_find_inorder (host_cmp host) t) as Hi.
  pose proof (sp_find_iff (host_cmp host) t (mono_host host _ W S)) as Hiff.
  destruct (sp_find (host_cmp host) t) as [t' r]. cbn [fst snd] in *. split; [exact Hi|].
  assert (E : (match r with Some _ => true | None => false end) = true <-> exists x, r = Some x).
  { destruct r as [x|]; split; intros H; [exists x; reflexivity| reflexivity| discriminate| destruct H; discriminate]. }
  rewrite E, Hiff. unfold host_cmp, covered.
  destruct (strip_dots host) as [|c h'] eqn:Eh.
  - split.
    + intros (x & _ & Hx). rewrite (mdn_empty_host host x Eh) in Hx. discriminate.
    + intros [H _]. congruence.
  - assert (Hh : strip_dots host <> []) by (rewrite Eh; discriminate).
    split.
    + intros (x & Hin & Hx). split; [discriminate|]. exists x. split; [exact Hin|].
      assert (Wx : wfx x) by (rewrite Forall_forall in W; apply W, Hin).
      pose proof (mdn_pos host x (wfx_nonempty x Wx) Hh) as Sx. rewrite Eh in Sx.
      apply (sign_is_eq _ _ Sx), Hx.
    + intros (_ & x & Hin & Hx). exists x. split; [exact Hin|].
      assert (Wx : wfx x) by (rewrite Forall_forall in W; apply W, Hin).
      pose proof (mdn_pos host x (wfx_nonempty x Wx) Hh) as Sx. rewrite Eh in Sx.
      apply (sign_is_eq _ _ Sx), Hx.
Qed.

(* ------------------------------------------------------------------ *)
(* the property in terms of strings                                    *)
Definition ieq (a b : bytes) : Prop := lower_str a = lower_str b.

(* C41: a value beginning with a dot matches that domain and all its
   sub-domains, any other value matches only itself, case-insensitively.
   (Leading dots of the looked-up name are not part of a host name.) *)
Definition dom_match (v host : bytes) : Prop :=
  let h := strip_dots host in
  h <> [] /\
  if first_is_dot v
  then ieq h (tl v) \/ (exists p, lower_str h = p ++ lower_str v)
  else ieq h v.

Lemma map_key_eq a : forall b, map key a = map key b <-> map lower a = map lower b.
Proof.
  induction a as [|x a IH]; intros [|y b]; cbn [map]; try (split; discriminate); [tauto|].
  split; intros H; inversion H as [[H1 H2]]; f_equal;
    try (apply key_eq_iff; assumption); try (apply IH; assumption).
Qed.

Lemma rk_eq_iff a b : rk a = rk b <-> ieq a b.
Proof.
  unfold rk, ieq, lower_str. rewrite map_key_eq. rewrite !map_rev. split.
  - intros H. apply (f_equal (@rev N)) in H. now rewrite !rev_involutive in H.
  - intros ->. reflexivity.
Qed.

Lemma map_app_inv {A B} (f : A -> B) l : forall a b, map f l = a ++ b ->
  exists l1 l2, l = l1 ++ l2 /\ map f l1 = a /\ map f l2 = b.
Proof.
  induction l as [|x l IH]; intros a b H; cbn [map] in H.
  - destruct a; [|discriminate]. destruct b; [|discriminate]. exists [], []. auto.
  - destruct a as [|y a]; cbn [app] in H.
    + exists [], (x :: l). auto.
    + inversion H; subst. destruct (IH a b H2) as (l1 & l2 & -> & <- & <-).
      exists (x :: l1), l2. auto.
Qed.

Lemma lower_str_app a b : lower_str (a ++ b) = lower_str a ++ lower_str b.
Proof. apply map_app. Qed.

Lemma rk_suffix_iff h r :
  (exists w, rk h = rk r ++ 0%N :: w) <-> (exists p, lower_str h = p ++ dot :: lower_str r).
Proof.
  split.
  - intros (w & H). unfold rk in H.
    destruct (map_app_inv key (rev h) _ _ H) as (l1 & l2 & E & H1 & H2).
    destruct l2 as [|c l2]; [discriminate|]. cbn [map] in H2. assert (Hc : key c = 0%N) by (inversion H2; reflexivity).
    apply key_zero in Hc. subst c.
    apply (f_equal (@rev N)) in E. rewrite rev_involutive, rev_app_distr in E. cbn [rev] in E.
    rewrite <- app_assoc in E. cbn [app] in E.
    exists (lower_str (rev l2)). rewrite E, lower_str_app. cbn [lower_str map]. rewrite lower_dot_self.
    f_equal. f_equal. unfold lower_str.
    apply map_key_eq in H1. rewrite map_rev, H1, <- map_rev, rev_involutive. reflexivity.
  - intros (p & H). exists (rk p). rewrite <- (rk_lower h), H. unfold rk.
    rewrite rev_app_distr. cbn [rev]. rewrite map_app, map_app. cbn [map].
    change (key dot) with 0%N. rewrite <- app_assoc. cbn [app].
    fold (rk (lower_str r)). rewrite rk_lower. reflexivity.
Qed.

Theorem inI_dom_match v h : v <> [] ->
  (inI (rk h) v <->
   if first_is_dot v then ieq h (tl v) \/ (exists p, lower_str h = p ++ lower_str v) else ieq h v).
Proof.
  intros Hv. destruct (first_is_dot v) eqn:Fv.
  - rewrite (inI_dot _ _ Fv). unfold lo, root1. rewrite Fv.
    destruct v as [|c r]; [congruence|]. cbn [first_is_dot] in Fv. apply N.eqb_eq in Fv. subst c.
    cbn [tl]. rewrite rk_eq_iff, rk_suffix_iff. cbn [lower_str map]. rewrite lower_dot_self. reflexivity.
  - rewrite (inI_plain _ _ Fv). unfold lo, root1. rewrite Fv. apply rk_eq_iff.
Qed.

Lemma collapse_nonempty t : t <> [] -> collapse_dots t <> [].
Proof. intros H. apply wfx_nonempty, collapse_wfx, H. Qed.

Lemma covered_dom_match host toks : Forall nonempty toks ->
  (strip_dots host <> [] /\ covered (rk (strip_dots host)) (map norm toks)) <->
  (exists tok, In tok toks /\ dom_match (norm tok) host).
Proof.
  intros W. unfold covered, dom_match. rewrite Forall_forall in W. split.
  - intros (Hh & v & Hin & Hq). apply in_map_iff in Hin. destruct Hin as (tok & <- & Hin).
    exists tok. split; [exact Hin|]. split; [exact Hh|].
    apply (inI_dom_match (norm tok) _ (collapse_nonempty tok (W tok Hin))), Hq.
  - intros (tok & Hin & Hh & Hm). split; [exact Hh|]. exists (norm tok). split; [apply in_map, Hin|].
    apply (inI_dom_match (norm tok) _ (collapse_nonempty tok (W tok Hin))), Hm.
Qed.

(* ------------------------------------------------------------------ *)
(* end to end                                                          *)
Definition acl_holds (toks : list bytes) (t : tree bytes) : Prop :=
  inv t /\ forall q, covered q (inorder t) <-> covered q (map norm toks).

Theorem acl_parse_ok toks : Forall nonempty toks ->
  exists t n, acl_parse toks = MOk t n /\ acl_holds toks t.
Proof.
  intros W. destruct (acl_parse_from_spec toks Leaf 0%Z inv_leaf W) as (t & n & E & Hinv & Hc).
  exists t, n. split; [exact E|]. split; [exact Hinv|].
  intros q. rewrite Hc. split; [|auto]. intros [(x & [] & _)|H]. exact H.
Qed.

Theorem acl_match_correct toks t host : Forall nonempty toks -> acl_holds toks t ->
  acl_holds toks (fst (acl_match t host)) /\
  (snd (acl_match t host) = true <-> exists tok, In tok toks /\ dom_match (norm tok) host).
Proof.
  intros W [Hinv Hc]. destruct (acl_match_spec t host Hinv) as [Hi Hm]. split.
  - destruct Hinv as [W' S]. split; [unfold inv; rewrite Hi; auto|]. intros q. rewrite Hi. apply Hc.
  - rewrite Hm, <- (covered_dom_match host toks W).
    split; intros [H1 H2]; (split; [exact H1|]); apply Hc, H2.
Qed.

(* every answer of a sequence of lookups (each of which re-shapes the tree) is right *)
Theorem acl_match_seq_correct toks : Forall nonempty toks -> forall hosts t, acl_holds toks t ->
  Forall2 (fun host b => b = true <-> exists tok, In tok toks /\ dom_match (norm tok) host)
          hosts (snd (acl_match_seq t hosts)).
Proof.
  intros W. induction hosts as [|h hosts IH]; intros t Ht; cbn [acl_match_seq]; [constructor|].
  destruct (acl_match_correct toks t h W Ht) as [Ht1 Hb].
  destruct (acl_match t h) as [t1 b]. cbn [fst snd] in *.
  specialize (IH t1 Ht1). destruct (acl_match_seq t1 hosts) as [t2 bs]. cbn [snd] in *.
  constructor; assumption.
Qed.

Theorem acl_correct toks : Forall nonempty toks ->
  exists t n, acl_parse toks = MOk t n /\
    forall host, snd (acl_match t host) = true <-> exists tok, In tok toks /\ dom_match (norm tok) host.
Proof.
  intros W. destruct (acl_parse_ok toks W) as (t & n & E & H). exists t, n. split; [exact E|].
  intros host. apply (acl_match_correct toks t host W H).
Qed.

(* leading dots of the looked-up name are ignored by every comparison *)
Lemma mdn_leading_dot host d : matchDomainName (dot :: host) d = matchDomainName host d.
Proof. unfold matchDomainName. cbn [strip_dots]. rewrite N.eqb_refl. reflexivity. Qed.

(* skipping redundant dots only touches values that start with two dots *)
Lemma norm_id tok : (forall r, tok <> dot :: dot :: r) -> norm tok = tok.
Proof.
  intros H. unfold norm. destruct tok as [|c [|c2 t]]; try reflexivity. rewrite collapse_cons2.
  destruct (N.eqb_spec c dot) as [->|E]; [|reflexivity].
  destruct (N.eqb_spec c2 dot) as [->|E2]; [|reflexivity].
  exfalso. exact (H t eq_refl).
Qed.

Definition s_a : bytes := [97%N].                    (* the name a *)
Definition s_dda : bytes := [46%N; 46%N; 97%N].      (* the value ..a *)
Definition s_da : bytes := [46%N; 97%N].             (* the value .a *)

(* ------------------------------------------------------------------ *)
(* statements packaged for Properties_C41.v                            *)
Lemma lower_facts c : lower (lower c) = lower c /\ (lower c = dot <-> c = dot).
Proof. split; [apply lower_idem| apply lower_dot]. Qed.

(* one value, any non-empty value: the comparison used by match() answers 0 exactly for
   the names the value stands for *)
Theorem mdn_zero_iff host v : v <> [] -> (matchDomainName host v = 0 <-> dom_match v host).
Proof.
  intros Hv. unfold dom_match. cbn zeta.
  destruct (strip_dots host) as [|c h] eqn:Eh.
  - rewrite (mdn_empty_host host v Eh). split; [discriminate| intros [H _]; congruence].
  - assert (Hh : strip_dots host <> []) by (rewrite Eh; discriminate).
    pose proof (mdn_pos host v Hv Hh) as S. rewrite Eh in S.
    rewrite (sign_is_eq _ _ S). fold (inI (rk (c :: h)) v). rewrite (inI_dom_match v (c :: h) Hv).
    split; [intros H; split; [discriminate| exact H]| intros [_ H]; exact H].
Qed.

Theorem dcompare_sign a b : wfx a -> wfx b -> ~ (a = dotv /\ b = dotv) ->
  (dcompare a b < 0 <-> before a b) /\ (dcompare a b > 0 <-> before b a) /\
  (dcompare a b = 0 -> inI (lo b) a \/ inI (lo a) b).
Proof. intros Ha Hb Hn. split; [apply dcompare_neg| split; [apply dcompare_pos| apply dcompare_zero]]; assumption. Qed.
