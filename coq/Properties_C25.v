(* Properties_C25.v — C25: header blocks are parsed into exactly their fields.
   Statements only; proofs live in HdrparseProofs.v.
   Model side: h_block_fields (NUL test + field loop + HttpHeaderEntry::parse), h_parse (= plus the
   Content-Length / Transfer-Encoding treatment), h_pack.  Reference side: ref_fields = ref_lines ->
   ref_groups -> ref_process (ref_line_ok, ref_group_text, ref_split, canon_name). *)
Require Import SquidV.Bytes SquidV.ClenModel SquidV.HdrparseModel SquidV.HdrparseProofs.
Require Import SquidV.gen.HdrTable_gen.
Local Open Scope N_scope.

(* --- the field loop computes exactly the reference reading of the block, accept and reject alike,
       for ALL byte strings, both parser modes, request and reply owner --- *)
Theorem C25_field_loop_is_reference : forall relaxed req block,
  h_block_fields relaxed req block = ref_fields relaxed req block.
Proof. exact block_fields_is_reference. Qed.
Print Assumptions C25_field_loop_is_reference.

(* --- the pieces of the reference, declaratively --- *)
(* lines: the LF-free pieces that re-join to the block (exists iff the block is empty or LF-terminated) *)
Theorem C25_lines_exact : forall block ls,
  ref_lines block = Some ls <-> (block = join_lines ls /\ Forall nolf ls).
Proof. exact ref_lines_exact. Qed.
Print Assumptions C25_lines_exact.

(* groups: a partition of the lines, in order; inside a group every line but the first starts with SP/HT;
   the first line of every later group does not; the first group starts with the first line *)
Theorem C25_groups_exact : forall ls,
  concat (ref_groups ls) = ls /\ Forall group_shape (ref_groups ls) /\ heads_ok (ref_groups ls).
Proof. exact groups_exact. Qed.
Print Assumptions C25_groups_exact.

(* values: surrounding trimmable bytes removed, nothing else; trimmable = ref_value_ws name: SP/HTAB for
   Content-Length and Transfer-Encoding (RFC 9110 OWS), all of isspace() for other names *)
Theorem C25_value_trimmed_exact : forall ws l, exists a b, l = a ++ ref_trim ws l ++ b /\
  forallb ws a = true /\ forallb ws b = true /\
  match ref_trim ws l with c :: _ => ws c = false | [] => True end /\
  last_is ws (ref_trim ws l) = false.
Proof. exact ref_trim_exact. Qed.
Print Assumptions C25_value_trimmed_exact.

(* names: the registered spelling and id if the name is registered (ignoring ASCII case), else as written *)
Theorem C25_name_canonical : forall name,
  ci_eqb name (snd (canon_name name)) = true /\
  ((exists fl, In (fst (canon_name name), snd (canon_name name), fl) hdr_table) \/
   (canon_name name = (hdr_OTHER, name) /\ forall id nm fl, In (id, nm, fl) hdr_table -> ci_eqb name nm = false)).
Proof. exact canon_name_exact. Qed.
Print Assumptions C25_name_canonical.

(* HttpHeaderEntry::parse = reference field-line split + table lookup *)
Theorem C25_entry_parse_is_reference_split : forall req text,
  h_entry_parse req text =
  match ref_split req text with
  | None => None
  | Some (name, value) =>
    Some {| he_id := fst (canon_name name); he_name := snd (canon_name name); he_value := c_str value |}
  end.
Proof. exact entry_parse_ref. Qed.
Print Assumptions C25_entry_parse_is_reference_split.

(* --- accepted => the stored entries are the reference fields in order; the only differences are what
       HttpHeader::parse does to Content-Length (C26) and, for 1xx/204/trailers, Transfer-Encoding --- *)
Theorem C25_stored_fields_are_the_blocks_fields : forall relaxed req proh block r,
  h_parse relaxed req proh block = Some r ->
  exists fs, ref_fields relaxed req block = Some fs /\
    filter not_fr (hr_entries r) = filter not_fr fs /\
    (proh = false -> filter not_cl (hr_entries r) = filter not_cl fs) /\
    (proh = false -> forallb not_cl fs = true -> hr_entries r = fs).
Proof. exact stored_fields. Qed.
Print Assumptions C25_stored_fields_are_the_blocks_fields.

(* --- pack / parse --- *)
(* every entry list a parse stores consists of storable entries: token name in the table's spelling (or as
   written), id = lookup of that name, value NUL-free, trimmed, both at most 65534 bytes *)
Theorem C25_parsed_entries_storable : forall relaxed req proh block r,
  h_parse relaxed req proh block = Some r -> Forall stor (hr_entries r).
Proof. exact parsed_entries_stor. Qed.
Print Assumptions C25_parsed_entries_storable.

(* packing ANY list of storable single-line entries gives bytes that the field loop reads back as that list *)
Theorem C25_reread_packed_entries : forall relaxed req es,
  Forall stor es -> Forall (fun e => single_line (he_value e)) es ->
  h_block_fields relaxed req (h_pack es) = Some es.
Proof. exact reread_pack. Qed.
Print Assumptions C25_reread_packed_entries.

(* parse (pack (stored fields)) = stored fields, through the whole of HttpHeader::parse including the
   Content-Length stage (dropped, sanitised and kept Content-Length entries are re-accepted unchanged).
   PARTIAL: restricted to results whose values contain no CR/LF, i.e. no obs-fold left inside a value (what
   Http::One::Parser's unfolding pass guarantees for messages read from the wire). For values that still
   contain a fold the round trip is checked by correspondence and the oracle only. *)
Theorem C25_pack_parse_roundtrip_partial : forall relaxed req proh block r,
  h_parse relaxed req proh block = Some r ->
  Forall (fun e => single_line (he_value e)) (hr_entries r) ->
  exists r', h_parse relaxed req proh (h_pack (hr_entries r)) = Some r' /\ hr_entries r' = hr_entries r.
Proof. exact pack_parse_roundtrip. Qed.
Print Assumptions C25_pack_parse_roundtrip_partial.

(* the model's linear-time line pass is ClenModel's (C26) line pass *)
Theorem C25_line_pass_is_clen_model : forall relaxed req ln cont,
  h_proc_line relaxed req ln cont = proc_line relaxed req ln cont.
Proof. exact h_proc_line_eq. Qed.
Print Assumptions C25_line_pass_is_clen_model.

(* --- rejections --- *)
Theorem C25_rejects_nul : forall relaxed req proh block,
  In 0 block -> h_parse relaxed req proh block = None.
Proof. exact rejects_nul. Qed.
Print Assumptions C25_rejects_nul.

Theorem C25_rejects_ws_before_colon_in_requests : forall relaxed proh block ls g rn rv,
  ref_lines block = Some ls -> In g (ref_groups ls) ->
  ref_before_colon (ref_group_text relaxed g) = Some (rn, rv) -> last_is c_isspace rn = true ->
  h_parse relaxed true proh block = None.
Proof. exact rejects_ws_before_colon. Qed.
Print Assumptions C25_rejects_ws_before_colon_in_requests.

Theorem C25_entry_rejects_ws_before_colon_in_requests : forall name w rest,
  forallb (fun c => negb (c =? 58)) name = true -> c_isspace w = true ->
  h_entry_parse true (name ++ w :: 58 :: rest) = None.
Proof. exact entry_rejects_ws_before_colon. Qed.
Print Assumptions C25_entry_rejects_ws_before_colon_in_requests.

Theorem C25_rejects_fold_or_bare_cr_in_framing_fields : forall relaxed req proh block r,
  h_parse relaxed req proh block = Some r ->
  exists ls, ref_lines block = Some ls /\
    forall g name value, In g (ref_groups ls) ->
      (1 <? lenN g) || existsb ref_has_bare_cr g = true ->
      ref_split req (ref_group_text relaxed g) = Some (name, value) ->
      fst (canon_name name) <> ID_CL /\ fst (canon_name name) <> ID_TE.
Proof. exact rejects_suspicious_framing. Qed.
Print Assumptions C25_rejects_fold_or_bare_cr_in_framing_fields.

Theorem C25_rejects_cr_only_request_line : forall relaxed proh block ls ln,
  ref_lines block = Some ls -> In ln ls -> forallb is_cr ln = true -> 2 <= lenN ln ->
  h_parse relaxed true proh block = None.
Proof. exact rejects_cr_only_line. Qed.
Print Assumptions C25_rejects_cr_only_request_line.

(* --- the hypotheses are satisfiable / the definitions say what they should on concrete blocks --- *)
(* "Host: a\r\nX-Y:  b \r\n\tc\r\n\r\n" in a relaxed-mode request: two fields, the second folded *)
Definition ex_block : bytes :=
  [72;111;115;116;58;32;97;13;10; 88;45;89;58;32;32;98;32;13;10; 9;99;13;10; 13;10].
Example C25_ex_accept :
  option_map (fun r => map (fun e => (he_name e, he_value e)) (hr_entries r)) (h_parse true true false ex_block)
  = Some [([72;111;115;116], [97]); ([88;45;89], [98;32;13;10;9;99])].
Proof. vm_compute. reflexivity. Qed.
Example C25_ex_groups :
  option_map ref_groups (ref_lines ex_block)
  = Some [[[72;111;115;116;58;32;97;13]]; [[88;45;89;58;32;32;98;32;13]; [9;99;13]]; [[13]]].
Proof. vm_compute. reflexivity. Qed.
(* ids of the framing fields really are those of the table's Content-Length / Transfer-Encoding records *)
Example C25_ex_framing_ids :
  canon_name [99;111;110;116;101;110;116;45;108;101;110;103;116;104] = (ID_CL, name_content_length) /\
  canon_name [116;114;97;110;115;102;101;114;45;69;78;67;79;68;73;78;71] = (ID_TE, name_transfer_encoding) /\
  ID_CL <> ID_TE /\ ID_CL <> hdr_OTHER.
Proof. vm_compute. repeat split; discriminate. Qed.
(* "A : b\r\n\r\n" as a request: white space before the colon (hypotheses of the rejection theorem hold) *)
Example C25_ex_ws_before_colon :
  let block := [65;32;58;32;98;13;10;13;10] in
  exists ls g rn rv, ref_lines block = Some ls /\ In g (ref_groups ls) /\
    ref_before_colon (ref_group_text true g) = Some (rn, rv) /\ last_is c_isspace rn = true /\
    h_parse true true false block = None /\ h_parse true false false block <> None.
Proof.
  exists [[65;32;58;32;98;13]; [13]], [[65;32;58;32;98;13]], [65;32], [32;98].
  vm_compute. repeat split; try (left; reflexivity); discriminate.
Qed.
(* "Content-Length: 1\r\n 0\r\n\r\n": a folded framing field is rejected, the same fold in X-a is accepted *)
Example C25_ex_folded_framing :
  h_parse true false false [67;111;110;116;101;110;116;45;76;101;110;103;116;104;58;32;49;13;10;32;48;13;10;13;10] = None /\
  h_parse true false false [88;45;97;58;32;49;13;10;32;48;13;10;13;10] <> None.
Proof. vm_compute. split; [reflexivity|discriminate]. Qed.
(* only SP/HTAB are dropped around framing values: "Transfer-Encoding: chunked<VT>" keeps the VT (and is then an
   unsupported coding), "X-a: b<VT>" loses it; "Content-Length: <FF>5" is not a usable length *)
Example C25_ex_framing_trim :
  option_map (fun r => (map he_value (hr_entries r), hr_teUnsupported r))
    (h_parse true false false [84;114;97;110;115;102;101;114;45;69;110;99;111;100;105;110;103;58;32;99;104;117;110;107;101;100;11;13;10;13;10])
    = Some ([[99;104;117;110;107;101;100;11]], true) /\
  option_map (fun r => map he_value (hr_entries r))
    (h_parse true false false [88;45;97;58;32;98;11;13;10;13;10]) = Some [[98]] /\
  option_map (fun r => (map he_value (hr_entries r), hr_conflicting r))
    (h_parse true false false [67;111;110;116;101;110;116;45;76;101;110;103;116;104;58;32;12;53;13;10;13;10]) = Some ([], true).
Proof. vm_compute. repeat split. Qed.
(* "A: b\r\n\r\r\n\r\n": CR-only line; rejected as request *)
Example C25_ex_cr_only :
  let block := [65;58;32;98;13;10;13;13;10;13;10] in
  exists ls ln, ref_lines block = Some ls /\ In ln ls /\ forallb is_cr ln = true /\ 2 <= lenN ln /\
    h_parse true true false block = None.
Proof. exists [[65;58;32;98;13]; [13;13]; [13]], [13;13]. vm_compute. repeat split; try discriminate. right; left; reflexivity. Qed.
(* "Host: a\r\nContent-Length: 5, 5\r\n\r\n" (relaxed reply): accepted, Content-Length sanitised to "5" and moved
   last; the hypotheses of the round-trip theorem hold and the packed bytes are as expected *)
Example C25_ex_roundtrip :
  let block := [72;111;115;116;58;32;97;13;10; 67;111;110;116;101;110;116;45;76;101;110;103;116;104;58;32;53;44;32;53;13;10; 13;10] in
  exists r, h_parse true false false block = Some r /\
    map (fun e => (he_name e, he_value e)) (hr_entries r) = [([72;111;115;116], [97]); (name_content_length, [53])] /\
    forallb (fun e => forallb (fun c => negb (c =? 13) && negb (c =? 10)) (he_value e)) (hr_entries r) = true /\
    h_pack (hr_entries r) = [72;111;115;116;58;32;97;13;10; 67;111;110;116;101;110;116;45;76;101;110;103;116;104;58;32;53;13;10].
Proof. eexists. vm_compute. repeat split. Qed.
