(* Properties_C52.v — C52: overflow-safe arithmetic helpers are exact. Statements only. *)
Require Import SquidV.Bytes SquidV.MathModel SquidV.MathProofs.
Require Import SquidV.gen.IntTypes_gen.
Local Open Scope Z_scope.

Theorem C52_type_model_matches_compiler :
  model_types = gen_types /\ model_promote = gen_promote /\ model_common = gen_common /\
  model_sum_type = gen_sum_type /\ model_all_unsigned = gen_all_unsigned.
Proof. exact type_model_matches_compiler. Qed.

Print Assumptions C52_type_model_matches_compiler.
