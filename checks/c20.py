"""C20: successful unsafe requests invalidate cached responses (end to end through the real squid)."""
import concurrent.futures, json, os, random, re, urllib.parse
from vlib import std, lab, common, hbuild, recipes, coq, corr

PID = "C20"
META = {
    "text": "Theorems (Properties_C20.v, 29, all closed under the global context), over ALL requests, replies and header values of the model transcribed from Client::maybePurgeOthers / purgeEntriesByHeader / sameUrlHosts (src/clients/Client.cc), purgeEntriesByUrl and processMiss's purgeAllCached (src/client_side_reply.cc), the method attribute table of src/http/RequestMethod.cc (regenerated each run) and Uri::absolute / absolutePath / path / addRelativePath / touch / Encode with their mutable result caches (src/anyp/Uri.cc; PathChars and the set absolutePath() keeps verbatim -- PathChars plus '?' since path_ holds path and query -- regenerated): (1) first sentence, full strength: after a reply with status < 400 to a method with purgesOthers (shouldInvalidate implies purgesOthers; POST, PUT, DELETE and every unregistered method token have it -- table sweeps) the GET and HEAD keys of the request's effective URI are handed to evictIfFound and no store lookup finds them afterwards, whatever the store held and whatever state the Uri caches were in; an unknown method evicts them even on an error reply; non-purging methods and replies >= 400 evict nothing. (2) second sentence, _partial: a Location / Content-Location value that is an absolute URL whose authority is byte-identical to the request's (sameUrlHosts, a pointer walk over two C strings, is proved equal to authority equality on scheme://authority/path URLs for all schemes, authorities, paths) an absolute-path reference (key = scheme://authority + Encode(reference, PathChars)) or a relative-path reference (key = scheme://authority + Encode(request path up to its last '/' + reference)) is evicted; against an RFC 3986 5.2 resolver written independently in Coq (fragment stripping, remove_dot_segments, case folding, merge) references already in normal form name exactly the URL evicted; headers naming another authority leave every other cached URL in place. (3) the second sentence at full strength is REFUTED (C20_named_url_always_evicted_refuted) with four families of witnesses, each replayed against the running proxy from corpus/C20/known.jsonl: dot segments are not removed; a network-path reference (//host/p) is installed as a path; scheme/host letter case is compared byte-wise; a fragment stays in the key. (A fifth family, relative-path references, was repaired in /repo -- Uri::addRelativePath now calls touch() -- and is proved and regression-tested: corpus/C20/regress.jsonl.) Tie: method table, PathChars, %XX text, case folding regenerated from the code each run; extracted model diffed against the real squid binary (built from the working tree) between a scripted origin and client, and against the real urlIsRelative / Uri::Encode / Uri copy+path()/addRelativePath()+absolute() / sameUrlHosts (text cut from the working tree's Client.cc) in a unit harness.",
    "note": "partial: theorems are about the transcribed decision/data-path functions (PurgeModel.v) and a list-of-keys store; that the event-driven proxy calls exactly these functions on every forwarded exchange, that storeKeyPublic is injective on (method,url) (MD5) and that Store::Controller::evictIfFound removes the entry from every store rest on the end-to-end correspondence (memory cache, forward-proxy http requests, no Vary, no store_id helper, no ICAP/peers/HTCP, URLs without query). Known findings C20-dot-segments, C20-network-path-ref, C20-letter-case, C20-fragment. 'Same host' is taken as same authority (host and port), as RFC 9111 4.4 'same origin' and the code do. Trusted: Coq kernel, extraction, gen/gen_purgemethods.cc, gen/gen_purgeuri.cc, vlib/lab.py stubs.",
    "technique": "Coq proof (induction over byte lists for sameUrlHosts / Encode / path merging, case analysis of the purge functions, table sweeps by vm_compute against regenerated tables, vm_compute witnesses for refutations) + end-to-end differential correspondence of the extracted model against the running squid + unit-level correspondence for sameUrlHosts/urlIsRelative/Encode/addRelativePath+absolute + independent oracle (RFC 3986 resolution via urllib, origin arrival counts)",
}

# methods: name -> does the property call it invalidating (oracle's own list: RFC 9110 9.2.1 unsafe methods that change the
# target resource; COPY/LOCK/UNLOCK and safe methods are left to the model/correspondence)
INVALIDATING = {"POST", "PUT", "DELETE", "PATCH", "MKCOL", "MOVE", "PROPPATCH", "MERGE", "CHECKIN", "LINK", "UNLINK", "UPDATE"}
KNOWN_OTHER = {"GET", "HEAD", "OPTIONS", "TRACE", "CONNECT", "PROPFIND", "COPY", "LOCK", "UNLOCK", "SEARCH", "REPORT", "PRI",
               "PURGE", "CHECKOUT", "UNCHECKOUT", "MKWORKSPACE", "VERSION-CONTROL", "LABEL", "BASELINE-CONTROL", "MKACTIVITY",
               "NONE", "METHOD_OTHER"}
METHODS = ["POST"] * 6 + ["PUT"] * 3 + ["DELETE"] * 3 + ["PATCH", "FOO", "BREW", "X-UPDATE", "post", "Put", "MKCOL", "MOVE",
                                                        "PROPPATCH", "OPTIONS", "PROPFIND", "LOCK", "COPY", "TRACE", "SEARCH"]
NOBODY = {"DELETE", "OPTIONS", "TRACE", "PROPFIND", "SEARCH", "LOCK", "COPY"}
OK_STATUS = [200, 200, 200, 201, 202, 204, 301, 302, 303, 307, 308, 399]
ERR_STATUS = [400, 403, 404, 405, 409, 410, 500, 501, 503]
PLAIN_FORMS = ["abs", "abs", "abs", "path", "path", "path"]
QUIRK_FORMS = ["seg", "dotseg", "dotdot", "path-dots", "netpath", "abs-SCHEME", "abs-HOSTCASE", "abs-frag", "path-frag", "empty",
               "abs-otherport", "abs-hostprefix", "abs-noauth", "garbage"]
CC = [["Cache-Control", "max-age=100000"]]


# ------------------------------------------------------------------ scenarios
# Five URLs are cached per scenario: U, V (same host, sibling of U), W (other host name), and two URLs that textually
# extend U: P = U + "/17" and Q = U + "/17x" (so U is a proper prefix of P and Q, and P a proper prefix of Q that does not
# end at a segment boundary). The unsafe request goes to U or to P ("reqat"); the headers name any of the five.
CHILD_P, CHILD_Q = "17", "17x"


def gen_scenarios(rng, n):
    out = []
    for k in range(n):
        m = rng.choice(METHODS)
        st = rng.choice(OK_STATUS) if rng.random() < 0.7 else rng.choice(ERR_STATUS)

        def ref():
            r = rng.random()
            if r < 0.2:
                return None
            form = rng.choice(PLAIN_FORMS + ["seg", "seg"]) if rng.random() < 0.66 else rng.choice(QUIRK_FORMS)
            return {"form": form, "target": rng.choice(["V", "V", "V", "W", "W", "U", "P", "P", "Q", "Q"]), "var": rng.randrange(10)}
        s = {"method": m, "status": st, "hostmode": rng.randrange(2), "reqat": "P" if rng.random() < 0.3 else "U",
             "loc": ref(), "cloc": ref()}
        if rng.random() < 0.5:
            s[rng.choice(["loc", "cloc"])] = None
        out.append(s)
    return out


def hosts(s, port):
    a, b = "127.0.0.1:%d" % port, "localhost:%d" % port
    return (a, b) if s.get("hostmode", 0) == 0 else (b, a)


def rel_of(tgt, reqat, c):
    """a relative-path reference (no dot segments) from the request URL to the target, or None if there is none.
    U = /rid/S/{segU}; P = U/17; Q = U/17x; V, W = /rid/S/segV, /rid/S/segW"""
    child = {"P": CHILD_P, "Q": CHILD_Q}
    if reqat == "U":                                   # base directory /rid/S/
        if tgt in child: return "{segU}/" + child[tgt]
        return {"U": "{segU}", "V": c["segV"], "W": c["segW"]}[tgt]
    if tgt in child:                                   # base directory U/
        return child[tgt]
    return None


def updir_of(tgt, reqat, c):
    """the same target through a '..' segment"""
    child = {"P": "/" + CHILD_P, "Q": "/" + CHILD_Q, "U": ""}
    seg = {"V": c["segV"], "W": c["segW"]}.get(tgt, "{segU}" + child.get(tgt, ""))
    return ("../S/" if reqat == "U" else "../") + seg


def ref_text(r, s, c):
    """the header value: `form` applied to the target URL (c = concrete scenario data); {pU} / {segU} stand for the path and
    last segment of U and are substituted by the origin stub (U's own path contains this text)"""
    if r is None:
        return None
    if "text" in r:                                    # literal (corpus), {H} {H2} {pU} {pV} {pW} substituted
        t = r["text"]
        for k in ("H", "H2", "pV", "pW", "segV", "segW"):
            t = t.replace("{%s}" % k, c[k])
        return t
    tgt = r["target"]
    reqat = s.get("reqat", "U")
    auth = c["H2"] if tgt == "W" else c["H"]
    path = {"U": "{pU}", "P": "{pU}/" + CHILD_P, "Q": "{pU}/" + CHILD_Q, "V": c["pV"], "W": c["pW"]}[tgt]
    seg = path.rsplit("/", 1)[-1]
    d = path.rsplit("/", 1)[0] if "/" in path else "/" + c["rid"] + "/S"
    f = r["form"]
    host, port = auth.rsplit(":", 1)
    var = r.get("var", 0)
    rel = rel_of(tgt, reqat, c)
    if f == "abs": return "http://%s%s" % (auth, path)
    if f == "path": return path
    if f == "seg": return rel if rel is not None else path
    if f == "dotseg": return "./" + rel if rel is not None else updir_of(tgt, reqat, c)
    if f == "dotdot": return updir_of(tgt, reqat, c)
    if f == "path-dots": return d + "/./" + seg if var % 2 else d + "/x/../" + seg
    if f == "netpath": return "//%s%s" % (auth, path)
    if f == "abs-SCHEME": return "HTTP://%s%s" % (auth, path)
    if f == "abs-HOSTCASE": return "http://%s:%s%s" % (host.upper(), port, path)
    if f == "abs-frag": return "http://%s%s#frag" % (auth, path)
    if f == "path-frag": return path + "#frag"
    if f == "empty": return ""
    if f == "abs-otherport": return "http://%s:%d%s" % (host, int(port) % 60000 + 1, path)
    if f == "abs-hostprefix": return "http://%s%s" % (auth[:-1], path) if var % 2 else "http://%s0%s" % (auth, path)
    if f == "abs-noauth": return "http:%s" % path if var % 2 else "http://"
    if f == "garbage": return ["mailto:x@example.com", ":", "http:", "a:b", "x/y:z"][var % 5]
    raise ValueError(f)


NAMES = ["U", "V", "W", "P", "Q"]


def concrete(s, port, rid):
    """URLs of one run of scenario s"""
    H, H2 = hosts(s, port)
    c = {"H": H, "H2": H2, "rid": rid}
    c["pV"] = lab.spec_path({"headers": CC, "body": "v-" + rid, "t": "v"}, rid)
    c["pW"] = lab.spec_path({"headers": CC, "body": "w-" + rid, "t": "w"}, rid)
    c["segV"] = c["pV"].rsplit("/", 1)[1]
    c["segW"] = c["pW"].rsplit("/", 1)[1]
    hs = []
    raw = {}
    for key, name in (("loc", "Location"), ("cloc", "Content-Location")):
        t = ref_text(s.get(key), s, c)
        raw[key] = t
        if t is not None:
            hs.append([name, t])                      # still with {pU} / {segU}: the stub fills them in
    c["pU"] = lab.spec_path({"headers": CC, "body": "u-" + rid, "unsafe": {"status": s["status"], "headers": hs, "body": "r-" + rid}}, rid)
    c["segU"] = c["pU"].rsplit("/", 1)[1]
    for key in ("loc", "cloc"):
        c[key] = None if raw[key] is None else raw[key].replace("{pU}", c["pU"]).replace("{segU}", c["segU"])
    c["pP"] = c["pU"] + "/" + CHILD_P
    c["pQ"] = c["pU"] + "/" + CHILD_Q
    for n in NAMES:
        c[n] = "http://%s%s" % (H2 if n == "W" else H, c["p" + n])
    c["reqat"] = s.get("reqat", "U")
    c["pR"] = c["p" + c["reqat"]]
    c["R"] = c[c["reqat"]]
    return c


STANDIN_PORT = 3128


def hexs(t):
    b = t.encode("latin1")
    return b.hex() if b else "-"


def to_case(s):
    c = s.get("_c") or concrete(s, STANDIN_PORT, "r")
    f = lambda t: "~" if t is None else hexs(t)
    return "purge.run %s %d %s %s %s %s %s %s" % (hexs(s["method"]), s["status"], hexs("http"), hexs(c["H"]), hexs(c["pR"]),
                                                 f(c["loc"]), f(c["cloc"]), " ".join(hexs(c[n]) for n in NAMES))


# ------------------------------------------------------------------ implementation side
_state = {}


def _hook(rec, spec):
    parts = rec["line"].split(" ")
    m = parts[0]
    if m not in ("GET", "HEAD") and "unsafe" in spec:
        s2 = dict(spec)
        u = dict(spec["unsafe"])
        # {pU} / {segU}: path and last segment of the scenario's U = the first three segments of this request's path
        path = parts[1] if len(parts) > 1 else ""
        if "://" in path:
            path = "/" + path.split("://", 1)[1].split("/", 1)[-1]
        segs = path.split("/")
        pU = "/".join(segs[:4])
        u["headers"] = [[n, v.replace("{pU}", pU).replace("{segU}", segs[3] if len(segs) > 3 else "")] for n, v in u.get("headers", [])]
        s2.update(u)
        return s2
    return spec


def _gets(org, rid, path):
    return sum(1 for a in org.arrivals(rid) if a["line"].split(" ")[:2] == ["GET", path])


def _one(args):
    sq, org, s, rid = args
    c = concrete(s, org.port, rid)
    s["_c"] = c
    urls = [(c[n], c["p" + n]) for n in NAMES]
    try:
        # 1. cache the five URLs, 2. make sure they are served from the cache
        for rnd in (1, 2):
            for url, path in urls:
                r, raw = lab.get(sq.port, url)
                if r is None or r.status != 200:
                    return "fail prime%d %s" % (rnd, r.status if r else "none")
                if _gets(org, rid, path) != 1:
                    return "fail notcached%d arrivals=%d" % (rnd, _gets(org, rid, path))
        # 3. the unsafe request
        m = s["method"]
        r, raw = lab.get(sq.port, c["R"], method=m, body=None if m.upper() in NOBODY else b"payload")
        if r is None or r.status != s["status"]:
            return "fail unsafe %s" % (r.status if r else "none")
        if not any(a["line"].split(" ")[1] == c["pR"] and a["line"].split(" ")[0] not in ("GET", "HEAD") for a in org.arrivals(rid)):
            return "fail unsafe-not-forwarded"
        # 4. ask again: which URLs are fetched from the origin again?
        bits = ""
        for url, path in urls:
            r, raw = lab.get(sq.port, url)
            if r is None or r.status != 200:
                return "fail again %s" % (r.status if r else "none")
            n = _gets(org, rid, path)
            if n not in (1, 2):
                return "fail arrivals=%d" % n
            bits += str(n - 1)
        return "ok " + bits
    except Exception as ex:
        return "fail exc %s" % type(ex).__name__


def run_impl(L, scenarios):
    out = []
    for i in range(0, len(scenarios), 1000):
        out += _run_batch(L, scenarios[i:i + 1000])
    return out


def _run_batch(L, scenarios):
    # a fresh squid every 1000 scenarios: each scenario caches five objects and a full (non-shared) memory cache does
    # not keep new entries until its next maintenance pass - the thorough tier then reported `fail notcached2` for
    # every scenario after ~5400 (a false alarm of this check, not a C20 violation)
    if "sq" in _state and _state["sq"].alive() and _state.get("since", 0) >= 1000:
        _state["sq"].stop()
    if "sq" not in _state or not _state["sq"].alive():
        if "org" not in _state:
            _state["org"] = L.origin(hook=_hook)
            _state["n"] = 0
        _state["sq"] = L.squid(cache_mem="256 MB")
        _state["since"] = 0
    sq, org = _state["sq"], _state["org"]
    jobs = []
    for s in scenarios:
        _state["n"] += 1
        _state["since"] += 1
        jobs.append((sq, org, s, "c%d" % _state["n"]))
    with concurrent.futures.ThreadPoolExecutor(max_workers=8) as ex:
        return list(ex.map(_one, jobs))


# ------------------------------------------------------------------ oracle (independent statement of the property)
def norm_url(u):
    """RFC 3986 6.2.2/6.2.3 normal form of an http URL as (scheme, host, port, path); None if not an http(s) URL"""
    try:
        p = urllib.parse.urlsplit(u)
        if p.scheme not in ("http", "https") or not p.hostname:
            return None
        port = p.port or (80 if p.scheme == "http" else 443)
        path = p.path or "/"
        return (p.scheme, p.hostname.lower(), port, path + ("?" + p.query if p.query else ""))
    except ValueError:
        return None


def ref_class(t):
    """syntactic class of a URI reference (for finding signatures)"""
    if "#" in t: return "fragment"
    if t.startswith("//"): return "netpath"
    m = re.match(r"^([A-Za-z][A-Za-z0-9+.-]*):", t)
    dots = any(seg in (".", "..") for seg in t.split("#")[0].split("?")[0].split("/"))
    if m:
        auth = t[len(m.group(0)):].lstrip("/").split("/")[0]
        if m.group(1) != m.group(1).lower() or auth != auth.lower(): return "case"
        return "dots-abs" if dots else "abs"
    if t.startswith("/"): return "dots-abspath" if dots else "abspath"
    return "dots-relpath" if dots else "relpath"


def is_invalidating(m):
    u = m.upper()
    return u in INVALIDATING or u not in KNOWN_OTHER


def oracle(s, obs):
    """After a non-error (status < 400) response to an invalidating method for U, a later GET of U must reach the origin;
    the same for a cached same-authority URL named (RFC 3986 resolution against U, then normalisation) by the
    response's Location or Content-Location. Evaluated on origin arrival counts only."""
    if not obs.startswith("ok "):
        return ("oracle:no-transaction", "the scenario did not complete: " + obs)
    c = s.get("_c")
    if c is None:
        return None
    bits = obs.split()[1]
    if not is_invalidating(s["method"]) or s["status"] >= 400:
        return None
    ri = NAMES.index(c.get("reqat", "U"))
    if bits[ri] != "1":
        return ("oracle:stale-hit:target", "%s %s answered %d, but the following GET of the same URL was served from the cache "
                "without contacting the origin" % (s["method"], c["R"], s["status"]))
    nu = norm_url(c["R"])
    cands = {n: (norm_url(c[n]), bits[i]) for i, n in enumerate(NAMES) if i != ri}
    for key, name in (("loc", "location"), ("cloc", "content-location")):
        t = c.get(key)
        if t is None:
            continue
        try:
            if re.match(r"^[A-Za-z][A-Za-z0-9+.-]*:", t):      # has a scheme: an absolute URI, never merged with the base
                tgt = norm_url(urllib.parse.urldefrag(t)[0])
            else:
                tgt = norm_url(urllib.parse.urldefrag(urllib.parse.urljoin(c["R"], t))[0])
        except ValueError:
            continue
        if tgt is None or tgt[:3] != nu[:3]:
            continue                                   # names another authority: nothing required
        for cn, (cu, bit) in cands.items():
            if cu == tgt and bit != "1":
                return ("oracle:stale-hit:%s:%s" % (name, ref_class(t)),
                        "%s %s answered %d with %s: %s, which names the same-host URL %s; the following GET of that URL was "
                        "served from the cache without contacting the origin" % (s["method"], c["R"], s["status"], name, t, c[cn]))
    return None


def kind(s, o):
    if not o.startswith("ok"):
        return "fail"
    inv = "inv" if is_invalidating(s["method"]) else "noninv"
    return "%s:%s:%s" % (inv, "ok" if s["status"] < 400 else "err", o.split()[1])


def nontrivial(s, o):
    return o.startswith("ok") and (s.get("loc") is not None or s.get("cloc") is not None)


# ------------------------------------------------------------------ unit-level correspondence (string / URI helpers)
def extract_same_url_hosts():
    """sameUrlHosts is file-static in src/clients/Client.cc (a unit that cannot be linked into a small harness):
    its text is cut out of the working tree's Client.cc and compiled into harness/h_purge.cc"""
    src = open(os.path.join(common.REPO, "src", "clients", "Client.cc"), encoding="utf-8", errors="replace").read()
    m = re.search(r"^static bool\s*\nsameUrlHosts\(const char \*url1, const char \*url2\)\s*\n\{.*?^\}\n", src, re.S | re.M)
    if not m:
        raise hbuild.BuildError("static bool sameUrlHosts(const char *url1, const char *url2) not found in src/clients/Client.cc")
    txt = "// cut out of src/clients/Client.cc by checks/c20.py -- do not edit\n#include <cstring>\n" + m.group(0)
    d = os.path.join(common.BUILD, "gen_src")
    os.makedirs(d, exist_ok=True)
    path = os.path.join(d, "purge_sameUrlHosts_%s.inc" % common.sha(txt)[:12])
    if not os.path.exists(path):
        tmp = path + ".tmp%d" % os.getpid()
        with open(tmp, "w") as f:
            f.write(txt)
        os.replace(tmp, path)
    return path


def build_unit():
    inc = extract_same_url_hosts()
    return hbuild.build("h_purge", "h_purge.cc", fresh=["src/anyp/Host.cc", "src/anyp/UriScheme.cc"], link=recipes.URL,
                        flags=['-DPURGE_EXTRACT="%s"' % inc], sanitize="ubsan")


def prebuild():
    build_unit()


U_SCHEMES = ["http", "http", "https", "HTTP", "ftp", "x", "", "urn", "a.b+c"]
U_SEPS = ["://", "://", "://", ":", ":/", ":///", "//", ""]
U_AUTHS = ["h", "h:8", "h:80", "H:8", "h.example:8", "127.0.0.1:3128", "localhost:3128", "", "u@h:8", "[::1]:8", "h:", "hh", "h:81"]
U_PATHS = ["", "/", "/p", "/p/q", "/p/q:r", "//x", "/p?q=/r", "/p#f", "?q", "#f"]
U_REFS = ["v", "/v", "", "./v", "../v", "../../v", "//h:8/v", "v w", "v#f", "/d/v#f", "/d/./v", "d/v", "v/", "/", "?q", "#f", "a:b",
          "http://h:8/d/v", "HTTP://h:8/d/v", "x/y:z", "/\xe9t\xe9", "v\x7f", "%41", "/a b\tc", "mailto:x@y", ":", "::", "/:"]
U_BASEPATHS = ["/", "/a", "/a/b", "/a/b/", "", "/a/b/c.html", "/a?x/y", "/a b/c"]
U_FRONTS = ["http://h:8", "http://h", "http://127.0.0.1:3128", "http://h.example:8080"]


def _mutate_text(rng, t):
    if not t or rng.random() < 0.5:
        return t
    i = rng.randrange(len(t))
    k = rng.random()
    if k < 0.35: return t[:i] + t[i + 1:]
    if k < 0.7: return t[:i] + rng.choice("/:@#?.hH8 ") + t[i:]
    return t[:i] + rng.choice("/:@#?.hH8") + t[i + 1:]


def gen_unit_cases(rng, n):
    out = []
    for k in range(n):
        r = k % 4
        if r == 0:
            def url():
                return rng.choice(U_SCHEMES) + rng.choice(U_SEPS) + rng.choice(U_AUTHS) + rng.choice(U_PATHS)
            a = url()
            b = url() if rng.random() < 0.6 else a.split("://")[0] + "://" + a.split("://", 1)[-1].split("/")[0] + rng.choice(U_PATHS)
            if rng.random() < 0.3: b = _mutate_text(rng, b)
            if rng.random() < 0.15: a = _mutate_text(rng, a)
            out.append("purge.samehost %s %s" % (hexs(a), hexs(b)))
        elif r == 1:
            t = rng.choice(U_REFS) if rng.random() < 0.5 else rng.choice(U_SCHEMES) + rng.choice(U_SEPS) + rng.choice(U_AUTHS) + rng.choice(U_PATHS)
            out.append("purge.isrel %s" % hexs(_mutate_text(rng, t)))
        elif r == 2:
            if rng.random() < 0.5:
                t = "".join(chr(rng.randrange(1, 256)) for _ in range(rng.randrange(0, 12)))
            else:
                t = _mutate_text(rng, rng.choice(U_REFS + U_BASEPATHS))
            out.append("purge.encode %s" % hexs(t))
        else:
            ref = rng.choice(U_REFS)
            if rng.random() < 0.3: ref = _mutate_text(rng, ref)
            out.append("purge.resolve %s %s %s %d" % (hexs(rng.choice(U_FRONTS)), hexs(rng.choice(U_BASEPATHS)), hexs(ref), rng.randrange(2)))
    return out


def unit_oracle(case, out):
    """the part of the property visible at this level: two scheme://authority/path URLs with byte-identical non-empty
    authority are 'same host' (so that the named URL is purged)"""
    w = case.split()
    if w[0] != "purge.samehost":
        return None
    a = bytes.fromhex(w[1]).decode("latin1") if w[1] != "-" else ""
    b = bytes.fromhex(w[2]).decode("latin1") if w[2] != "-" else ""
    ma = re.match(r"^([^:/?#]*)://([^/]+)/", a)
    mb = re.match(r"^([^:/?#]*)://([^/]+)/", b)
    if ma and mb and ma.group(2) == mb.group(2) and out != "1":
        return ("oracle:same-authority-not-same-host", "sameUrlHosts(%r, %r) = %s although the authorities are identical" % (a, b, out))
    return None


def unit_stage(res, tier):
    try:
        exe = build_unit()
    except hbuild.BuildError as ex:
        res.fail("build", "C20: unit harness no longer builds against /repo's working tree: %s" % str(ex)[-1200:],
                 {"no_failing_input_found": True, "broken": "harness build h_purge", "detail": str(ex)[-3000:]})
        return
    runner = coq.build_runner("purge")
    rng = random.Random(common.seed() * 1000003 + 2020)
    cases = std.load_corpus(PID) + gen_unit_cases(rng, 6000 if tier == "quick" else 200000)
    impl = corr.run_lines(exe, cases)
    model = corr.run_lines(runner, cases)
    for c, a in zip(cases, impl):
        res.count_case(c, nontrivial=True, kind="unit:" + c.split()[0].split(".")[1] + (":" + a if a in ("0", "1") else ""))
    found = 0
    for c, o in zip(cases, impl):
        v = unit_oracle(c, o)
        if v and res.fail(v[0], "C20 on input `%s`: implementation answered `%s`: %s" % (c, o, v[1]),
                          {"case": c, "impl": o, "oracle": v[1], "signature": v[0]}):
            found += 1
    dis = corr.diff(cases, impl, model)
    res.extra["unit_cases"] = len(cases)
    res.extra["unit_disagreements"] = len(dis)
    if dis and not found:
        k, c, a, b = dis[0]
        res.fail("corr:unit:" + c.split()[0],
                 "model and implementation disagree on %d unit cases (first: `%s` impl=`%s` model=`%s`)" % (len(dis), c[:300], a[:150], b[:150]),
                 {"no_failing_input_found": True, "broken": "correspondence PurgeModel string/URI helpers vs harness/h_purge.cc",
                  "case": c, "impl": a, "model": b, "disagreements": len(dis)})


def run(res, tier):
    res.rule = ("per scenario five URLs are cached through the real squid and verified to be hits (U and V on one host name of the "
                "origin stub, W on another name of the same stub, P = U/17 and Q = U/17x which have U -- and Q has P -- as a "
                "proper textual prefix); then a random method (POST/PUT/DELETE, unknown extension "
                "methods, mixed-case spellings, WebDAV methods, safe methods) is sent to U or to P and answered with a random status "
                "(70% < 400) and random Location / Content-Location naming U, V, W, P or Q (so also URLs extending the request URL and URLs the request URL extends) as absolute URL, absolute path, relative "
                "path, with dot segments, network-path reference, other letter case, fragment, other port, host prefix, no "
                "authority, garbage; finally all five are requested again and the origin arrivals counted; non-trivial = the "
                "reply carried Location or Content-Location")
    std.run_lab(res, PID, tier, area="purge", gens=["purgemethods", "purgeuri"], gen_scenarios=gen_scenarios, run_impl=run_impl,
                to_case=to_case, oracle=oracle, corr_name="PurgeModel (refetched) vs the running squid",
                n_quick=230, n_thorough=5000, seed_salt=20, kind_fn=kind, nontrivial_fn=nontrivial)
    _state.clear()
    res.rule += ("; unit level: 6000 (quick) generated inputs for sameUrlHosts (URL pairs from scheme/separator/authority/path "
                 "pieces with single-character mutations), urlIsRelative, Uri::Encode(PathChars) (random bytes) and the "
                 "copy + path()/addRelativePath() + absolute() sequence of purgeEntriesByHeader with a cold and a warm absolute_ "
                 "cache, real code (harness/h_purge.cc, sameUrlHosts cut out of the working tree's Client.cc) vs extracted model")
    unit_stage(res, tier)
