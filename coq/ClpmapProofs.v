(* ClpmapProofs.v — proofs for C51: the ClpMap model refines the LRU/TTL/capacity
   specification, for all operation histories. *)
Require Import SquidV.Bytes SquidV.ClpmapModel.
Require Import ZifyBool ZifyN ZifyNat.
Local Open Scope N_scope.

(* ---------- byte-string equality ---------- *)
Lemma list_eqb_refl (a : bytes) : list_eqb a a = true.
Proof. induction a as [|x a IH]; cbn [list_eqb]; [reflexivity|]. rewrite N.eqb_refl, IH. reflexivity. Qed.

Lemma list_eqb_true (a b : bytes) : list_eqb a b = true -> a = b.
Proof.
  revert b; induction a as [|x a IH]; intros [|y b] H; cbn [list_eqb] in H; try discriminate; [reflexivity|].
  apply andb_prop in H. destruct H as [H1 H2]. apply N.eqb_eq in H1. apply IH in H2. congruence.
Qed.

Lemma list_eqb_false (a b : bytes) : list_eqb a b = false -> a <> b.
Proof. intros H E. subst b. rewrite list_eqb_refl in H. discriminate. Qed.

Section Proofs.
  Variable V : Type.
  Variable vmem : V -> N.
  Variable esz : N.
  Variable isz : N.
  Variable tmax : Z.

  Notation entry := (entry V).
  Notation cmap := (cmap V).
  Notation smap := (smap V).
  Notation op := (op V).

  Definition keys (l : list entry) : list bytes := map e_key l.

  (* ---------- total ---------- *)
  Lemma total_cons (e : entry) l : total (e :: l) = e_mem e + total l.
  Proof. reflexivity. Qed.

  Lemma total_app (a b : list entry) : total (a ++ b) = total a + total b.
  Proof. induction a as [|x a IH]; cbn [app]; [reflexivity|]. rewrite !total_cons, IH. lia. Qed.

  (* ---------- has_key / without ---------- *)
  Lemma has_key_true k (e : entry) : has_key k e = true -> e_key e = k.
  Proof. unfold has_key. intros H. apply list_eqb_true in H. congruence. Qed.

  Lemma has_key_self (e : entry) : has_key (e_key e) e = true.
  Proof. unfold has_key. apply list_eqb_refl. Qed.

  Lemma has_key_false k (e : entry) : has_key k e = false -> e_key e <> k.
  Proof. unfold has_key. intros H E. apply list_eqb_false in H. congruence. Qed.

  Lemma without_cons k (e : entry) l :
    without k (e :: l) = if has_key k e then without k l else e :: without k l.
  Proof. unfold without. cbn [filter]. destruct (has_key k e); reflexivity. Qed.

  Lemma without_app k (a b : list entry) : without k (a ++ b) = without k a ++ without k b.
  Proof. unfold without. apply filter_app. Qed.

  Lemma without_notin k (l : list entry) : ~ In k (keys l) -> without k l = l.
  Proof.
    induction l as [|e l IH]; intros H; [reflexivity|].
    rewrite without_cons. destruct (has_key k e) eqn:E.
    - exfalso. apply H. left. apply has_key_true in E. exact E.
    - rewrite IH; [reflexivity|]. intros HI. apply H. right. exact HI.
  Qed.

  Lemma without_keys k (l : list entry) : ~ In k (keys (without k l)).
  Proof.
    induction l as [|e l IH]; [intros []|].
    rewrite without_cons. destruct (has_key k e) eqn:E; [exact IH|].
    intros [H|H]; [apply has_key_false in E; contradiction|contradiction].
  Qed.

  Lemma without_idem k (l : list entry) : without k (without k l) = without k l.
  Proof. apply without_notin, without_keys. Qed.

  Lemma keys_without_incl k x (l : list entry) : In x (keys (without k l)) -> In x (keys l).
  Proof.
    induction l as [|e l IH]; [intros []|].
    rewrite without_cons. destruct (has_key k e); cbn [keys map In] in *; tauto.
  Qed.

  Lemma nodup_without k (l : list entry) : NoDup (keys l) -> NoDup (keys (without k l)).
  Proof.
    induction l as [|e l IH]; intros H; [exact H|].
    cbn [keys map] in H. apply NoDup_cons_iff in H. destruct H as [H1 H2].
    rewrite without_cons. destruct (has_key k e); [apply IH, H2|].
    cbn [keys map]. apply NoDup_cons; [|apply IH, H2].
    intros HI. apply H1. eapply keys_without_incl. exact HI.
  Qed.

  Lemma keys_app (a b : list entry) : keys (a ++ b) = keys a ++ keys b.
  Proof. apply map_app. Qed.

  Lemma nodup_prefix (a b : list entry) : NoDup (keys (a ++ b)) -> NoDup (keys a).
  Proof.
    rewrite keys_app. generalize (keys b) as kb. intros kb.
    induction (keys a) as [|x ka IH]; intros H; [constructor|].
    cbn [app] in H. apply NoDup_cons_iff in H. destruct H as [H1 H2].
    apply NoDup_cons; [|apply IH, H2]. intros HI. apply H1. apply in_or_app. left. exact HI.
  Qed.

  (* ---------- lookup = find, remove_first = without (unique keys) ---------- *)
  Lemma lookup_find k (l : list entry) : lookup k l = find (has_key k) l.
  Proof. induction l as [|e l IH]; cbn [lookup find]; [reflexivity|]. unfold has_key at 1. rewrite IH. reflexivity. Qed.

  Lemma remove_first_without k (l : list entry) :
    NoDup (keys l) -> remove_first k l = without k l.
  Proof.
    induction l as [|e l IH]; intros H; [reflexivity|].
    cbn [keys map] in H. apply NoDup_cons_iff in H. destruct H as [H1 H2].
    cbn [remove_first]. rewrite without_cons. unfold has_key. destruct (list_eqb k (e_key e)) eqn:E.
    - apply list_eqb_true in E. subst k. symmetry. apply without_notin, H1.
    - rewrite IH by exact H2. reflexivity.
  Qed.

  Lemma find_key k (l : list entry) e : find (has_key k) l = Some e -> e_key e = k.
  Proof. intros H. apply find_some in H. apply has_key_true, H. Qed.

  Lemma find_none_without k (l : list entry) : find (has_key k) l = None -> without k l = l.
  Proof.
    intros H. apply without_notin. intros HI. unfold keys in HI. apply in_map_iff in HI.
    destruct HI as [e [E1 E2]]. pose proof (find_none _ _ H e E2) as F. cbv beta in F.
    rewrite <- E1, has_key_self in F. discriminate.
  Qed.

  Lemma total_find k (l : list entry) e :
    NoDup (keys l) -> find (has_key k) l = Some e -> total l = e_mem e + total (without k l).
  Proof.
    induction l as [|x l IH]; intros H F; [discriminate|].
    cbn [keys map] in H. apply NoDup_cons_iff in H. destruct H as [H1 H2].
    cbn [find] in F. rewrite without_cons. destruct (has_key k x) eqn:E.
    - injection F as F. subst x. apply has_key_true in E. subst k.
      rewrite (without_notin _ _ H1). reflexivity.
    - rewrite !total_cons. rewrite (IH H2 F). lia.
  Qed.

  (* ---------- fit ---------- *)
  Lemma fit_all b (l : list entry) : total l <= b -> fit b l = l.
  Proof.
    revert b; induction l as [|e l IH]; intros b H; [reflexivity|].
    rewrite total_cons in H. cbn [fit]. destruct (e_mem e <=? b) eqn:E; [|lia].
    rewrite IH by lia. reflexivity.
  Qed.

  Lemma fit_drop_last b (l : list entry) e : b < total (l ++ [e]) -> fit b (l ++ [e]) = fit b l.
  Proof.
    revert b; induction l as [|x l IH]; intros b H.
    - cbn [app fit] in *. rewrite total_cons in H. cbn [total fold_right] in H.
      destruct (e_mem e <=? b) eqn:E; [lia|reflexivity].
    - cbn [app] in *. rewrite total_cons in H. cbn [fit].
      destruct (e_mem x <=? b) eqn:E; [|reflexivity]. rewrite IH by lia. reflexivity.
  Qed.

  Lemma fit_prefix b (l : list entry) : exists r, l = fit b l ++ r.
  Proof.
    revert b; induction l as [|e l IH]; intros b; [exists []; reflexivity|].
    cbn [fit]. destruct (e_mem e <=? b); [|exists (e :: l); reflexivity].
    destruct (IH (b - e_mem e)) as [r Hr]. exists r. cbn [app]. rewrite <- Hr. reflexivity.
  Qed.

  Lemma fit_total b (l : list entry) : total (fit b l) <= b.
  Proof.
    revert b; induction l as [|e l IH]; intros b; cbn [fit]; [cbn; lia|].
    destruct (e_mem e <=? b) eqn:E; [|cbn; lia]. rewrite total_cons. specialize (IH (b - e_mem e)). lia.
  Qed.

  Lemma fit_maximal b (l : list entry) x r : l = fit b l ++ x :: r -> b < total (fit b l) + e_mem x.
  Proof.
    revert b; induction l as [|e l IH]; intros b H.
    - cbn [fit app] in H. discriminate.
    - cbn [fit] in *. destruct (e_mem e <=? b) eqn:E.
      + cbn [app] in H. injection H as H. apply IH in H. rewrite total_cons. lia.
      + cbn [app] in H. injection H as H1 H2. subst x. cbn [total fold_right]. lia.
  Qed.

  Lemma fit_keys_incl b x (l : list entry) : In x (keys (fit b l)) -> In x (keys l).
  Proof.
    destruct (fit_prefix b l) as [r Hr]. intros H. rewrite Hr, keys_app. apply in_or_app. left. exact H.
  Qed.

  Lemma nodup_fit b (l : list entry) : NoDup (keys l) -> NoDup (keys (fit b l)).
  Proof. destruct (fit_prefix b l) as [r Hr]. intros H. rewrite Hr in H. apply nodup_prefix in H. exact H. Qed.

  (* ---------- last entry ---------- *)
  Lemma last_entry_snoc (l : list entry) e : last_entry (l ++ [e]) = Some e.
  Proof.
    induction l as [|x l IH]; [reflexivity|]. cbn [app last_entry].
    destruct (l ++ [e]) eqn:E; [destruct l; discriminate|]. exact IH.
  Qed.

  Lemma without_last (l : list entry) e : NoDup (keys (l ++ [e])) -> without (e_key e) (l ++ [e]) = l.
  Proof.
    intros H. rewrite without_app. rewrite keys_app in H.
    assert (Hn : ~ In (e_key e) (keys l)).
    { intros HI. apply NoDup_remove_2 in H. apply H. rewrite app_nil_r. exact HI. }
    rewrite (without_notin _ _ Hn). rewrite without_cons, has_key_self. cbn. apply app_nil_r.
  Qed.

  (* ================= the model on well-formed states ================= *)
  (* A well-formed map state is determined by its entry list, default TTL and limit: the
     counter is the sum of the sizes and no assertion has fired. *)
  Definition mk_of (l : list entry) (d : Z) (lim : N) : cmap := mkM l d lim (total l) StOk.

  (* the concrete state representing a specification state *)
  Definition conc (s : smap) : cmap := mk_of (s_items s) (s_dttl s) (s_limit s).

  Definition GoodS (s : smap) : Prop :=
    NoDup (keys (s_items s)) /\ total (s_items s) <= s_limit s /\ s_limit s <= U64MAX.

  Lemma st_assert_true s : st_assert true s = s.
  Proof. destruct s; reflexivity. Qed.

  Lemma erase_ok l d lim k e :
    NoDup (keys l) -> find (has_key k) l = Some e ->
    clp_erase (mk_of l d lim) e = mk_of (without k l) d lim.
  Proof.
    intros Hn F. pose proof (find_key _ _ _ F) as Hk. pose proof (total_find _ _ _ Hn F) as Ht.
    unfold clp_erase, mk_of. cbn [entries defTtl memLimit memUsed stat].
    rewrite Hk, (remove_first_without _ _ Hn).
    assert (Hle : (e_mem e <=? total l) = true) by lia. rewrite Hle, st_assert_true.
    f_equal. unfold u64sub. rewrite Hle. lia.
  Qed.

  Lemma find_none_ok now l d lim k :
    find (has_key k) l = None -> clp_find now (mk_of l d lim) k = (mk_of l d lim, None).
  Proof. intros F. unfold clp_find. cbn [entries mk_of]. rewrite lookup_find, F. reflexivity. Qed.

  Lemma find_stale_ok now l d lim k e :
    NoDup (keys l) -> find (has_key k) l = Some e -> fresh now e = false ->
    clp_find now (mk_of l d lim) k = (mk_of (without k l) d lim, None).
  Proof.
    intros Hn F Hf. unfold clp_find. cbn [entries mk_of]. rewrite lookup_find, F.
    unfold fresh in Hf. unfold expired. assert (Hx : (e_expires e <? now)%Z = true) by lia. rewrite Hx.
    fold (mk_of l d lim). rewrite (erase_ok _ _ _ _ _ Hn F). reflexivity.
  Qed.

  Lemma find_fresh_ok now l d lim k e :
    NoDup (keys l) -> find (has_key k) l = Some e -> fresh now e = true ->
    clp_find now (mk_of l d lim) k = (mk_of (e :: without k l) d lim, Some e).
  Proof.
    intros Hn F Hf. unfold clp_find. cbn [entries mk_of]. rewrite lookup_find, F.
    unfold fresh in Hf. unfold expired. assert (Hx : (e_expires e <? now)%Z = false) by lia. rewrite Hx.
    unfold set_entries, mk_of. cbn [entries defTtl memLimit memUsed stat].
    rewrite (remove_first_without _ _ Hn), total_cons, <- (total_find _ _ _ Hn F). reflexivity.
  Qed.

  Lemma nodup_front k e (l : list entry) :
    NoDup (keys l) -> e_key e = k -> NoDup (keys (e :: without k l)).
  Proof.
    intros Hn Hk. cbn [keys map]. apply NoDup_cons; [rewrite Hk; apply without_keys|apply nodup_without, Hn].
  Qed.

  Lemma del_ok now l d lim k :
    NoDup (keys l) -> clp_del now (mk_of l d lim) k = mk_of (without k l) d lim.
  Proof.
    intros Hn. unfold clp_del. destruct (find (has_key k) l) as [e|] eqn:F.
    - pose proof (find_key _ _ _ F) as Hk. destruct (fresh now e) eqn:Hf.
      + rewrite (find_fresh_ok _ _ _ _ _ _ Hn F Hf).
        assert (F2 : find (has_key k) (e :: without k l) = Some e).
        { cbn [find]. rewrite <- Hk at 1. rewrite has_key_self. reflexivity. }
        rewrite (erase_ok _ _ _ _ _ (nodup_front _ _ _ Hn Hk) F2).
        rewrite without_cons. rewrite <- Hk at 1. rewrite has_key_self, without_idem. reflexivity.
      + rewrite (find_stale_ok _ _ _ _ _ _ Hn F Hf). reflexivity.
    - rewrite (find_none_ok _ _ _ _ _ F), (find_none_without _ _ F). reflexivity.
  Qed.

  (* the loop of trim() computes the longest fitting MRU prefix *)
  Lemma trim_loop_ok now d lim want : want <= lim ->
    forall fuel l, NoDup (keys l) -> total l <= lim -> (length l < fuel)%nat ->
    trim_loop fuel now (mk_of l d lim) want = mk_of (fit (lim - want) l) d lim.
  Proof.
    intros Hw. induction fuel as [|f IH]; intros l Hn Ht Hl; [lia|].
    cbn [trim_loop]. unfold freeMem. cbn [memLimit memUsed mk_of].
    assert (Hs : u64sub lim (total l) = lim - total l).
    { unfold u64sub. assert (Hle : (total l <=? lim) = true) by lia. rewrite Hle. reflexivity. }
    rewrite Hs. destruct (lim - total l <? want) eqn:E.
    - destruct l as [|x0 l0] using rev_ind.
      + cbn [total fold_right] in E. lia.
      + clear IHl0. change (entries (mk_of (l0 ++ [x0]) d lim)) with (l0 ++ [x0]).
        rewrite last_entry_snoc. rewrite (del_ok _ _ _ _ _ Hn), (without_last _ _ Hn).
        rewrite total_app in Ht. rewrite app_length in Hl. cbn [length] in Hl.
        rewrite IH; [|apply nodup_prefix in Hn; exact Hn|lia|lia].
        rewrite fit_drop_last; [reflexivity|]. rewrite total_app in *. lia.
    - rewrite fit_all by lia. reflexivity.
  Qed.

  Lemma trim_ok now l d lim want :
    NoDup (keys l) -> total l <= lim -> want <= lim ->
    clp_trim now (mk_of l d lim) want = mk_of (fit (lim - want) l) d lim.
  Proof.
    intros Hn Ht Hw. unfold clp_trim. cbn [memLimit stat mk_of].
    assert (Hle : (want <=? lim) = true) by lia. rewrite Hle, st_assert_true.
    change (trim_loop (S (length l)) now (mk_of l d lim) want = mk_of (fit (lim - want) l) d lim).
    apply trim_loop_ok; [exact Hw|exact Hn|exact Ht|lia].
  Qed.

  (* MemoryCountedFor(): the chain of checked additions is the checked sum *)
  Lemma mem_counted_size_of k (v : V) : mem_counted vmem esz isz k v = size_of vmem esz isz k v.
  Proof.
    unfold mem_counted, size_of, inc_sum.
    destruct (0 + lenN k <=? U64MAX) eqn:E1.
    - destruct (0 + lenN k + esz <=? U64MAX) eqn:E2.
      + destruct (0 + lenN k + esz + vmem v <=? U64MAX) eqn:E3.
        * destruct (0 + lenN k + esz + vmem v + isz <=? U64MAX) eqn:E4;
          destruct (lenN k + vmem v + (esz + isz) <=? U64MAX) eqn:E5; try lia; try reflexivity. f_equal. lia.
        * destruct (lenN k + vmem v + (esz + isz) <=? U64MAX) eqn:E5; [lia|reflexivity].
      + destruct (lenN k + vmem v + (esz + isz) <=? U64MAX) eqn:E5; [lia|reflexivity].
    - destruct (lenN k + vmem v + (esz + isz) <=? U64MAX) eqn:E5; [lia|reflexivity].
  Qed.

  (* Entry::Entry(): the saturating sum is min(tmax, now + ttl), "never" for a negative clock *)
  Lemma expires_at_deadline now ttl : (0 <= ttl)%Z -> expires_at tmax now ttl = deadline tmax now ttl.
  Proof.
    intros H. unfold expires_at, deadline.
    destruct (now <? 0)%Z eqn:E1; [reflexivity|].
    destruct (tmax <? now)%Z eqn:E2; [lia|].
    destruct (ttl <? 0)%Z eqn:E3; [lia|].
    destruct (tmax - now <? ttl)%Z eqn:E4; lia.
  Qed.

  (* ================= commutation: model (conc s) = conc (spec s) ================= *)
  Lemma get_comm now s k : GoodS s ->
    clp_get now (conc s) k = (conc (fst (spec_get now s k)), snd (spec_get now s k)).
  Proof.
    intros [Hn [Ht Hl]]. unfold clp_get, spec_get, conc.
    destruct (find (has_key k) (s_items s)) as [e|] eqn:F.
    - destruct (fresh now e) eqn:Hf.
      + rewrite (find_fresh_ok _ _ _ _ _ _ Hn F Hf). reflexivity.
      + rewrite (find_stale_ok _ _ _ _ _ _ Hn F Hf). reflexivity.
    - rewrite (find_none_ok _ _ _ _ _ F). reflexivity.
  Qed.

  Lemma del_comm now s k : GoodS s -> clp_del now (conc s) k = conc (spec_del s k).
  Proof. intros [Hn _]. unfold conc. rewrite (del_ok _ _ _ _ _ Hn). reflexivity. Qed.

  Lemma add_comm now s k v ttl : GoodS s ->
    clp_add vmem esz isz tmax now (conc s) k v ttl =
    (conc (fst (spec_add vmem esz isz tmax now s k v ttl)), snd (spec_add vmem esz isz tmax now s k v ttl)).
  Proof.
    intros [Hn [Ht Hl]]. unfold clp_add, spec_add.
    change (memLimit (conc s)) with (s_limit s).
    destruct (s_limit s =? 0) eqn:E0; [reflexivity|].
    change (conc s) with (mk_of (s_items s) (s_dttl s) (s_limit s)). rewrite (del_ok _ _ _ _ _ Hn).
    rewrite mem_counted_size_of.
    destruct (ttl <? 0)%Z eqn:Et.
    - assert (Hz : (0 <=? ttl)%Z = false) by lia. rewrite Hz.
      destruct (size_of vmem esz isz k v); reflexivity.
    - assert (Hz : (0 <=? ttl)%Z = true) by lia. rewrite Hz.
      destruct (size_of vmem esz isz k v) as [sz|] eqn:Es; [|reflexivity].
      cbn [memLimit mk_of].
      destruct ((s_limit s <? sz) || (sz =? 0)) eqn:Eb.
      + assert (Hc : (0 <? sz) && (sz <=? s_limit s) = false) by lia. cbn [andb]. rewrite Hc. reflexivity.
      + assert (Hc : (0 <? sz) && (sz <=? s_limit s) = true) by lia. cbn [andb]. rewrite Hc.
        set (rest := without k (s_items s)).
        assert (Hnr : NoDup (keys rest)) by (apply nodup_without, Hn).
        assert (Htr : total rest <= s_limit s).
        { destruct (find (has_key k) (s_items s)) as [e|] eqn:F.
          - pose proof (total_find _ _ _ Hn F). subst rest. lia.
          - subst rest. rewrite (find_none_without _ _ F). exact Ht. }
        rewrite (trim_ok _ _ _ _ _ Hnr Htr) by lia.
        cbn [entries defTtl memLimit memUsed stat mk_of fst snd].
        pose proof (fit_total (s_limit s - sz) rest) as Hft.
        assert (Hu : u64add (total (fit (s_limit s - sz) rest)) sz = sz + total (fit (s_limit s - sz) rest)).
        { unfold u64add. destruct (total (fit (s_limit s - sz) rest) + sz <=? U64MAX) eqn:Eu; lia. }
        rewrite Hu. assert (Hle : (sz <=? sz + total (fit (s_limit s - sz) rest)) = true) by lia.
        rewrite Hle, st_assert_true. rewrite expires_at_deadline by lia. reflexivity.
  Qed.

  Lemma lim_comm now s n : GoodS s -> n <= U64MAX ->
    clp_setMemLimit now (conc s) n = conc (spec_setLimit s n).
  Proof.
    intros [Hn [Ht Hl]] Hu. unfold clp_setMemLimit, spec_setLimit, conc. cbn [memUsed memLimit mk_of].
    destruct (n <? total (s_items s)) eqn:E.
    - fold (mk_of (s_items s) (s_dttl s) (s_limit s)).
      assert (Hs : u64sub (s_limit s) n = s_limit s - n).
      { unfold u64sub. assert (Hle : (n <=? s_limit s) = true) by lia. rewrite Hle. reflexivity. }
      rewrite Hs, (trim_ok _ _ _ _ _ Hn Ht) by lia.
      cbn [entries defTtl memLimit memUsed stat mk_of s_items s_limit s_dttl].
      replace (s_limit s - (s_limit s - n)) with n by lia. reflexivity.
    - cbn [entries defTtl memLimit memUsed stat s_items s_limit s_dttl].
      rewrite fit_all by lia. reflexivity.
  Qed.

  Lemma new_comm now cap d b : cap <= U64MAX -> dttl_ok d ->
    clp_new now cap d b = conc (spec_new cap d b).
  Proof.
    intros Hc Hd. unfold clp_new, spec_new, conc, mk_of, clp_setMemLimit. cbn [s_items s_limit s_dttl].
    assert (Hn : (cap <? 0) = false) by lia.
    destruct d as [d|]; cbn [dttl_ok] in Hd; cbn [memUsed]; rewrite Hn; cbn [entries defTtl memUsed stat].
    - assert (Hz : (0 <=? d)%Z = true) by lia. rewrite Hz, st_assert_true. reflexivity.
    - reflexivity.
  Qed.

  (* ================= the specification keeps its states well formed ================= *)
  Lemma spec_new_good cap d b : cap <= U64MAX -> GoodS (spec_new cap d b).
  Proof. intros H. unfold GoodS, spec_new. cbn. repeat split; [constructor|lia|exact H]. Qed.

  Lemma total_without_le k (l : list entry) : total (without k l) <= total l.
  Proof.
    induction l as [|e l IH]; [cbn; lia|]. rewrite without_cons.
    destruct (has_key k e); rewrite ?total_cons; lia.
  Qed.

  Lemma spec_get_good now s k : GoodS s -> GoodS (fst (spec_get now s k)).
  Proof.
    intros [Hn [Ht Hl]]. unfold spec_get. destruct (find (has_key k) (s_items s)) as [e|] eqn:F.
    - pose proof (find_key _ _ _ F) as Hk. pose proof (total_find _ _ _ Hn F) as Htf.
      destruct (fresh now e); unfold GoodS; cbn [fst s_items s_limit s_dttl].
      + repeat split; [apply nodup_front; assumption|rewrite total_cons; lia|exact Hl].
      + repeat split; [apply nodup_without, Hn|lia|exact Hl].
    - repeat split; assumption.
  Qed.

  Lemma spec_del_good s k : GoodS s -> GoodS (spec_del s k).
  Proof.
    intros [Hn [Ht Hl]]. unfold GoodS, spec_del. cbn [s_items s_limit s_dttl].
    pose proof (total_without_le k (s_items s)). repeat split; [apply nodup_without, Hn|lia|exact Hl].
  Qed.

  Lemma spec_add_good now s k v ttl : GoodS s -> GoodS (fst (spec_add vmem esz isz tmax now s k v ttl)).
  Proof.
    intros G. pose proof (spec_del_good s k G) as [Hn [Ht Hl]]. cbn [spec_del s_items s_limit] in Hn, Ht, Hl.
    unfold spec_add. destruct (s_limit s =? 0); [exact G|].
    destruct (size_of vmem esz isz k v) as [sz|].
    - destruct ((0 <=? ttl)%Z && (0 <? sz) && (sz <=? s_limit s)) eqn:Ec.
      + unfold GoodS. cbn [fst s_items s_limit s_dttl].
        pose proof (fit_total (s_limit s - sz) (without k (s_items s))) as Hft.
        repeat split; [|rewrite total_cons; cbn [e_mem]; lia|exact Hl].
        cbn [keys map e_key]. apply NoDup_cons; [|apply nodup_fit, Hn].
        intros HI. apply fit_keys_incl in HI. revert HI. apply without_keys.
      + unfold GoodS. cbn [fst s_items s_limit s_dttl]. repeat split; assumption.
    - unfold GoodS. cbn [fst s_items s_limit s_dttl]. repeat split; assumption.
  Qed.

  Lemma spec_setLimit_good s n : GoodS s -> n <= U64MAX -> GoodS (spec_setLimit s n).
  Proof.
    intros [Hn _] Hu. unfold GoodS, spec_setLimit. cbn [s_items s_limit s_dttl].
    repeat split; [apply nodup_fit, Hn|apply fit_total|exact Hu].
  Qed.

  (* ================= one operation, then all histories ================= *)
  Notation cstep := (clp_step vmem esz isz tmax).
  Notation sstep := (spec_step vmem esz isz tmax).
  Notation crun := (clp_run vmem esz isz tmax).
  Notation srun := (spec_run vmem esz isz tmax).

  Lemma step_comm now s (o : op) : GoodS s -> op_ok o ->
    cstep (now, conc s) o =
    ((fst (fst (sstep (now, s) o)), conc (snd (fst (sstep (now, s) o)))), snd (sstep (now, s) o)).
  Proof.
    intros G Ho. destruct o as [k|k v ttl|k v|k|n|t]; unfold clp_step, spec_step.
    - rewrite (get_comm now s k G). destruct (spec_get now s k); reflexivity.
    - rewrite (add_comm now s k v ttl G). destruct (spec_add vmem esz isz tmax now s k v ttl); reflexivity.
    - change (defTtl (conc s)) with (s_dttl s).
      rewrite (add_comm now s k v (s_dttl s) G). destruct (spec_add vmem esz isz tmax now s k v (s_dttl s)); reflexivity.
    - rewrite (del_comm now s k G). reflexivity.
    - cbn [op_ok] in Ho. rewrite (lim_comm now s n G Ho). reflexivity.
    - reflexivity.
  Qed.

  Lemma step_good now s (o : op) : GoodS s -> op_ok o -> GoodS (snd (fst (sstep (now, s) o))).
  Proof.
    intros G Ho. destruct o as [k|k v ttl|k v|k|n|t]; unfold spec_step.
    - pose proof (spec_get_good now s k G). destruct (spec_get now s k); exact H.
    - pose proof (spec_add_good now s k v ttl G). destruct (spec_add vmem esz isz tmax now s k v ttl); exact H.
    - pose proof (spec_add_good now s k v (s_dttl s) G).
      destruct (spec_add vmem esz isz tmax now s k v (s_dttl s)); exact H.
    - apply spec_del_good, G.
    - apply spec_setLimit_good; [exact G|exact Ho].
    - exact G.
  Qed.

  Lemma run_comm (ops : list op) : forall now s, GoodS s -> Forall op_ok ops ->
    crun (now, conc s) ops =
      (fst (srun (now, s) ops), (fst (snd (srun (now, s) ops)), conc (snd (snd (srun (now, s) ops)))))
    /\ GoodS (snd (snd (srun (now, s) ops))).
  Proof.
    induction ops as [|o ops IH]; intros now s G Hf.
    - cbn [clp_run spec_run fst snd]. split; [reflexivity|exact G].
    - apply Forall_cons_iff in Hf. destruct Hf as [Ho Hf].
      cbn [clp_run spec_run]. rewrite (step_comm now s o G Ho).
      pose proof (step_good now s o G Ho) as G1.
      destruct (sstep (now, s) o) as [[now1 s1] r]. cbn [fst snd] in *.
      destruct (IH now1 s1 G1 Hf) as [IH1 IH2]. rewrite IH1.
      destruct (srun (now1, s1) ops) as [outs [nowf sf]]. cbn [fst snd] in *.
      split; [reflexivity|exact IH2].
  Qed.

  (* ---- the three results about histories that start from a constructor ---- *)
  Theorem refines_spec t0 cap dttl b (ops : list op) :
    cap <= U64MAX -> dttl_ok dttl -> Forall op_ok ops ->
    fst (crun (t0, clp_new t0 cap dttl b) ops) = fst (srun (t0, spec_new cap dttl b) ops).
  Proof.
    intros Hc Hd Hf. rewrite (new_comm t0 cap dttl b Hc Hd).
    destruct (run_comm ops t0 _ (spec_new_good cap dttl b Hc) Hf) as [H _]. rewrite H. reflexivity.
  Qed.

  Lemma reachable t0 cap dttl b (ops : list op) :
    cap <= U64MAX -> dttl_ok dttl -> Forall op_ok ops ->
    exists now s, snd (crun (t0, clp_new t0 cap dttl b) ops) = (now, conc s) /\ GoodS s.
  Proof.
    intros Hc Hd Hf. rewrite (new_comm t0 cap dttl b Hc Hd).
    destruct (run_comm ops t0 _ (spec_new_good cap dttl b Hc) Hf) as [H G]. rewrite H. cbn [snd].
    eexists. eexists. split; [reflexivity|exact G].
  Qed.

  Theorem invariants t0 cap dttl b (ops : list op) :
    cap <= U64MAX -> dttl_ok dttl -> Forall op_ok ops ->
    let m := snd (snd (crun (t0, clp_new t0 cap dttl b) ops)) in
    memUsed m = total (entries m) /\ memUsed m <= memLimit m /\ memLimit m <= U64MAX /\
    stat m = StOk /\ NoDup (map e_key (entries m)).
  Proof.
    intros Hc Hd Hf. destruct (reachable t0 cap dttl b ops Hc Hd Hf) as [now [s [H [Hn [Ht Hl]]]]].
    cbv zeta. rewrite H. cbn [snd conc mk_of memUsed entries memLimit stat].
    repeat split; [exact Ht|exact Hl|exact Hn].
  Qed.

  (* ---- purging ---- *)
  Lemma others_front k (e : entry) l : e_key e = k -> without k (e :: l) = without k l.
  Proof. intros H. rewrite without_cons. rewrite <- H at 1. rewrite has_key_self. reflexivity. Qed.

  Lemma spec_add_purge now s k v ttl :
    let r := spec_add vmem esz isz tmax now s k v ttl in
    exists purged,
      without k (s_items s) = without k (s_items (fst r)) ++ purged /\
      match purged with
      | [] => True
      | x :: _ => exists sz, snd r = true /\ size_of vmem esz isz k v = Some sz /\
                             s_limit (fst r) < sz + total (without k (s_items (fst r))) + e_mem x
      end.
  Proof.
    cbv zeta. unfold spec_add. destruct (s_limit s =? 0) eqn:E0.
    { exists []. cbn [fst]. rewrite app_nil_r. split; [reflexivity|exact I]. }
    destruct (size_of vmem esz isz k v) as [sz|] eqn:Es.
    2:{ exists []. cbn [fst s_items]. rewrite without_idem, app_nil_r. split; [reflexivity|exact I]. }
    destruct ((0 <=? ttl)%Z && (0 <? sz) && (sz <=? s_limit s)) eqn:Ec.
    2:{ exists []. cbn [fst s_items]. rewrite without_idem, app_nil_r. split; [reflexivity|exact I]. }
    cbn [fst snd s_items s_limit].
    set (rest := without k (s_items s)).
    assert (Hk : without k (fit (s_limit s - sz) rest) = fit (s_limit s - sz) rest).
    { apply without_notin. intros HI. apply fit_keys_incl in HI. revert HI. apply without_keys. }
    rewrite others_front by reflexivity. rewrite Hk.
    destruct (fit_prefix (s_limit s - sz) rest) as [r Hr]. exists r. split; [exact Hr|].
    destruct r as [|x r']; [exact I|]. exists sz. split; [reflexivity|]. split; [reflexivity|].
    pose proof (fit_maximal _ _ _ _ Hr). lia.
  Qed.

  Lemma spec_purge now s (o : op) :
    let r := sstep (now, s) o in
    exists purged,
      others (op_key o) (s_items s) = others (op_key o) (s_items (snd (fst r))) ++ purged /\
      purge_justified vmem esz isz o (snd r) (s_limit (snd (fst r)))
                      (others (op_key o) (s_items (snd (fst r)))) purged.
  Proof.
    cbv zeta. destruct o as [k|k v ttl|k v|k|n|t]; unfold spec_step; cbn [op_key others].
    - exists []. rewrite app_nil_r. split; [|exact I]. unfold spec_get.
      destruct (find (has_key k) (s_items s)) as [e|] eqn:F.
      + pose proof (find_key _ _ _ F) as Hk.
        destruct (fresh now e); cbn [fst snd s_items].
        * rewrite (others_front _ _ _ Hk), without_idem. reflexivity.
        * rewrite without_idem. reflexivity.
      + reflexivity.
    - destruct (spec_add_purge now s k v ttl) as [purged [H1 H2]]. cbv zeta in H1, H2.
      destruct (spec_add vmem esz isz tmax now s k v ttl) as [s1 b1]. cbn [fst snd] in *.
      exists purged. split; [exact H1|]. unfold purge_justified. destruct purged as [|x p]; [exact I|].
      destruct H2 as [sz [Hb [Hs Hl]]]. exists sz. subst b1. repeat split; assumption.
    - destruct (spec_add_purge now s k v (s_dttl s)) as [purged [H1 H2]]. cbv zeta in H1, H2.
      destruct (spec_add vmem esz isz tmax now s k v (s_dttl s)) as [s1 b1]. cbn [fst snd] in *.
      exists purged. split; [exact H1|]. unfold purge_justified. destruct purged as [|x p]; [exact I|].
      destruct H2 as [sz [Hb [Hs Hl]]]. exists sz. subst b1. repeat split; assumption.
    - exists []. cbn [fst snd spec_del s_items]. rewrite without_idem, app_nil_r. split; [reflexivity|exact I].
    - cbn [fst snd spec_setLimit s_items s_limit].
      destruct (fit_prefix n (s_items s)) as [r Hr]. exists r. split; [exact Hr|].
      unfold purge_justified. destruct r as [|x r']; [exact I|]. split; [reflexivity|].
      exact (fit_maximal _ _ _ _ Hr).
    - exists []. cbn [fst snd]. rewrite app_nil_r. split; [reflexivity|exact I].
  Qed.

  Theorem only_lru_purged t0 cap dttl b (ops : list op) (o : op) :
    cap <= U64MAX -> dttl_ok dttl -> Forall op_ok ops -> op_ok o ->
    let w := snd (crun (t0, clp_new t0 cap dttl b) ops) in
    let w' := fst (cstep w o) in
    let res := snd (cstep w o) in
    exists purged,
      others (op_key o) (entries (snd w)) = others (op_key o) (entries (snd w')) ++ purged /\
      purge_justified vmem esz isz o res (memLimit (snd w'))
                      (others (op_key o) (entries (snd w'))) purged.
  Proof.
    intros Hc Hd Hf Ho. destruct (reachable t0 cap dttl b ops Hc Hd Hf) as [now [s [H G]]].
    cbv zeta. rewrite H, (step_comm now s o G Ho). cbn [fst snd].
    exact (spec_purge now s o).
  Qed.

  (* ---- every stored entry is accounted at exactly its size ---- *)
  Definition entry_ok (e : entry) : Prop :=
    size_of vmem esz isz (e_key e) (e_val e) = Some (e_mem e) /\ 0 < e_mem e.

  Lemma ok_without k l : Forall entry_ok l -> Forall entry_ok (without k l).
  Proof. intros H. unfold without. eapply incl_Forall; [apply incl_filter|exact H]. Qed.

  Lemma ok_fit b l : Forall entry_ok l -> Forall entry_ok (fit b l).
  Proof.
    intros H. destruct (fit_prefix b l) as [r Hr]. rewrite Hr in H. apply Forall_app in H. exact (proj1 H).
  Qed.

  Lemma spec_add_ok now s k v ttl :
    Forall entry_ok (s_items s) -> Forall entry_ok (s_items (fst (spec_add vmem esz isz tmax now s k v ttl))).
  Proof.
    intros H. unfold spec_add. destruct (s_limit s =? 0); [exact H|].
    destruct (size_of vmem esz isz k v) as [sz|] eqn:Es; [|apply ok_without, H].
    destruct ((0 <=? ttl)%Z && (0 <? sz) && (sz <=? s_limit s)) eqn:Ec; [|apply ok_without, H].
    cbn [fst s_items]. apply Forall_cons; [|apply ok_fit, ok_without, H].
    unfold entry_ok. cbn [e_key e_val e_mem]. split; [exact Es|lia].
  Qed.

  Lemma spec_step_ok now s (o : op) :
    Forall entry_ok (s_items s) -> Forall entry_ok (s_items (snd (fst (sstep (now, s) o)))).
  Proof.
    intros H. destruct o as [k|k v ttl|k v|k|n|t]; unfold spec_step.
    - unfold spec_get. destruct (find (has_key k) (s_items s)) as [e|] eqn:F; [|exact H].
      destruct (fresh now e); cbn [fst snd s_items]; [|apply ok_without, H].
      apply Forall_cons; [|apply ok_without, H].
      apply find_some in F. rewrite Forall_forall in H. apply H, F.
    - pose proof (spec_add_ok now s k v ttl H) as A.
      destruct (spec_add vmem esz isz tmax now s k v ttl); exact A.
    - pose proof (spec_add_ok now s k v (s_dttl s) H) as A.
      destruct (spec_add vmem esz isz tmax now s k v (s_dttl s)); exact A.
    - cbn [fst snd spec_del s_items]. apply ok_without, H.
    - cbn [fst snd spec_setLimit s_items]. apply ok_fit, H.
    - exact H.
  Qed.

  Lemma spec_run_ok (ops : list op) : forall now s,
    Forall entry_ok (s_items s) -> Forall entry_ok (s_items (snd (snd (srun (now, s) ops)))).
  Proof.
    induction ops as [|o ops IH]; intros now s H; [exact H|].
    cbn [spec_run]. pose proof (spec_step_ok now s o H) as H1.
    destruct (sstep (now, s) o) as [[now1 s1] r]. cbn [fst snd] in H1.
    specialize (IH now1 s1 H1). destruct (srun (now1, s1) ops) as [outs [nowf sf]]. exact IH.
  Qed.

  Theorem entries_accounted t0 cap dttl b (ops : list op) :
    cap <= U64MAX -> dttl_ok dttl -> Forall op_ok ops ->
    Forall (fun e => size_of vmem esz isz (e_key e) (e_val e) = Some (e_mem e) /\ 0 < e_mem e)
           (entries (snd (snd (crun (t0, clp_new t0 cap dttl b) ops)))).
  Proof.
    intros Hc Hd Hf. rewrite (new_comm t0 cap dttl b Hc Hd).
    destruct (run_comm ops t0 _ (spec_new_good cap dttl b Hc) Hf) as [H _]. rewrite H. cbn [snd conc mk_of entries].
    apply (spec_run_ok ops t0 (spec_new cap dttl b)). constructor.
  Qed.

  (* ---- what get() serves, in plain terms ---- *)
  Lemma key_unique (l : list entry) e e' :
    NoDup (keys l) -> In e l -> In e' l -> e_key e = e_key e' -> e = e'.
  Proof.
    induction l as [|a l IH]; intros Hn H1 H2 Hk; [destruct H1|].
    cbn [keys map] in Hn. apply NoDup_cons_iff in Hn. destruct Hn as [Hn1 Hn2].
    destruct H1 as [H1|H1]; destruct H2 as [H2|H2].
    - congruence.
    - subst a. exfalso. apply Hn1. rewrite Hk. unfold keys. apply in_map, H2.
    - subst a. exfalso. apply Hn1. rewrite <- Hk. unfold keys. apply in_map, H1.
    - apply IH; assumption.
  Qed.

  Theorem get_serves_fresh t0 cap dttl b (ops : list op) k :
    cap <= U64MAX -> dttl_ok dttl -> Forall op_ok ops ->
    let w := snd (crun (t0, clp_new t0 cap dttl b) ops) in
    match snd (clp_get (fst w) (snd w) k) with
    | Some v => exists e, In e (entries (snd w)) /\ e_key e = k /\ e_val e = v /\ (fst w <= e_expires e)%Z
    | None => forall e, In e (entries (snd w)) -> e_key e = k -> (e_expires e < fst w)%Z
    end.
  Proof.
    intros Hc Hd Hf. destruct (reachable t0 cap dttl b ops Hc Hd Hf) as [now [s [H G]]].
    cbv zeta. rewrite H. cbn [fst snd]. rewrite (get_comm now s k G). cbn [snd].
    change (entries (conc s)) with (s_items s). destruct G as [Hn _].
    unfold spec_get. destruct (find (has_key k) (s_items s)) as [e0|] eqn:F.
    - pose proof (find_key _ _ _ F) as Hk. pose proof (find_some _ _ F) as [Hin _].
      destruct (fresh now e0) eqn:Hfr; cbn [snd]; unfold fresh in Hfr.
      + exists e0. repeat split; [exact Hin|exact Hk|lia].
      + intros e He Hke. assert (e = e0) by (apply (key_unique _ _ _ Hn He Hin); congruence). subst e. lia.
    - cbn [snd]. intros e He Hke. pose proof (find_none _ _ F e He) as Hx. cbv beta in Hx.
      rewrite <- Hke, has_key_self in Hx. discriminate.
  Qed.
End Proofs.
