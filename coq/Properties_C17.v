(* Properties_C17.v — completed rock entries survive a clean restart. Statements only; proofs in DiskcrashProofs.v.
   survives N P ss s: with ALL slot writes of the workload on disk (clean shutdown), after Rock::Rebuild a request
   for s's key is a hit whose bytes are exactly s's stored stream. *)
Require Import SquidV.Bytes SquidV.DiskcrashModel SquidV.DiskcrashProofs.
Local Open Scope Z_scope.

(* The full statement is FALSE for the faithful model: the last, completely stored version of a key is lost by a
   clean restart when it replaced a version that occupied more slots. *)
Theorem C17_rock_overwrite_by_smaller_survives_refuted :
  exists N P ops s, last (sessions_of N P ops) s = s /\ In s (sessions_of N P ops) /\
                    ~ survives N P (sessions_of N P ops) s.
Proof. exact survives_refuted. Qed.
Print Assumptions C17_rock_overwrite_by_smaller_survives_refuted.

(* PARTIAL (what is missing: slot reuse after purges/overwrites, ufs): for ALL workloads whose stores write every
   slot at most once, every stored entry is a hit with identical bytes after a clean restart. *)
Theorem C17_rock_write_once_entries_survive_partial :
  forall N P ops, write_once N P (sessions_of N P ops) ->
  forall s, In s (sessions_of N P ops) -> survives N P (sessions_of N P ops) s.
Proof. intros N P ops H. exact (write_once_survives N P _ H). Qed.
Print Assumptions C17_rock_write_once_entries_survive_partial.

Example C17_ex_write_once : write_once 8 4 (sessions_of 8 4 ex_ops).
Proof. exact ex_write_once. Qed.
