(* Extract_dns.v — extraction of the DNS codec model to OCaml (ExtrOcamlBasic only). *)
Require Import ExtrOcamlBasic.
Require Import SquidV.Bytes SquidV.DnsModel.
Extraction "m_dns.ml"
  lenN takeN dropN cstr
  header_unpack name_unpack query_unpack rr_unpack message_unpack
  header_pack name_pack question_pack rr_pack opt_pack
  build_query build_ptr_query build_ptr4_query build_ptr6_query
  set_query_id query_compare
  join_dots enc_name enc_header.
