"""C02: request bodies reach the origin byte-exactly with valid framing (end to end through the real squid)."""
import concurrent.futures, json, os, random, resource, time
from vlib import std, lab, common, hbuild, recipes, corr, coq
from checks import relay_common as rc

PID = "C02"
META = {
    "text": "Theorems (Properties_C02.v) about the transcribed request-body path (ConnStateData intake -> BodyPipe -> "
            "HttpStateData::getMoreRequestBody), for ALL interleavings of client segments, space notifications, end "
            "notifications and consumer writes, every pipe capacity and every client segmentation: the pipe is a FIFO "
            "(bytes handed to the server side ++ bytes still buffered = bytes produced; the counters thePutSize / "
            "theGetSize are their lengths); what was produced is always a prefix of the client's body as the reference "
            "reader decodes it (Content-Length or chunked with extensions and trailers); the upstream stream is validly "
            "framed at every moment: chunked upstream decodes (reference reader) to exactly the bytes handed over and "
            "is complete iff last-chunk was sent; last-chunk is sent only after the whole client body was received and "
            "forwarded; with Content-Length upstream the declared length is reached only by the whole body; after a "
            "client abort or a malformed client chunk the upstream message never becomes complete "
            "(C02_upstream_abort_visible); once the whole body is in the pipe, the end notification and two consumer turns "
            "flush it and write last-chunk (C02_end_of_body_is_flushed_partial).",
    "note": "partial: the theorems are about RelayModel.v (rq_step); the client-side chunked parser is represented by "
            "the reference reader (TeChunkedParser equivalence is C24 + this correspondence); the event model "
            "over-approximates the AsyncCall schedules of BodyPipe/Client (every real schedule is one of the quantified "
            "event sequences — that claim, liveness of the intake under back-pressure, comm I/O and the request head rest "
            "on the end-to-end correspondence: "
            "POST/PUT bodies 0..1 MB, Content-Length and chunked clients, random segmentation, aborts, malformed "
            "chunks, Expect: 100-continue, raw upstream bytes recorded by the origin stub). Trusted: Coq kernel, "
            "extraction, gen/gen_relay.cc, vlib/lab.py, checks/relay_common.py stubs.",
    "technique": "Coq proof (inductive invariant over event sequences; codec round trip) + end-to-end differential "
                 "correspondence of the extracted model against the running squid + independent Python reference reader "
                 "as oracle on the raw bytes the origin received + unit-level differential run of the real BodyPipe.cc "
                 "(harness/h_relay.cc) against the same model on random put/get/abort/notification sequences",
}

BOUNDS = [2048, 4096, 16384, 32768, 65535, 65536]


def pick_size(rng):
    x = rng.random()
    if x < 0.45:
        return rng.choice([1, 2, 3, 10, 100, rng.randrange(1, 3000), rng.randrange(1, 3000)])
    if x < 0.86:
        return max(1, rng.choice(BOUNDS) + rng.choice([-2, -1, 0, 1, 2]))
    if x < 0.93:
        return 131072 + rng.choice([-1, 0, 1])
    if x < 0.993:
        return rng.randrange(3000, 200000)
    return rng.choice([1048575, 1048576, 1048577])


def gen_one(rng, k):
    s = {"k": k, "method": rng.choice(["POST", "POST", "PUT"]), "ver": "1.1", "framing": rng.choice(["cl", "chunked"]),
         "n": pick_size(rng), "seed": rng.randrange(1, 1 << 30), "splits": [], "gap": 0.0, "abort": None, "expect": False,
         "headsplit": rng.random() < 0.5}
    x = rng.random()
    if x < 0.04:
        s["n"] = 0
    if s["framing"] == "cl" and rng.random() < 0.2:
        s["ver"] = "1.0"
    if s["framing"] == "chunked":
        nch = rng.randrange(1, 6)
        s["chunks"] = [rng.choice([1, 2, 7, 100, 1000, 4095, 4096, 4097, 16384, 65535, 65536, rng.randrange(1, 70000)]) for _ in range(nch)]
        if s["n"] > 100000:
            s["chunks"] = [max(c, 500) for c in s["chunks"]]
        s["ext"] = rng.choice(["", "", "", ";x=y", ";a", ";q=\"v w\""])
        s["trailer"] = rng.choice([[], [], [], ["X-T: 1"], ["X-A: b", "X-C: d e"]])
        if rng.random() < 0.07 and s["n"] > 0:
            s["bad"] = rng.choice(["size", "crlf"])
    ns = rng.choice([0, 1, 2, 3, 5, 8, 12])
    if s["n"] > 300000:
        ns = min(ns, 3)
    s["splits"] = [rng.choice([1, 2, 17, 100, 1000, 4096, 16384, 65535, 65536, rng.randrange(1, 100000)]) for _ in range(ns)]
    s["gap"] = rng.choice([0.0, 0.002, 0.005, 0.03])
    if rng.random() < 0.22 and s["n"] > 0 and not s.get("bad"):
        s["abort"] = rng.random()
    if rng.random() < 0.1 and s["abort"] is None:
        s["expect"] = True
    return s


def gen_early(rng, k):
    """the origin answers (complete, keep-alive capable final response) while the client pauses mid-body; a second
    client then sends a request for the same origin: the half-sent upstream message must end by connection close"""
    s = {"k": k, "early": True, "method": rng.choice(["POST", "PUT"]), "ver": "1.1", "framing": rng.choice(["cl", "cl", "chunked"]),
         "seed": rng.randrange(1, 1 << 30), "splits": [], "gap": 0.0, "abort": None, "expect": False, "headsplit": False,
         "status": rng.choice([403, 200, 401, 500])}
    if s["framing"] == "cl":
        s["sent"] = rng.choice([1, 10, 100, 1000, 5000])
        s["n"] = s["sent"] + rng.choice([1, 10, 50, 90])     # less is missing than the next request is long
    else:
        s["n"] = rng.choice([20, 300, 5000])
        s["chunks"] = [rng.choice([7, 100, 1000])]
        s["ext"] = ""
        s["trailer"] = []
        s["frac"] = rng.choice([0.3, 0.5, 0.9])
    return s


def gen_scenarios(rng, n):
    out = [gen_early(rng, k) if k % 20 == 7 else gen_one(rng, k) for k in range(n)]
    for start in range(15, n, 120):
        for s in out[start:start + 40]:
            if not s.get("bad") and s["abort"] is None and s["ver"] == "1.1" and not s.get("early"):
                if s["n"] < 700000:
                    s["n"] = 1048576 + rng.choice([-1, 0, 1])
                    s["splits"] = s["splits"][:3]
                    if "chunks" in s:
                        s["chunks"] = [max(c, 1000) for c in s["chunks"]]
                break
    return out


_cache = {}


def client_bytes(s):
    """(body, stream actually sent after the head, info)"""
    key = json.dumps(s, sort_keys=True)
    if key in _cache:
        return _cache[key]
    body = lab.body_bytes(s["n"], s["seed"])
    if s["framing"] == "cl":
        stream = body
    else:
        ext = s.get("ext", "").encode()
        tr = b"".join(t.encode() + b"\r\n" for t in s.get("trailer", []))
        stream = rc.chunk_encode(body, s.get("chunks"), ext, tr)
        if s.get("bad"):
            first = rc.chunk_encode(body[:max(1, s["chunks"][0])], s["chunks"], b"", b"", last=False)
            stream = first + b"ZZ\r\nxx\r\n0\r\n\r\n" if s["bad"] == "size" else first[:-2] + b"XX3\r\nabc\r\n0\r\n\r\n"
    if s.get("early"):
        stream = stream[:s["sent"]] if s["framing"] == "cl" else stream[:max(1, int(len(stream) * s["frac"]) - 1)]
    if s["abort"] is not None:
        cut = int(len(stream) * s["abort"])
        if cut >= len(stream):
            cut = len(stream) - 1
        stream = stream[:max(cut, 0)]
    info = {"whole": s["abort"] is None and not s.get("bad") and not s.get("early")}
    out = (body, stream, info)
    if len(_cache) > 4000:
        _cache.clear()
    _cache[key] = out
    return out


def to_case(s):
    body, stream, info = client_bytes(s)
    segs = rc.cut_segments(stream, s["splits"])
    clen = str(s["n"]) if s["framing"] == "cl" else "-"
    up = "len:%d" % s["n"] if s["framing"] == "cl" else "chunked"
    if s["framing"] == "cl" and s["n"] == 0:
        return "relay.req0"
    return "relay.req %s %s %d %s" % (clen, up, 0 if info["whole"] else 1, " ".join(rc.hexs(x) for x in segs if x) or "-")


_state = {}


def _one(args):
    sq, org, s, rid = args
    body, stream, info = client_bytes(s)
    url = org.url({"send100": 1} if s["expect"] else {}, rid)
    hs = "%s %s HTTP/%s\r\nHost: x\r\n" % (s["method"], url, s["ver"])
    if s["framing"] == "cl":
        hs += "Content-Length: %d\r\n" % s["n"]
    else:
        hs += "Transfer-Encoding: chunked\r\n"
    if s["expect"]:
        hs += "Expect: 100-continue\r\n"
    hs += "\r\n"
    head = hs.encode()
    if s.get("early"):
        return _early(sq, org, s, rid, head, body, stream)
    aborting = not info["whole"] and s["abort"] is not None
    if s["expect"] or not s["headsplit"]:
        segs = rc.cut_segments(stream, s["splits"])
        raw, closed = rc.client_send(sq.port, head, segs, gap=s["gap"], wait100=(1.5 if s["expect"] else 0), abort=aborting,
                                     method=s["method"])
    else:
        # the head travels with the first body bytes
        segs = rc.cut_segments(head + stream, s["splits"])
        raw, closed = rc.client_send(sq.port, b"", segs, gap=s["gap"], abort=aborting, method=s["method"])
    r = rc.read_response(raw, closed, s["method"])
    arr = org.wait_arrival(rid, 4.0 if info["whole"] else 1.5)
    if not info["whole"]:
        time.sleep(0.1)
        arr = org.arrivals(rid)
    client = str(r["status"]) if r["status"] is not None else "-"
    if s["expect"] and 100 not in r["interim"]:
        client += "-no100"
    if not arr:
        return "up complete=0" if not info["whole"] else "noarrival client=%s" % client
    a = arr[-1]
    if a["bad"]:
        return "up fr=bad body=%s arrivals=%d client=%s" % (rc.crc(a["body"]), len(arr), client)
    if not a["complete"]:
        return "up complete=0" + ("" if body.startswith(a["body"]) else " notprefix") + ("" if len(arr) == 1 else " arrivals=%d" % len(arr)) \
            + ("" if a["eof"] is True else " noeof")
    fr = "ok"
    if a["framing"].startswith("cl:") and a["framing"] != "cl:%d" % len(body):
        fr = a["framing"]
    return "up fr=%s body=%s complete=1 arrivals=%d client=%s" % (fr, rc.crc(a["body"]), len(arr), client if info["whole"] else "-")


def _early(sq, org, s, rid, head, body, stream):
    import socket
    if s["framing"] == "cl":
        have = len(stream)
    else:
        have = len(rc.ref_dechunk(stream)[0])
    url = org.url({"early": 1, "early_after": have, "status": s["status"], "body": "no"}, rid)
    head = head.replace(org.url({}, rid).encode(), url.encode())
    a = socket.create_connection(("127.0.0.1", sq.port), timeout=5)
    try:
        a.sendall(head)
        time.sleep(0.1)
        a.sendall(stream)
        a.settimeout(0.1)
        raw = b""
        t0 = time.time()
        while time.time() - t0 < 5.0:
            r = rc.read_response(raw, False, s["method"])
            if r["status"] is not None and r["complete"]:
                break
            try:
                d = a.recv(65536)
            except socket.timeout:
                continue
            except OSError:
                break
            if not d:
                break
            raw += d
        time.sleep(0.3)      # client A is still paused, its connection still open
        # client B: any request for the same origin
        rb, rawb = lab.get(sq.port, org.url({}, rid + "b"), idle=0.5, total=3.0)
    finally:
        try:
            a.close()
        except OSError:
            pass
    arr = org.wait_arrival(rid, 5.0)
    if not arr:
        return "up complete=0 noeof"      # the origin is still waiting on an open connection for the rest of the body
    x = arr[-1]
    if x["bad"]:
        return "up fr=bad body=%s arrivals=%d client=-" % (rc.crc(x["body"]), len(arr))
    if not x["complete"]:
        return "up complete=0" + ("" if body.startswith(x["body"]) else " notprefix") + ("" if len(arr) == 1 else " arrivals=%d" % len(arr)) \
            + ("" if x["eof"] is True else " noeof")
    return "up fr=%s body=%s complete=1 arrivals=%d client=-" % ("ok" if x["body"] == body else "changed", rc.crc(x["body"]), len(arr))


def run_impl(L, scenarios):
    if "sq" not in _state or not _state["sq"].alive():
        _state["org"] = rc.RawOrigin()
        L.origins.append(_state["org"])
        _state["sq"] = L.squid()
        _state["n"] = 0
    sq, org = _state["sq"], _state["org"]
    jobs = []
    for s in scenarios:
        _state["n"] += 1
        jobs.append((sq, org, s, "q%d" % _state["n"]))
    with concurrent.futures.ThreadPoolExecutor(max_workers=8) as ex:
        return list(ex.map(_one, jobs))


def norm_model(m):
    return m


def oracle(s, obs):
    """origin-received body = client body, in one validly framed message; an aborted / malformed client body must
    never arrive as a complete message"""
    body, stream, info = client_bytes(s)
    d = {}
    for w in obs.split():
        if "=" in w:
            a, b = w.split("=", 1)
            d[a] = b
    if obs.startswith("noarrival"):
        return ("oracle:request-not-forwarded", "a complete request never reached the origin: " + obs)
    if d.get("fr") == "bad":
        return ("oracle:upstream-framing-invalid", "the origin received a malformed message body: " + obs)
    if info["whole"]:
        if d.get("complete") != "1":
            return ("oracle:upstream-incomplete", "the client sent its whole body but the upstream message is incomplete: " + obs)
        if d.get("fr") != "ok":
            return ("oracle:upstream-length-changed", "upstream Content-Length differs from the body length: " + obs)
        if d.get("body") != rc.crc(body):
            return ("oracle:upstream-body-altered", "client body %s, origin received %s" % (rc.crc(body), d.get("body")))
        if d.get("arrivals") != "1":
            return ("oracle:request-body-sent-twice", obs)
        if not d.get("client", "").startswith("200"):
            return ("oracle:no-final-response", "the origin answered 200 but the client saw " + d.get("client", "?"))
        if d.get("client", "").endswith("no100"):
            return ("oracle:no-100-continue", "Expect: 100-continue was not answered with a relayed 100")
        return None
    if d.get("complete") == "1":
        return ("oracle:aborted-body-presented-complete",
                "the client %s its body but the origin received a complete message (bytes the client never sent "
                "were read as its body): %s" %
                ("paused mid-body (origin answered early)" if s.get("early") else "aborted" if s["abort"] is not None else "malformed", obs))
    if "notprefix" in obs:
        return ("oracle:upstream-partial-body-not-a-prefix", obs)
    if "noeof" in obs:
        return ("oracle:aborted-upstream-not-closed", "the upstream connection was not closed after the client aborted: " + obs)
    return None


def kind_fn(s, o):
    k = s["framing"] + "/" + s["ver"]
    if s.get("early"):
        return k + ":early-reply"
    if s.get("bad"):
        k += ":malformed"
    elif s["abort"] is not None:
        k += ":abort"
    elif s["expect"]:
        k += ":expect"
    else:
        k += ":whole"
    return k


# ---------------------------------------------------------------------------------------------------------
# unit-level stage: the real BodyPipe.cc (compiled from the working tree) against the model, op sequence by
# op sequence (deterministic; reaches the capacity boundary and every notification order)
# ---------------------------------------------------------------------------------------------------------
UNIT_LINK = [x for x in recipes.HTTPREPLY if x != "tests/stub_libmem.o"] + ["mem/libmem.la"]


def build_unit():
    return hbuild.build("h_relay", "h_relay.cc", fresh=["src/BodyPipe.cc"], link=UNIT_LINK, sanitize="ubsan")


def prebuild():
    build_unit()


def gen_unit_case(rng, big):
    known = rng.random() < 0.55
    ops = []
    total = 0
    nseg = rng.randrange(1, 7)
    for _ in range(nseg):
        if big:
            ln = rng.choice([65534, 65535, 65536, 30000, 40000, 70000, 1, 2])
        else:
            ln = rng.choice([1, 2, 3, 5, 8, 13, 40, 200])
        ops.append("s:" + bytes(rng.getrandbits(8) for _ in range(min(ln, 64))).hex() * (ln // 64 + 1))
        ops[-1] = ops[-1][:2 + 2 * ln]
        total += ln
        for _ in range(rng.randrange(0, 4)):
            ops.append(rng.choice(["g", "g", "sp", "nt", "sp", "g"]))
    if known:
        n = max(1, total + rng.choice([-3, -1, 0, 0, 0, 1, 5]))
    tail = []
    r = rng.random()
    if r < 0.25:
        ops.insert(rng.randrange(0, len(ops) + 1), "ab")
    elif not known:
        ops.insert(rng.randrange(max(0, len(ops) - 3), len(ops) + 1), "ef")
    for _ in range(rng.randrange(0, 6)):
        tail.append(rng.choice(["g", "sp", "nt", "g", "nt"]))
    return "pipe %s %s" % (n if known else "-", " ".join(ops + tail))


def gen_unit_cases(rng, n):
    return [gen_unit_case(rng, big=(k % 50 == 0)) for k in range(n)]


def unit_oracle(case, out):
    """FIFO on the implementation's answer: bytes taken out ++ bytes buffered = the first thePutSize bytes fed;
    never announced whole after an abort or before all bytes of a known-size body were produced"""
    if not out.startswith("put="):
        return ("oracle:bodypipe-unit-crash", out)
    d = dict(w.split("=", 1) for w in out.split())
    w = case.split()
    fed = b""
    aborted_at = None
    for op in w[2:]:
        if op.startswith("s:") and aborted_at is None:
            fed += bytes.fromhex(op[2:])
        elif op == "ab" and aborted_at is None:
            aborted_at = len(fed)
    put, get = int(d["put"]), int(d["get"])
    if get > put or put > len(fed):
        return ("oracle:bodypipe-counters", "get=%d put=%d fed=%d" % (get, put, len(fed)))
    if d["pieces"].split(":", 1)[1] != rc.crc(fed[:get]) or d["buf"] != rc.crc(fed[get:put]):
        return ("oracle:bodypipe-not-fifo", "bytes out / buffered are not the bytes put in, in order: " + out)
    if d["whole"] == "1":
        if d["abort"] == "1":
            return ("oracle:bodypipe-whole-and-aborted", out)
        if w[1] != "-" and put != int(w[1]):
            return ("oracle:bodypipe-whole-before-all-produced", out)
        if w[1] == "-" and ("ef" not in w or ("ab" in w and w.index("ab") < w.index("ef"))):
            return ("oracle:bodypipe-aborted-body-announced-whole", out)
    return None


def unit_stage(res, tier):
    try:
        exe = build_unit()
    except hbuild.BuildError as ex:
        res.fail("build", "C02: the BodyPipe harness no longer builds against /repo's working tree: %s" % str(ex)[-1200:],
                 {"no_failing_input_found": True, "broken": "harness build h_relay", "detail": str(ex)[-3000:]})
        return
    runner = coq.build_runner("relay")
    rng = random.Random(common.seed() * 1000003 + 77)
    cases = std.load_corpus(PID) + gen_unit_cases(rng, 700 if tier == "quick" else 12000)
    impl = [x for x in corr.run_lines(exe, cases)]
    model = corr.run_lines(runner, cases)
    found = 0
    dis = []
    for c, a, m in zip(cases, impl, model):
        res.count_case(c, nontrivial=True, kind="unit:" + ("known" if c.split()[1] != "-" else "unknown") + ":" + " ".join(
            w for w in a.split() if w.startswith(("whole=", "abort="))))
        v = unit_oracle(c, a)
        if v:
            if res.fail(v[0], "C02 (BodyPipe unit) on `%s`: implementation answered `%s`: %s" % (c[:300], a[:300], v[1]),
                        {"case": c, "impl": a, "model": m, "signature": v[0]}):
                found += 1
        elif a != m:
            dis.append((c, a, m))
    if dis and not found:
        c, a, m = dis[0]
        res.fail("corr:bodypipe-unit", "model and BodyPipe.cc disagree on %d op sequences (first: `%s` impl=`%s` model=`%s`)"
                 % (len(dis), c[:300], a[:200], m[:200]),
                 {"no_failing_input_found": True, "broken": "correspondence RelayModel.rq_step vs BodyPipe.cc (unit)",
                  "case": c, "impl": a, "model": m, "disagreements": len(dis)})
    res.extra["unit_cases"] = len(cases)
    res.extra["unit_disagreements"] = len(dis)


def run(res, tier):
    os.environ.setdefault("VERIF_STALL", "300")   # a 1 MB case may take the model runner > 30 s on a loaded machine
    soft, hard = resource.getrlimit(resource.RLIMIT_STACK)
    try:
        resource.setrlimit(resource.RLIMIT_STACK, (hard, hard))
    except (ValueError, OSError):
        pass
    res.rule = ("POST/PUT requests through the real squid to a raw-recording origin stub: Content-Length (HTTP/1.0 and 1.1) or "
                "chunked (random chunk sizes 1..70000, extensions, trailers) bodies of 0..1 MB concentrated on 2K/4K/16K/32K/64K "
                "(BodyPipe capacity) +-2, random client segmentation with pauses (head sent with or before the first body "
                "bytes), client aborts at a random offset, malformed chunk framing, Expect: 100-continue, origin answering early "
                "while the client pauses mid-body followed by a second request for the same origin; non-trivial = "
                "non-empty body")
    std.run_lab(res, PID, tier, area="relay", gens=["relay"], gen_scenarios=gen_scenarios, run_impl=run_impl,
                to_case=to_case, oracle=oracle, corr_name="RelayModel.rq_fair (upstream body, completeness) vs the running squid",
                n_quick=120, n_thorough=2000, seed_salt=2, kind_fn=kind_fn,
                nontrivial_fn=lambda s, o: s["n"] > 0)
    _state.clear()
    _cache.clear()
    unit_stage(res, tier)
