(* Properties_C22.v — C22: request-line acceptance matches the HTTP grammar.
   Statements only; proofs live in ReqparseGrammar.v (on top of ReqparseProofs.v / TokProofs.v).

   [parse_line relaxed s line] is the part of RequestParser::parseRequestFirstLine() that runs on the isolated
   line (the bytes before the first LF; C22_request_line_ends_at_first_LF): (s', true) = all fields parsed.
   Character sets are the tables regenerated from the code (CharSets_gen.v): cs_TCHAR, cs_DIGIT, cs_CR,
   Parser::DelimiterCharacters() and RequestParser::RequestTargetCharacters() in strict / relaxed mode.
   Scope (DESIGN.md C22): request-target is taken at the lexical level of the first-line parser (1*URI characters);
   its four forms and the authority are AnyP::Uri's business (C30). 32 = SP, 13 = CR, 46 = ".". *)
Require Import SquidV.Bytes SquidV.TokModel SquidV.Incremental SquidV.ReqparseModel SquidV.ReqparseProofs SquidV.ReqparseGrammar.
Require Import SquidV.gen.CharSets_gen SquidV.gen.ReqTabs_gen.
Local Open Scope N_scope.

(* --- strict mode, grammar => accept, with the grammar's fields ---
   RFC 9112: request-line = method SP request-target SP "HTTP/" DIGIT "." DIGIT (CR LF); method = 1*tchar (at most
   maxMethodLength), request-target = 1*URI-char (at most the URI limit). Major version 0 is excluded: see the
   refutation below. *)
Theorem C22_strict_grammar_implies_accept : forall s line m t d1 d2,
  lenN line <= npos ->
  (line = m ++ [32] ++ t ++ [32] ++ http_slash ++ [d1; 46; d2] ++ [13] /\
   (m <> [] /\ forallb cs_TCHAR m = true /\ lenN m <= req_max_method) /\
   (t <> [] /\ forallb cs_strict_RequestTarget t = true /\ lenN t <= req_max_uri) /\
   cs_DIGIT d1 = true /\ cs_DIGIT d2 = true) ->
  d1 <> 48 ->
  exists s', parse_line false s line = (s', true) /\
    r_mimg s' = snd (method_of false m) /\ r_mid s' = fst (method_of false m) /\ r_uri s' = t /\
    r_http s' = true /\ r_major s' = d1 - 48 /\ r_minor s' = d2 - 48.
Proof. exact rfc_request_line_accepted. Qed.

(* in strict mode the reported method image is the method token itself *)
Theorem C22_strict_method_image_is_token : forall m, m <> [] -> snd (method_of false m) = m.
Proof. exact method_of_strict_image. Qed.

(* --- strict mode, accept => grammar (partial: HTTP versions with major >= 1; for major 0 / multi-digit
       version tokens the full statement is false, next theorem) --- *)
Theorem C22_strict_accept_implies_grammar_partial : forall s line s',
  lenN line <= npos ->
  parse_line false s line = (s', true) -> r_major s' <> 0 ->
  exists m t d1 d2,
    (line = m ++ [32] ++ t ++ [32] ++ http_slash ++ [d1; 46; d2] ++ [13] /\
     (m <> [] /\ forallb cs_TCHAR m = true /\ lenN m <= req_max_method) /\
     (t <> [] /\ forallb cs_strict_RequestTarget t = true /\ lenN t <= req_max_uri) /\
     cs_DIGIT d1 = true /\ cs_DIGIT d2 = true) /\
    r_mimg s' = m /\ r_uri s' = t /\ r_major s' = d1 - 48 /\ r_minor s' = d2 - 48.
Proof. exact strict_accepted_1x_is_rfc_line. Qed.

(* --- the full statement is refuted: "POST /xHTTP/0.9" CR LF is accepted in strict mode as POST, target "/x",
       HTTP/0.9 although it is neither an RFC 9112 request-line nor an HTTP/0.9 simple request ("GET" SP target);
       the delimiter before an HTTP/0.x (or multi-digit) version token is not checked (http0() is true) --- *)
Theorem C22_strict_accept_iff_grammar_refuted :
  exists line s', parse_line false rst0 line = (s', true) /\
    r_uri s' = [47;120] /\ r_major s' = 0 /\ r_minor s' = 9 /\
    (forall m t d1 d2,
       ~ (line = m ++ [32] ++ t ++ [32] ++ http_slash ++ [d1; 46; d2] ++ [13] /\
          (m <> [] /\ forallb cs_TCHAR m = true /\ lenN m <= req_max_method) /\
          (t <> [] /\ forallb cs_strict_RequestTarget t = true /\ lenN t <= req_max_uri) /\
          cs_DIGIT d1 = true /\ cs_DIGIT d2 = true)) /\
    (forall t, line <> [71;69;84;32] ++ t ++ [13]).
Proof. exact strict_accept_iff_grammar_refuted. Qed.

(* --- both modes: what an accepted line with major >= 1 looks like. In relaxed mode this is the list of
       tolerances: 1*delimiter (from the relaxed set) between the fields, any number of CRs before the LF, the
       relaxed target characters, known methods matched case-insensitively (method_of true) --- *)
Theorem C22_accepted_shape_both_modes_partial : forall relaxed s line s',
  lenN line <= npos ->
  parse_line relaxed s line = (s', true) -> r_major s' <> 0 ->
  exists m t d1 d2,
    (exists ds1 ds2 crs,
       line = m ++ ds1 ++ t ++ ds2 ++ http_slash ++ [d1; 46; d2] ++ crs /\
       (m <> [] /\ forallb cs_TCHAR m = true /\ lenN m <= req_max_method) /\
       (ds1 <> [] /\ forallb (delim relaxed) ds1 = true /\ (relaxed = false -> lenN ds1 = 1)) /\
       (t <> [] /\ forallb (target_chars relaxed) t = true /\ lenN t <= req_max_uri) /\
       (ds2 <> [] /\ forallb (delim relaxed) ds2 = true /\ (relaxed = false -> lenN ds2 = 1)) /\
       cs_DIGIT d1 = true /\ cs_DIGIT d2 = true /\
       (forallb cs_CR crs = true /\ (relaxed = false -> lenN crs = 1))) /\
    (r_mid s', r_mimg s') = method_of relaxed m /\ r_uri s' = t /\
    r_http s' = true /\ r_major s' = d1 - 48 /\ r_minor s' = d2 - 48.
Proof. exact parse_line_sound_1x. Qed.

(* the delimiter and target sets behind the tolerances (bound: all 256 byte values of the regenerated tables) *)
Theorem C22_delimiter_and_target_sets : forall c, c < 256 ->
  cs_relaxed_Delimiter c = ((c =? 32) || (c =? 9) || (c =? 11) || (c =? 12) || (c =? 13)) /\
  cs_strict_Delimiter c = (c =? 32) /\
  (cs_strict_RequestTarget c = true -> cs_relaxed_RequestTarget c = true) /\
  (cs_relaxed_Delimiter c = true -> cs_relaxed_RequestTarget c = true) /\
  (cs_strict_RequestTarget c = true -> 33 <= c <= 126) /\
  (cs_relaxed_RequestTarget c = true -> c <> 10 /\ c <> 0 /\ c <> 127).
Proof. exact relaxed_tables. Qed.

(* --- the request line is what precedes the first LF (both modes) --- *)
Theorem C22_request_line_ends_at_first_LF : forall relaxed limit s line rest,
  lenN (line ++ 10 :: rest) <= npos -> line <> [] -> forallb (fun c => negb (c =? 10)) line = true -> lenN line < limit ->
  first_line relaxed limit s (line ++ 10 :: rest) =
  match parse_line relaxed s line with
  | (s1, true) => (FLok, s1, rest)
  | (s1, false) => (FLbad, s1, line ++ 10 :: rest)
  end.
Proof. exact first_line_of_line. Qed.

(* non-vacuity *)
(* "GET / HTTP/1.1" CR satisfies the grammar hypotheses *)
Example C22_example_grammar :
  [71;69;84;32;47;32;72;84;84;80;47;49;46;49;13] = [71;69;84] ++ [32] ++ [47] ++ [32] ++ http_slash ++ [49; 46; 49] ++ [13] /\
  forallb cs_TCHAR [71;69;84] = true /\ forallb cs_strict_RequestTarget [47] = true /\ cs_DIGIT 49 = true /\ 49 <> 48.
Proof. vm_compute. repeat split; discriminate. Qed.
(* relaxed: "get" HT "/a b" SP SP "HTTP/1.0" CR CR is accepted as GET, target "/a b", 1.0 *)
Example C22_example_relaxed : exists s',
  parse_line true rst0 [103;101;116;9;47;97;32;98;32;32;72;84;84;80;47;49;46;48;13;13] = (s', true) /\
  r_mimg s' = [71;69;84] /\ r_uri s' = [47;97;32;98] /\ r_major s' = 1 /\ r_minor s' = 0.
Proof. eexists. vm_compute. repeat split; reflexivity. Qed.
(* strict rejects that line *)
Example C22_example_strict_rejects : exists s',
  parse_line false rst0 [103;101;116;9;47;97;32;98;32;32;72;84;84;80;47;49;46;48;13;13] = (s', false).
Proof. eexists. vm_compute. reflexivity. Qed.

Print Assumptions C22_strict_grammar_implies_accept.
Print Assumptions C22_strict_method_image_is_token.
Print Assumptions C22_strict_accept_implies_grammar_partial.
Print Assumptions C22_strict_accept_iff_grammar_refuted.
Print Assumptions C22_accepted_shape_both_modes_partial.
Print Assumptions C22_delimiter_and_target_sets.
Print Assumptions C22_request_line_ends_at_first_LF.
