(* Properties_C14.v — C14: conditional requests are answered according to their validators.
   Statements only; proofs live in CondProofs.v. Header ids and the `list` attribute come from gen/HdrTable_gen.v,
   regenerated from src/http/RegisteredHeaders* on every run. `pd` is Time::ParseRfc1123 (any function). *)
Require Import SquidV.Bytes SquidV.HopModel SquidV.CondModel SquidV.CondProofs.
Require Import SquidV.gen.HdrTable_gen.
Local Open Scope N_scope.

(* etagParseInit accepts exactly [W/] DQUOTE ... DQUOTE and returns the weak flag and the quoted string *)
Theorem C14_etag_parse_accepts_exactly_quoted : forall s t,
  no_nul s = true ->
  (etag_parse s = Some t <-> exists mid, s = render_tag (et_weak t) mid /\ et_str t = 34 :: mid ++ [34]).
Proof. exact etag_parse_spec. Qed.
Print Assumptions C14_etag_parse_accepts_exactly_quoted.

(* RFC 7232 2.3.2: weak comparison = opaque-tags equal; strong = additionally neither is weak *)
Theorem C14_weak_comparison : forall a b, etag_weak_eq a b = true <-> et_str a = et_str b.
Proof. exact weak_eq_spec. Qed.
Print Assumptions C14_weak_comparison.
Theorem C14_strong_comparison : forall a b,
  etag_strong_eq a b = true <-> et_weak a = false /\ et_weak b = false /\ et_str a = et_str b.
Proof. exact strong_eq_spec. Qed.
Print Assumptions C14_strong_comparison.
Theorem C14_weak_comparison_is_equivalence :
  (forall a, etag_weak_eq a a = true) /\
  (forall a b, etag_weak_eq a b = etag_weak_eq b a) /\
  (forall a b c, etag_weak_eq a b = true -> etag_weak_eq b c = true -> etag_weak_eq a c = true).
Proof. exact weak_eq_equivalence. Qed.
Print Assumptions C14_weak_comparison_is_equivalence.

(* 304 exactly when the validators match the stored 200 *)
Theorem C14_answer_304_iff_validators_match : forall pd r e,
  process_conditional pd r e = V304 <->
  en_status e = 200 /\
  (im_present r = true -> has_if_match_etag e r = true) /\
  ((inm_present r = true /\ has_if_none_match_etag e r = true /\ rq_get_or_head r = true) \/
   (inm_present r = false /\ (0 < rq_ims pd r)%Z /\ not_modified_since pd e (rq_ims pd r))).
Proof. exact verdict_304_iff. Qed.
Print Assumptions C14_answer_304_iff_validators_match.

(* If-Match failures get 412 (and only they, plus a matching If-None-Match on a method other than GET/HEAD) *)
Theorem C14_if_match_fail_412 : forall pd r e,
  process_conditional pd r e = V412 <->
  en_status e = 200 /\
  ((im_present r = true /\ has_if_match_etag e r = false) \/
   ((im_present r = true -> has_if_match_etag e r = true) /\
    inm_present r = true /\ has_if_none_match_etag e r = true /\ rq_get_or_head r = false)).
Proof. exact verdict_412_iff. Qed.
Print Assumptions C14_if_match_fail_412.

(* otherwise the full response: plain hit of the stored 200, or a forwarded miss for any other stored status *)
Theorem C14_otherwise_full_response : forall pd r e,
  process_conditional pd r e <> V304 -> process_conditional pd r e <> V412 ->
  (process_conditional pd r e = VHit /\ en_status e = 200) \/ (process_conditional pd r e = VMiss /\ en_status e <> 200).
Proof. exact verdict_otherwise_full. Qed.
Print Assumptions C14_otherwise_full_response.

Theorem C14_unconditional_request_is_plain_hit : forall pd r e, is_conditional pd r = false -> hit_verdict pd r e = VHit.
Proof. exact unconditional_is_hit. Qed.
Print Assumptions C14_unconditional_request_is_plain_hit.

(* If-None-Match overrides If-Modified-Since: the answer does not depend on any date *)
Theorem C14_if_none_match_overrides_ims : forall pd1 pd2 r e,
  has_id ID_IF_NONE_MATCH (rq_hdrs r) = true -> hit_verdict pd1 r e = hit_verdict pd2 r e.
Proof. exact inm_overrides_ims. Qed.
Print Assumptions C14_if_none_match_overrides_ims.

(* weak comparison only for GET/HEAD without Range; If-Match always strong *)
Theorem C14_weak_match_only_get_head_unranged : forall e r,
  (rq_ranged r = true \/ rq_get_or_head r = false) ->
  has_if_none_match_etag e r = has_one_of_etags (get_etag (en_hdrs e)) (get_list ID_IF_NONE_MATCH (rq_hdrs r)) false.
Proof. exact weak_only_get_head_unranged. Qed.
Print Assumptions C14_weak_match_only_get_head_unranged.
