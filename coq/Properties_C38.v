(* Properties_C38.v — C38: PROXY protocol headers are parsed faithfully and incrementally.
   Statements only; proofs live in ProxypProofs.v.  [ipf] is the un-modelled IP text
   conversion (Ip::Address::GetHostByName); every theorem holds for any such function. *)
Require Import SquidV.Bytes SquidV.TokModel SquidV.ProxypModel SquidV.ProxypProofs.
Require Import SquidV.gen.Proxyp_gen.
Local Open Scope N_scope.

(* --- first sentence: for any byte prefix, parsing asks for more, or gives the answer of the complete input --- *)
Theorem C38_definitive_outcome_is_final : forall ipf b x,
  pp_parse ipf b <> More -> pp_parse ipf (b ++ x) = pp_parse ipf b.
Proof. exact pp_parse_ext. Qed.
Print Assumptions C38_definitive_outcome_is_final.

Theorem C38_parsed_header_stable_under_extension : forall ipf b x h n,
  pp_parse ipf b = Ok h n -> pp_parse ipf (b ++ x) = Ok h n.
Proof. exact pp_ok_stable. Qed.
Print Assumptions C38_parsed_header_stable_under_extension.

Theorem C38_rejection_stable_under_extension : forall ipf b x e,
  pp_parse ipf b = Reject e -> pp_parse ipf (b ++ x) = Reject e.
Proof. exact pp_reject_stable. Qed.
Print Assumptions C38_rejection_stable_under_extension.
