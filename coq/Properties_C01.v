(* Properties_C01.v — C01: response bodies are relayed byte-exactly with correct framing.
   Statements only; proofs live in RelayProofs.v. Model: RelayModel.v (response direction).
   Reading guide: srv_run f evs = what HttpStateData puts into the StoreEntry for the event sequence evs on the
   server connection (OSeg = one read, OEof = connection closed by the origin); client_view cf whole ps = what a
   reference HTTP/1.1 reader decodes from the bytes squid writes to the client when the store hands over the body
   in the pieces ps: (body, complete?, unread rest). *)
Require Import SquidV.Bytes SquidV.RelayModel SquidV.RelayProofs.
Require Import SquidV.gen.Relay_gen.
Local Open Scope N_scope.

(* the model's expectingBody()/bodySize() agree with HttpReply.cc for every status 0..999, GET and HEAD, with and
   without Content-Length, identity and chunked (table regenerated from the code on every run) *)
Theorem C01_framing_decision_matches_code : forallb row_ok framing_table = true.
Proof. exact framing_table_ok. Qed.
Print Assumptions C01_framing_decision_matches_code.

(* the reference chunked reader does not depend on how its input is cut into reads *)
Theorem C01_reader_independent_of_segmentation : forall s a b,
  crun s (a ++ b) =
  let '(s1, o1, r1) := crun s a in let '(s2, o2, r2) := crun s1 (r1 ++ b) in (s2, o1 ++ o2, r2).
Proof. exact crun_app. Qed.
Print Assumptions C01_reader_independent_of_segmentation.

(* every chunked encoding (either hex case, any chunk extension text, any trailer section, any partition of the
   body into non-empty chunks) decodes to exactly the body and is complete; bytes after it are left unread.
   Http::Stream::packChunk is the instance upper-case / no extension (pack_chunk) *)
Theorem C01_chunked_codec_roundtrip : forall upper ext ds trailer rest,
  ext_ok ext = true -> Forall nonempty ds -> forallb line_ok trailer = true ->
  crun CSize0 (enc_chunked upper ext ds trailer ++ rest) = (CDone, concat ds, rest).
Proof. exact chunked_roundtrip. Qed.
Print Assumptions C01_chunked_codec_roundtrip.

Example C01_codec_hypotheses_satisfiable :
  ext_ok [59; 120; 61; 121] = true /\ Forall nonempty w_ds /\ forallb line_ok [[88; 58; 32; 49]] = true.
Proof. repeat split; try reflexivity. repeat constructor; discriminate. Qed.

(* ... and chunks without the last-chunk are never read as a complete message *)
Theorem C01_chunks_without_last_chunk_incomplete : forall upper ext ds,
  ext_ok ext = true -> Forall nonempty ds ->
  crun CSize0 (concat (map (enc_chunk upper ext) ds)) = (CSize0, concat ds, []).
Proof. exact chunks_without_last. Qed.
Print Assumptions C01_chunks_without_last_chunk_incomplete.

(* the store-delivery partition used by the correspondence runner (HTTP_REQBUF_SZ pieces) is a partition into
   non-empty pieces, i.e. an instance of the `ps` quantified below *)
Theorem C01_store_delivery_partition : forall k body,
  concat (chop k body) = body /\ Forall nonempty (chop k body).
Proof. exact relay_chop_partition. Qed.
Print Assumptions C01_store_delivery_partition.

(* ---- relay_exact: for every reply head that announces a body, every body, every valid origin framing of it,
   every segmentation of the origin's writes, anything after the message, every client version and every
   partition of the store deliveries: the client stream decodes to the origin's body and is complete ---- *)
Theorem C01_relay_exact_content_length : forall h c11 n body extra segs tail ps,
  h_chunked h = false -> expecting_body h = true -> h_clen h = Some n ->
  lenN body = n -> segs <> [] -> concat segs = body ++ extra ->
  let s := srv_run (origin_framing h) (map OSeg segs ++ tail) in
  concat ps = sv_body s -> Forall nonempty ps ->
  sv_body s = body /\ sv_whole s = true /\
  client_view (client_framing h c11) (sv_whole s) ps = (body, true, []).
Proof. exact relay_exact_len. Qed.
Print Assumptions C01_relay_exact_content_length.

Example C01_content_length_hypotheses_satisfiable :
  let h := {| h_status := 404; h_head := false; h_clen := Some 3; h_chunked := false |} in
  h_chunked h = false /\ expecting_body h = true /\ lenN [97; 98; 99] = 3 /\
  concat [[97]; [98; 99; 69]] = [97; 98; 99] ++ [69].
Proof. repeat split. Qed.

Theorem C01_relay_exact_chunked : forall h c11 upper ext ds trailer extra segs tail ps,
  h_chunked h = true -> expecting_body h = true ->
  ext_ok ext = true -> Forall nonempty ds -> forallb line_ok trailer = true ->
  concat segs = enc_chunked upper ext ds trailer ++ extra ->
  let s := srv_run (origin_framing h) (map OSeg segs ++ tail) in
  concat ps = sv_body s -> Forall nonempty ps ->
  sv_body s = concat ds /\ sv_whole s = true /\
  client_view (client_framing h c11) (sv_whole s) ps = (concat ds, true, []).
Proof. exact relay_exact_chunked. Qed.
Print Assumptions C01_relay_exact_chunked.

Example C01_chunked_hypotheses_satisfiable :
  h_chunked (w_head 200 true) = true /\ expecting_body (w_head 200 true) = true /\
  concat [w_pre; w_post] = enc_chunked false [] w_ds [] ++ [].
Proof. repeat split. Qed.

Theorem C01_relay_exact_close_delimited : forall h c11 segs tail ps,
  h_chunked h = false -> expecting_body h = true -> h_clen h = None ->
  let s := srv_run (origin_framing h) (map OSeg segs ++ OEof :: tail) in
  concat ps = sv_body s -> Forall nonempty ps ->
  sv_body s = concat segs /\ sv_whole s = true /\
  client_view (client_framing h c11) (sv_whole s) ps = (concat segs, true, []).
Proof. exact relay_exact_close. Qed.
Print Assumptions C01_relay_exact_close_delimited.

Example C01_close_delimited_hypotheses_satisfiable :
  h_chunked (w_head 500 false) = false /\ expecting_body (w_head 500 false) = true /\ h_clen (w_head 500 false) = None.
Proof. repeat split. Qed.

(* ---- truncation_visible. At full strength ("whenever the origin stream ends early the client message is not
   complete") the statement is FALSE for the faithful model: see C01_truncation_http10_refuted. Proved parts: ---- *)
(* (a) Content-Length replies, every client version: fewer bytes than declared, never complete *)
Theorem C01_truncation_visible_partial_content_length : forall h c11 n segs tail ps,
  h_chunked h = false -> expecting_body h = true -> h_clen h = Some n ->
  lenN (concat segs) < n ->
  let s := srv_run (origin_framing h) (map OSeg segs ++ OEof :: tail) in
  concat ps = sv_body s -> Forall nonempty ps ->
  sv_body s = concat segs /\ sv_whole s = false /\
  client_view (client_framing h c11) (sv_whole s) ps = (concat segs, false, []).
Proof. exact truncation_visible_len. Qed.
Print Assumptions C01_truncation_visible_partial_content_length.

(* (b) chunked replies cut anywhere strictly inside the encoding, HTTP/1.1 client: a prefix of the body in chunks
   without last-chunk, never complete *)
Theorem C01_truncation_visible_partial_chunked_http11 : forall h upper ext ds trailer pre post segs tail ps,
  h_chunked h = true -> expecting_body h = true ->
  ext_ok ext = true -> Forall nonempty ds -> forallb line_ok trailer = true ->
  enc_chunked upper ext ds trailer = pre ++ post -> post <> [] -> concat segs = pre ->
  let s := srv_run (origin_framing h) (map OSeg segs ++ OEof :: tail) in
  concat ps = sv_body s -> Forall nonempty ps ->
  sv_whole s = false /\ (exists rest, concat ds = sv_body s ++ rest) /\
  client_view (client_framing h true) (sv_whole s) ps = (sv_body s, false, []).
Proof. exact truncation_visible_chunked11. Qed.
Print Assumptions C01_truncation_visible_partial_chunked_http11.

Example C01_truncation_hypotheses_satisfiable :
  enc_chunked false [] w_ds [] = w_pre ++ w_post /\ w_post <> [] /\ lenN (concat [[97]; [98]]) < 3.
Proof. repeat split; try discriminate; reflexivity. Qed.

(* (c) a chunked reply cut inside the encoding and relayed to an HTTP/1.0 client: the client framing is
   close-delimited, the reference reader sees a COMPLETE message whose body is shorter than the origin's *)
Theorem C01_truncation_http10_refuted :
  enc_chunked false [] w_ds [] = w_pre ++ w_post /\ w_post <> [] /\
  let '(cf, (stream, closed)) := relay (w_head 200 true) false [OSeg w_pre; OEof] 4096 in
  ref_read cf stream closed = ([97; 98; 99; 100; 101], true, []) /\ [97; 98; 99; 100; 101] <> concat w_ds.
Proof. exact truncation_http10_refuted. Qed.
Print Assumptions C01_truncation_http10_refuted.

(* malformed chunk framing from the origin: never complete for an HTTP/1.1 client *)
Theorem C01_malformed_chunked_never_complete : forall h segs tail out rest ps,
  h_chunked h = true -> expecting_body h = true ->
  crun CSize0 (concat segs) = (CErr, out, rest) ->
  let s := srv_run (origin_framing h) (map OSeg segs ++ OEof :: tail) in
  concat ps = sv_body s -> Forall nonempty ps ->
  sv_whole s = false /\ snd (fst (client_view (client_framing h true) (sv_whole s) ps)) = false.
Proof. exact malformed_chunked_incomplete. Qed.
Print Assumptions C01_malformed_chunked_never_complete.

Example C01_malformed_hypotheses_satisfiable : fst (fst (crun CSize0 [51; 13; 10; 97; 98; 99; 13; 10; 90])) = CErr.
Proof. reflexivity. Qed.

(* ---- replies without a body ---- *)
Theorem C01_head_reply_has_no_body : forall h c11 evs k,
  h_head h = true -> relay h c11 evs k = (CHeadOnly, ([], false)).
Proof. exact head_reply_no_body. Qed.
Print Assumptions C01_head_reply_has_no_body.

(* 204 / 304 / 1xx-class status: nothing follows the head, whatever the origin sends after it and however its
   writes are segmented (bytes read together with the head are dropped by truncateVirginBody()) *)
Theorem C01_bodiless_reply_clean : forall h c11 evs k,
  h_head h = false -> h_chunked h = false -> expecting_body h = false ->
  relay h c11 evs k = (CNoBody, ([], false)).
Proof. exact bodiless_reply_clean. Qed.
Print Assumptions C01_bodiless_reply_clean.

Example C01_bodiless_hypotheses_satisfiable :
  h_head (w_head 204 false) = false /\ h_chunked (w_head 204 false) = false /\ expecting_body (w_head 204 false) = false /\
  relay (w_head 304 false) true [OSeg [71; 71; 71]; OEof] 4096 = (CNoBody, ([], false)).
Proof. repeat split. Qed.
