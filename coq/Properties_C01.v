(* Properties_C01.v — C01: response bodies are relayed byte-exactly with correct framing.
   Statements only; proofs live in RelayProofs.v. *)
Require Import SquidV.Bytes SquidV.RelayModel SquidV.RelayProofs.
Require Import SquidV.gen.Relay_gen.
Local Open Scope N_scope.

(* the model's expectingBody()/bodySize() agree with HttpReply.cc for every status 0..999, GET and HEAD, with and
   without Content-Length, identity and chunked (table regenerated from the code on every run) *)
Theorem C01_framing_decision_matches_code : forallb row_ok framing_table = true.
Proof. exact framing_table_ok. Qed.
Print Assumptions C01_framing_decision_matches_code.
