// Harness for C40: FTP address parsers and the directory-listing line parser, from /repo's working tree.
//
//  * src/clients/FtpGateway.cc is #included textually (whole file), so the file-static
//    ftpListParseParts() and its helpers are compiled from the working tree into this
//    (ASan+UBSan instrumented) unit.  Everything else FtpGateway.cc refers to is linked from the
//    in-tree squid objects (the squid binary's link line minus main.o / LoadableModule*.o).
//  * src/ftp/Parsing.cc is #included textually as well (it cannot be listed as "fresh": hbuild drops
//    prebuilt objects with the same base name and squid's own src/Parsing.o is needed by the link).
//
// stdin: one case per line; stdout: one canonical result line per case.
//   port  <sanity> <bufhex>                 Ftp::ParseIpPort(buf, nullptr, fresh addr)
//   portf <sanity> <forcehex> <bufhex>      Ftp::ParseIpPort(buf, force, fresh addr)
//   eprt  <sanity> <bufhex> <table>         Ftp::ParseProtoIpPort(buf, fresh addr)   (table: model side only)
//   unq   <bufhex>                          Ftp::UnescapeDoubleQuoted(buf)
//   list  <nlst> <skipws> <bufhex>          ftpListParseParts(buf, flags)
// Every input byte string is handed to the code as an exactly-sized heap copy (strlen+1 bytes),
// so that any read past the terminator is an ASan report.
#include "../src/clients/FtpGateway.cc"
#include "../src/ftp/Parsing.cc"
#include "ip/Address.h"
#include "hcommon.h"
#include <cstring>
#include <cstdlib>

// the four symbols of main.cc (not linked: it has main()) that the rest of the squid objects reference
bool Chrooted = false;
void reconfigure(int) {}
void rotate_logs(int) {}
void shut_down(int) {}

// exact-size C string copy of the bytes before the first NUL
struct CStr {
    char *p;
    explicit CStr(const std::string &raw) {
        const size_t n = strlen(raw.c_str());
        p = static_cast<char *>(malloc(n + 1));
        memcpy(p, raw.c_str(), n);
        p[n] = '\0';
    }
    ~CStr() { free(p); }
    CStr(const CStr &) = delete;
    CStr &operator=(const CStr &) = delete;
};

static std::string addrHex(const Ip::Address &a) {
    struct in6_addr raw;
    a.getInAddr(raw);
    return tohex(reinterpret_cast<const char *>(&raw), sizeof(raw));
}

static std::string hexOrNull(const char *s) {
    if (!s) return "~";
    return tohex(s, strlen(s));
}

int main() {
    setenv("TZ", "UTC", 1);
    tzset();
    std::string line;
    while (std::getline(std::cin, line)) {
        auto a = splitws(line);
        if (a.empty()) { std::cout << "\n"; continue; }
        const std::string &op = a[0];
        std::ostringstream o;
        try {
            if (op == "port" || op == "portf") {
                Config.Ftp.sanitycheck = (a[1] == "1");
                const bool forced = (op == "portf");
                CStr force(forced ? unhex(a[2]) : std::string());
                CStr buf(unhex(a[forced ? 3 : 2]));
                Ip::Address addr;
                const bool ok = Ftp::ParseIpPort(buf.p, forced ? force.p : nullptr, addr);
                if (ok) o << "ok " << addrHex(addr) << " " << addr.port();
                else o << "fail";
            }
            else if (op == "eprt") {
                Config.Ftp.sanitycheck = (a[1] == "1");
                CStr buf(unhex(a[2]));
                if (!*buf.p) {
                    // callers (Ftp::Server::handleEprtRequest) never pass an empty string; the parser
                    // reads buf[1] unconditionally
                    o << "precondition";
                } else {
                    Ip::Address addr;
                    const bool ok = Ftp::ParseProtoIpPort(buf.p, addr);
                    if (ok) o << "ok " << addrHex(addr) << " " << addr.port();
                    else o << "fail";
                }
            }
            else if (op == "unq") {
                CStr buf(unhex(a[1]));
                const char *r = Ftp::UnescapeDoubleQuoted(buf.p);
                o << hexOrNull(r);
            }
            else if (op == "list") {
                struct Ftp::GatewayFlags flags;
                memset(&flags, 0, sizeof(flags));
                flags.tried_nlst = (a[1] == "1");
                flags.skip_whitespace = (a[2] == "1");
                CStr buf(unhex(a[3]));
                ftpListParts *p = ftpListParseParts(buf.p, flags);
                if (!p) o << "null";
                else {
                    o << "parts " << static_cast<unsigned>(static_cast<unsigned char>(p->type)) << " " << p->size
                      << " " << hexOrNull(p->date) << " " << hexOrNull(p->name) << " " << hexOrNull(p->link);
                    if (p->showname) o << " BAD-SHOWNAME";
                    ftpListPartsFree(&p);
                }
            }
            else o << "ERR unknown-entry " << op;
        } catch (const std::exception &e) { o.str(""); o << "EXC " << e.what(); }
        catch (...) { o.str(""); o << "EXC"; }
        std::cout << o.str() << "\n" << std::flush;
    }
    return 0;
}
