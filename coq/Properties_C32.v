(* Properties_C32.v — C32: HTML quoting neutralises markup and is reversible.
   Statements only; proofs live in QuoteProofs.v.
   html_quote s = concat (map entry (cstr s)) with the 256 entries regenerated from
   src/html/Quoting.cc (gen/ByteMaps_gen.v); cstr = the bytes before the first NUL;
   bytes_ok s = every element is a byte value (below 256). *)
Require Import SquidV.Bytes SquidV.QuoteModel SquidV.QuoteProofs.
Require Import SquidV.gen.ByteMaps_gen.
Local Open Scope N_scope.

(* the quoted form is a sequence of items, each either one byte that is not a markup
   metacharacter (less-than, greater-than, double quote, apostrophe, ampersand), or an
   entity reference: ampersand, name, semicolon, with a name the reference decoder knows
   (lt gt amp quot apos, decimal or hex numeric below 256) that contains no semicolon and
   no metacharacter *)
Theorem C32_quoted_form_is_text_and_entity_references : forall s, bytes_ok s ->
  exists items, html_quote s = concat items /\ Forall html_item items.
Proof. exact html_quote_items. Qed.

(* in particular no less-than, greater-than or quote character occurs anywhere in it *)
Theorem C32_no_raw_angle_bracket_or_quote : forall s, bytes_ok s ->
  forallb (fun c => negb (is_quote_meta c)) (html_quote s) = true.
Proof. exact html_quote_no_angle_or_quote. Qed.

(* decoding the entity references of the quoted form (strict reference decoder: it rejects any
   raw metacharacter and any malformed or unknown reference) gives back the quoted C string *)
Theorem C32_unquote_quote_is_identity : forall s, bytes_ok s ->
  html_unquote (html_quote s) = Some (cstr s).
Proof. exact html_unquote_quote. Qed.

Theorem C32_unquote_quote_is_identity_nul_free : forall s, bytes_ok s -> nul_free s ->
  html_unquote (html_quote s) = Some s.
Proof. exact html_unquote_quote_nul_free. Qed.

(* the reference decoder cuts a successfully decoded prefix off: decoding is compositional *)
Theorem C32_reference_decoder_is_compositional : forall e p out r, html_dec e p = Some out ->
  html_dec (e ++ r) p = option_map (app out) (html_dec r None).
Proof. exact html_dec_app. Qed.

(* non-vacuity / what the statements mean on concrete values *)
Example C32_example_quote :
  html_quote [60; 97; 38; 255; 10] =
  [38;108;116;59; 97; 38;97;109;112;59; 38;35;50;53;53;59; 10].
Proof. vm_compute. reflexivity. Qed.
Example C32_example_hypotheses : bytes_ok [60; 97; 38; 255; 10] /\ nul_free [60; 97; 38; 255; 10].
Proof. split; repeat constructor; discriminate. Qed.
Example C32_example_decoder_is_strict :
  html_unquote [97; 60] = None /\ html_unquote [38; 108; 116] = None /\
  html_unquote [38; 110; 98; 115; 112; 59] = None /\ html_unquote [38; 35; 120; 52; 49; 59] = Some [65].
Proof. vm_compute. repeat split. Qed.
Example C32_example_item : html_item [38; 108; 116; 59] /\ html_item [97] /\ ~ html_item [60].
Proof.
  split; [apply html_item_b_sound; reflexivity|]. split; [apply html_item_b_sound; reflexivity|].
  intros [[c [H1 H2]]|[name [v [H1 _]]]]; [injection H1 as <-; discriminate|discriminate].
Qed.

Print Assumptions C32_quoted_form_is_text_and_entity_references.
Print Assumptions C32_no_raw_angle_bracket_or_quote.
Print Assumptions C32_unquote_quote_is_identity.
Print Assumptions C32_unquote_quote_is_identity_nul_free.
Print Assumptions C32_reference_decoder_is_compositional.
