"""Standard three-stage check: P (proof against regenerated tables),
C (correspondence model vs implementation), S (search with the property's
executable oracle on the implementation)."""
import json, os, random, time
from .common import sh, seed, VERIF, COQ
from . import coq, corr, hbuild, tables

TRUSTED_COMMON = [
    "Coq 8.16.1 kernel (coqc); vm_compute used inside proofs for finite sweeps; no native_compute",
    "no Axiom/Parameter/Admitted in /verif/coq (scanned on every run); per-theorem Print Assumptions output is in coverage.print_assumptions",
    "table generators under /verif/gen (compiled against /repo on every run) are trusted to print what the code computes",
    "extraction uses ExtrOcamlBasic only: Extract Inductive bool=>bool, option=>option, unit=>unit, list=>list, prod=>(*), sumbool=>bool, sumor=>option; Extract Inlined Constant andb=>(&&), orb=>(||); N/Z/positive/nat stay extracted datatypes; OCaml 4.13.1 compiler and ml/runner.ml glue trusted",
    "correspondence is differential testing on generated inputs: it validates the hand-written model against the code on the explored cases only",
]


def proof_stage(res, pid, gens=()):
    """Regenerate tables, scan for forbidden constructs, re-check the property
    file. Returns (ok, error_text)."""
    res.trusted = list(TRUSTED_COMMON) + res.trusted
    try:
        if gens:
            tables.regenerate(gens, res)
    except Exception as ex:  # generator does not build/run against this tree
        return False, "table generator failed: %s" % str(ex)[-1500:]
    bad = coq.forbidden_scan(pid)
    if bad:
        return False, "forbidden constructs in the Coq development: " + "; ".join(bad[:5])
    ok, err = coq.check_property_file(pid, res)
    if ok and res.tier == "thorough" and not os.environ.get("VERIF_NO_COQCHK"):
        # independent re-check of the compiled property file and everything it depends on
        rc, o, e = sh(["coqchk", "-silent", "-o", "-Q", ".", "SquidV", "SquidV.Properties_%s" % pid],
                      cwd=COQ, timeout=int(os.environ.get("VERIF_COQCHK_TIMEOUT", "3600")))
        res.checker_cmds.append("cd coq && coqchk -silent -o -Q . SquidV SquidV.Properties_%s" % pid)
        res.extra["coqchk_rc"] = rc
        res.extra["coqchk_output"] = (o + e)[-3000:]
        if rc != 0:
            return False, "coqchk rejected the compiled development: " + (o + e)[-800:]
    return ok, err


def corr_stage(res, cases, impl_exe, runner, kind_fn=None, nontrivial_fn=None, impl_env=None,
               norm_impl=None, norm_model=None, timeout=900):
    """Runs both sides; returns (impl_lines, model_lines, disagreements)."""
    impl = corr.run_lines(impl_exe, cases, timeout=timeout, env=impl_env)
    model = corr.run_lines(runner, cases, timeout=timeout)
    if norm_impl:
        impl = [norm_impl(x) for x in impl]
    if norm_model:
        model = [norm_model(x) for x in model]
    for c, a in zip(cases, impl):
        res.count_case(c, nontrivial=(nontrivial_fn(c, a) if nontrivial_fn else True),
                       kind=(kind_fn(c, a) if kind_fn else None))
    dis = corr.diff(cases, impl, model)
    return impl, model, dis


def no_input_violation(res, what, detail):
    res.fail("unproved:" + what, "%s no longer checks and no failing input was found: %s" % (what, detail),
             {"no_failing_input_found": True, "broken": what, "detail": detail})


def load_corpus(pid):
    """corpus/<pid>/*.txt: one case line per line ('#' comments); run first on every tier."""
    d = os.path.join(VERIF, "corpus", pid)
    out = []
    if os.path.isdir(d):
        for f in sorted(os.listdir(d)):
            if f.endswith(".txt"):
                for line in open(os.path.join(d, f)):
                    line = line.rstrip("\n")
                    if line.strip() and not line.startswith("#"):
                        out.append(line)
    return out


def run_standard(res, pid, tier, *, area, build_impl, gen_cases, oracle, corr_name,
                 gens=(), n_quick=20000, n_thorough=300000, kind_fn=None, nontrivial_fn=None,
                 norm_impl=None, norm_model=None, mutate=None, impl_env=None, seed_salt=0,
                 model_blind=None):
    """The standard P/C/S pipeline for a unit-level property.

    build_impl()            -> path of the C++ harness built from /repo's working tree
    gen_cases(rng, n)       -> list of case lines (same syntax for harness and ml runner)
    oracle(case, impl_out)  -> None if the implementation's answer satisfies the property,
                               else (signature, description); evaluated on the IMPLEMENTATION output,
                               with an independent statement of the property (not the model)
    mutate(rng, case)       -> a neighbouring case (used by the search stage); optional
    model_blind(case)       -> True for cases the model deliberately does not cover (not diffed)
    """
    rng = random.Random(seed() * 1000003 + seed_salt)
    ok, err = proof_stage(res, pid, gens=gens)
    try:
        exe = build_impl()
    except hbuild.BuildError as ex:
        res.fail("build", "%s: harness no longer builds against /repo's working tree: %s" % (pid, str(ex)[-1200:]),
                 {"no_failing_input_found": True, "broken": "harness build " + corr_name, "detail": str(ex)[-3000:]})
        if not ok:
            res.notes.append("proof stage failed: " + err)
        return
    runner = coq.build_runner(area)
    n = n_quick if tier == "quick" else n_thorough
    corpus = load_corpus(pid)
    cases = corpus + gen_cases(rng, n)
    impl_out, model_out, dis = corr_stage(res, cases, exe, runner, kind_fn=kind_fn, nontrivial_fn=nontrivial_fn,
                                          impl_env=impl_env, norm_impl=norm_impl, norm_model=norm_model)
    if model_blind:
        dis = [d for d in dis if not model_blind(d[1])]
    for c in cases[len(corpus):len(corpus) + 5]:
        res.sample(c[:300])
    found = 0
    for c, o in zip(cases, impl_out):
        v = oracle(c, o)
        if v:
            sig, why = v
            if res.fail(sig, "%s on input `%s`: implementation answered `%s`: %s" % (pid, c[:400], o[:300], why),
                        {"case": c, "impl": o, "oracle": why, "signature": sig}):
                found += 1
    # search stage: neighbourhood of disagreements with a 10x budget
    if dis and not found and mutate:
        srng = random.Random(seed() * 7919 + 13)
        neigh = []
        for k, c, a, b in dis[:200]:
            for _ in range(50):
                neigh.append(mutate(srng, c))
        nout = corr.run_lines(exe, neigh, env=impl_env)
        if norm_impl:
            nout = [norm_impl(x) for x in nout]
        for c, o in zip(neigh, nout):
            v = oracle(c, o)
            if v:
                sig, why = v
                if res.fail(sig, "%s on input `%s` (found near a model/implementation disagreement): implementation answered `%s`: %s"
                            % (pid, c[:400], o[:300], why), {"case": c, "impl": o, "oracle": why, "signature": sig}):
                    found += 1
        res.extra["search_cases"] = len(neigh)
    if dis and not found:
        k, c, a, b = dis[0]
        res.fail("corr:" + c.split()[0],
                 "model and implementation disagree on %d cases (first: `%s` impl=`%s` model=`%s`); the property oracle holds on every implementation answer explored"
                 % (len(dis), c[:300], a[:150], b[:150]),
                 {"no_failing_input_found": True, "broken": "correspondence " + corr_name,
                  "case": c, "impl": a, "model": b, "disagreements": len(dis)})
    if not ok and not found:
        # a proof obligation broke: search the implementation harder (4x fresh population) before giving up
        extra = gen_cases(random.Random(seed() * 104729 + 7), 4 * n)
        eout = corr.run_lines(exe, extra, env=impl_env)
        if norm_impl:
            eout = [norm_impl(x) for x in eout]
        for c, o in zip(extra, eout):
            v = oracle(c, o)
            if v:
                sig, why = v
                if res.fail(sig, "%s on input `%s` (found after proof obligation broke: %s): implementation answered `%s`: %s"
                            % (pid, c[:400], err[:200], o[:300], why), {"case": c, "impl": o, "oracle": why, "signature": sig,
                                                                        "broken_obligation": err}):
                    found += 1
        res.extra["proof_broken_search_cases"] = len(extra)
    if not ok and not found:
        no_input_violation(res, "Properties_%s.v" % pid, err)
    elif not ok:
        res.notes.append("proof stage failed: " + err)
    res.extra["disagreements"] = len(dis)
    res.extra["corpus_cases"] = len(corpus)


def run_lab(res, pid, tier, *, area, gen_scenarios, run_impl, to_case, oracle, corr_name,
            gens=(), n_quick=150, n_thorough=3000, seed_salt=0, kind_fn=None, nontrivial_fn=None,
            model_blind=None, retries=2):
    """The P/C/S pipeline for a whole-proxy (end-to-end) property.

    gen_scenarios(rng, n)      -> list of scenarios (JSON-serialisable dicts); corpus/<pid>/*.jsonl run first
    run_impl(L, scenarios)     -> list of observation lines (one canonical string per scenario) obtained from the
                                  REAL squid built from /repo's working tree in lab L (vlib.lab.Lab); the driver
                                  starts squid/origins itself; must be deterministic up to the stated observables
    to_case(scenario)          -> the case line for the extracted model runner, which must print the predicted
                                  observation line in the same canonical syntax
    oracle(scenario, obs_line) -> None or (signature, description): the property itself evaluated on what the
                                  implementation did (independent of the model)
    Disagreements and oracle failures are re-run `retries` times; only reproducible ones count.
    """
    from . import lab as labmod
    rng = random.Random(seed() * 1000003 + seed_salt)
    ok, err = proof_stage(res, pid, gens=gens)
    runner = coq.build_runner(area)
    n = n_quick if tier == "quick" else n_thorough
    scen = []
    d = os.path.join(VERIF, "corpus", pid)
    if os.path.isdir(d):
        for f in sorted(os.listdir(d)):
            if f.endswith(".jsonl"):
                for line in open(os.path.join(d, f)):
                    if line.strip() and not line.startswith("#"):
                        scen.append(json.loads(line))
    ncorpus = len(scen)
    scen += gen_scenarios(rng, n)
    found = 0
    with labmod.Lab(pid) as L:
        try:
            L.build()
        except labmod.LabError as ex:
            res.fail("build", "%s: squid no longer builds from /repo's working tree: %s" % (pid, str(ex)[-1500:]),
                     {"no_failing_input_found": True, "broken": "lab build", "detail": str(ex)[-3000:]})
            if not ok:
                res.notes.append("proof stage failed: " + err)
            return
        res.extra["lab_build_s"] = round(getattr(L, "build_s", 0), 1)
        obs = run_impl(L, scen)
        cases = [to_case(s) for s in scen]
        model = corr.run_lines(runner, cases)
        for s, c, o in zip(scen, cases, obs):
            res.count_case(c, nontrivial=(nontrivial_fn(s, o) if nontrivial_fn else True),
                           kind=(kind_fn(s, o) if kind_fn else None))
        for s in scen[ncorpus:ncorpus + 4]:
            res.sample(json.dumps(s)[:600])
        suspects = []
        for k, (s, o, m) in enumerate(zip(scen, obs, model)):
            v = oracle(s, o)
            differs = (o != m) and not (model_blind and model_blind(s))
            if v or differs:
                suspects.append(k)
        # confirm: re-run suspects; only reproducible failures count
        confirmed = {}
        cur = list(suspects)[:400]
        attempt_obs = {k: [obs[k]] for k in cur}
        for _ in range(retries):
            if not cur:
                break
            again = run_impl(L, [scen[k] for k in cur])
            nxt = []
            for k, o2 in zip(cur, again):
                attempt_obs[k].append(o2)
                v = oracle(scen[k], o2)
                differs = (o2 != model[k]) and not (model_blind and model_blind(scen[k]))
                if v or differs:
                    nxt.append(k)
            cur = nxt
        dis = []
        for k in cur:
            o = attempt_obs[k][-1]
            v = oracle(scen[k], o)
            if v:
                sig, why = v
                if res.fail(sig, "%s on scenario %s: squid did `%s`: %s" % (pid, json.dumps(scen[k])[:500], o[:300], why),
                            {"scenario": scen[k], "impl": o, "model": model[k], "oracle": why, "signature": sig,
                             "attempts": attempt_obs[k]}):
                    found += 1
            else:
                dis.append(k)
        res.extra["suspects_first_pass"] = len(suspects)
        res.extra["flaky_discarded"] = len(suspects) - len(cur)
    if dis and not found:
        k = dis[0]
        res.fail("corr:" + corr_name.split()[0],
                 "model and squid disagree on %d scenarios (first: %s squid=`%s` model=`%s`); the property oracle holds on every observation"
                 % (len(dis), json.dumps(scen[k])[:400], attempt_obs[k][-1][:200], model[k][:200]),
                 {"no_failing_input_found": True, "broken": "correspondence " + corr_name, "scenario": scen[k],
                  "impl": attempt_obs[k][-1], "model": model[k], "disagreements": len(dis)})
    if not ok and not found:
        no_input_violation(res, "Properties_%s.v" % pid, err)
    elif not ok:
        res.notes.append("proof stage failed: " + err)
    res.extra["disagreements"] = len(dis)
    res.extra["corpus_cases"] = ncorpus
