(* Properties_C54.v — C54: the shared read/write lock (src/ipc/ReadWriteLock.cc) provides mutual exclusion.
   Statements only; proofs live in RwlockProofs.v.

   Vocabulary (RwlockModel.v):
     init scripts        one process per script, lock fields all zero, every process idle
     exec st sched       each schedule entry lets the named process perform ONE atomic operation (or its use step)
     reach scripts sched the state after running schedule `sched` from `init scripts`
                         (any number of processes, any scripts over the 10 public methods, any interleaving)
     holds p = Some m    the process is between two calls (or has ended) and holds m:
                         MIdle | MShared | MHeaders | MExcl | MAppend (writer in append mode)
                         | MBusy (writer whose stopAppendingAndRestoreExclusive() answered false)
     compat a b          the compatibility table: idle with anything; exclusive with nothing; one writer;
                         one header updater; sharers with sharers and with an append-mode / busy writer
     probe s             answers of lockExclusive, lockShared, lockHeaders tried by a fresh process on fields s *)
Require Import SquidV.Bytes SquidV.RwlockModel SquidV.RwlockProofs.
Local Open Scope Z_scope.

(* --- the inductive counting invariant holds in every reachable state --- *)
Theorem C54_counting_invariant_all_interleavings : forall scripts sched, Inv (reach scripts sched).
Proof. exact reach_inv. Qed.
Print Assumptions C54_counting_invariant_all_interleavings.

(* --- mutual exclusion: any two different holders are compatible --- *)
Theorem C54_holders_pairwise_compatible : forall scripts sched i j pi si pj sj a b,
  i <> j ->
  nthN i (ths (reach scripts sched)) = Some (pi, si) ->
  nthN j (ths (reach scripts sched)) = Some (pj, sj) ->
  holds pi = Some a -> holds pj = Some b -> compat a b = true.
Proof. exact reach_holders_compatible. Qed.
Print Assumptions C54_holders_pairwise_compatible.

(* an exclusive holder never coexists with another exclusive holder nor with any shared holder *)
Theorem C54_exclusive_holder_is_alone : forall scripts sched i j pi si pj sj b,
  i <> j ->
  nthN i (ths (reach scripts sched)) = Some (pi, si) ->
  nthN j (ths (reach scripts sched)) = Some (pj, sj) ->
  holds pi = Some MExcl -> holds pj = Some b -> b = MIdle.
Proof. exact reach_exclusive_alone. Qed.
Print Assumptions C54_exclusive_holder_is_alone.

(* never two writers, whatever their append state *)
Theorem C54_at_most_one_writer : forall scripts sched i j pi si pj sj a b,
  i <> j ->
  nthN i (ths (reach scripts sched)) = Some (pi, si) ->
  nthN j (ths (reach scripts sched)) = Some (pj, sj) ->
  holds pi = Some a -> holds pj = Some b -> is_writer a = true -> is_writer b = true -> False.
Proof. exact reach_one_writer. Qed.
Print Assumptions C54_at_most_one_writer.

(* a shared holder coexists with a writer only if that writer switched to append mode
   (and, having stopped appending, was told that its access did not become exclusive) *)
Theorem C54_shared_with_writer_only_after_append : forall scripts sched i j pi si pj sj a b,
  i <> j ->
  nthN i (ths (reach scripts sched)) = Some (pi, si) ->
  nthN j (ths (reach scripts sched)) = Some (pj, sj) ->
  holds pi = Some a -> holds pj = Some b -> is_sharer a = true -> is_writer b = true ->
  b = MAppend \/ b = MBusy.
Proof. exact reach_sharer_writer_append. Qed.
Print Assumptions C54_shared_with_writer_only_after_append.

(* at most one shared holder updates headers at a time *)
Theorem C54_one_header_updater : forall scripts sched i j pi si pj sj,
  i <> j ->
  nthN i (ths (reach scripts sched)) = Some (pi, si) ->
  nthN j (ths (reach scripts sched)) = Some (pj, sj) ->
  holds pi = Some MHeaders -> holds pj = Some MHeaders -> False.
Proof. exact reach_one_header_updater. Qed.
Print Assumptions C54_one_header_updater.

(* none of the assert()s of ReadWriteLock.cc can fail for protocol-following clients *)
Theorem C54_no_assertion_fires : forall scripts sched i p s,
  nthN i (ths (reach scripts sched)) = Some (p, s) -> p <> Crashed.
Proof. exact reach_no_crash. Qed.
Print Assumptions C54_no_assertion_fires.

(* --- after every holder releases, the lock is idle ... --- *)
Theorem C54_idle_after_all_release : forall scripts sched,
  (forall th, In th (ths (reach scripts sched)) -> holds (fst th) = Some MIdle) ->
  sh (reach scripts sched) = idle_shared.
Proof. exact reach_idle_when_all_released. Qed.
Print Assumptions C54_idle_after_all_release.

(* --- ... and can be acquired again, in each of the three ways --- *)
Theorem C54_obtainable_after_all_release : forall scripts sched,
  (forall th, In th (ths (reach scripts sched)) -> holds (fst th) = Some MIdle) ->
  probe (sh (reach scripts sched)) = Some [EvRet OpLX true; EvRet OpLS true; EvRet OpLH true].
Proof. exact reach_obtainable_when_all_released. Qed.
Print Assumptions C54_obtainable_after_all_release.

(* whenever every process is between calls, the six fields say exactly who holds what *)
Theorem C54_quiescent_fields_count_holders : forall scripts sched,
  let st := reach scripts sched in
  (forall th, In th (ths st) -> holds (fst th) <> None) ->
  readers (sh st) = holders is_sharer (ths st) /\
  readLevel (sh st) = holders is_sharer (ths st) /\
  writeLevel (sh st) = holders is_writer (ths st) /\
  b2z (writing (sh st)) = holders is_writer (ths st) /\
  b2z (appending (sh st)) = holders is_append (ths st) /\
  b2z (updating (sh st)) = holders is_headers (ths st).
Proof. exact reach_quiescent_fields. Qed.
Print Assumptions C54_quiescent_fields_count_holders.

(* --- every operation finishes: the round-robin completion of any schedule ends with all processes ended
       (the runner's out-of-fuel answer is impossible) --- *)
Theorem C54_every_run_completes : forall scripts sched,
  exists st evs n, run_case scripts sched = Some (st, evs, n) /\ all_terminal st = true.
Proof. exact run_case_completes. Qed.
Print Assumptions C54_every_run_completes.

(* the states the runner reports (after completion) satisfy the invariant too *)
Theorem C54_completed_run_invariant : forall scripts sched st evs n,
  run_case scripts sched = Some (st, evs, n) -> Inv st.
Proof. exact run_case_inv. Qed.
Print Assumptions C54_completed_run_invariant.

(* --- the hypotheses are satisfiable, non-trivially --- *)
(* a writer holds exclusively while a reader is inside lockShared *)
Example C54_ex_exclusive_reached :
  let st := reach [[OpLX; OpUX]; [OpLS; OpUS]] [0; 0; 0; 0; 0; 1; 1; 0]%N in
  option_map (fun th => holds (fst th)) (nthN 0%N (ths st)) = Some (Some MExcl) /\
  option_map fst (nthN 1%N (ths st)) = Some (LS2 LsPlain).
Proof. vm_compute. split; reflexivity. Qed.

(* a reader and an append-mode writer coexist: the exception in the property is real *)
Example C54_ex_reader_with_appending_writer :
  let st := reach [[OpLX; OpSA; OpSP]; [OpLS; OpUS]] [0; 0; 0; 0; 0; 0; 0; 0; 0; 1; 1; 1; 1; 1]%N in
  option_map (fun th => holds (fst th)) (nthN 0%N (ths st)) = Some (Some MAppend) /\
  option_map (fun th => holds (fst th)) (nthN 1%N (ths st)) = Some (Some MShared).
Proof. vm_compute. split; reflexivity. Qed.

(* ... and stopAppendingAndRestoreExclusive() then answers false: the writer is "busy", not exclusive *)
Example C54_ex_busy_writer :
  let st := reach [[OpLX; OpSA; OpSP]; [OpLS; OpUS]] [0; 0; 0; 0; 0; 0; 0; 0; 0; 1; 1; 1; 1; 1; 0; 0; 0; 0; 0]%N in
  option_map (fun th => holds (fst th)) (nthN 0%N (ths st)) = Some (Some MBusy) /\
  option_map (fun th => holds (fst th)) (nthN 1%N (ths st)) = Some (Some MShared).
Proof. vm_compute. split; reflexivity. Qed.

(* two header updaters compete: one wins, the other is told false *)
Example C54_ex_header_updater :
  match run_case [[OpLH]; [OpLH]] [0; 1; 0; 1; 0; 1; 0; 1; 0; 1; 0; 1]%N with
  | Some (st, evs, _) => map (fun th => holds (fst th)) (ths st) = [Some MHeaders; Some MIdle]
  | None => False
  end.
Proof. vm_compute. reflexivity. Qed.

(* everybody released: the hypothesis of the idle theorems holds in a run with real contention *)
Example C54_ex_all_released :
  match run_case [[OpLX; OpSA; OpSP; OpUX]; [OpLS; OpSX; OpUX]; [OpLH; OpUH]] [0; 1; 2; 0; 1; 2; 2; 1; 0; 0; 1; 2]%N with
  | Some (st, evs, _) => forallb (fun th => match holds (fst th) with Some MIdle => true | _ => false end) (ths st) = true
                         /\ sh st = idle_shared
  | None => False
  end.
Proof. vm_compute. split; reflexivity. Qed.
