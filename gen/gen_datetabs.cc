// Table generator for the date area: the constants src/time/rfc1123.cc uses *now*
// (its static month_names[] and the RFC1123_STRFTIME / RFC850_STRFTIME format strings), and the
// names the C library's strftime prints for %a / %A / %b in the locale the code runs in.
// The anchored source is included textually so that its file-static data is reachable.
#include "time/rfc1123.cc"
#include <iostream>
#include <string>

static void bytesOf(const char *s) {
    std::cout << "[";
    for (size_t i = 0; s[i]; ++i)
        std::cout << (i ? ";" : "") << static_cast<unsigned>(static_cast<unsigned char>(s[i]));
    std::cout << "]";
}

static void viaStrftime(const char *name, const char *fmt, int n, bool month) {
    std::cout << "Definition " << name << " : list bytes := [";
    for (int i = 0; i < n; ++i) {
        struct tm tm;
        memset(&tm, 0, sizeof(tm));
        tm.tm_mday = 1;
        if (month) tm.tm_mon = i; else tm.tm_wday = i;
        char buf[64];
        buf[0] = '\0';
        strftime(buf, sizeof(buf), fmt, &tm);
        std::cout << (i ? "; " : "");
        bytesOf(buf);
    }
    std::cout << "].\n";
}

int main() {
    std::cout << "@@FILE DateTabs_gen.v\n";
    std::cout << "(* generated from /repo by gen/gen_datetabs.cc -- do not edit *)\n"
              "Require Import SquidV.Bytes.\nLocal Open Scope N_scope.\n";
    std::cout << "(* static const char *month_names[12] of src/time/rfc1123.cc *)\n";
    std::cout << "Definition month_names : list bytes := [";
    for (int i = 0; i < 12; ++i) { std::cout << (i ? "; " : ""); bytesOf(month_names[i]); }
    std::cout << "].\n";
    std::cout << "(* RFC1123_STRFTIME, the format Time::FormatRfc1123 passes to strftime *)\n";
    std::cout << "Definition rfc1123_strftime : bytes := "; bytesOf(RFC1123_STRFTIME); std::cout << ".\n";
    std::cout << "Definition rfc850_strftime : bytes := "; bytesOf(RFC850_STRFTIME); std::cout << ".\n";
    std::cout << "(* what strftime prints for %a, %A (tm_wday 0..6) and %b (tm_mon 0..11) *)\n";
    viaStrftime("c_abday", "%a", 7, false);
    viaStrftime("c_day", "%A", 7, false);
    viaStrftime("c_abmon", "%b", 12, true);
    return 0;
}
