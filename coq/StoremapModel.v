(* StoremapModel.v — src/ipc/StoreMap.{h,cc}: the shared store index (anchors + slice chains),
   on top of the lock-free readers/writer lock of src/ipc/ReadWriteLock.cc (RwlockModel.v, C54).

   Executable definitions only. ONE transition per atomic operation (std::atomic load / store /
   read-modify-write; sequentially consistent), exactly as in RwlockModel.v: every ReadWriteLock
   method called by StoreMap is executed through RwlockModel.pstep on the lock fields of the anchor
   concerned, so all interleavings INSIDE the lock methods are part of this model too. Plain
   (non-atomic) accesses — the anchor key words, memset/memcpy of the key, argument tests — happen
   together with the preceding atomic operation of the same process (that is what the harness'
   cooperative scheduler does with them, and what a sequentially consistent execution allows).
   The assert()s of StoreMap.cc are active in this build; their atomic loads are transitions.

   Modelled methods (line by line): openForWriting, openForWritingAt (both values of
   overwriteExisting), StoreMapAnchor::setKey, startAppending, closeForWriting, abortWriting,
   openForReading, openForReadingAt, closeForReading, closeForReadingAndFreeIdle, freeEntry,
   freeEntryByKey, freeChain, freeChainAt, StoreMapAnchor::rewind, prepFreeSlice, writeableSlice,
   writeableEntry, readableSlice, readableEntry, fileNoByKey/nameByKey/fileNoByName, anchorAt, sliceAt.
   Not modelled: openForUpdating/closeForUpdating/abortUpdating (splicing), openOrCreateForReading,
   switchWritingToReading, forgetWritingEntry, purgeOne, validateHit (Config.paranoid_hit_validation
   is zero, so openForReadingAt never calls it), importSlice, StoreMapAnchor::set/exportInto.
   Store::Root().markedForDeletion(key), consulted by setKey(), answers false (no other table
   knows the key).

   Environment. The slice pool (which slice ids are free) belongs to the stores that use a
   StoreMap (Rock: a PageStack of free slots, C53; MemStore alike); here it is the field [owner]:
   [owner[s] = None] = slice s is in the pool. A writer takes the lowest free slice at the use
   step of its "append a slice" operation; StoreMap gives slices back through
   StoreMapCleaner::noteFreeMapSlice() (in freeChainAt).

   Clients. Any number of processes; a process follows the callers' protocol of StoreMap: it holds
   at most one entry (mode CIdle / CWrite f / CAppend f / CRead f), only calls what is legal in
   its mode (other script operations are skipped), and may call freeEntry / freeEntryByKey at any
   time, also on the entry it holds ("transient" activity: its own, second, participation in the
   lock of that anchor). Between two calls there is a "use" step, a scheduling point of its own. *)
Require Import SquidV.Bytes SquidV.RwlockModel.
Local Open Scope Z_scope.

(* ---------- keys: uint64_t key[2] ---------- *)
Definition key := (N * N)%type.
Definition kzero : key := (0%N, 0%N).
Definition kempty (k : key) : bool := (fst k =? 0)%N && (snd k =? 0)%N.              (* StoreMapAnchor::empty() *)
Definition ksame (a b : key) : bool := (fst a =? fst b)%N && (snd a =? snd b)%N.     (* StoreMapAnchor::sameKey() *)

(* ---------- shared state ---------- *)
Record anchor := mkAnchor {
  lk : shared;        (* mutable ReadWriteLock lock *)
  wtbf : bool;        (* std::atomic<uint8_t> waitingToBeFreed *)
  halted : bool;      (* std::atomic<uint8_t> writerHalted *)
  akey : key;         (* uint64_t key[2]  (plain memory) *)
  astart : Z;         (* std::atomic<StoreMapSliceId> start *)
  asplice : Z         (* std::atomic<StoreMapSliceId> splicingPoint *)
}.
Record slice := mkSlice {
  ssize : N;          (* std::atomic<Size> size *)
  snext : Z           (* std::atomic<StoreMapSliceId> next *)
}.
Record mshared := mkM {
  anchors : list anchor;      (* StoreMapAnchors::items *)
  slices : list slice;        (* StoreMapSlices::items *)
  count : Z;                  (* StoreMapAnchors::count (int32) *)
  victim : Z;                 (* StoreMapAnchors::victim (never touched by the modelled methods) *)
  fileNos : list Z;           (* StoreMapFileNos::items *)
  owner : list (option N)     (* environment: None = slice is in the pool; Some f = taken by a writer of anchor f *)
}.

(* StoreMapAnchor(): start(0), splicingPoint(-1), zero-filled shared memory otherwise; StoreMapSlice(): size(0), next(-1) *)
Definition anchor0 : anchor := mkAnchor idle_shared false false kzero 0 (-1).
Definition slice0 : slice := mkSlice 0%N (-1).

Definition set_lk (a : anchor) (v : shared) := mkAnchor v (wtbf a) (halted a) (akey a) (astart a) (asplice a).
Definition set_wtbf (a : anchor) (v : bool) := mkAnchor (lk a) v (halted a) (akey a) (astart a) (asplice a).
Definition set_halted (a : anchor) (v : bool) := mkAnchor (lk a) (wtbf a) v (akey a) (astart a) (asplice a).
Definition set_akey (a : anchor) (v : key) := mkAnchor (lk a) (wtbf a) (halted a) v (astart a) (asplice a).
Definition set_astart (a : anchor) (v : Z) := mkAnchor (lk a) (wtbf a) (halted a) (akey a) v (asplice a).
Definition set_asplice (a : anchor) (v : Z) := mkAnchor (lk a) (wtbf a) (halted a) (akey a) (astart a) v.

Definition set_anchors (sh : mshared) v := mkM v (slices sh) (count sh) (victim sh) (fileNos sh) (owner sh).
Definition set_slices (sh : mshared) v := mkM (anchors sh) v (count sh) (victim sh) (fileNos sh) (owner sh).
Definition set_count (sh : mshared) v := mkM (anchors sh) (slices sh) v (victim sh) (fileNos sh) (owner sh).
Definition set_owner (sh : mshared) v := mkM (anchors sh) (slices sh) (count sh) (victim sh) (fileNos sh) v.

Definition putA (sh : mshared) (f : N) (a : anchor) : mshared := set_anchors sh (updN f a (anchors sh)).
Definition putS (sh : mshared) (s : N) (x : slice) : mshared := set_slices sh (updN s x (slices sh)).
Definition putO (sh : mshared) (s : N) (x : option N) : mshared := set_owner sh (updN s x (owner sh)).

(* slice id (int32) -> index, when valid:  validSlice(n) = 0 <= n && n < sliceLimit() *)
Definition sidx (sh : mshared) (id : Z) : option N :=
  if (0 <=? id) && (id <? Z.of_N (lenN (slices sh))) then Some (Z.to_N id) else None.
Definition getS (sh : mshared) (id : Z) : option slice :=
  match sidx sh id with Some i => nthN i (slices sh) | None => None end.

Fixpoint repeatN {A} (x : A) (n : nat) : list A := match n with O => [] | S k => x :: repeatN x k end.

(* StoreMap::Init(path, n): n anchors, n slices, n fileNos *)
Definition mshared0 (n : N) : mshared :=
  let k := N.to_nat n in
  mkM (repeatN anchor0 k) (repeatN slice0 k) 0 0 (repeatN 0 k) (repeatN None k).

(* entryLimit() = sliceLimit() here (both n <= SwapFilenMax) *)
Definition nlimit (sh : mshared) : N := lenN (slices sh).

(* nameByKey: (k[0] + k[1]) % entryLimit()   with uint64_t addition *)
Definition name_of (sh : mshared) (k : key) : N :=
  (((fst k + snd k) mod 18446744073709551616) mod (nlimit sh))%N.

(* ---------- client operations (script alphabet) ---------- *)
Inductive kop :=
| KW (k : key)      (* openForWriting(key, fileno) + setKey(key) *)
| KX (k : key)      (* openForWritingAt(name(key), false) + setKey(key) *)
| KP (f : N)        (* openForWritingAt(f) without setKey *)
| KAdd (z : N)      (* append a slice of size z *)
| KApp              (* startAppending *)
| KCw               (* closeForWriting *)
| KAb               (* abortWriting *)
| KR (k : key)      (* openForReading(key, fileno) *)
| KLook             (* walk the chain *)
| KCr               (* closeForReading *)
| KCf               (* closeForReadingAndFreeIdle *)
| KF (g : N)        (* freeEntry(g) *)
| KK (k : key)      (* freeEntryByKey(key) *)
| KU (k : key)      (* openForUpdating(update, -1) for a StoreEntry with this key *)
| KSp (n : N)       (* update.stale.splicingPoint = sliceContaining(stale.fileNo, n) *)
| KCu               (* closeForUpdating(update) *)
| KAu.              (* abortUpdating(update) *)

(* Ipc::StoreMapUpdate as the updater sees it *)
Record urec := mkU {
  uk : key;          (* update.entry->key *)
  usn : N;           (* stale.name *)
  usf : N;           (* stale.fileNo *)
  ufn : N;           (* fresh.name *)
  uff : N;           (* fresh.fileNo *)
  ulast : Z;         (* last slice of the fresh prefix written so far *)
  ussp : Z;          (* stale.splicingPoint *)
  ufsp : Z           (* fresh.splicingPoint *)
}.

(* what a client holds between two calls *)
Inductive cmode :=
| CIdle
| CWrite (f : N) (last : Z)     (* opened f for writing; last = last slice appended (-1: none) *)
| CAppend (f : N) (last : Z)    (* ... and called startAppending *)
| CRead (f : N) (k : key)       (* opened f for reading under key k *)
| COther (f : N) (m : mode)     (* never reached: a lock method returned an answer no caller expects *)
| CUpd (u : urec).              (* openForUpdating succeeded: stale entry read+headers locked, fresh anchor exclusive *)

Definition legalk (cm : cmode) (o : kop) : bool :=
  match o with
  | KW _ | KX _ | KP _ | KR _ => match cm with CIdle => true | _ => false end
  | KAdd _ => match cm with CWrite _ _ | CAppend _ _ | CUpd _ => true | _ => false end
  | KCw | KAb => match cm with CWrite _ _ | CAppend _ _ => true | _ => false end
  | KApp => match cm with CWrite _ _ => true | _ => false end
  | KLook | KCr | KCf => match cm with CRead _ _ => true | _ => false end
  | KF _ | KK _ => true
  | KU _ => match cm with CIdle => true | _ => false end
  | KSp _ | KAu => match cm with CUpd _ => true | _ => false end
  | KCu => match cm with CUpd u => (0 <=? ussp u) && (0 <=? ufsp u) | _ => false end
  end.

(* ---------- program counters ---------- *)
(* which call of freeChain() *)
Inductive fcx :=
| FcOW (ok : option key)   (* openForWritingAt: freeChain(fileno, s, true) *)
| FcAbort                  (* abortWriting:     freeChain(fileno, s, false) *)
| FcFree (res : bool)      (* freeEntry:        freeChain(fileno, s, false); return result *)
| FcFbk                    (* freeEntryByKey:   freeChain(idx, s, true) *)
| FcCrf.                   (* closeForReadingAndFreeIdle: freeChain(fileno, s, false) *)
Definition keep (c : fcx) : bool := match c with FcOW _ | FcFbk => true | _ => false end.

(* which call of a ReadWriteLock method *)
Inductive lcx :=
| LcOW (ow : bool) (ok : option key)  (* openForWritingAt: lock.lockExclusive() *)
| LcOWbail                            (* openForWritingAt: lock.unlockExclusive(); return nullptr *)
| LcSA                                (* startAppending: s.lock.startAppending() *)
| LcCW                                (* closeForWriting: s.lock.unlockExclusive() *)
| LcAbSP                              (* abortWriting: s.lock.stopAppendingAndRestoreExclusive() *)
| LcAbUX                              (* abortWriting: s.lock.unlockExclusive() *)
| LcFcUX (c : fcx)                    (* freeChain: inode.lock.unlockExclusive() *)
| LcFE                                (* freeEntry: s.lock.lockExclusive() *)
| LcFkX (k : key)                     (* freeEntryByKey: s.lock.lockExclusive() *)
| LcFkXu                              (* freeEntryByKey: s.lock.unlockExclusive() *)
| LcFkS (k : key)                     (* freeEntryByKey: s.lock.lockShared() *)
| LcFkSu                              (* freeEntryByKey: s.lock.unlockShared() *)
| LcOR (k : key)                      (* openForReadingAt: s.lock.lockShared() *)
| LcORfail                            (* openForReadingAt: s.lock.unlockShared(); return nullptr *)
| LcCR                                (* closeForReading: s.lock.unlockShared() *)
| LcCF                                (* closeForReadingAndFreeIdle: s.lock.unlockSharedAndSwitchToExclusive() *)
| LcLH                                (* openForUpdating: update.stale.anchor->lock.lockHeaders() *)
| LcUH                                (* closeForUpdating / abortUpdating: lock.unlockHeaders() *)
| LcSW.                               (* closeForUpdating: update.fresh.anchor->lock.switchExclusiveToShared() *)

(* pc of an activity on ONE anchor (the anchor is kept next to it) = the atomic operation performed next.
   b : bool = this writer has called startAppending (lock mode MAppend instead of MExcl) *)
Inductive apc :=
| AL (c : lcx) (lp : pc)                   (* inside a ReadWriteLock method, at lock pc lp *)
(* openForWritingAt, after lockExclusive() = true *)
| OW1 (ow : bool) (ok : option key)        (* load lock.writing  : assert(s.writing() && ...) *)
| OW2 (ow : bool) (ok : option key)        (* load lock.readers  : assert(... && !s.reading()) *)
| OW3 (ow : bool) (ok : option key)        (* load waitingToBeFreed : if (!s.waitingToBeFreed && !s.empty() && !overwriteExisting) *)
| OW4 (ok : option key)                    (* load waitingToBeFreed : if (s.waitingToBeFreed || !s.empty()) *)
| OW5 (ok : option key)                    (* s.start = -1 *)
| OW6 (ok : option key)                    (* s.splicingPoint = -1 *)
| OW7 (ok : option key)                    (* ++anchors->count; return &s;  caller: memcpy(key, aKey) *)
| SK1                                      (* setKey: waitingToBeFreed = Store::Root().markedForDeletion(aKey) [false] *)
(* freeChain / freeChainAt / rewind *)
| FC0 (c : fcx)                            (* load inode.start *)
| FC1 (c : fcx) (sid : Z)                  (* load inode.splicingPoint *)
| FL1 (c : fcx) (sid sp : Z)               (* nextId = slice.next *)
| FL2 (c : fcx) (sid sp nx : Z)            (* slice.clear(): size = 0 *)
| FL3 (c : fcx) (sid sp nx : Z)            (* slice.clear(): next = -1; cleaner->noteFreeMapSlice(sliceId); splicing test; loop *)
| RW1 (c : fcx)                            (* rewind: load lock.writing : assert(writing()) *)
| RW2 (c : fcx)                            (* start = 0 *)
| RW3 (c : fcx)                            (* splicingPoint = -1; memset(&key, 0, sizeof(key)) *)
| RW4 (c : fcx)                            (* basics.clear(): swap_file_sz.store(0) *)
| RW5 (c : fcx)                            (* waitingToBeFreed = false *)
| RW6 (c : fcx)                            (* writerHalted = false *)
| CT (c : fcx)                             (* --anchors->count *)
(* startAppending / closeForWriting / abortWriting *)
| SA0                                      (* load lock.writing : assert(s.writing()) *)
| CW1 (b : bool)                           (* load lock.writing : assert(s.writing()) *)
| AB1 (b : bool)                           (* load lock.writing : assert(s.writing()) *)
| AB2 (b : bool)                           (* load lock.appending : if (!s.lock.appending || ...) *)
| AB3                                      (* s.waitingToBeFreed = true *)
| AB4                                      (* s.writerHalted = true *)
(* openForReadingAt, after lockShared() = true and !s.empty() *)
| RD1 (k : key)                            (* load waitingToBeFreed; then sameKey(key) *)
(* closeForReading / closeForReadingAndFreeIdle *)
| CR1                                      (* load lock.readers : assert(s.reading()) *)
| CF1                                      (* load lock.readers : assert(s.reading()) *)
| CF2                                      (* load lock.writing : assert(s.writing()) *)
| CF3                                      (* load lock.readers : assert(!s.reading()) *)
(* freeEntry / freeEntryByKey *)
| FE1                                      (* load waitingToBeFreed : result = !s.waitingToBeFreed && !s.empty() *)
| FE2                                      (* s.waitingToBeFreed.compare_exchange_strong(expected = false, true) *)
| FK1                                      (* s.waitingToBeFreed = true   (under the shared lock) *)
| FK2                                      (* s.waitingToBeFreed = true   (without any lock) *)
(* the writer appends slice id of size z after slice last *)
| AS1 (b : bool) (last id : Z) (z : N)     (* prepFreeSlice: size = 0 *)
| AS2 (b : bool) (last id : Z) (z : N)     (* prepFreeSlice: next = -1 *)
| AS3 (b : bool) (last id : Z) (z : N)     (* writeableSlice(f, id): load lock.writing *)
| AS4 (b : bool) (last id : Z) (z : N)     (* .size = z *)
| AS5 (b : bool) (last id : Z)             (* writeableEntry(f) / writeableSlice(f, last): load lock.writing *)
| AS6 (b : bool) (last id : Z)             (* .start = id   /   .next = id *)
(* the reader walks its chain *)
| LK0                                      (* readableEntry(f): load lock.readers *)
| LK1                                      (* load start *)
| LK2 (sid : Z) (acc : list (Z * N))       (* readableSlice(f, sid): load lock.readers *)
| LK3 (sid : Z) (acc : list (Z * N))       (* load size *)
| LK4 (sid : Z) (sz : N) (acc : list (Z * N)). (* load next *)

(* result of an operation, as the caller sees it *)
Inductive outcome :=
| OUnit
| OOpenW (ok : bool)
| OOpenR (ok : option key)            (* Some k: opened under key k *)
| OFree (r : bool)
| OAdd (id : Z)                       (* -1: pool empty *)
| OLook (l : list (Z * N)) (whole : bool)
| OUpd (r : option (N * N))           (* openForUpdating: Some (stale fileno, fresh fileno) *)
| OSp (id : Z).                       (* sliceContaining() *)

Inductive ares :=
| ANext (p : apc)
| ADone (m : mode) (o : outcome)      (* the call returned; m = what this activity now holds of the anchor's lock *)
| ACrashL                             (* an assert() about the lock state failed (writing()/reading()) *)
| ACrashD (m : mode).                 (* an assert() about data failed (validSlice, s.empty()); the lock stays held in mode m *)

Inductive mevent :=
| MUse (m : cmode)                   (* use step, a next operation was found *)
| MFin (m : cmode)                   (* use step, script exhausted *)
| MCrash                             (* assertion failed *)
| MFree (id : Z)                     (* cleaner->noteFreeMapSlice(id) *)
| MRet (o : kop) (r : outcome) (m : cmode).  (* operation o returned r; the client is now in mode m *)

(* the lock mode an activity holds at a pc outside the lock methods *)
Definition wmode_of (b : bool) : mode := if b then MAppend else MExcl.
Definition amode (p : apc) : mode :=
  match p with
  | AL _ _ => MIdle (* not used *)
  | OW1 _ _ | OW2 _ _ | OW3 _ _ | OW4 _ | OW5 _ | OW6 _ | OW7 _ | SK1 => MExcl
  | FC0 _ | FC1 _ _ | FL1 _ _ _ | FL2 _ _ _ _ | FL3 _ _ _ _ | RW1 _ | RW2 _ | RW3 _ | RW4 _ | RW5 _ | RW6 _ => MExcl
  | CT c => if keep c then MExcl else MIdle
  | SA0 => MExcl
  | CW1 b | AB1 b | AB2 b => wmode_of b
  | AB3 | AB4 => MBusy
  | RD1 _ | CR1 | CF1 => MShared
  | CF2 | CF3 => MExcl
  | FE1 => MExcl
  | FE2 => MIdle
  | FK1 => MShared
  | FK2 => MIdle
  | AS1 b _ _ _ | AS2 b _ _ _ | AS3 b _ _ _ | AS4 b _ _ _ | AS5 b _ _ | AS6 b _ _ => wmode_of b
  | LK0 | LK1 | LK2 _ _ | LK3 _ _ | LK4 _ _ _ => MShared
  end.

(* the activity's participation in the anchor's lock, as a process of RwlockModel *)
Definition alock (p : apc) : pc :=
  match p with AL _ lp => lp | _ => Ready (amode p) end.

(* call lock method o while holding m *)
Definition callL (c : lcx) (m : mode) (o : op) : ares := ANext (AL c (entry m o)).

(* freeChain(): if (!inode.empty()) freeChainAt(inode.start, inode.splicingPoint); inode.rewind(); ... *)
Definition fc_entry (c : fcx) (a : anchor) : ares :=
  if kempty (akey a) then ANext (RW1 c) else ANext (FC0 c).

(* freeChainAt loop head: while (sliceId >= 0) { Slice &slice = sliceAt(sliceId); ... *)
Definition fl_head (sh : mshared) (c : fcx) (sid sp : Z) : ares :=
  if sid <? 0 then ANext (RW1 c)
  else match sidx sh sid with Some _ => ANext (FL1 c sid sp) | None => ACrashD MExcl end.

(* the reader's loop head: while (id >= 0) { if (seen == N) break; ... readableSlice(f, id) ... *)
Definition lk_head (sh : mshared) (sid : Z) (acc : list (Z * N)) : ares :=
  if sid <? 0 then ADone MShared (OLook acc true)
  else if (lenN acc =? nlimit sh)%N then ADone MShared (OLook acc false)
  else ANext (LK2 sid acc).

(* after the lock method called at c returned, leaving the caller with lock mode m *)
Definition lcont (a : anchor) (c : lcx) (m : mode) : ares :=
  match c with
  | LcOW ow ok => match m with MExcl => ANext (OW1 ow ok) | _ => ADone m (OOpenW false) end
  | LcOWbail => ADone m (OOpenW false)
  | LcSA | LcCW | LcAbUX | LcFkXu | LcFkSu | LcCR | LcLH | LcUH | LcSW => ADone m OUnit
  | LcAbSP => match m with MExcl => fc_entry FcAbort a | MBusy => ANext AB3 | _ => ADone m OUnit end
  | LcFcUX c' => match m with MIdle => if keep c' then ADone m OUnit else ANext (CT c') | _ => ADone m OUnit end
  | LcFE => match m with MExcl => ANext FE1 | MIdle => ANext FE2 | _ => ADone m (OFree false) end
  | LcFkX k =>
      match m with
      | MExcl => if ksame (akey a) k then fc_entry FcFbk a else callL LcFkXu MExcl OpUX
      | MIdle => callL (LcFkS k) MIdle OpLS
      | _ => ADone m OUnit
      end
  | LcFkS k =>
      match m with
      | MShared => if ksame (akey a) k then ANext FK1 else callL LcFkSu MShared OpUS
      | MIdle => if ksame (akey a) k then ANext FK2 else ADone MIdle OUnit
      | _ => ADone m OUnit
      end
  | LcOR k =>
      match m with
      | MShared => if kempty (akey a) then callL LcORfail MShared OpUS else ANext (RD1 k)
      | _ => ADone m (OOpenR None)
      end
  | LcORfail => ADone m (OOpenR None)
  | LcCF => match m with MExcl => ANext CF2 | _ => ADone m OUnit end
  end.

(* one atomic operation of an activity at pc p on an anchor whose current value is a.
   Returns the anchor's new value, the rest of the shared state (slices, count, pool), what comes next, events. *)
Definition astepA (sh : mshared) (a : anchor) (p : apc) : anchor * mshared * ares * list mevent :=
  let L := lk a in
  match p with
  | AL c lp =>
      let '(L', lp', _, _) := pstep L lp [] in
      let a' := set_lk a L' in
      match lp' with
      | Ready m | Done m => (a', sh, lcont a' c m, [])      (* Done: never reached (no lock method is entered at Ready) *)
      | Crashed => (a', sh, ACrashL, [])
      | _ => (a', sh, ANext (AL c lp'), [])
      end
  (* Anchor *openForWritingAt(fileno, overwriteExisting) *)
  | OW1 ow ok => if writing L then (a, sh, ANext (OW2 ow ok), []) else (a, sh, ACrashL, [])
  | OW2 ow ok => if readers L =? 0 then (a, sh, ANext (OW3 ow ok), []) else (a, sh, ACrashL, [])
  | OW3 ow ok =>
      if negb (wtbf a) && negb (kempty (akey a)) && negb ow
      then (a, sh, callL LcOWbail MExcl OpUX, [])
      else (a, sh, ANext (OW4 ok), [])
  | OW4 ok =>
      if wtbf a || negb (kempty (akey a)) then (a, sh, fc_entry (FcOW ok) a, [])
      else (a, sh, ANext (OW5 ok), [])                                   (* assert(s.empty()) holds *)
  | OW5 ok => (set_astart a (-1), sh, ANext (OW6 ok), [])
  | OW6 ok => (set_asplice a (-1), sh, ANext (OW7 ok), [])
  | OW7 ok =>
      let sh1 := set_count sh (count sh + 1) in
      match ok with
      | Some k => (set_akey a k, sh1, ANext SK1, [])                     (* setKey: memcpy(key, aKey, sizeof(key)) *)
      | None => (a, sh1, ADone MExcl (OOpenW true), [])
      end
  | SK1 => (set_wtbf a false, sh, ADone MExcl (OOpenW true), [])
  (* void freeChain(fileno, inode, keepLocked) *)
  | FC0 c => (a, sh, ANext (FC1 c (astart a)), [])
  | FC1 c sid => (a, sh, fl_head sh c sid (asplice a), [])
  | FL1 c sid sp =>
      match getS sh sid with
      | Some s => (a, sh, ANext (FL2 c sid sp (snext s)), [])
      | None => (a, sh, ACrashD MExcl, [])
      end
  | FL2 c sid sp nx =>
      match getS sh sid with
      | Some s => (a, putS sh (Z.to_N sid) (mkSlice 0%N (snext s)), ANext (FL3 c sid sp nx), [])
      | None => (a, sh, ACrashD MExcl, [])
      end
  | FL3 c sid sp nx =>
      match getS sh sid with
      | Some s =>
          let sh1 := putO (putS sh (Z.to_N sid) (mkSlice (ssize s) (-1))) (Z.to_N sid) None in
          (a, sh1, (if sid =? sp then ANext (RW1 c) else fl_head sh1 c nx sp), [MFree sid])
      | None => (a, sh, ACrashD MExcl, [])
      end
  | RW1 c => if writing L then (a, sh, ANext (RW2 c), []) else (a, sh, ACrashL, [])
  | RW2 c => (set_astart a 0, sh, ANext (RW3 c), [])
  | RW3 c => (set_akey (set_asplice a (-1)) kzero, sh, ANext (RW4 c), [])
  | RW4 c => (a, sh, ANext (RW5 c), [])
  | RW5 c => (set_wtbf a false, sh, ANext (RW6 c), [])
  | RW6 c =>
      (set_halted a false, sh,
       (if keep c then ANext (CT c) else callL (LcFcUX c) MExcl OpUX), [])
  | CT c =>
      (a, set_count sh (count sh - 1),
       match c with
       | FcOW ok => if kempty (akey a) then ANext (OW5 ok) else ACrashD MExcl     (* assert(s.empty()) *)
       | FcAbort | FcCrf => ADone MIdle OUnit
       | FcFree r => ADone MIdle (OFree r)
       | FcFbk => callL LcFkXu MExcl OpUX
       end, [])
  (* void startAppending(fileno) *)
  | SA0 => if writing L then (a, sh, callL LcSA MExcl OpSA, []) else (a, sh, ACrashL, [])
  (* void closeForWriting(fileno) *)
  | CW1 b => if writing L then (a, sh, callL LcCW (wmode_of b) OpUX, []) else (a, sh, ACrashL, [])
  (* void abortWriting(fileno) *)
  | AB1 b => if writing L then (a, sh, ANext (AB2 b), []) else (a, sh, ACrashL, [])
  | AB2 b =>
      if appending L then (a, sh, callL LcAbSP (wmode_of b) OpSP, [])
      else (a, sh, fc_entry FcAbort a, [])
  | AB3 => (set_wtbf a true, sh, ANext AB4, [])
  | AB4 => (set_halted a true, sh, callL LcAbUX MBusy OpUX, [])
  (* const Anchor *openForReadingAt(fileno, key) *)
  | RD1 k =>
      if wtbf a then (a, sh, callL LcORfail MShared OpUS, [])
      else if ksame (akey a) k then (a, sh, ADone MShared (OOpenR (Some k)), [])
      else (a, sh, callL LcORfail MShared OpUS, [])
  (* void closeForReading(fileno) *)
  | CR1 => if readers L =? 0 then (a, sh, ACrashL, []) else (a, sh, callL LcCR MShared OpUS, [])
  (* void closeForReadingAndFreeIdle(fileno) *)
  | CF1 => if readers L =? 0 then (a, sh, ACrashL, []) else (a, sh, callL LcCF MShared OpSX, [])
  | CF2 => if writing L then (a, sh, ANext CF3, []) else (a, sh, ACrashL, [])
  | CF3 => if readers L =? 0 then (a, sh, fc_entry FcCrf a, []) else (a, sh, ACrashL, [])
  (* bool freeEntry(fileno) *)
  | FE1 => (a, sh, fc_entry (FcFree (negb (wtbf a) && negb (kempty (akey a)))) a, [])
  | FE2 => (set_wtbf a true, sh, ADone MIdle (OFree (negb (wtbf a))), [])
  (* void freeEntryByKey(key) *)
  | FK1 => (set_wtbf a true, sh, callL LcFkSu MShared OpUS, [])
  | FK2 => (set_wtbf a true, sh, ADone MIdle OUnit, [])
  (* the writer appends a slice *)
  | AS1 b last id z =>
      match getS sh id with
      | Some s => (a, putS sh (Z.to_N id) (mkSlice 0%N (snext s)), ANext (AS2 b last id z), [])
      | None => (a, sh, ACrashD (wmode_of b), [])
      end
  | AS2 b last id z =>
      match getS sh id with
      | Some s => (a, putS sh (Z.to_N id) (mkSlice (ssize s) (-1)), ANext (AS3 b last id z), [])
      | None => (a, sh, ACrashD (wmode_of b), [])
      end
  | AS3 b last id z =>
      if writing L then
        match sidx sh id with Some _ => (a, sh, ANext (AS4 b last id z), []) | None => (a, sh, ACrashD (wmode_of b), []) end
      else (a, sh, ACrashL, [])
  | AS4 b last id z =>
      match getS sh id with
      | Some s => (a, putS sh (Z.to_N id) (mkSlice z (snext s)), ANext (AS5 b last id), [])
      | None => (a, sh, ACrashD (wmode_of b), [])
      end
  | AS5 b last id =>
      if writing L then
        (if last <? 0 then (a, sh, ANext (AS6 b last id), [])
         else match sidx sh last with Some _ => (a, sh, ANext (AS6 b last id), []) | None => (a, sh, ACrashD (wmode_of b), []) end)
      else (a, sh, ACrashL, [])
  | AS6 b last id =>
      if last <? 0 then (set_astart a id, sh, ADone (wmode_of b) (OAdd id), [])
      else match getS sh last with
           | Some s => (a, putS sh (Z.to_N last) (mkSlice (ssize s) id), ADone (wmode_of b) (OAdd id), [])
           | None => (a, sh, ACrashD (wmode_of b), [])
           end
  (* the reader walks its chain *)
  | LK0 => if readers L =? 0 then (a, sh, ACrashL, []) else (a, sh, ANext LK1, [])
  | LK1 => (a, sh, lk_head sh (astart a) [], [])
  | LK2 sid acc =>
      if readers L =? 0 then (a, sh, ACrashL, [])
      else match sidx sh sid with Some _ => (a, sh, ANext (LK3 sid acc), []) | None => (a, sh, ACrashD MShared, []) end
  | LK3 sid acc =>
      match getS sh sid with
      | Some s => (a, sh, ANext (LK4 sid (ssize s) acc), [])
      | None => (a, sh, ACrashD MShared, [])
      end
  | LK4 sid sz acc =>
      match getS sh sid with
      | Some s => (a, sh, lk_head sh (snext s) (acc ++ [(sid, sz)]), [])
      | None => (a, sh, ACrashD MShared, [])
      end
  end.

(* ... on anchor f of the map *)
Definition astep (sh : mshared) (f : N) (p : apc) : mshared * ares * list mevent :=
  match nthN f (anchors sh) with
  | None => (sh, ACrashD (match alock p with Ready m => m | _ => MIdle end), [])   (* anchorAt(): assert(validEntry(fileno)) *)
  | Some a =>
      let '(a', sh1, r, evs) := astepA sh a p in
      (putA sh1 f a', r, evs)
  end.

(* ---------- updating (openForUpdating / closeForUpdating / abortUpdating) ---------- *)
(* which abortUpdating()-like tail *)
Inductive abk :=
| AbOpenFail       (* openForUpdating: openKeyless() failed: abortUpdating(update) with stale only; return false *)
| AbClient         (* abortUpdating(update) called by the updater *)
| AbClose.         (* closeForUpdating: the final unlockHeaders / closeForReading(stale) / closeForReading(fresh) *)

(* what follows a call made by the update methods into the single-anchor methods *)
Inductive ucont :=
| UcOpenR                        (* openForReadingAt(stale.fileNo, key) *)
| UcFailCR                       (* closeForReading(stale.fileNo); return false *)
| UcLH                           (* stale.anchor->lock.lockHeaders() *)
| UcVictimOW (tries name : N)    (* openKeyless: openForWritingAt(fileNoByName(name)) *)
| UcAdd                          (* the updater appends a slice to the fresh prefix *)
| UcSW                           (* fresh.anchor->lock.switchExclusiveToShared() *)
| UcFE1 | UcFE2                  (* freeEntry(fresh.fileNo) before / after relocate(stale.name, fresh.fileNo) *)
| UcFE3                          (* freeEntry(stale.fileNo) *)
| UcUH (ab : abk)                (* stale.anchor->lock.unlockHeaders() *)
| UcCRs (ab : abk)               (* closeForReading(stale.fileNo) *)
| UcCRf                          (* closeForReading(fresh.fileNo) *)
| UcAW.                          (* abortWriting(fresh.fileNo) *)

Inductive upc :=
| UCall (c : ucont) (f : N) (p : apc)    (* inside a single-anchor method, on anchor f *)
| UFn                                    (* openForUpdating: fileNoByName(stale.name): load fileNos->items[name] *)
| UWr                                    (* load stale lock.writing : if (update.stale.anchor->writing()) *)
| UVic (tries : N)                       (* visitVictims: ++anchors->victim *)
| UVfn (tries name : N)                  (* fileNoByName(name): load fileNos->items[name] *)
| USet1                                  (* fresh.anchor->set(entry): load lock.writing : assert(writing() && ...) *)
| USet2                                  (* load lock.readers : assert(... && !reading()); setKey: memcpy(key) *)
| USet3                                  (* setKey: waitingToBeFreed = markedForDeletion(key) [false] *)
| USet4                                  (* basics.swap_file_sz = from.swap_file_sz *)
| USC0 (n : N)                           (* sliceContaining: load lock.readers : Must(anchor.reading()) *)
| USC1 (n : N)                           (* load anchor.start *)
| USC2 (n : N) (sid : Z) (seen : N)      (* bytesSeen += slice.size *)
| USC3 (n : N) (sid : Z) (seen : N)      (* lastSlice = slice.next *)
| UAF (ab : abk)                         (* AssertFlagIsSet(stale.anchor->lock.updating): test_and_set *)
| UC2                                    (* closeForUpdating: load stale.anchor->start *)
| UC3 (x : Z)                            (* load fresh.anchor->start : Must(stale start != fresh start) *)
| UC4                                    (* load stale.anchor->start : Must(!= fresh.splicingPoint) *)
| UC5                                    (* load fresh.anchor->start : Must(stale.splicingPoint != it) *)
| UC6                                    (* suffixStart = sliceAt(stale.splicingPoint).next *)
| UC7 (suffix : Z)                       (* load freshSplicingSlice.next : if (... < 0) *)
| UC8 (suffix : Z)                       (* freshSplicingSlice.next = suffixStart *)
| UC8b (suffix : Z)                      (* load freshSplicingSlice.next : Must(== suffixStart) *)
| UC9                                    (* load stale waitingToBeFreed (before relocate) *)
| UC10                                   (* relocate(stale.name, fresh.fileNo): fileNos->items[name] = fileno+1 *)
| UC11                                   (* load stale waitingToBeFreed (after relocate) *)
| UC12                                   (* stale.anchor->splicingPoint = stale.splicingPoint *)
| UC13.                                  (* relocate(fresh.name, stale.fileNo) *)

(* ---------- processes ---------- *)
Inductive spc :=
| Rdy                          (* between calls: the use step, then the next legal script operation *)
| Fin                          (* script exhausted; keeps holding its mode for ever *)
| CrashedL                      (* an assert() about the lock state failed *)
| StuckP (f : N) (m : mode)    (* an assert() about data failed in a primary activity holding m of anchor f's lock *)
| StuckT (g : N) (m : mode)    (* ... in a transient activity *)
| KeyW (k : key)               (* openForWriting: fileNoByKey(key): load fileNos->items[name] *)
| KeyR (k : key)               (* openForReading: fileNoByKey(key) *)
| KeyF (k : key)               (* freeEntryByKey: fileNoByKey(key) *)
| Prim (f : N) (p : apc)       (* inside an operation on the entry being opened / held *)
| Tran (g : N) (p : apc)       (* inside freeEntry(g) / freeEntryByKey(key) *)
| UP (u : urec) (q : upc).     (* inside openForUpdating / sliceContaining / fresh append / closeForUpdating / abortUpdating *)

Record mthread := mkT {
  cm : cmode;                  (* what the client holds (updated when an operation returns) *)
  tpc : spc;
  cur : option kop;            (* the operation being executed *)
  scr : list kop               (* operations still to perform *)
}.

Record mstate := mkS { msh : mshared; mths : list mthread }.

Fixpoint fetchk (m : cmode) (s : list kop) : option (kop * list kop) :=
  match s with
  | [] => None
  | o :: r => if legalk m o then Some (o, r) else fetchk m r
  end.

Definition cm_anchor (m : cmode) : N :=
  match m with CIdle => 0%N | CWrite f _ | CAppend f _ | CRead f _ | COther f _ => f | CUpd u => uff u end.
Definition cm_last (m : cmode) : Z :=
  match m with CWrite _ l | CAppend _ l => l | _ => -1 end.
Definition cm_app (m : cmode) : bool := match m with CAppend _ _ => true | _ => false end.
(* the lock mode of anchor f the client holds between calls *)
Definition cm_lmode (m : cmode) (f : N) : mode :=
  match m with
  | CIdle => MIdle
  | CWrite g _ => if (g =? f)%N then MExcl else MIdle
  | CAppend g _ => if (g =? f)%N then MAppend else MIdle
  | CRead g _ => if (g =? f)%N then MShared else MIdle
  | COther g x => if (g =? f)%N then x else MIdle
  | CUpd _ => MIdle     (* the three lock shares of an updater are not projected (theorems exclude updaters) *)
  end.

(* the client's mode after a primary operation on f returned with lock mode m.
   Combinations no caller expects (never reached) become COther: the lock share is kept, nothing else is known. *)
Definition newcm (old : cmode) (f : N) (m : mode) (o : outcome) : cmode :=
  match m with
  | MIdle => CIdle
  | MExcl => CWrite f (match o with OAdd id => id | _ => cm_last old end)
  | MAppend => CAppend f (match o with OAdd id => id | _ => cm_last old end)
  | MShared =>
      match o with
      | OOpenR (Some k) => CRead f k
      | OLook _ _ => match old with CRead g k => if (g =? f)%N then CRead f k else COther f m | _ => COther f m end
      | _ => COther f m
      end
  | MHeaders | MBusy => COther f m
  end.

(* fileNoByName(name): if (const int item = fileNos->items[name]) return item-1; return name; *)
Definition fileno_of (sh : mshared) (k : key) : option N :=
  match nthN (name_of sh k) (fileNos sh) with
  | Some item =>
      let idx := if item =? 0 then Z.of_N (name_of sh k) else item - 1 in
      if (0 <=? idx) && (idx <? Z.of_N (nlimit sh)) then Some (Z.to_N idx) else None
  | None => None
  end.

(* lowest free slice id *)
Fixpoint first_free (l : list (option N)) (i : N) : option N :=
  match l with
  | [] => None
  | None :: _ => Some i
  | Some _ :: r => first_free r (N.succ i)
  end.

(* ---------- one atomic operation of an update method ---------- *)
Inductive ures :=
| UNext (u : urec) (q : upc)
| UDone (m : cmode) (o : outcome)
| UCrash.                              (* an assert()/Must() failed *)

Definition set_usf (u : urec) sn sf := mkU (uk u) sn sf (ufn u) (uff u) (ulast u) (ussp u) (ufsp u).
Definition set_uff (u : urec) fn ff := mkU (uk u) (usn u) (usf u) fn ff (ulast u) (ussp u) (ufsp u).
Definition set_ulast (u : urec) id := mkU (uk u) (usn u) (usf u) (ufn u) (uff u) id (ussp u) id.
Definition set_ussp (u : urec) id := mkU (uk u) (usn u) (usf u) (ufn u) (uff u) (ulast u) id (ufsp u).
Definition urec0 (k : key) : urec := mkU k 0%N 0%N 0%N 0%N (-1) (-1) (-1).

Definition set_victim (sh : mshared) v := mkM (anchors sh) (slices sh) (count sh) v (fileNos sh) (owner sh).
Definition set_fileNos (sh : mshared) v := mkM (anchors sh) (slices sh) (count sh) (victim sh) v (owner sh).

(* visitVictims: for (; tries < searchLimit; ++tries) { name = ++anchors->victim % entryLimit(); ... }  else abortUpdating *)
Definition vic_next (sh : mshared) (u : urec) (tries : N) : ures :=
  if (tries <? nlimit sh)%N then UNext u (UVic tries) else UNext u (UAF AbOpenFail).

(* sliceContaining loop head: while (lastSlice >= 0) { const Slice &slice = sliceAt(lastSlice); ... } return lastSlice; *)
Definition sc_head (sh : mshared) (u : urec) (n : N) (sid : Z) (seen : N) : ures :=
  if sid <? 0 then UDone (CUpd (set_ussp u sid)) (OSp sid)
  else match sidx sh sid with Some _ => UNext u (USC2 n sid seen) | None => UCrash end.

(* after the single-anchor method called at c (on anchor f) returned outcome o, leaving lock mode m *)
Definition ucontinue (sh : mshared) (u : urec) (c : ucont) (f : N) (m : mode) (o : outcome) : ures :=
  match c with
  | UcOpenR => match o with OOpenR (Some _) => UNext u UWr | _ => UDone CIdle (OUpd None) end
  | UcFailCR => UDone CIdle (OUpd None)
  | UcLH => match m with
            | MHeaders => vic_next sh u 0%N
            | _ => UNext u (UCall UcFailCR (usf u) CR1)
            end
  | UcVictimOW tries name =>
      match o with
      | OOpenW true => UNext (set_uff u name f) USet1
      | _ => vic_next sh u (tries + 1)%N
      end
  | UcAdd => match o with OAdd id => UDone (CUpd (set_ulast u id)) (OAdd id) | _ => UCrash end
  | UcSW => UNext u UC9
  | UcFE1 => UNext u UC10
  | UcFE2 => UNext u UC12
  | UcFE3 => UNext u UC13
  | UcUH ab => UNext u (UCall (UcCRs ab) (usf u) CR1)
  | UcCRs ab =>
      match ab with
      | AbOpenFail => UDone CIdle (OUpd None)
      | AbClient => UNext u (UCall UcAW (uff u) (AB1 false))
      | AbClose => UNext u (UCall UcCRf (uff u) CR1)
      end
  | UcCRf | UcAW => UDone CIdle OUnit
  end.

Definition ustep (sh : mshared) (u : urec) (q : upc) : mshared * ures * list mevent :=
  let stale := nthN (usf u) (anchors sh) in
  let fresh := nthN (uff u) (anchors sh) in
  match q with
  | UCall c f p =>
      let '(sh', r, evs) := astep sh f p in
      match r with
      | ANext p' => (sh', UNext u (UCall c f p'), evs)
      | ADone m o => (sh', ucontinue sh' u c f m o, evs)
      | ACrashL | ACrashD _ => (sh', UCrash, evs)
      end
  (* bool openForUpdating(Update &update, fileNoHint = -1) *)
  | UFn =>
      match fileno_of sh (uk u) with
      | Some sf => (sh, UNext (set_usf u (name_of sh (uk u)) sf) (UCall UcOpenR sf (AL (LcOR (uk u)) (entry MIdle OpLS))), [])
      | None => (sh, UCrash, [])
      end
  | UWr =>
      match stale with
      | Some a => if writing (lk a) then (sh, UNext u (UCall UcFailCR (usf u) CR1), [])
                  else (sh, UNext u (UCall UcLH (usf u) (AL LcLH (entry MIdle OpLH))), [])
      | None => (sh, UCrash, [])
      end
  | UVic tries =>
      let v := (victim sh + 1) mod 4294967296 in
      (set_victim sh v, UNext u (UVfn tries (Z.to_N v mod nlimit sh)%N), [])
  | UVfn tries name =>
      match nthN name (fileNos sh) with
      | Some item =>
          let idx := if item =? 0 then Z.of_N name else item - 1 in
          if (0 <=? idx) && (idx <? Z.of_N (nlimit sh))
          then (sh, UNext u (UCall (UcVictimOW tries name) (Z.to_N idx) (AL (LcOW true None) (entry MIdle OpLX))), [])
          else (sh, UCrash, [])
      | None => (sh, UCrash, [])
      end
  (* fresh.anchor->set(entry) *)
  | USet1 => match fresh with
             | Some a => if writing (lk a) then (sh, UNext u USet2, []) else (sh, UCrash, [])
             | None => (sh, UCrash, [])
             end
  | USet2 => match fresh with
             | Some a => if readers (lk a) =? 0 then (putA sh (uff u) (set_akey a (uk u)), UNext u USet3, []) else (sh, UCrash, [])
             | None => (sh, UCrash, [])
             end
  | USet3 => match fresh with
             | Some a => (putA sh (uff u) (set_wtbf a false), UNext u USet4, [])
             | None => (sh, UCrash, [])
             end
  | USet4 => (sh, UDone (CUpd u) (OUpd (Some (usf u, uff u))), [])
  (* SliceId sliceContaining(fileno, bytesNeeded) *)
  | USC0 n => match stale with
              | Some a => if readers (lk a) =? 0 then (sh, UCrash, []) else (sh, UNext u (USC1 n), [])
              | None => (sh, UCrash, [])
              end
  | USC1 n => match stale with
              | Some a => (sh, sc_head sh u n (astart a) 0%N, [])
              | None => (sh, UCrash, [])
              end
  | USC2 n sid seen =>
      match getS sh sid with
      | Some s => let seen' := (seen + ssize s)%N in
                  if (n <=? seen')%N then (sh, UDone (CUpd (set_ussp u sid)) (OSp sid), [])
                  else (sh, UNext u (USC3 n sid seen'), [])
      | None => (sh, UCrash, [])
      end
  | USC3 n sid seen =>
      match getS sh sid with
      | Some s => (sh, sc_head sh u n (snext s) seen, [])
      | None => (sh, UCrash, [])
      end
  (* AssertFlagIsSet(update.stale.anchor->lock.updating) *)
  | UAF ab =>
      match stale with
      | Some a =>
          if updating (lk a) then
            (sh, match ab with
                 | AbClose => UNext u UC2
                 | _ => UNext u (UCall (UcUH ab) (usf u) (AL LcUH (entry MHeaders OpUH)))
                 end, [])
          else (putA sh (usf u) (set_lk a (set_updating (lk a) true)), UCrash, [])
      | None => (sh, UCrash, [])
      end
  (* void closeForUpdating(Update &update) *)
  | UC2 => match stale with Some a => (sh, UNext u (UC3 (astart a)), []) | None => (sh, UCrash, []) end
  | UC3 x => match fresh with
             | Some a => if x =? astart a then (sh, UCrash, []) else (sh, UNext u UC4, [])
             | None => (sh, UCrash, [])
             end
  | UC4 => match stale with
           | Some a => if astart a =? ufsp u then (sh, UCrash, []) else (sh, UNext u UC5, [])
           | None => (sh, UCrash, [])
           end
  | UC5 => match fresh with
           | Some a =>
               if (ussp u =? astart a) || (ussp u =? ufsp u) then (sh, UCrash, [])
               else match sidx sh (ufsp u), sidx sh (ussp u) with
                    | Some _, Some _ => (sh, UNext u UC6, [])
                    | _, _ => (sh, UCrash, [])
                    end
           | None => (sh, UCrash, [])
           end
  | UC6 => match getS sh (ussp u) with Some s => (sh, UNext u (UC7 (snext s)), []) | None => (sh, UCrash, []) end
  | UC7 suffix =>
      match getS sh (ufsp u) with
      | Some s => if snext s <? 0 then (sh, UNext u (UC8 suffix), []) else (sh, UNext u (UC8b suffix), [])
      | None => (sh, UCrash, [])
      end
  | UC8 suffix =>
      match getS sh (ufsp u) with
      | Some s => (putS sh (Z.to_N (ufsp u)) (mkSlice (ssize s) suffix),
                   UNext u (UCall UcSW (uff u) (AL LcSW (entry MExcl OpSW))), [])
      | None => (sh, UCrash, [])
      end
  | UC8b suffix =>
      match getS sh (ufsp u) with
      | Some s => if snext s =? suffix then (sh, UNext u (UCall UcSW (uff u) (AL LcSW (entry MExcl OpSW))), [])
                  else (sh, UCrash, [])
      | None => (sh, UCrash, [])
      end
  | UC9 => match stale with
           | Some a => if wtbf a then (sh, UNext u (UCall UcFE1 (uff u) (AL LcFE (entry MIdle OpLX))), [])
                       else (sh, UNext u UC10, [])
           | None => (sh, UCrash, [])
           end
  | UC10 => (set_fileNos sh (updN (usn u) (Z.of_N (uff u) + 1) (fileNos sh)), UNext u UC11, [])
  | UC11 => match stale with
            | Some a => if wtbf a then (sh, UNext u (UCall UcFE2 (uff u) (AL LcFE (entry MIdle OpLX))), [])
                        else (sh, UNext u UC12, [])
            | None => (sh, UCrash, [])
            end
  | UC12 => match stale with
            | Some a => (putA sh (usf u) (set_asplice a (ussp u)), UNext u (UCall UcFE3 (usf u) (AL LcFE (entry MIdle OpLX))), [])
            | None => (sh, UCrash, [])
            end
  | UC13 => (set_fileNos sh (updN (ufn u) (Z.of_N (usf u) + 1) (fileNos sh)),
             UNext u (UCall (UcUH AbClose) (usf u) (AL LcUH (entry MHeaders OpUH))), [])
  end.

(* first pc of an operation started in client mode m *)
Definition start_op (sh : mshared) (m : cmode) (o : kop) : mshared * spc * list mevent :=
  let f := cm_anchor m in
  let b := cm_app m in
  match o with
  | KW k => (sh, KeyW k, [])
  | KX k => (sh, Prim (name_of sh k) (AL (LcOW false (Some k)) (entry MIdle OpLX)), [])
  | KP g =>
      if (g <? nlimit sh)%N then (sh, Prim g (AL (LcOW true None) (entry MIdle OpLX)), [])
      else (sh, StuckT g MIdle, [MCrash])                              (* anchorAt(): assert(validEntry(fileno)) *)
  | KR k => (sh, KeyR k, [])
  | KAdd z =>
      match first_free (owner sh) 0%N with
      | Some id =>
          match m with
          | CUpd u => (putO sh id (Some (uff u)), UP u (UCall UcAdd (uff u) (AS1 false (ulast u) (Z.of_N id) z)), [])
          | _ => (putO sh id (Some f), Prim f (AS1 b (cm_last m) (Z.of_N id) z), [])
          end
      | None => (sh, Rdy, [MRet o (OAdd (-1)) m])
      end
  | KApp => (sh, Prim f SA0, [])
  | KCw => (sh, Prim f (CW1 b), [])
  | KAb => (sh, Prim f (AB1 b), [])
  | KLook => (sh, Prim f LK0, [])
  | KCr => (sh, Prim f CR1, [])
  | KCf => (sh, Prim f CF1, [])
  | KF g =>
      if (g <? nlimit sh)%N then (sh, Tran g (AL LcFE (entry MIdle OpLX)), [])
      else (sh, StuckT g MIdle, [MCrash])
  | KK k => (sh, KeyF k, [])
  | KU k => (sh, UP (urec0 k) UFn, [])
  | KSp n => (sh, match m with CUpd u => UP u (USC0 n) | _ => Rdy end, [])
  | KCu => (sh, match m with CUpd u => UP u (UAF AbClose) | _ => Rdy end, [])
  | KAu => (sh, match m with CUpd u => UP u (UAF AbClient) | _ => Rdy end, [])
  end.

(* one scheduling step of a process *)
Definition tstep (sh : mshared) (th : mthread) : mshared * mthread * list mevent :=
  let m := cm th in
  match tpc th with
  | Rdy =>
      match fetchk m (scr th) with
      | Some (o, r) =>
          let '(sh', p', evs) := start_op sh m o in
          (sh', mkT m p' (match p' with Rdy => None | _ => Some o end) r, MUse m :: evs)
      | None => (sh, mkT m Fin None [], [MFin m])
      end
  | Fin | CrashedL | StuckP _ _ | StuckT _ _ => (sh, th, [])
  | KeyW k =>
      match fileno_of sh k with
      | Some idx => (sh, mkT m (Prim idx (AL (LcOW true (Some k)) (entry MIdle OpLX))) (cur th) (scr th), [])
      | None => (sh, mkT m (StuckP 0%N MIdle) (cur th) (scr th), [MCrash])
      end
  | KeyR k =>
      match fileno_of sh k with
      | Some idx => (sh, mkT m (Prim idx (AL (LcOR k) (entry MIdle OpLS))) (cur th) (scr th), [])
      | None => (sh, mkT m (StuckP 0%N MIdle) (cur th) (scr th), [MCrash])
      end
  | KeyF k =>
      match fileno_of sh k with
      | Some idx => (sh, mkT m (Tran idx (AL (LcFkX k) (entry MIdle OpLX))) (cur th) (scr th), [])
      | None => (sh, mkT m (StuckT 0%N MIdle) (cur th) (scr th), [MCrash])
      end
  | Prim f p =>
      let '(sh', r, evs) := astep sh f p in
      match r with
      | ANext p' => (sh', mkT m (Prim f p') (cur th) (scr th), evs)
      | ADone lm o =>
          let m' := newcm m f lm o in
          (sh', mkT m' Rdy None (scr th),
           evs ++ match cur th with Some c => [MRet c o m'] | None => [] end)
      | ACrashL => (sh', mkT m CrashedL (cur th) (scr th), evs ++ [MCrash])
      | ACrashD lm => (sh', mkT m (StuckP f lm) (cur th) (scr th), evs ++ [MCrash])
      end
  | Tran g p =>
      let '(sh', r, evs) := astep sh g p in
      match r with
      | ANext p' => (sh', mkT m (Tran g p') (cur th) (scr th), evs)
      | ADone lm o =>
          (sh', mkT m (match lm with MIdle => Rdy | _ => StuckT g lm end) None (scr th),
           evs ++ match cur th with Some c => [MRet c o m] | None => [] end)
      | ACrashL => (sh', mkT m CrashedL (cur th) (scr th), evs ++ [MCrash])
      | ACrashD lm => (sh', mkT m (StuckT g lm) (cur th) (scr th), evs ++ [MCrash])
      end
  | UP u q =>
      let '(sh', r, evs) := ustep sh u q in
      match r with
      | UNext u' q' => (sh', mkT m (UP u' q') (cur th) (scr th), evs)
      | UDone m' o => (sh', mkT m' Rdy None (scr th), evs ++ match cur th with Some c => [MRet c o m'] | None => [] end)
      | UCrash => (sh', mkT m (StuckP 0%N MIdle) (cur th) (scr th), evs ++ [MCrash])
      end
  end.

Definition terminalk (p : spc) : bool :=
  match p with Fin | CrashedL | StuckP _ _ | StuckT _ _ => true | _ => false end.

(* process t performs its next step; a schedule entry naming no process or a finished one is skipped *)
Definition sstep (st : mstate) (t : N) : mstate * list (N * mevent) * bool :=
  match nthN t (mths st) with
  | None => (st, [], false)
  | Some th =>
      if terminalk (tpc th) then (st, [], false)
      else
        let '(sh', th', evs) := tstep (msh st) th in
        (mkS sh' (updN t th' (mths st)), map (fun e => (t, e)) evs, true)
  end.

Definition sinit (n : N) (scripts : list (list kop)) : mstate :=
  mkS (mshared0 n) (map (fun s => mkT CIdle Rdy None s) scripts).

Fixpoint sexec (st : mstate) (sched : list N) : mstate * list (N * mevent) * N :=
  match sched with
  | [] => (st, [], 0%N)
  | t :: r =>
      let '(st1, e1, b) := sstep st t in
      let '(st2, e2, n) := sexec st1 r in
      (st2, e1 ++ e2, if b then N.succ n else n)
  end.

Definition all_terminalk (st : mstate) : bool := forallb (fun th => terminalk (tpc th)) (mths st).

Fixpoint ids_from {A} (k : N) (l : list A) : list N :=
  match l with [] => [] | _ :: r => k :: ids_from (N.succ k) r end.

(* past the end of the schedule: round-robin until every process ended; None = out of fuel *)
Fixpoint srun_rr (fuel : nat) (st : mstate) : option (mstate * list (N * mevent) * N) :=
  if all_terminalk st then Some (st, [], 0%N)
  else match fuel with
       | O => None
       | S f =>
           let '(st1, e1, n1) := sexec st (ids_from 0%N (mths st)) in
           match srun_rr f st1 with
           | Some (st2, e2, n2) => Some (st2, e1 ++ e2, (n1 + n2)%N)
           | None => None
           end
       end.

(* generous bound on the rounds a process needs: every operation is at most 40 + 7 * N steps *)
Definition rounds (n : N) (st : mstate) : nat :=
  fold_right (fun th a => (S (length (scr th)) * (100 + 60 * N.to_nat n) + a)%nat) 60%nat (mths st).

Definition srun_case (n : N) (scripts : list (list kop)) (sched : list N)
  : option (mstate * list (N * mevent) * N) :=
  let st0 := sinit n scripts in
  let '(st1, e1, n1) := sexec st0 sched in
  match srun_rr (rounds n st1) st1 with
  | Some (st2, e2, n2) => Some (st2, e1 ++ e2, (n1 + n2)%N)
  | None => None
  end.

(* every state reachable from the initial one by any schedule *)
Definition sreach (n : N) (scripts : list (list kop)) (sched : list N) : mstate :=
  fst (fst (sexec (sinit n scripts) sched)).

(* probing a final state with one fresh process: openForWritingAt(f) for every anchor, undone by abortWriting *)
Fixpoint probe_script (fs : list N) : list kop :=
  match fs with [] => [] | f :: r => KP f :: KAb :: probe_script r end.
Definition is_probe_ret (e : mevent) : bool :=
  match e with MRet (KP _) _ _ | MCrash => true | _ => false end.
Definition sprobe (sh : mshared) : option (list mevent) :=
  let n := nlimit sh in
  let st := mkS sh [mkT CIdle Rdy None (probe_script (ids_from 0%N (anchors sh)))] in
  match srun_rr (rounds n st) st with
  | Some (_, evs, _) => Some (filter is_probe_ret (map snd evs))
  | None => None
  end.

(* ---------- specification vocabulary ---------- *)
(* a process takes part in the lock of anchor f twice: through the entry it opens/holds (primary)
   and through freeEntry/freeEntryByKey calls (transient) *)
Definition pri (f : N) (th : mthread) : pc :=
  match tpc th with
  | Prim g p => if (g =? f)%N then alock p else Ready MIdle
  | StuckP g m => if (g =? f)%N then Done m else Ready MIdle
  | KeyW _ | KeyR _ => Ready MIdle
  | _ => Ready (cm_lmode (cm th) f)
  end.
Definition tra (f : N) (th : mthread) : pc :=
  match tpc th with
  | Tran g p => if (g =? f)%N then alock p else Ready MIdle
  | StuckT g m => if (g =? f)%N then Done m else Ready MIdle
  | _ => Ready MIdle
  end.
(* the processes of anchor f's lock *)
Definition proj (f : N) (ths : list mthread) : list thread :=
  flat_map (fun th => [(pri f th, @nil op); (tra f th, @nil op)]) ths.
