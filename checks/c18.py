"""C18: collapsed forwarding — one upstream fetch, identical copies (end to end through the real squid, 1 and 3 workers)."""
import concurrent.futures, os, time
from vlib import std, lab
from checks import smp_common as sc

PID = "C18"
META = {
    "text": "Theorems (Properties_C18.v, closed under the global context), about the transcribed collapsing protocol for one "
            "cache key (SmpModel.v: Store::Controller::peek/find/allowSharing/anchorToCache/syncCollapsed/allowCollapsing, "
            "StoreEntry::setPublicKey/setPrivateKey/complete/abort paths, Transients get/addWriterEntry/addReaderEntry/"
            "completeWriting/evictCached/disconnect, MemStore startCaching/write/completeWriting/disconnect/anchorToCache/"
            "updateAnchored, cacheHit's processMiss rule, the three reuse decisions of haveParsedReplyHeaders) running on "
            "method-level StoreMap anchors and the method-level ReadWriteLock. (1) For ALL event sequences (arrivals at any "
            "worker, fetch starts, origin header/data/end/early close, CollapsedForwarding queue drains, transaction ends, "
            "purges, reloads, in any order) and all object parameters: an event contacts the origin iff it is the "
            "processMiss of a request that missed or must re-forward; the number of origin requests of a run equals the "
            "number of such steps; the step in which a request reaches a worker never does, whatever it finds. (2) For any "
            "number of processes calling the StoreMap anchor methods in any order: at most one holds the Transients entry "
            "for writing, and readers coexist with it only after its startAppending. (3) All arrival orders of a bounded "
            "burst, exhaustively (3 workers, leader anywhere, up to 3 joiners before the origin answered and up to 2 after "
            "the header and part of the body, each at any worker, length known or unknown): a complete cacheable response "
            "costs exactly ONE origin request, during the fetch and in total, and every client holds the complete first "
            "response; when the origin closes early no client is shown the first response as complete. (4) The method-level "
            "lock equals, method by method, a solo run of the atomic-operation ReadWriteLock model of property C54 (all "
            "flags, up to 4 concurrent readers). (5) Witness, outside the premise: two lookups before either registration "
            "=> two origin requests. "
            "Tie: the extracted protocol model is run on the canonical schedule of each generated burst and its predicted "
            "observation (origin request counts before the end of the fetch and in total; per client: complete copy of "
            "fetch 1 / of a later fetch / visibly truncated) is diffed against the REAL squid (built from the working tree) "
            "driven in SMP mode (3 workers, individually addressed ports) and non-SMP mode between raw-socket clients and a "
            "gated origin that releases header / body / end (or early close) only after the driver has sent the joiners' "
            "requests; the oracle checks the property itself on squid's answers.",
    "note": "partial: (1) is accounting (origin requests = processMiss executions), not by itself 'at most one'; 'at most "
            "one origin request and identical complete copies' is proved for the bounded bursts of (3) by exhaustive "
            "evaluation of the model and otherwise rests on the end-to-end correspondence (bursts of 2..20 requests, "
            "Content-Length / chunked / close-delimited, complete and cut at random points, sizes around the 32 KB shared "
            "page, cacheable / shareable-only (503) / non-shareable (no-store, above maximum_object_size_in_memory)); the "
            "general invariant 'a copy marked complete has the full length of a properly ended origin response' is not "
            "proved for all event sequences. That the event-driven proxy follows the model rests on the correspondence. "
            "Outside the property's premise and seen on the real squid: two requests reaching two different workers within "
            "the same few microseconds both go to the origin (2 of 150 simultaneous pairs); theorem "
            "C18_simultaneous_misses_fetch_twice shows the same in the model. After an early close, re-forwarding joiners of "
            "other workers each make their own origin request (unknown-length responses are not readable across workers "
            "while being written); several of them race for the cache slot, so late joiners are not generated for such "
            "scenarios. One key only; no cache_dir; hash collisions between keys, Vary, collapsed revalidation and ICP/HTCP "
            "are not modelled. Trusted: Coq kernel, extraction, vlib/lab.py, checks/smp_common.py stubs. SMP kids need "
            "${localstatedir}/run/squid (/usr/local/squid/var/run/squid); the check creates it if missing.",
    "technique": "Coq proof (accounting lemma per protocol function lifted to all event sequences by induction; counting invariant "
                 "over all method sequences of a process population; exhaustive vm_compute sweeps lifted by membership lemmas) + end-to-end differential correspondence of the "
                 "extracted model against the running squid (SMP and non-SMP) + independent oracle",
}

MEMMAX = 96 * 1024
BIG = 220000
SIZES = [200, 5000, 32768 - 250, 32768 + 1000, 40000, 60000, 70001]
KINDS = [("ok_cl", 24), ("ok_ch", 14), ("ok_close", 6), ("tr_cl", 15), ("tr_ch", 14), ("not", 8), ("big", 7), ("share", 12)]


def gen_one(rng, k):
    kind = rng.choices([a for a, _ in KINDS], [b for _, b in KINDS])[0]
    smp = rng.random() < 0.6
    nw = 3 if smp else 1
    size = BIG if kind == "big" else rng.choice(SIZES)
    first = rng.choice([0, 1, rng.randrange(0, size + 1), min(size, 32768 - 300), min(size, 33000), size // 2])
    if kind in ("tr_cl", "tr_ch"):
        first = min(first, size - 1)
        cut = rng.choice([first, rng.randrange(first, size), size - 1])
    else:
        cut = None
    w = lambda: rng.randrange(1, nw + 1)
    burst = rng.choice([2, 2, 3, 4, 5, 6, 8, 12, 20])
    nA = rng.randrange(0, burst)
    nB = burst - 1 - nA
    if kind in ("not", "big", "share"):
        # every joiner re-forwards; several doing so at the same instant may or may not share one another's new entry
        nA, nB = min(nA, 1), min(nB, 3)
    s = {"kind": kind, "smp": smp, "nw": nw, "size": size, "first": first, "cut": cut, "lw": w(),
         "A": [w() for _ in range(nA)], "B": [w() for _ in range(nB)], "C": [w() for _ in range(rng.randrange(0, 3))]}
    if kind == "tr_ch" and smp and sum(1 for x in s["A"] + s["B"] if x != s["lw"]) >= 2:
        # several workers re-forward at the same instant after the cut and race for the Transients / memory-cache slot:
        # which of their responses ends up cached (hence whether a late joiner is a hit) is not determined
        s["C"] = []
    return s


def gen_scenarios(rng, n):
    return [gen_one(rng, k) for k in range(n)]


def cls_of(s):
    return {"not": "N", "share": "S"}.get(s["kind"], "P")


def known_of(s):
    return 0 if s["kind"] in ("ok_ch", "tr_ch", "ok_close") else 1


def to_case(s):
    j = lambda l: ",".join(map(str, l)) if l else "-"
    return "smp.c18 %d %d %d %d %s %s %s %s %d %d %d %s" % (
        1 if s["smp"] else 0, MEMMAX, s["nw"], s["lw"], j(s["A"]), j(s["B"]), j(s["C"]), cls_of(s), known_of(s),
        s["size"], s["first"], "-" if s["cut"] is None else str(s["cut"]))


def spec_of(s, salt):
    k = s["kind"]
    sp = {"vsize": s["size"], "vsalt": salt, "headers": [["Cache-Control", "max-age=1000"]]}
    fa = {"gated": True, "first": s["first"]}
    if k in ("ok_ch", "tr_ch"):
        sp["framing"] = "chunked"; sp["chunks"] = [7000]
    if k == "ok_close":
        sp["framing"] = "close"
    if k in ("tr_cl", "tr_ch"):
        fa["cut_after"] = s["cut"]
    if k == "not":
        sp["headers"] = [["Cache-Control", "no-store"]]
    if k == "share":
        sp["status"] = 503; sp["reason"] = "Service Unavailable"; sp["headers"] = []
    sp["first_arrival"] = fa
    return sp


_state = {}
SETTLE = float(os.environ.get("VERIF_SMP_SETTLE", "0.3"))


def canon(c, s, salt):
    want = 503 if s["kind"] == "share" else 200
    o = sc.classify(c, s["size"], salt, status=want)
    if o[0] in "FT" and o[1:].isdigit():
        return o[0] + ("1" if o[1:] in ("0", "1") else "+")
    return o


def run_one(args):
    s, rid, salt = args
    sq = _state["smp" if s["smp"] else "one"]
    org = _state["org"]
    ports = _state["ports"]
    port = (lambda w: ports[w]) if s["smp"] else (lambda w: sq.port)
    url = org.url(spec_of(s, salt), rid)
    g = sc.gates(org, rid)
    seq = s["kind"] in ("not", "big", "share")
    try:
        Ld = sc.Client(port(s["lw"]), url); Ld.start()
        if not g["arrived"].wait(10):
            return "noarrival"
        A = [sc.Client(port(w), url) for w in s["A"]]
        for c in A: c.start()
        for c in A: c.sent.wait(5)
        time.sleep(SETTLE)
        g["h"].set(); g["sent1"].wait(10)
        sc.wait_for(Ld.have_header, 5)
        time.sleep(SETTLE * 0.7)
        B = [sc.Client(port(w), url) for w in s["B"]]
        for c in B:
            c.start()
            if seq:
                c.finished.wait(20)
        for c in B: c.sent.wait(5)
        time.sleep(SETTLE)
        n1 = len(org.arrivals(rid))
        g["b"].set()
        for c in [Ld] + A + B: c.finished.wait(25)
        time.sleep(0.1)
        C = []
        for w in s["C"]:
            c = sc.Client(port(w), url); c.start(); c.finished.wait(25); C.append(c)
        n3 = len(org.arrivals(rid))
        cls = lambda cs: ",".join(canon(c, s, salt) for c in cs) or "-"
        return "n=%d/%d L=%s A=%s B=%s C=%s" % (n1, n3, cls([Ld]), cls(A), cls(B), cls(C))
    finally:
        g["h"].set(); g["b"].set()


def conf():
    return ("collapsed_forwarding on\nmaximum_object_size_in_memory %d KB\n" % (MEMMAX // 1024))


def ensure(L):
    if "org" not in _state:
        sc.ensure_ipc_dir()
        _state["org"] = sc.gated_origin(L)
        _state["n"] = 0
    if "smp" not in _state or not _state["smp"].alive():
        base = sc.free_port_base()
        _state["smp"] = L.squid(workers=3, extra_conf=conf() + "http_port 127.0.0.1:%d${process_number}\n" % base, wait=40)
        _state["ports"] = {k: base * 10 + k for k in (1, 2, 3)}
        for k in (1, 2, 3):
            sc.wait_port(_state["ports"][k], 30)
        time.sleep(1.0)
    if "one" not in _state or not _state["one"].alive():
        _state["one"] = L.squid(extra_conf=conf())


def run_impl(L, scenarios):
    ensure(L)
    jobs = []
    for s in scenarios:
        _state["n"] += 1
        jobs.append((s, "k%d" % _state["n"], _state["n"]))
    with concurrent.futures.ThreadPoolExecutor(max_workers=int(os.environ.get("VERIF_C18_PAR", "6"))) as ex:
        out = list(ex.map(run_one, jobs))
    for which in ("smp", "one"):
        bad = _state[which].log_has("assertion failed", "FATAL: Received", "FATAL: dying")
        if bad:
            out = [o + " squid-log:" + "+".join(bad) for o in out]
    return out


def parse_obs(obs):
    f = dict(p.split("=", 1) for p in obs.split() if "=" in p)
    n1, n2 = [int(x) for x in f["n"].split("/")]
    g = lambda k: [] if f.get(k, "-") == "-" else f[k].split(",")
    return n1, n2, g("L"), g("A"), g("B"), g("C")


def oracle(s, obs):
    """C18 on what squid did. Outcomes per client: F1 = complete message carrying exactly the body of the first origin
    response; F+ = complete message carrying exactly the body of a later origin response; T* = message visibly
    incomplete by its own framing; anything else is a wrong or short body presented as a complete message."""
    if not obs.startswith("n="):
        return ("oracle:no-transaction", "the burst did not run: " + obs)
    if "squid-log:" in obs:
        return ("oracle:squid-assertion", "squid logged an assertion/FATAL during the run: " + obs)
    n1, n2, Ld, A, B, C = parse_obs(obs)
    allc = Ld + A + B + C
    for o in allc:
        if o[0] not in "FTE":
            return ("oracle:bad-copy:" + o.rstrip("0123456789:"),
                    "a client received `%s`: not a complete copy of one origin response, not a visibly truncated one, not an error" % o)
    complete_cacheable = s["kind"] in ("ok_cl", "ok_ch", "ok_close")
    if complete_cacheable:
        if n1 > 1:
            return ("oracle:extra-origin-request",
                    "%d origin requests were made for one cacheable URL by requests that arrived while the first fetch was in progress" % n1)
        for o in Ld + A + B:
            if o != "F1" and not o.startswith("E"):
                return ("oracle:collapsed-copy-differs", "a collapsed client got `%s` instead of the complete response of the one fetch" % o)
    if s["kind"] in ("tr_cl", "tr_ch"):
        for o in allc:
            if o == "F1":
                return ("oracle:truncated-presented-complete", "the first origin response was cut but a client received it as a complete message")
    return None


def run(res, tier):
    res.rule = ("bursts of 2..20 identical GETs for one URL: a leader, joiners arriving before the origin answered, joiners arriving "
                "after the header and a random part of the body, late joiners; random workers (3-worker SMP squid with per-worker "
                "ports, or one non-SMP squid); origin response Content-Length / chunked / close-delimited, complete or cut at a "
                "random point, sizes around the 32 KB shared page, cacheable / 503 / no-store / larger than "
                "maximum_object_size_in_memory; non-trivial = at least one joiner while the fetch is in progress")
    std.run_lab(res, PID, tier, area="smp", gen_scenarios=gen_scenarios, run_impl=run_impl, to_case=to_case, oracle=oracle,
                corr_name="SmpModel (run_scen) vs the running squid", n_quick=int(os.environ.get("VERIF_C18_N", "26")),
                n_thorough=500, seed_salt=18,
                kind_fn=lambda s, o: ("smp:" if s["smp"] else "one:") + s["kind"],
                nontrivial_fn=lambda s, o: len(s["A"]) + len(s["B"]) > 0)
    _state.clear()
