// Harness (C28): HttpHdrRange::ParseCreate + HttpHdrRange::canonize(int64_t) from /repo's working tree.
// stdin : range <hex header value> <clen>
// stdout: none                                   (ParseCreate returned nullptr: header ignored)
//         ok <n> o:l ... | <ret> <m> o:l ...     (parsed specs, then canonize()'s return value and the canonical specs)
#include "squid.h"
#include "HttpHeaderRange.h"
#include "SquidString.h"
#include "hcommon.h"

#include <cstdlib>

static void dumpSpecs(std::ostream &o, const HttpHdrRange &r) {
    o << r.specs.size();
    for (const auto *s : r.specs)
        o << " " << s->offset << ":" << s->length;
}

int main() {
    std::string line;
    while (std::getline(std::cin, line)) {
        auto a = splitws(line);
        if (a.empty()) { std::cout << "\n"; continue; }
        std::ostringstream o;
        try {
            if (a[0] == "range" && a.size() == 3) {
                const std::string raw = unhex(a[1]);
                const int64_t clen = static_cast<int64_t>(std::strtoll(a[2].c_str(), nullptr, 10));
                String value;
                if (!raw.empty())
                    value.assign(raw.data(), static_cast<int>(raw.size()));
                HttpHdrRange *r = HttpHdrRange::ParseCreate(&value);
                if (!r) {
                    o << "none";
                } else {
                    o << "ok ";
                    dumpSpecs(o, *r);
                    const int ret = r->canonize(clen);
                    o << " | " << ret << " ";
                    dumpSpecs(o, *r);
                    delete r;
                }
            } else
                o << "ERR unknown-entry " << a[0];
        } catch (const std::exception &e) { o.str(""); o << "EXC " << e.what(); }
        catch (...) { o.str(""); o << "EXC unknown"; }
        std::cout << o.str() << "\n" << std::flush;
    }
    return 0;
}
