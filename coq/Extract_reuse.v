(* Extract_reuse.v — extraction of the store/reuse decision model (ExtrOcamlBasic only). *)
Require Import ExtrOcamlBasic.
Require Import SquidV.Bytes SquidV.HopModel SquidV.ReuseModel.
Extraction "m_reuse.ml" cc_items join_values cc_parse cc_of_values parse_int parse_quoted has_list_member
  default_config plain_hstate reusable_reply first_entry second_request two_requests first_arrivals q_cachable
  q_flag_no_cache s_no_cache.
