(* PipetunnelModel.v — executable models for C05 (pipelined responses) and C06 (CONNECT tunnels).

   Part 1 (C05): the client-connection manager's response sequencing:
     Pipeline::add/front/popMe (src/Pipeline.cc), ConnStateData::parseRequests /
     concurrentRequestQueueFilled / handleRequestBodyData / kick / afterClientWrite,
     clientSocketRecipient, ClientSocketContextPushDeferredIfNeeded (src/client_side.cc),
     Http::One::Server::handleReply (src/servers/Http1Server.cc),
     Http::Stream::writeComplete / pullData / finished / deferRecipientForLater (src/http/Stream.cc).
   Part 2 (C06): the blind tunnel of src/tunnel.cc:
     tunnelStartShoveling, copyClientBytes/copyServerBytes (pre-read bytes), copyRead, readClient/readServer,
     keepGoingAfterRead, copy, writeServerDone/writeClientDone, Connection::dataSent/error,
     clientClosed/serverClosed/finishWritingAndDelete, tunnelTimeout/closeConnections.

   Executable definitions only. Asynchrony (Comm reads/writes, store callbacks, close handlers) is an explicit
   list of events; every function is total: an event that is not enabled in a state leaves it unchanged.
   Assertions of the C++ code that the model can reach are modelled by a `crashed` flag. *)
Require Import SquidV.Bytes.
Require Import SquidV.gen.Pipetunnel_gen.
Local Open Scope N_scope.

(* ===================================================================================== *)
(* Part 1: pipeline of responses on one client connection                                 *)
(* ===================================================================================== *)

(* One client request as the connection manager sees it. rq_resp is what the request's client stream
   (store / origin / error page) hands to clientSocketRecipient, one element per callback; each element is
   written to the socket by one Comm::Write (head + first body block, then body blocks of at most
   HTTP_REQBUF_SZ, then possibly a last-chunk). *)
Record req := mkReq {
  rq_id : N;
  rq_body : N;            (* request body bytes announced by Content-Length (0: no body) *)
  rq_keep : bool;         (* request->flags.proxyKeepalive when the response completes *)
  rq_resp : list bytes
}.

Definition resp_bytes (r : req) : bytes := concat (rq_resp r).

(* what has arrived in ConnStateData::inBuf and is not consumed yet *)
Inductive item :=
| IHead (r : req)         (* one complete request head *)
| IBody (n : N).          (* n request-body bytes *)

Record stream := mkStream {
  st_req : req;
  st_todo : list bytes;          (* elements the client stream has not delivered yet *)
  st_taken : list bytes;         (* ghost: elements already delivered to clientSocketRecipient, oldest first *)
  st_deferred : option bytes;    (* flags.deferred / deferredparams (never cleared by the code) *)
  st_waiting : bool;             (* a clientStreamRead is outstanding: the stream will call back *)
  st_outsz : N                   (* http->out.size *)
}.

Record conn := mkConn {
  c_inbuf : list item;           (* inBuf *)
  c_pipe : list stream;          (* Pipeline::requests *)
  c_nreq : N;                    (* Pipeline::nrequests *)
  c_bodyneed : N;                (* bodyPipe: request-body bytes still to be received (0: no bodyPipe) *)
  c_readmore : bool;             (* flags.readMore *)
  c_open : bool;                 (* Comm::IsConnOpen(clientConnection) *)
  c_writing : option bytes;      (* pending Comm::Write on the client socket *)
  c_out : bytes;                 (* bytes written to the client socket so far *)
  c_done : list req;             (* ghost: requests whose stream finished(), oldest first *)
  c_seen : list req;             (* ghost: every request head that entered inBuf, oldest first *)
  c_crashed : bool               (* an assert() of the modelled code failed *)
}.

Definition conn0 : conn := mkConn [] [] 0 0 true true None [] [] [] false.

Definition set_crashed (c : conn) : conn :=
  mkConn (c_inbuf c) (c_pipe c) (c_nreq c) (c_bodyneed c) (c_readmore c) (c_open c) (c_writing c) (c_out c)
         (c_done c) (c_seen c) true.
Definition set_pipe (p : list stream) (c : conn) : conn :=
  mkConn (c_inbuf c) p (c_nreq c) (c_bodyneed c) (c_readmore c) (c_open c) (c_writing c) (c_out c)
         (c_done c) (c_seen c) (c_crashed c).

(* Http::Stream constructor + registerWithConn + clientProcessRequest: the stream will be called back *)
Definition new_stream (r : req) : stream := mkStream r (rq_resp r) [] None true 0.

(* ConnStateData::concurrentRequestQueueFilled: existingRequestCount >= pipelinePrefetchMax() + 1 *)
Definition queue_filled (pf : N) (c : conn) : bool := (pf + 1) <=? lenN (c_pipe c).

(* ConnStateData::handleRequestBodyData (identity encoding): bodyPipe->putMoreData takes what is there *)
Fixpoint feed_body (need : N) (l : list item) : N * list item :=
  match l with
  | IBody n :: rest =>
      if need =? 0 then (need, l)
      else if n <=? need then feed_body (need - n) rest
      else (0, IBody (n - need) :: rest)
  | _ => (need, l)
  end.

(* ConnStateData::parseRequests: while (!inBuf.isEmpty() && !bodyPipe && flags.readMore) *)
Fixpoint parse_requests (fuel : nat) (pf : N) (c : conn) : conn :=
  match fuel with
  | O => c
  | S f =>
      match c_inbuf c with
      | [] => c
      | it :: rest =>
          if negb (c_bodyneed c =? 0) || negb (c_readmore c) then c
          else if queue_filled pf c then c                       (* break: max concurrent requests reached *)
          else match it with
               | IBody _ => c    (* not a request head: parseOneRequest() needs more data *)
               | IHead r =>
                   (* parseOneRequest + registerWithConn (Pipeline::add) + processParsedRequest *)
                   let c1 := mkConn rest (c_pipe c ++ [new_stream r]) (c_nreq c + 1) 0 (c_readmore c) (c_open c)
                                    (c_writing c) (c_out c) (c_done c) (c_seen c) (c_crashed c) in
                   if rq_body r =? 0 then parse_requests f pf c1
                   else
                     (* expectRequestBody + handleRequestBodyData *)
                     let '(need, rest') := feed_body (rq_body r) rest in
                     let c2 := mkConn rest' (c_pipe c1) (c_nreq c1) need (c_readmore c1) (c_open c1)
                                      (c_writing c1) (c_out c1) (c_done c1) (c_seen c1) (c_crashed c1) in
                     if need =? 0 then parse_requests f pf c2
                     else c2     (* context->mayUseConnection(true): stop parsing *)
               end
      end
  end.

Definition parse_fuel (c : conn) : nat := S (length (c_inbuf c)).

Definition heads (l : list item) : list req :=
  flat_map (fun it => match it with IHead r => [r] | IBody _ => [] end) l.

(* Comm read completion: ConnStateData::handleReadData (body first) then afterClientRead -> parseRequests *)
Definition on_read (pf : N) (items : list item) (c : conn) : conn :=
  let inb := c_inbuf c ++ items in
  let seen := c_seen c ++ heads items in
  if negb (c_open c) then
    mkConn inb (c_pipe c) (c_nreq c) (c_bodyneed c) (c_readmore c) (c_open c) (c_writing c) (c_out c)
           (c_done c) seen (c_crashed c)
  else
    let '(need, inb') := if c_bodyneed c =? 0 then (0, inb) else feed_body (c_bodyneed c) inb in
    let c1 := mkConn inb' (c_pipe c) (c_nreq c) need (c_readmore c) (c_open c) (c_writing c) (c_out c)
                     (c_done c) seen (c_crashed c) in
    parse_requests (parse_fuel c1) pf c1.

(* Comm::Write via ConnStateData::write: at most one write may be pending (Comm::Write asserts it) *)
Definition start_write (ch : bytes) (c : conn) : conn :=
  match c_writing c with
  | Some _ => set_crashed c
  | None => mkConn (c_inbuf c) (c_pipe c) (c_nreq c) (c_bodyneed c) (c_readmore c) (c_open c) (Some ch) (c_out c)
                   (c_done c) (c_seen c) (c_crashed c)
  end.

(* first stream of l whose request id is i: (streams before it, the stream, streams after it) *)
Fixpoint pick (i : N) (l : list stream) : option (list stream * stream * list stream) :=
  match l with
  | [] => None
  | s :: rest =>
      if rq_id (st_req s) =? i then Some ([], s, rest)
      else match pick i rest with
           | Some (b, x, a) => Some (s :: b, x, a)
           | None => None
           end
  end.

(* the client stream of request i calls clientSocketRecipient with its next element *)
Definition on_data (i : N) (c : conn) : conn :=
  if negb (c_open c) then c            (* "do not try to deliver if client already ABORTED" *)
  else match c_pipe c with
  | [] => c
  | f :: tl =>
      if rq_id (st_req f) =? i then
        (* context == pipeline.front(): handleReply -> sendStartOfMessage / sendBody -> write *)
        if st_waiting f then
          match st_todo f with
          | [] => c
          | ch :: more =>
              let f' := mkStream (st_req f) more (st_taken f ++ [ch]) (st_deferred f) false (st_outsz f) in
              start_write ch (set_pipe (f' :: tl) c)
          end
        else c
      else
        match pick i tl with
        | None => c
        | Some (b, s, a) =>
            if st_waiting s then
              match st_todo s with
              | [] => c
              | ch :: more =>
                  (* context != pipeline.front(): deferRecipientForLater, assert(flags.deferred == 0) *)
                  match st_deferred s with
                  | Some _ => set_crashed c
                  | None =>
                      let s' := mkStream (st_req s) more (st_taken s ++ [ch]) (Some ch) false (st_outsz s) in
                      set_pipe (f :: b ++ s' :: a) c
                  end
              end
            else c
        end
  end.

(* ConnStateData::kick after a finished response: parseRequests, then
   ClientSocketContextPushDeferredIfNeeded(pipeline.front()) *)
Definition kick (pf : N) (c : conn) : conn :=
  if negb (c_open c) then c
  else
    let c1 := parse_requests (parse_fuel c) pf c in
    match c_pipe c1 with
    | [] => c1                          (* readNextRequest *)
    | f :: _ =>
        match st_deferred f with
        | None => c1
        | Some ch =>
            (* assert(deferredRequest->http->out.size == 0); clientSocketRecipient again: now front *)
            if st_outsz f =? 0 then start_write ch c1 else set_crashed c1
        end
    end.

(* the pending Comm::Write completes: afterClientWrite -> pipeline.front()->writeComplete(size) *)
Definition on_wrote (pf : N) (c : conn) : conn :=
  if negb (c_open c) then c
  else match c_writing c with
  | None => c
  | Some ch =>
      let out := c_out c ++ ch in
      match c_pipe c with
      | [] => mkConn (c_inbuf c) [] (c_nreq c) (c_bodyneed c) (c_readmore c) (c_open c) None out
                     (c_done c) (c_seen c) (c_crashed c)
      | f :: tl =>
          let f' := mkStream (st_req f) (st_todo f) (st_taken f) (st_deferred f) (st_waiting f)
                             (st_outsz f + lenN ch) in
          match st_todo f with
          | _ :: _ =>
              (* STREAM_NONE: pullData *)
              let f'' := mkStream (st_req f') (st_todo f') (st_taken f') (st_deferred f') true (st_outsz f') in
              mkConn (c_inbuf c) (f'' :: tl) (c_nreq c) (c_bodyneed c) (c_readmore c) (c_open c) None out
                     (c_done c) (c_seen c) (c_crashed c)
          | [] =>
              (* STREAM_COMPLETE: if (!proxyKeepalive) clientConnection->close(); finished() (popMe asserts
                 which == requests.front(): `this` is the front here by construction); c->kick() *)
              let c1 := mkConn (c_inbuf c) tl (c_nreq c) (c_bodyneed c) (c_readmore c)
                               (rq_keep (st_req f)) None out
                               (c_done c ++ [st_req f]) (c_seen c) (c_crashed c) in
              kick pf c1
          end
      end
  end.

Inductive pev :=
| ERead (items : list item)     (* bytes arrived from the client *)
| EData (i : N)                 (* the client stream of request i delivers its next element *)
| EWrote.                       (* the pending socket write completed *)

Definition pstep (pf : N) (e : pev) (c : conn) : conn :=
  match e with
  | ERead items => on_read pf items c
  | EData i => on_data i c
  | EWrote => on_wrote pf c
  end.

Definition prun (pf : N) (evs : list pev) (c : conn) : conn := fold_left (fun c e => pstep pf e c) evs c.

(* every request head the client sent, in order *)
Definition reqs_of (evs : list pev) : list req :=
  flat_map (fun e => match e with ERead items => heads items | _ => [] end) evs.

(* a fair scheduler used by the correspondence runner to finish a run: completes the pending write, then lets
   every stream in the pipeline deliver, round after round *)
Fixpoint drain (fuel : nat) (pf : N) (c : conn) : conn :=
  match fuel with
  | O => c
  | S f =>
      let c1 := on_wrote pf c in
      let c2 := fold_left (fun c s => on_data (rq_id (st_req s)) c) (c_pipe c1) c1 in
      drain f pf c2
  end.

(* response elements of a message of `n` bytes all equal to `b`: blocks of HTTP_REQBUF_SZ *)
Fixpoint chunks_of (fuel : nat) (sz : N) (l : bytes) : list bytes :=
  match fuel with
  | O => match l with [] => [] | _ => [l] end
  | S f => match l with
           | [] => []
           | _ => takeN sz l :: chunks_of f sz (dropN sz l)
           end
  end.

Definition mk_resp (b : N) (n : N) : list bytes :=
  let l := repeat b (N.to_nat n) in
  chunks_of (S (N.to_nat (n / gen_http_reqbuf_sz))) gen_http_reqbuf_sz l.

(* run-length form of a byte string: (byte, count) *)
Fixpoint rle (l : bytes) (acc : list (N * N)) : list (N * N) :=
  match l with
  | [] => rev acc
  | b :: r => match acc with
              | (b', n) :: acc' => if b =? b' then rle r ((b', n + 1) :: acc') else rle r ((b, 1) :: acc)
              | [] => rle r [(b, 1)]
              end
  end.

Definition pipe_ids (c : conn) : list N := map (fun s => rq_id (st_req s)) (c_pipe c).

(* ===================================================================================== *)
(* Part 2: CONNECT tunnel                                                                 *)
(* ===================================================================================== *)

Inductive sd := Cl | Sv.
Definition other (x : sd) : sd := match x with Cl => Sv | Sv => Cl end.

(* TunnelStateData::Connection plus the peer at the other end of its socket *)
Record side := mkSide {
  s_open : bool;        (* Comm::IsConnOpen(conn) *)
  s_noted : bool;       (* the close handler ran: Connection::noteClosure() *)
  s_buf : bytes;        (* buf[0..len): bytes read from this side, to be written to the other side *)
  s_pre : bytes;        (* preReadClientData / preReadServerData *)
  s_writer : bool;      (* writer: a Comm::Write TO this side's socket is pending *)
  s_reading : bool;     (* a comm_read on this side's socket is pending *)
  s_wire : bytes;       (* environment: sent by the peer, not yet read by Squid *)
  s_fin : bool;         (* environment: the peer has shut down its sending direction *)
  s_sentby : bytes;     (* ghost: everything the peer has sent after the CONNECT head / after connecting *)
  s_recvd : bytes;      (* ghost: everything Squid has read from this side *)
  s_deliv : bytes       (* ghost: everything Squid has written to this side (after its 200 response) *)
}.

Record tun := mkTun {
  t_cl : side;
  t_sv : side;
  t_deleted : bool;     (* deleteThis() ran *)
  t_crashed : bool      (* an assertion of the modelled code failed / a buffer would be overwritten *)
}.

Definition gs (x : sd) (t : tun) : side := match x with Cl => t_cl t | Sv => t_sv t end.
Definition ss (x : sd) (s : side) (t : tun) : tun :=
  match x with
  | Cl => mkTun s (t_sv t) (t_deleted t) (t_crashed t)
  | Sv => mkTun (t_cl t) s (t_deleted t) (t_crashed t)
  end.
Definition tcrash (t : tun) : tun := mkTun (t_cl t) (t_sv t) (t_deleted t) true.
Definition tdelete (t : tun) : tun := mkTun (t_cl t) (t_sv t) true (t_crashed t).

(* conn->close(): IsConnOpen() is false at once; the pending read and write callbacks fire with
   Comm::ERR_CLOSING (readClient/readServer return, Write*Done only clear `writer`); the close handler
   (TClosed below) runs later *)
Definition close_conn (x : sd) (t : tun) : tun :=
  let s := gs x t in
  if s_open s then
    ss x (mkSide false (s_noted s) (s_buf s) (s_pre s) false false (s_wire s) (s_fin s) (s_sentby s)
                 (s_recvd s) (s_deliv s)) t
  else t.

(* TunnelStateData::keepGoingAfterRead(len, errcode, xerrno, from, to) *)
Definition keep_going (len : N) (err : bool) (from : sd) (t : tun) : bool * tun :=
  let to := other from in
  if err then (false, close_conn from t)                       (* from.error(xerrno) *)
  else if len =? 0 then
    let t1 := close_conn from t in
    (* Only close the remote end if we've finished queueing data to it *)
    (false, if (lenN (s_buf (gs from t1)) =? 0) && s_open (gs to t1) then close_conn to t1 else t1)
  else if negb (s_open (gs to t)) then (false, close_conn from t)   (* destination is gone *)
  else (true, t).

(* TunnelStateData::copy: to.write(from.buf, len, ...) *)
Definition copy_to (to : sd) (t : tun) : tun :=
  let s := gs to t in
  ss to (mkSide (s_open s) (s_noted s) (s_buf s) (s_pre s) true (s_reading s) (s_wire s) (s_fin s)
                (s_sentby s) (s_recvd s) (s_deliv s)) t.

(* copyClientBytes / copyServerBytes for side `from` (includes copyRead; no delay pools) *)
Definition copy_bytes (from : sd) (t : tun) : tun :=
  let s := gs from t in
  match s_buf s with
  | _ :: _ => tcrash t        (* copyRead: assert(from.len == 0); pre-read memcpy would overwrite buf *)
  | [] =>
      match s_pre s with
      | _ :: _ =>
          let n := N.min (lenN (s_pre s)) gen_tunnel_bufsz in
          let t1 := ss from (mkSide (s_open s) (s_noted s) (takeN n (s_pre s)) (dropN n (s_pre s)) (s_writer s)
                                    (s_reading s) (s_wire s) (s_fin s) (s_sentby s) (s_recvd s) (s_deliv s)) t in
          let '(k, t2) := keep_going n false from t1 in
          if k then copy_to (other from) t2 else t2
      | [] =>
          ss from (mkSide (s_open s) (s_noted s) (s_buf s) (s_pre s) (s_writer s) true (s_wire s) (s_fin s)
                          (s_sentby s) (s_recvd s) (s_deliv s)) t
      end
  end.

(* readClient / readServer: the pending comm_read on x completes *)
Definition on_tread (x : sd) (n : N) (t : tun) : tun :=
  let s := gs x t in
  if t_deleted t || negb (s_reading s && s_open s) then t
  else match s_wire s with
  | [] =>
      if s_fin s then
        (* zero-byte read *)
        let t1 := ss x (mkSide (s_open s) (s_noted s) (s_buf s) (s_pre s) (s_writer s) false (s_wire s) (s_fin s)
                               (s_sentby s) (s_recvd s) (s_deliv s)) t in
        snd (keep_going 0 false x t1)
      else t
  | _ :: _ =>
      let m := N.min (N.max n 1) (N.min gen_tunnel_bufsz (lenN (s_wire s))) in
      let d := takeN m (s_wire s) in
      (* Connection::bytesIn(len): the data is in buf[0..len) *)
      let t1 := ss x (mkSide (s_open s) (s_noted s) d (s_pre s) (s_writer s) false (dropN m (s_wire s)) (s_fin s)
                             (s_sentby s) (s_recvd s ++ d) (s_deliv s)) t in
      let '(k, t2) := keep_going m false x t1 in
      if k then copy_to (other x) t2 else t2
  end.

Definition on_treaderr (x : sd) (t : tun) : tun :=
  let s := gs x t in
  if t_deleted t || negb (s_reading s && s_open s) then t
  else
    let t1 := ss x (mkSide (s_open s) (s_noted s) (s_buf s) (s_pre s) (s_writer s) false (s_wire s) (s_fin s)
                           (s_sentby s) (s_recvd s) (s_deliv s)) t in
    snd (keep_going 0 true x t1).

(* WriteServerDone / WriteClientDone with Comm::OK: the write TO side x of the other side's buf completed *)
Definition on_twrote (x : sd) (t : tun) : tun :=
  let s := gs x t in
  if t_deleted t || negb (s_writer s && s_open s) then t
  else
    let from := other x in
    let d := s_buf (gs from t) in
    let t1 := ss x (mkSide (s_open s) (s_noted s) (s_buf s) (s_pre s) false (s_reading s) (s_wire s) (s_fin s)
                           (s_sentby s) (s_recvd s) (s_deliv s ++ d)) t in
    if lenN d =? 0 then close_conn x t1                       (* "EOF?" branch: len == 0 *)
    else
      let sf := gs from t1 in
      (* from.dataSent(len): assert(amount == len); len = 0 *)
      let t2 := ss from (mkSide (s_open sf) (s_noted sf) [] (s_pre sf) (s_writer sf) (s_reading sf) (s_wire sf)
                                (s_fin sf) (s_sentby sf) (s_recvd sf) (s_deliv sf)) t1 in
      if negb (s_open (gs from t2)) then close_conn x t2      (* "If the other end has closed, so should we" *)
      else copy_bytes from t2.

(* Write*Done with an error after k bytes reached the socket: x.error(xerrno) closes x *)
Definition on_twriteerr (x : sd) (k : N) (t : tun) : tun :=
  let s := gs x t in
  if t_deleted t || negb (s_writer s && s_open s) then t
  else
    let d := takeN k (s_buf (gs (other x) t)) in
    let t1 := ss x (mkSide (s_open s) (s_noted s) (s_buf s) (s_pre s) false (s_reading s) (s_wire s) (s_fin s)
                           (s_sentby s) (s_recvd s) (s_deliv s ++ d)) t in
    close_conn x t1.

(* clientClosed / serverClosed: noteClosure(); finishWritingAndDelete(other side) *)
Definition on_tclosed (x : sd) (t : tun) : tun :=
  let s := gs x t in
  if t_deleted t || s_open s || s_noted s then t
  else
    let t1 := ss x (mkSide (s_open s) true (s_buf s) (s_pre s) false (s_reading s) (s_wire s) (s_fin s)
                           (s_sentby s) (s_recvd s) (s_deliv s)) t in
    let o := other x in
    if negb (s_open (gs Cl t1)) && negb (s_open (gs Sv t1)) then tdelete t1     (* noConnections(): deleteThis() *)
    else if s_writer (gs o t1) then t1        (* wait: the write completion callback closes the connection *)
    else close_conn o t1.

(* tunnelTimeout: closeConnections() *)
Definition on_ttimeout (t : tun) : tun :=
  if t_deleted t then t else close_conn Cl (close_conn Sv t).

(* environment *)
Definition on_tsend (x : sd) (d : bytes) (t : tun) : tun :=
  let s := gs x t in
  if s_fin s then t
  else ss x (mkSide (s_open s) (s_noted s) (s_buf s) (s_pre s) (s_writer s) (s_reading s) (s_wire s ++ d) (s_fin s)
                    (s_sentby s ++ d) (s_recvd s) (s_deliv s)) t.
Definition on_tfin (x : sd) (t : tun) : tun :=
  let s := gs x t in
  ss x (mkSide (s_open s) (s_noted s) (s_buf s) (s_pre s) (s_writer s) (s_reading s) (s_wire s) true
               (s_sentby s) (s_recvd s) (s_deliv s)) t.

Inductive tev :=
| TSend (x : sd) (d : bytes)    (* the peer of side x sends d *)
| TFin (x : sd)                 (* the peer of side x shuts down its sending direction *)
| TRead (x : sd) (n : N)        (* Squid's pending read on x completes with at most n bytes *)
| TReadErr (x : sd)             (* ... or with an error *)
| TWrote (x : sd)               (* Squid's pending write to x completes *)
| TWriteErr (x : sd) (k : N)    (* ... or fails after k bytes *)
| TClosed (x : sd)              (* the close handler of x runs *)
| TTimeout.

Definition tstep (e : tev) (t : tun) : tun :=
  match e with
  | TSend x d => on_tsend x d t
  | TFin x => on_tfin x t
  | TRead x n => on_tread x n t
  | TReadErr x => on_treaderr x t
  | TWrote x => on_twrote x t
  | TWriteErr x k => on_twriteerr x k t
  | TClosed x => on_tclosed x t
  | TTimeout => on_ttimeout t
  end.

Definition trun (evs : list tev) (t : tun) : tun := fold_left (fun t e => tstep e t) evs t.

Definition side0 (pre : bytes) : side := mkSide true false [] pre false false [] false pre pre [].

(* tunnelStartShoveling after the 200 response was written: copyServerBytes(); the unparsed rest of
   ConnStateData::inBuf (`early`) becomes preReadClientData; copyClientBytes() *)
Definition tun_start (early : bytes) : tun :=
  copy_bytes Cl (copy_bytes Sv (mkTun (side0 early) (side0 []) false false)).

Definition is_err (e : tev) : bool :=
  match e with TReadErr _ | TWriteErr _ _ | TTimeout => true | _ => false end.
Definition is_fin_of (x : sd) (e : tev) : bool :=
  match e, x with TFin Cl, Cl => true | TFin Sv, Sv => true | _, _ => false end.

(* scheduler used by the correspondence runner: completes pending reads/writes and close handlers until
   nothing changes any more (fuel rounds) *)
Definition tround (t : tun) : tun :=
  fold_left (fun t e => tstep e t)
            [TWrote Sv; TWrote Cl; TRead Cl gen_tunnel_bufsz; TRead Sv gen_tunnel_bufsz; TClosed Cl; TClosed Sv] t.
Fixpoint tsettle (fuel : nat) (t : tun) : tun :=
  match fuel with O => t | S f => tsettle f (tround t) end.
