(* HopProofs.v — proofs for C04 *)
Require Import SquidV.Bytes SquidV.HopModel.
Require Import SquidV.gen.HdrTable_gen.
Require Import ZifyBool.
Local Open Scope N_scope.

(* ---------- reference reading of a token list: comma split, OWS trim, empty elements dropped ---------- *)
Definition is_ows (c : N) : bool := (c =? 32) || (c =? 9).
Fixpoint split_on (d : N) (l : bytes) (cur : bytes) : list bytes :=
  match l with
  | [] => [rev cur]
  | c :: r => if c =? d then rev cur :: split_on d r [] else split_on d r (c :: cur)
  end.
Definition trim_ows (l : bytes) : bytes := rev (drop_while is_ows (rev (drop_while is_ows l))).
Definition nonempty (l : bytes) : bool := match l with [] => false | _ => true end.
Definition ref_items (l : bytes) : list bytes := filter nonempty (map trim_ows (split_on 44 l [])).

(* "simple" list text: no DQUOTE, no NUL, and no whitespace other than SP / HTAB *)
Definition simple_char (c : N) : bool :=
  negb (c =? 34) && negb (c =? 0) && negb ((10 <=? c) && (c <=? 13)).
Definition simple (l : bytes) : bool := forallb simple_char l.

Lemma drop_while_ext p q l : (forall c, In c l -> p c = q c) -> drop_while p l = drop_while q l.
Proof.
  induction l as [|c r IH]; intros H; cbn [drop_while]; [reflexivity|].
  rewrite <- (H c (or_introl eq_refl)). destruct (p c); [apply IH; intros; apply H; now right|reflexivity].
Qed.

Lemma split_on_acc d l cur :
  split_on d l cur = match split_on d l [] with [] => [] | a :: t => (rev cur ++ a) :: t end.
Proof.
  revert cur. induction l as [|c r IH]; intros cur; cbn [split_on].
  - cbn. now rewrite app_nil_r.
  - destruct (c =? d) eqn:E; [cbn; now rewrite app_nil_r|].
    rewrite IH. rewrite (IH [c]). destruct (split_on d r []) as [|a t]; [reflexivity|].
    cbn [rev app]. now rewrite <- app_assoc.
Qed.

Lemma split_on_nonnil d l cur : split_on d l cur <> [].
Proof. revert cur; induction l as [|c r IH]; intros cur; cbn [split_on]; [discriminate|]. destruct (c =? d); [discriminate|apply IH]. Qed.

(* scanning without quotes is a plain search for the next comma *)
Lemma scan_simple l acc :
  simple l = true ->
  scan_item 44 false l acc =
  (rev acc ++ fst (span (fun c => negb (c =? 44)) l), snd (span (fun c => negb (c =? 44)) l)).
Proof.
  revert acc. induction l as [|c r IH]; intros acc Hs; cbn [scan_item span].
  - cbn. now rewrite app_nil_r.
  - cbn [simple forallb] in Hs. apply andb_prop in Hs. destruct Hs as [Hc Hr].
    unfold simple_char in Hc.
    destruct (c =? 34) eqn:E34; [cbn in Hc; discriminate|].
    replace ((c =? 44) || (c =? 44)) with (c =? 44) by (destruct (c =? 44); reflexivity).
    destruct (c =? 44) eqn:E44; cbn [negb].
    + cbn. now rewrite app_nil_r.
    + rewrite IH by exact Hr. destruct (span _ r) as [a b]. cbn [fst snd rev].
      now rewrite <- app_assoc.
Qed.

Lemma simple_app a b : simple (a ++ b) = simple a && simple b.
Proof. unfold simple. apply forallb_app. Qed.

Lemma span_parts {A} (p : A -> bool) l : l = fst (span p l) ++ snd (span p l).
Proof. symmetry; apply span_app. Qed.

Lemma simple_span_fst p l : simple l = true -> simple (fst (span p l)) = true.
Proof. intros H. rewrite (span_parts p l), simple_app in H. now apply andb_prop in H. Qed.
Lemma simple_span_snd p l : simple l = true -> simple (snd (span p l)) = true.
Proof. intros H. rewrite (span_parts p l), simple_app in H. now apply andb_prop in H. Qed.

Lemma simple_drop p l : simple l = true -> simple (drop_while p l) = true.
Proof.
  induction l as [|c r IH]; intros H; cbn [drop_while]; [reflexivity|].
  destruct (p c); [|exact H]. apply IH. cbn [simple forallb] in H. now apply andb_prop in H.
Qed.

(* on simple text, left-trimming by delim[2] only meets SP, HTAB and commas *)
Lemma delim2_simple c : simple_char c = true -> is_delim2 44 c = is_ows c || (c =? 44).
Proof. unfold simple_char, is_delim2, is_ows. intros H. lia. Qed.
Lemma xspace_simple c : simple_char c = true -> is_xspace c = is_ows c.
Proof. unfold simple_char, is_xspace, is_ows. intros H. lia. Qed.

Lemma rtrim_simple a : simple a = true -> rtrim a = rev (drop_while is_ows (rev a)).
Proof.
  intros H. unfold rtrim. f_equal. apply drop_while_ext. intros c Hc.
  apply xspace_simple. unfold simple in H. rewrite forallb_forall in H. apply H. now apply in_rev.
Qed.

(* split_on on a string with no comma *)
Lemma split_no_comma l : forallb (fun c => negb (c =? 44)) l = true -> split_on 44 l [] = [l].
Proof.
  intros H. assert (G : forall cur, split_on 44 l cur = [rev cur ++ l]).
  { induction l as [|c r IH]; intros cur; cbn [split_on]; [now rewrite app_nil_r|].
    cbn [forallb] in H. apply andb_prop in H. destruct H as [Hc Hr].
    destruct (c =? 44); [discriminate|]. rewrite (IH Hr). cbn [rev]. now rewrite <- app_assoc. }
  now rewrite G.
Qed.

Lemma split_on_app_comma a b :
  forallb (fun c => negb (c =? 44)) a = true ->
  split_on 44 (a ++ 44 :: b) [] = a :: split_on 44 b [].
Proof.
  intros H. assert (G : forall cur, split_on 44 (a ++ 44 :: b) cur = (rev cur ++ a) :: split_on 44 b []).
  { induction a as [|c r IH]; intros cur; cbn [app split_on].
    - now rewrite N.eqb_refl, app_nil_r.
    - cbn [forallb] in H. apply andb_prop in H. destruct H as [Hc Hr].
      destruct (c =? 44); [discriminate|]. rewrite (IH Hr). cbn [rev]. now rewrite <- app_assoc. }
  now rewrite G.
Qed.

(* dropping one leading delimiter character does not change the reference reading *)
Lemma ref_items_drop1 c r :
  (is_ows c || (c =? 44)) = true -> ref_items (c :: r) = ref_items r.
Proof.
  intros H. unfold ref_items. cbn [split_on].
  destruct (c =? 44) eqn:E.
  - cbn [rev map filter]. unfold trim_ows at 1. cbn. reflexivity.
  - cbn [orb] in H. rewrite orb_false_r in H.
    rewrite (split_on_acc 44 r [c]). destruct (split_on 44 r []) as [|a t] eqn:Es; [reflexivity|].
    cbn [rev app map]. f_equal. f_equal.
    unfold trim_ows. cbn [drop_while]. now rewrite H.
Qed.

Lemma ref_items_drop l : simple l = true -> ref_items (drop_while (is_delim2 44) l) = ref_items l.
Proof.
  induction l as [|c r IH]; intros H; cbn [drop_while]; [reflexivity|].
  cbn [simple forallb] in H. apply andb_prop in H. destruct H as [Hc Hr].
  destruct (is_delim2 44 c) eqn:E; [|reflexivity].
  rewrite (IH Hr). symmetry. apply ref_items_drop1. now rewrite <- delim2_simple.
Qed.

Lemma span_fst_all {A} (p : A -> bool) l : forallb p (fst (span p l)) = true.
Proof. apply span_all. Qed.

Lemma trim_first_nonows c a :
  is_ows c = false -> trim_ows (c :: a) = rev (drop_while is_ows (rev (c :: a))).
Proof. intros H. unfold trim_ows. cbn [drop_while]. now rewrite H. Qed.

Lemma drop_while_rev_nonempty c a : is_ows c = false -> rev (drop_while is_ows (rev (c :: a))) <> [].
Proof.
  intros H Hn. assert (E : drop_while is_ows (rev (c :: a)) = []) by (now rewrite <- (rev_involutive (drop_while _ _)), Hn).
  cbn [rev] in E.
  assert (G : forall l, drop_while is_ows (l ++ [c]) <> []).
  { induction l as [|x l IH]; cbn [app drop_while]; [now rewrite H|]. destruct (is_ows x); [exact IH|discriminate]. }
  exact (G _ E).
Qed.

Lemma items_fuel_S f del l :
  items_fuel (S f) del l =
  let l1 := drop_while (is_delim2 del) l in
  let '(item, rest) := scan_item del false l1 [] in
  match rtrim item with
  | [] => []
  | it => it :: items_fuel f del rest
  end.
Proof. reflexivity. Qed.

(* one iteration of the items loop against the reference, for text whose first character is not a delimiter *)
Lemma items_step f l :
  simple l = true -> (length l <= f)%nat ->
  items_fuel (S f) 44 l = ref_items l.
Proof.
  revert l. induction f as [|f IH]; intros l Hs Hlen.
  - destruct l; [|cbn in Hlen; lia]. reflexivity.
  - rewrite items_fuel_S. cbn zeta.
    rewrite <- (ref_items_drop l Hs).
    pose proof (simple_drop (is_delim2 44) l Hs) as Hs1.
    assert (Hl1 : (length (drop_while (is_delim2 44) l) <= length l)%nat).
    { clear. induction l as [|c r IHl]; cbn [drop_while length]; [lia|]. destruct (is_delim2 44 c); cbn [length]; lia. }
    assert (Hhead : match drop_while (is_delim2 44) l with [] => True | c :: _ => is_delim2 44 c = false end).
    { clear. induction l as [|c r IHl]; cbn [drop_while]; [exact I|]. destruct (is_delim2 44 c) eqn:E; [exact IHl|exact E]. }
    set (l1 := drop_while (is_delim2 44) l) in *. clearbody l1.
    rewrite (scan_simple l1 [] Hs1). cbn [rev app].
    destruct l1 as [|c r].
    { reflexivity. }
    pose proof (span_parts (fun c => negb (c =? 44)) (c :: r)) as Hparts.
    pose proof (span_fst_all (fun c => negb (c =? 44)) (c :: r)) as Hall.
    pose proof (span_stop (fun c => negb (c =? 44)) (c :: r)) as Hstop.
    pose proof (simple_span_fst (fun c => negb (c =? 44)) (c :: r) Hs1) as Hsa.
    pose proof (simple_span_snd (fun c => negb (c =? 44)) (c :: r) Hs1) as Hsb.
    assert (Hc : simple_char c = true) by (cbn [simple forallb] in Hs1; now apply andb_prop in Hs1).
    assert (Hc44 : (c =? 44) = false /\ is_ows c = false).
    { rewrite (delim2_simple c Hc) in Hhead. destruct (is_ows c); destruct (c =? 44); cbn in Hhead; try discriminate; tauto. }
    destruct Hc44 as [Hc44 Hcows].
    cbn [span] in *. rewrite Hc44 in *. cbn [negb] in *.
    destruct (span (fun c0 => negb (c0 =? 44)) r) as [a b] eqn:Esp. cbn [fst snd] in *.
    rewrite (rtrim_simple (c :: a) Hsa).
    destruct (rev (drop_while is_ows (rev (c :: a)))) as [|i0 it] eqn:Eit.
    { exfalso. exact (drop_while_rev_nonempty c a Hcows Eit). }
    assert (Hlenb : (length b <= f)%nat).
    { apply (f_equal (@length N)) in Hparts. cbn [length] in Hparts. rewrite app_length in Hparts. cbn [length] in *. lia. }
    rewrite (IH b Hsb Hlenb).
    rewrite Hparts. destruct b as [|k b'].
    + rewrite app_nil_r. unfold ref_items. rewrite (split_no_comma (c :: a) Hall). cbn [map].
      rewrite (trim_first_nonows c a Hcows), Eit. cbn [filter nonempty]. reflexivity.
    + assert (Hk : k = 44) by (destruct (k =? 44) eqn:Ek; [lia|discriminate]). subst k.
      rewrite (ref_items_drop1 44 b' ltac:(reflexivity)).
      change (ref_items ((c :: a) ++ 44 :: b')) with
        (filter nonempty (map trim_ows (split_on 44 ((c :: a) ++ 44 :: b') []))).
      rewrite (split_on_app_comma (c :: a) b' Hall). cbn [map].
      rewrite (trim_first_nonows c a Hcows), Eit. cbn [filter nonempty]. reflexivity.
Qed.

Lemma c_str_simple l : simple l = true -> c_str l = l.
Proof.
  unfold c_str. induction l as [|c r IH]; intros H; cbn [span]; [reflexivity|].
  cbn [simple forallb] in H. apply andb_prop in H. destruct H as [Hc Hr].
  unfold simple_char in Hc. destruct (c =? 0) eqn:E; [cbn in Hc; rewrite andb_false_r in Hc; discriminate|].
  cbn [negb]. specialize (IH Hr). destruct (span _ r) as [a b]. cbn [fst] in *. now rewrite IH.
Qed.

Theorem list_items_is_ref l : simple l = true -> list_items 44 l = ref_items l.
Proof.
  intros H. unfold list_items. rewrite (c_str_simple l H). apply items_step; [exact H|lia].
Qed.

Theorem is_member_simple lst name :
  simple lst = true -> is_member lst name = existsb (fun it => ci_eqb name it) (ref_items lst).
Proof. intros H. unfold is_member. now rewrite list_items_is_ref. Qed.

(* ---------- name lookup respects case-insensitive equality ---------- *)
Lemma ci_eqb_trans_l a : forall b c, ci_eqb a b = true -> ci_eqb a c = ci_eqb b c.
Proof.
  induction a as [|x a IH]; intros b c H; destruct b as [|y b]; cbn [ci_eqb] in *; try discriminate; [reflexivity|].
  apply andb_prop in H. destruct H as [Hxy Hab]. destruct c as [|z c]; [reflexivity|].
  cbn [ci_eqb]. rewrite (IH b c Hab). apply N.eqb_eq in Hxy. now rewrite Hxy.
Qed.

Lemma lookup_id_ci tbl a b : ci_eqb a b = true -> lookup_id tbl a = lookup_id tbl b.
Proof.
  intros H. induction tbl as [|[[id nm] fl] r IH]; cbn [lookup_id]; [reflexivity|].
  rewrite (ci_eqb_trans_l a b nm H). now rewrite IH.
Qed.

(* ---------- normalising the header-id constants against today's table ---------- *)
Ltac norm_id X := let v := eval vm_compute in X in change X with v in *.
Ltac norm_ids :=
  norm_id ID_CONNECTION; norm_id ID_KEEP_ALIVE; norm_id ID_TE; norm_id ID_TRAILER; norm_id ID_UPGRADE;
  norm_id ID_PROXY_CONNECTION; norm_id ID_PROXY_AUTHENTICATE; norm_id ID_PROXY_AUTHORIZATION;
  norm_id ID_TRANSFER_ENCODING; norm_id ID_AUTHORIZATION; norm_id ID_HOST; norm_id ID_IF_MODIFIED_SINCE;
  norm_id ID_IF_NONE_MATCH; norm_id ID_MAX_FORWARDS; norm_id ID_VIA; norm_id ID_RANGE; norm_id ID_IF_RANGE;
  norm_id ID_REQUEST_RANGE; norm_id ID_CONTENT_LENGTH; norm_id ID_X_FORWARDED_FOR; norm_id ID_CACHE_CONTROL;
  norm_id ID_FRONT_END_HTTPS.

Definition std_hop_ids : list N :=
  [ID_CONNECTION; ID_KEEP_ALIVE; ID_TE; ID_TRAILER; ID_UPGRADE; ID_PROXY_CONNECTION; ID_TRANSFER_ENCODING;
   ID_PROXY_AUTHORIZATION].

(* table facts, re-evaluated against the regenerated table on every run *)
Lemma std_hop_flagged : forallb is_hopbyhop std_hop_ids = true.
Proof. vm_compute. reflexivity. Qed.

Lemma special_ids_registered :
  forallb (fun i => negb (i =? hdr_OTHER))
    (ID_PROXY_AUTHENTICATE :: ID_AUTHORIZATION :: ID_HOST :: ID_IF_MODIFIED_SINCE :: ID_IF_NONE_MATCH :: ID_MAX_FORWARDS
     :: ID_VIA :: ID_RANGE :: ID_IF_RANGE :: ID_REQUEST_RANGE :: ID_CONTENT_LENGTH :: ID_X_FORWARDED_FOR
     :: ID_CACHE_CONTROL :: ID_FRONT_END_HTTPS :: std_hop_ids) = true.
Proof. vm_compute. reflexivity. Qed.

(* ---------- response direction ---------- *)
Theorem resp_filter_sound hs e :
  In e (resp_filter false hs) ->
  is_hopbyhop (hdr_id e) = false /\
  (hdr_id e =? ID_PROXY_AUTHENTICATE) = false /\
  is_member (conn_value (filter (fun h => negb (hdr_id h =? ID_PROXY_AUTHENTICATE)) hs)) (h_name e) = false /\
  In e hs.
Proof.
  unfold resp_filter. intros H.
  apply filter_In in H. destruct H as [H Hhop].
  apply filter_In in H. destruct H as [H Hmem].
  apply filter_In in H. destruct H as [H Hpa].
  repeat split; try assumption.
  - now destruct (is_hopbyhop (hdr_id e)).
  - now destruct (hdr_id e =? ID_PROXY_AUTHENTICATE).
  - now destruct (is_member _ (h_name e)).
Qed.

Definition std_hop_names : list (list nat) :=
  [[67;111;110;110;101;99;116;105;111;110]; [75;101;101;112;45;65;108;105;118;101]; [84;69];
   [84;114;97;105;108;101;114]; [85;112;103;114;97;100;101];
   [80;114;111;120;121;45;67;111;110;110;101;99;116;105;111;110];
   [84;114;97;110;115;102;101;114;45;69;110;99;111;100;105;110;103];
   [80;114;111;120;121;45;65;117;116;104;111;114;105;122;97;116;105;111;110];
   [80;114;111;120;121;45;65;117;116;104;101;110;116;105;99;97;116;101]]%nat.

Lemma std_names_blocked :
  forallb (fun nm => is_hopbyhop (id_of nm) || (id_of nm =? ID_PROXY_AUTHENTICATE)) std_hop_names = true.
Proof. vm_compute. reflexivity. Qed.

(* no relayed response field carries (in any letter case) one of the standard hop-by-hop names *)
Theorem resp_no_std_hop_names hs e nm :
  In e (resp_filter false hs) -> In nm std_hop_names -> ci_eqb (h_name e) (map N.of_nat nm) = false.
Proof.
  intros He Hnm. destruct (ci_eqb (h_name e) (map N.of_nat nm)) eqn:E; [|reflexivity]. exfalso.
  apply resp_filter_sound in He. destruct He as (Hhop & Hpa & _ & _).
  pose proof std_names_blocked as Hb. rewrite forallb_forall in Hb. specialize (Hb nm Hnm).
  assert (Hid : hdr_id e = id_of nm) by (unfold hdr_id, id_of; now apply lookup_id_ci).
  rewrite <- Hid in Hb. rewrite Hhop, Hpa in Hb. discriminate.
Qed.

(* ---------- request direction ---------- *)
Lemma req_walk_in cfg cv hs : forall ims h v,
  In (h, v) (req_walk cfg cv ims hs) -> exists ims', v = req_one cfg cv ims' h /\ In h hs.
Proof.
  induction hs as [|x r IH]; intros ims h v H; cbn [req_walk] in H; [contradiction|].
  destruct H as [H|H].
  - injection H as Hh Hv. subst. exists ims. split; [reflexivity|now left].
  - destruct (IH _ _ _ H) as (ims' & Hv & Hin). exists ims'. split; [exact Hv|now right].
Qed.

Lemma req_filter_in cfg hs e :
  In e (req_filter cfg hs) -> exists ims, req_one cfg (conn_value hs) ims e = Copied /\ In e hs.
Proof.
  unfold req_filter, req_verdicts. intros H. apply in_map_iff in H. destruct H as ([h v] & Hf & H). cbn in Hf. subst h.
  apply filter_In in H. destruct H as [H Hv]. cbn in Hv. destruct v; try discriminate.
  apply req_walk_in in H. destruct H as (ims & Hq & Hin). exists ims. split; [now symmetry|exact Hin].
Qed.

Ltac split_ifs :=
  repeat match goal with
         | H : context [if ?b then _ else _] |- _ => destruct b eqn:?; try discriminate H
         end.

(* the standard hop-by-hop request fields are never copied; Proxy-Authorization only to a peer with login=PASS* *)
Theorem req_filter_std cfg hs e :
  In e (req_filter cfg hs) ->
  let id := hdr_id e in
  (id =? ID_CONNECTION) = false /\ (id =? ID_TE) = false /\ (id =? ID_KEEP_ALIVE) = false /\
  (id =? ID_PROXY_AUTHENTICATE) = false /\ (id =? ID_TRAILER) = false /\ (id =? ID_TRANSFER_ENCODING) = false /\
  (id =? ID_UPGRADE) = false /\ (id =? ID_PROXY_CONNECTION) = false /\
  ((id =? ID_PROXY_AUTHORIZATION) = true -> to_origin cfg = false /\ peer_login_passes cfg = true).
Proof.
  intros H. apply req_filter_in in H. destruct H as (ims & H & _). cbn zeta.
  unfold req_one in H. set (id := hdr_id e) in *. clearbody id.
  set (mem := is_member (conn_value hs) (h_name e)) in *. clearbody mem.
  destruct cfg as [to toP plp wdr via mru tro chk feh]. cbn [to_origin to_origin_peer peer_login_passes we_do_ranges via_on
    miss_revalidate_or_uncachable is_trace_or_options chunked_request front_end_https] in *.
  norm_ids.
  split_ifs; repeat split; try lia; intros; try lia.
Qed.

(* fields handled by the default branch (every extension field and every registered field without special
   treatment) are not copied when a Connection field names them *)
Definition special_req_ids : list N :=
  [ID_PROXY_AUTHORIZATION; ID_CONNECTION; ID_TE; ID_KEEP_ALIVE; ID_PROXY_AUTHENTICATE; ID_TRAILER; ID_TRANSFER_ENCODING;
   ID_UPGRADE; ID_AUTHORIZATION; ID_HOST; ID_IF_MODIFIED_SINCE; ID_IF_NONE_MATCH; ID_MAX_FORWARDS; ID_VIA; ID_RANGE;
   ID_IF_RANGE; ID_REQUEST_RANGE; ID_PROXY_CONNECTION; ID_CONTENT_LENGTH; ID_X_FORWARDED_FOR; ID_CACHE_CONTROL;
   ID_FRONT_END_HTTPS].

Theorem req_connection_named_dropped_partial cfg hs e :
  In e (req_filter cfg hs) ->
  existsb (fun i => hdr_id e =? i) special_req_ids = false ->
  is_member (conn_value hs) (h_name e) = false.
Proof.
  intros H Hsp. apply req_filter_in in H. destruct H as (ims & H & _).
  unfold req_one in H. set (id := hdr_id e) in *. clearbody id.
  destruct (is_member (conn_value hs) (h_name e)) eqn:Em; [|reflexivity]. exfalso.
  unfold special_req_ids in Hsp. cbn [existsb] in Hsp.
  destruct cfg as [to toP plp wdr via mru tro chk feh]. cbn [to_origin to_origin_peer peer_login_passes we_do_ranges via_on
    miss_revalidate_or_uncachable is_trace_or_options chunked_request front_end_https] in *.
  norm_ids.
  split_ifs; lia.
Qed.

(* ... but the full statement ("no Connection-named field is copied") is false of the code: a registered
   field with its own switch case is copied even when named by Connection *)
Definition wit_hs : list hdr :=
  [ {| h_name := map N.of_nat [67;111;110;110;101;99;116;105;111;110]%nat;
       h_value := map N.of_nat [65;117;116;104;111;114;105;122;97;116;105;111;110]%nat |};
    {| h_name := map N.of_nat [65;117;116;104;111;114;105;122;97;116;105;111;110]%nat;
       h_value := map N.of_nat [66;97;115;105;99;32;101;72;107;54;101;72;107;61]%nat |} ].

Theorem req_connection_named_refuted :
  exists hs e, In e (req_filter (cfg_direct false) hs) /\ is_member (conn_value hs) (h_name e) = true.
Proof.
  exists wit_hs. exists (nth 1 wit_hs {| h_name := []; h_value := [] |}).
  split; [vm_compute; auto|vm_compute; reflexivity].
Qed.
