"""C10: cache hits reproduce one complete stored response (end to end through the real squid, all store kinds)."""
import base64, concurrent.futures, hashlib, json, os, random, re, shutil, struct, threading, time, zlib
from vlib import std, lab, common

PID = "C10"
META = {
    "text": "Model (HitsModel.v): one machine for all store kinds - an entry owns a chain of slots (4 KB mem_nodes, "
            "32 KB shared-memory pages, rock db slots of slotSize-sizeof(DbCellHeader) bytes, a ufs file = one unbounded "
            "slot; all capacities regenerated from the tree); the writer appends pieces of arbitrary sizes and fills a slot "
            "before taking the next one from the free stack or, if that is empty, from an idle entry purged for it "
            "(reserveSlotForWriting/purgeOne); readers hold the entry and copy by offset, at most one slot tail per read "
            "(Rock::IoState::read_, copyFromShm, mem_hdr::copy); an entry is recycled only when no writer and no reader "
            "holds it, freeEntry on a busy entry only marks it (StoreMap lock discipline, StoreEntry::lock/release); the "
            "stored stream is swap metadata (UnpackHitSwapMeta/SwapMetaView checks incl. the key) + HTTP header "
            "(headersEnd) + body. Theorems (Properties_C10.v): for EVERY sequence of "
            "OpenW/Append/CloseW/AbortW/OpenR/Read/CloseR/Evict operations on any number of anchors, readers and slots, "
            "starting from the empty store, a reader that finished holds exactly the byte string of ONE write of its key "
            "that was completed (never a mix, never a proper prefix); at every moment every reader's bytes are a prefix "
            "of what the writer of ITS entry appended; slots of live entries are pairwise disjoint and never on the free "
            "stack; chain_read returns exactly the requested bytes of the concatenated chain; the metadata/header parser "
            "returns (header, body) of a well-formed stored stream and rejects a stream stored under another key. Tie: "
            "capacities/format constants regenerated; the extracted model is run against the real squid (memory cache, "
            "shared memory cache, rock, ufs, aufs, diskd) on sequential store/hit/reload/purge scenarios with object "
            "sizes at the slot boundaries (hit/miss pattern, length and Adler-32 of every body, on-disk chain layout of "
            "rock db and ufs files), on header-refresh scenarios (multi-slot objects on rock / shared memory / memory whose stored "
            "header is rewritten by 304 replies of another length - Rock::HeaderUpdater, MemStore::updateHeaders - and "
            "then served from the store: body bytes, refreshed headers and the spliced on-disk chain with its partly "
            "filled middle slot are compared; theorem C10_header_update_keeps_the_body_partial for the chain splice), "
            "and on concurrent-reader and tiny-cache eviction scenarios.",
    "note": "partial: the theorem is about the transcribed machine (locks at the granularity exclusive writer / reader set / "
            "marked-for-deletion; StoreMap's atomics are C55, mem_hdr's nodes are C49); that the event-driven proxy follows "
            "this discipline on every path rests on the end-to-end correspondence and on the independent byte-for-byte "
            "oracle over concurrent readers, same-URL replacement and eviction. The header update after a 304 is "
            "modelled as a function on chains and a step of the sequential driver only (not an operation of the interleaved "
            "machine: stale and fresh anchor share the tail slots during the update). Not modelled: URL/Vary swap-meta comparison, disk I/O errors, SMP workers "
            "(shared memory cache is exercised with memory_cache_shared on in one process); a crash in the middle of a "
            "same-key overwrite is C16's finding, not repeated here. Trusted: Coq kernel, extraction, gen/gen_hits.cc, "
            "gen/gen_hitspage.py, vlib/lab.py stubs.",
    "technique": "Coq proof (state-machine invariant by induction over all operation sequences; slot ownership "
                 "disjointness; list lemmas for the chain walk and the stored format) + end-to-end differential "
                 "correspondence of the extracted model against the running squid + independent byte-for-byte oracle",
}

# ------------------------------------------------------------------ store kinds
# name -> (model kind, squid.conf lines with %D = cache dir and %T = build tree, cache_mem)
STORES = {
    "mem":   ("mem",  "", "64 MB"),
    "shm":   ("shm",  "memory_cache_shared on\n", "64 MB"),
    "rock":  ("rock", "cache_dir rock %D 64 max-size=4000000\n", "0 MB"),
    "ufs":   ("ufs",  "cache_dir ufs %D 64 4 4\n", "0 MB"),
    "aufs":  ("ufs",  "cache_dir aufs %D 64 4 4\n", "0 MB"),
    "diskd": ("ufs",  "cache_dir diskd %D 64 4 4\ndiskd_program %T/src/DiskIO/DiskDaemon/diskd\n", "0 MB"),
    # tiny caches: replacement runs all the time
    "mem-s":  ("mem",  "", "256 KB"),
    "shm-s":  ("shm",  "memory_cache_shared on\n", "512 KB"),
    "rock-s": ("rock", "cache_dir rock %D 1 max-size=4000000\n", "0 MB"),
    "ufs-s":  ("ufs",  "cache_dir ufs %D 1 2 2\n", "0 MB"),
}
BIG = ["mem", "shm", "rock", "ufs", "aufs", "diskd"]
SMALL = ["mem-s", "shm-s", "rock-s", "ufs-s"]
SLOT = 16384
CELL = 40
CAPS = {"mem": 4096, "shm": 32768, "rock": SLOT - CELL, "ufs": 20000}

_state = {}
_lock = threading.Lock()


# ------------------------------------------------------------------ bodies (same recurrence as HitsModel.mk_body)
def _base(n):
    b = _state.get("base")
    if b is None or len(b) < n:
        m = max(n, 140000)
        b = bytes((3 * i + 7 * (i // 251)) & 255 for i in range(m))
        _state["base"] = b
    return b


def body_of(v, n):
    sh = (v * 11) & 255
    tbl = bytes((c + sh) & 255 for c in range(256))
    return _base(n)[:n].translate(tbl)


def adler(b):
    return zlib.adler32(b) & 0xffffffff


def store_key(url):
    """storeKeyPublic(url, GET) = MD5(method id byte 1 ++ url)"""
    return hashlib.md5(b"\x01" + url.encode("latin1")).digest()


def etag(v):
    return '"v%07d"' % v


# ------------------------------------------------------------------ instances
class Inst:
    def __init__(self, L, store):
        mk, conf, cmem = STORES[store]
        self.store = store
        self.kind = mk
        with _lock:
            _state["ninst"] = _state.get("ninst", 0) + 1
            k = _state["ninst"]
        self.name = "vc10%s%dp%d" % (store.replace("-", ""), k, os.getpid())
        self.cdir = os.path.join(L.dir, self.name, "cd")
        conf = conf.replace("%D", self.cdir).replace("%T", L.tree)
        self.sq = lab.Squid(L, conf, 0, None, self.name, cmem, "acl PURGE method PURGE\n", "http_access allow all")
        with _lock:
            L.procs.append(self.sq)
        self.disk = "cache_dir" in conf
        if self.disk:
            os.makedirs(self.cdir, exist_ok=True)
            shutil.chown(self.cdir, "nobody")
            if self.sq.run_z() != 0:
                raise lab.LabError("squid -z failed for %s: %s" % (store, self.sq.log_tail()))
        self.sq.start(wait=40)
        if mk == "rock":
            t0 = time.time()
            while time.time() - t0 < 30 and "Finished rebuilding" not in self.sq.log_tail(6000):
                time.sleep(0.05)

    # ---- on-disk layout readers (the implementation side of the layout comparison)
    def rock_chain(self, key, want, absent=()):
        """payload sizes of the chain of the rock db entry with this key whose first slot payload holds every marker of
        `want` and none of `absent`. The chain is followed through the nextSlot fields (after a header update the
        fresh prefix slots and the old body slots carry different firstSlot values)."""
        path = os.path.join(self.cdir, "rock")
        k0, k1 = struct.unpack("<QQ", key)
        try:
            with open(path, "rb") as f:
                size = os.fstat(f.fileno()).st_size
                n = (size - SLOT) // SLOT
                cells = {}
                for i in range(n):
                    f.seek(SLOT + SLOT * i)
                    h = f.read(CELL)
                    if len(h) < CELL:
                        break
                    a, b, esz, psz, ver, fs, ns = struct.unpack("<QQQIIii", h)
                    if (a, b) == (k0, k1) and psz > 0:
                        cells[i] = (esz, psz, fs, ns)
                best = None
                for first in sorted(i for i, c in cells.items() if c[2] == i):
                    f.seek(SLOT + SLOT * first + CELL)
                    head = f.read(min(cells[first][1], 4096))
                    if any(w not in head for w in want) or any(w in head for w in absent):
                        continue
                    sizes = []
                    cur = first
                    seen = set()
                    while cur >= 0 and cur in cells and cur not in seen:
                        seen.add(cur)
                        sizes.append(cells[cur][1])
                        cur = cells[cur][3]
                    if cur < 0:
                        best = sizes
                return best
        except OSError:
            return None
        return None

    def ufs_file(self, key, want, absent=()):
        """size of the swap file holding this key and the markers"""
        for root, dirs, files in os.walk(self.cdir):
            for fn in files:
                if len(fn) != 8:
                    continue
                p = os.path.join(root, fn)
                try:
                    with open(p, "rb") as f:
                        head = f.read(4096)
                        if key in head[:64] and all(w in head for w in want) and not any(w in head for w in absent):
                            return [os.fstat(f.fileno()).st_size]
                except OSError:
                    pass
        return None

    def layout(self, key, want, expect_total, timeout=3.0, absent=()):
        if isinstance(want, str):
            want = [want.encode()]
        t0 = time.time()
        while True:
            r = self.rock_chain(key, want, absent) if self.kind == "rock" else self.ufs_file(key, want, absent)
            if r is not None and sum(r) == expect_total:
                return r
            if time.time() - t0 > timeout:
                return r
            time.sleep(0.05)


def _hook(rec, spec):
    c = _state["cur"].get(rec["rid"])
    if not c:
        return {"status": 404, "body": "nope"}
    return c


def origin_spec(rid, v, blen, slow=None, cut=None, xr=None):
    body = body_of(v, blen)
    sp = {"body_b64": base64.b64encode(body).decode(),
          "headers": [["Cache-Control", "max-age=100000"], ["ETag", etag(v)], ["X-U", rid],
                      ["X-Sum", "%010d" % adler(body)]]}
    if xr is not None:
        # what the origin says when asked to revalidate: a 304 whose header block differs in LENGTH from the stored one
        sp["headers"].append(["X-R", xr])
        sp["cond304"] = True
    if slow:
        sp["splits"] = slow
        sp["split_delay"] = 0.012
    if cut is not None:
        sp["cut_after"] = cut
    return sp


def setup(L):
    if "inst" in _state:
        return
    _state["cur"] = {}
    _state["org"] = L.origin(hook=_hook)
    _state["inst"] = {}
    wanted = BIG + SMALL

    def mk(store):
        return store, Inst(L, store)
    with concurrent.futures.ThreadPoolExecutor(max_workers=len(wanted)) as ex:
        for store, it in ex.map(mk, wanted):
            _state["inst"][store] = it
    calibrate()


def _url(rid):
    return "http://127.0.0.1:%d/%s/obj" % (_state["org"].port, rid)


def calibrate():
    """learn the length of the swap metadata and of the stored HTTP header from what squid wrote for one object"""
    it = _state["inst"]["rock"]
    rid = "c00000r0u0"      # same length as every scenario rid (the stored X-U header)
    size = 23456
    _state["cur"][rid] = origin_spec(rid, 1, size)
    url = _url(rid)
    r, raw = lab.get(it.sq.port, url)
    if r is None or r.status != 200 or len(r.body) != size:
        raise lab.LabError("calibration fetch failed")
    key = store_key(url)
    path = os.path.join(it.cdir, "rock")
    t0 = time.time()
    sizes = None
    while time.time() - t0 < 5 and sizes is None:
        sizes = it.rock_chain(key, [etag(1).encode()])
        if sizes is None:
            time.sleep(0.05)
    if sizes is None:
        raise lab.LabError("calibration: the stored rock entry was not found; the key model MD5(\\x01 url) or the db "
                           "layout (DbCellHeader) is wrong")
    # first cell payload: swap metadata prefix then HTTP header
    k0, k1 = struct.unpack("<QQ", key)
    with open(path, "rb") as f:
        for i in range((os.path.getsize(path) - SLOT) // SLOT):
            f.seek(SLOT + SLOT * i)
            h = f.read(CELL)
            a, b, esz, psz, ver, fs, ns = struct.unpack("<QQQIIii", h)
            if (a, b) == (k0, k1) and fs == i and psz > 0:
                pay = f.read(psz)
                if etag(1).encode() in pay[:2048]:
                    break
        else:
            raise lab.LabError("calibration: first slot not found")
    magic, mlen = struct.unpack("<bi", pay[:5])
    hend = pay.find(b"\r\n\r\n", mlen)
    hlen = hend + 4 - mlen
    total = sum(sizes)
    if total != mlen + hlen + size:
        raise lab.LabError("calibration: stored stream %d != metadata %d + header %d + body %d" % (total, mlen, hlen, size))
    _state["cal"] = {"mlen_c": mlen - len(url), "hlen_c": hlen - len(str(size)), "urllen": len(url)}


def mlen_of(url):
    return _state["cal"]["mlen_c"] + len(url)


def hlen_of(blen):
    return _state["cal"]["hlen_c"] + len(str(blen))


def resolve(kind, url, spec):
    """body length for a size spec: {"b": n} or {"tot": T} (T = length of the stored stream)"""
    if "b" in spec:
        return max(0, spec["b"])
    T = spec["tot"]
    m = mlen_of(url) if kind in ("rock", "ufs") else 0
    b = max(0, T - m - hlen_of(max(T, 1)))
    for _ in range(4):
        b = max(0, T - m - hlen_of(b))
    return b


# ------------------------------------------------------------------ the property, byte for byte, on one response
def judge(r, rid, versions, want_complete=True):
    """versions: list of dicts v, blen, ok (False = the origin aborted it). Returns (token core, mark or None, hit?)
    The mark is the independent statement of C10 on this response."""
    if r is None:
        return "none", ("noreply" if want_complete else None), False
    cs = r.get("Cache-Status") or ""
    hit = ";hit" in cs.replace(" ", "") and "fwd=" not in cs
    if r.status != 200:
        return "S%d" % r.status, ("status%d" % r.status if want_complete else None), hit
    if not r.complete:
        return "I", ("incomplete" if want_complete else None), hit
    core = "%d:%d" % (len(r.body), adler(r.body))
    et = r.get("ETag")
    byv = {etag(x["v"]): x for x in versions}
    if r.get("X-U") != rid:
        return core, "other-url-headers", hit
    if et not in byv:
        return core, "unknown-version", hit
    x = byv[et]
    body = body_of(x["v"], x["blen"])
    if r.get("X-Sum") != "%010d" % adler(body):
        return core, "headers-of-other-version", hit
    if r.body == body:
        if not x.get("ok", True):
            return core, "aborted-version-served-complete", hit
        return core, None, hit
    if len(r.body) < len(body) and body.startswith(r.body):
        return core, "truncated-served-complete", hit
    for y in versions:
        if y is not x and r.body == body_of(y["v"], y["blen"]):
            return core, "body-of-other-version", hit
    # mixture? every 64-byte block found at the same offset of some version
    segs = set()
    ok = True
    for off in range(0, len(r.body), 64):
        blk = r.body[off:off + 64]
        src = [y["v"] for y in versions if body_of(y["v"], y["blen"])[off:off + 64] == blk]
        if not src:
            ok = False
        segs.update(src[:1])
    return core, ("mixed-versions" if ok and len(segs) > 1 else "corrupt-body"), hit


def tok(prefix, core, mark):
    return prefix + ":" + core + ("!" + mark if mark else "")


# ------------------------------------------------------------------ drivers
def new_ids(s):
    with _lock:
        if "_sid" not in s:
            _state["sid"] = _state.get("sid", 0) + 1
            s["_sid"] = _state["sid"]
        s["_att"] = s.get("_att", -1) + 1
    return "c%05dr%d" % (s["_sid"], s["_att"] % 10)


def plan(s):
    """resolve the scenario's size specs once (the first run); returns per-url version lists"""
    if "_plan" in s:
        return s["_plan"]
    kind = STORES[s["store"]][0]
    url = _url("c00000r0u0")          # all scenario urls have this length
    vers = {}
    def add(u, spec, mode="ok"):
        lst = vers.setdefault(u, [])
        b = resolve(kind, url, spec)
        lst.append({"v": u * 16 + len(lst) + 1, "blen": b, "ok": mode == "ok", "mode": mode})
    for u, spec in enumerate(s["init"]):
        add(u, spec)
    for op in s["ops"]:
        if op[0] == "reload":
            add(op[1], op[2], op[3] if len(op) > 3 else "ok")
    for lst in vers.values():
        for x in lst:
            if x["mode"] == "cut" and x["blen"] < 2:      # nothing to cut: such a response is complete
                x["mode"], x["ok"] = "ok", True
    s["_plan"] = {str(u): l for u, l in vers.items()}
    return s["_plan"]


XR_FIXED = 7      # len("X-R: ") + len("\r\n")


def xr_value(n, gen):
    return (("r%d-" % gen) + "x" * n)[:max(n, 1)]


def run_seq(s):
    it = _state["inst"][s["store"]]
    pre = new_ids(s)
    pl = plan(s)
    nver = {}
    xr = {}            # u -> X-R value the stored header of u carries (None: as first sent)
    nupd = 0
    toks = []
    nh = 0
    for op in s["ops"]:
        u = op[1]
        rid = "%su%d" % (pre, u)
        url = _url(rid)
        vs = pl[str(u)]
        if op[0] == "purge":
            r, raw = lab.get(it.sq.port, url, method="PURGE", total=10.0)
            toks.append("P" if r is not None and r.status in (200, 404) else "P!status")
            xr[u] = None
            continue
        k = nver.setdefault(u, 1)
        if op[0] == "update":
            # revalidation: the origin answers 304 with a header block of another length; squid must refresh the stored
            # header (Rock::HeaderUpdater / MemStore::updateHeaders) and keep serving the same body
            x = vs[k - 1]
            nupd += 1
            val = xr_value(op[2], nupd)
            _state["cur"][rid] = origin_spec(rid, x["v"], x["blen"], xr=val)
            r, raw = lab.get(it.sq.port, url, headers=[("Cache-Control", "max-age=0")], total=20.0)
            core, mark, hit = judge(r, rid, vs[:k])
            if not mark and r.get("X-R") != val:
                mark = "revalidated-reply-without-the-304-headers"
            xr[u] = val
            toks.append(tok("U", core, mark))
            total = (mlen_of(url) if it.disk else 0) + hlen_of(x["blen"]) + XR_FIXED + len(val) + x["blen"]
            if it.kind == "rock" and it.disk:
                it.layout(store_key(url), [etag(x["v"]).encode(), ("X-R: %s\r\n" % val).encode()], total)
            else:
                time.sleep(0.15)
            continue
        hs = []
        if op[0] == "reload":
            nver[u] = k = k + 1
            hs = [("Cache-Control", "no-cache")]
        x = vs[k - 1]
        _state["cur"][rid] = origin_spec(rid, x["v"], x["blen"])
        r, raw = lab.get(it.sq.port, url, headers=hs, total=20.0)
        core, mark, hit = judge(r, rid, vs[:k])
        if not hit:
            xr[u] = None
        if not mark and r.get("X-R") != xr.get(u):
            mark = "stale-headers-after-update" if hit else "headers-never-sent"
        nh += 1 if hit else 0
        toks.append(tok("H" if hit else "M", core, mark))
    lay = []
    if it.disk:
        cached = {}
        for op in s["ops"]:
            cached[op[1]] = op[0] != "purge"
        for u in sorted(nver):
            rid = "%su%d" % (pre, u)
            url = _url(rid)
            if not cached.get(u):
                lay.append("%d=-" % u)
                continue
            x = pl[str(u)][nver[u] - 1]
            total = mlen_of(url) + hlen_of(x["blen"]) + x["blen"]
            want = [etag(x["v"]).encode()]
            absent = [b"X-R: "]
            if xr.get(u):
                total += XR_FIXED + len(xr[u])
                want.append(("X-R: %s\r\n" % xr[u]).encode())
                absent = []
            got = it.layout(store_key(url), want, total, absent=absent)
            lay.append("%d=%s" % (u, ",".join(map(str, got)) if got else "-"))
    s["_nh"] = nh
    for u in nver:
        _state["cur"].pop("%su%d" % (pre, u), None)
    return " ".join(toks) + " | " + " ".join(lay)


def tuples_line(s, results, vs):
    """canonical line of a concurrent scenario: for every completed version its (len, adler) as squid served it"""
    marks = []
    seen = {}
    for core, mark, hit, et in results:
        if mark:
            marks.append(mark)
        if core[0].isdigit() and et:
            seen.setdefault(et, set()).add(core)
    out = []
    for x in vs:
        if not x["ok"]:
            continue
        cores = seen.get(etag(x["v"]))
        body = body_of(x["v"], x["blen"])
        truth = "%d:%d" % (len(body), adler(body))
        if cores:
            bad = sorted(c for c in cores if c != truth)
            out.append("%d:%s" % (x["v"], bad[0] if bad else truth))
        else:
            out.append("%d:%s" % (x["v"], truth))
    line = "T " + " ".join(out)
    for m in sorted(set(marks)):
        line += " !" + m
    return line


def run_conc(s):
    it = _state["inst"][s["store"]]
    pre = new_ids(s)
    pl = plan(s)
    vs = pl["0"]
    rid = pre + "u0"
    url = _url(rid)
    results = []
    rl = threading.Lock()
    rng = random.Random(s["seed"] * 7 + s.get("_att", 0))

    def fetch(hs, delay, want_complete):
        if delay:
            time.sleep(delay)
        try:
            r, raw = lab.get(it.sq.port, url, headers=hs, total=20.0, idle=2.0)
        except OSError:
            r = None
        core, mark, hit = judge(r, rid, vs, want_complete=want_complete)
        with rl:
            results.append((core, mark, hit, r.get("ETag") if r is not None else None))

    x = vs[0]
    _state["cur"][rid] = origin_spec(rid, x["v"], x["blen"])
    if s.get("warm", True):
        fetch([], 0, True)
    for k in range(1 if s.get("warm", True) else 0, len(vs)):
        x = vs[k]
        total = hlen_of(x["blen"]) + x["blen"]
        npieces = s.get("pieces", 6)
        piece = max(1, total // npieces)
        cut = None
        if x["mode"] == "cut":
            cut = rng.randrange(0, max(1, x["blen"]))
        _state["cur"][rid] = origin_spec(rid, x["v"], x["blen"], slow=[piece] * (npieces + 2), cut=cut)
        th = [threading.Thread(target=fetch, args=([("Cache-Control", "no-cache")] if k else [], 0, False))]
        span = 0.012 * (npieces + 3)
        for i in range(s["nread"]):
            th.append(threading.Thread(target=fetch, args=([], rng.uniform(0.0, span), False)))
        for t in th:
            t.start()
        for t in th:
            t.join()
    # afterwards everything is quiet (the origin would now send the last version it completed): one more plain
    # request must be a complete response of one completed version
    last = [x for x in vs if x["ok"]][-1]
    _state["cur"][rid] = origin_spec(rid, last["v"], last["blen"])
    fetch([], 0.02, True)
    s["_nh"] = sum(1 for c in results if c[2])
    _state["cur"].pop(rid, None)
    return tuples_line(s, results, vs)


def run_evict(s):
    it = _state["inst"][s["store"]]
    pre = new_ids(s)
    pl = plan(s)
    results = []
    rl = threading.Lock()
    nver = {}
    allv = []
    for u in sorted(pl, key=int):
        allv += pl[u]
    ops = list(s["ops"])
    pos = [0]

    def worker():
        while True:
            with rl:
                if pos[0] >= len(ops):
                    return
                op = ops[pos[0]]
                pos[0] += 1
                u = op[1]
                rid = "%su%d" % (pre, u)
                hs = []
                if op[0] == "reload":
                    nver[u] = nver.get(u, 1) + 1
                    hs = [("Cache-Control", "no-cache")]
                k = nver.setdefault(u, 1)
                x = pl[str(u)][k - 1]
                _state["cur"][rid] = origin_spec(rid, x["v"], x["blen"])
            try:
                r, raw = lab.get(it.sq.port, _url(rid), headers=hs, total=20.0)
            except OSError:
                r = None
            core, mark, hit = judge(r, rid, pl[str(u)])
            with rl:
                results.append((core, mark, hit, (r.get("ETag") if r is not None else None)))

    th = [threading.Thread(target=worker) for _ in range(s.get("par", 3))]
    for t in th:
        t.start()
    for t in th:
        t.join()
    s["_nh"] = sum(1 for c in results if c[2])
    for u in pl:
        _state["cur"].pop("%su%s" % (pre, u), None)
    return tuples_line(s, results, allv)


def run_one(s):
    try:
        if s["k"] == "seq":
            return run_seq(s)
        if s["k"] == "conc":
            return run_conc(s)
        return run_evict(s)
    except (OSError, lab.LabError) as ex:
        return "ERR " + " ".join(str(ex).split())[:200]


def run_impl(L, scenarios):
    t0 = time.time()
    setup(L)
    _state.setdefault("timing", []).append("setup %.1fs" % (time.time() - t0))
    t0 = time.time()
    with concurrent.futures.ThreadPoolExecutor(max_workers=int(os.environ.get("VERIF_C10_PAR", "8"))) as ex:
        out = list(ex.map(run_one, scenarios))
    bad = []
    for store, it in _state["inst"].items():
        if not it.sq.alive():
            bad.append(store + ":died")
        else:
            h = it.sq.log_has("assertion failed", "FATAL")
            if h:
                bad.append(store + ":" + ",".join(h))
    _state["bad"] = bad
    _state["timing"].append("%d scenarios %.1fs" % (len(scenarios), time.time() - t0))
    return out


# ------------------------------------------------------------------ model side
def to_case(s):
    kind = STORES[s["store"]][0]
    pl = s.get("_plan")
    if pl is None:
        return "hits.none"
    pre = "c%05dr%d" % (s["_sid"], 0)
    if s["k"] != "seq":
        rid = pre + "u0"
        url = _url(rid)
        vs = []
        for u in sorted(pl, key=int):
            vs += [x for x in pl[u] if x["ok"]]
        # (the header length depends on the number of digits of the body length: one model run per version)
        return "hits.tuples %s %s %d %s" % (kind, store_key(url).hex(), mlen_of(url),
                                            " ".join("%d:%d:%d" % (x["v"], hlen_of(x["blen"]), x["blen"]) for x in vs))
    ops = []
    nver = {}
    xlen = {}          # u -> length of the X-R value in the stored header (0: none), as in run_seq
    nupd = 0
    rng = random.Random(s.get("wseed", 1))
    for op in s["ops"]:
        u = op[1]
        if op[0] == "purge":
            ops.append("P:%d" % u)
            xlen[u] = 0
            continue
        k = nver.setdefault(u, 1)
        url = _url("%su%d" % (pre, u))
        if op[0] == "update":
            x = pl[str(u)][k - 1]
            nupd += 1
            base = hlen_of(x["blen"])
            oldh = base + (XR_FIXED + xlen[u] if xlen.get(u) else 0)
            xlen[u] = len(xr_value(op[2], nupd))
            ops.append("U:%d:%s:%d:%d:%d" % (u, store_key(url).hex(), mlen_of(url), oldh, base + XR_FIXED + xlen[u]))
            continue
        if op[0] == "reload":
            nver[u] = k = k + 1
            xlen[u] = 0
        elif u not in xlen:
            xlen[u] = 0
        x = pl[str(u)][k - 1]
        sizes = ",".join(str(rng.choice([1, 100, 1460, 4096, 4097, 8192, 16384, 40000])) for _ in range(rng.randrange(0, 5))) or "-"
        ops.append("%s:%d:%s:%d:%d:%d:%d:%s" % ("R" if op[0] == "reload" else "G", u, store_key(url).hex(), mlen_of(url),
                                               hlen_of(x["blen"]), x["v"], x["blen"], sizes))
    urls = [str(u) for u in sorted(nver)] if STORES[s["store"]][0] in ("rock", "ufs") and "cache_dir" in STORES[s["store"]][1] else []
    return "hits.seq %s 6000 64 %s / %s" % (kind, " ".join(ops), " ".join(urls))


# ------------------------------------------------------------------ oracle
def oracle(s, obs):
    """C10 on what squid did: the marks were put on the responses by judge(), which compares every response squid
    sent, byte for byte and header by header, with the versions the origin sent for that URL"""
    if obs.startswith("ERR"):
        return ("oracle:no-run", "the scenario could not be driven: " + obs[:200])
    for t in obs.split():
        if "!" in t:
            what = t.split("!", 1)[1]
            served = "hit" if t.startswith("H") else ("reply" if t.startswith("!") else "miss")
            if what in ("noreply", "incomplete", "status") or what.startswith("status"):
                return ("oracle:not-served:" + what, "a request of a %s scenario on the %s store was not answered with a "
                        "complete 200 response (%s)" % (s["k"], s["store"], t))
            return ("oracle:%s:%s" % (served if s["k"] == "seq" else "served", what),
                    "store %s, %s scenario: a response is not one complete response the origin sent for that URL: %s (%s)"
                    % (s["store"], s["k"], what, t))
    return None


# ------------------------------------------------------------------ generators
def boundary_tot(rng, kind):
    cap = CAPS[kind]
    n = rng.choice([1, 1, 1, 2, 2, 3]) if kind != "shm" else rng.choice([1, 1, 2])
    if kind == "mem":
        n = rng.choice([1, 2, 3, 4, 8])
    return {"tot": max(400, n * cap + rng.choice([-2, -1, 0, 0, 1, 2]))}


def rand_spec(rng, kind):
    r = rng.random()
    if r < 0.5:
        return boundary_tot(rng, kind)
    if r < 0.6:
        return {"b": rng.choice([0, 1, 2, 100])}
    top = {"mem": 20000, "shm": 70000, "rock": 52000, "ufs": 30000}[kind]
    return {"b": rng.randrange(1, top)}


def gen_seq(rng, store):
    kind = STORES[store][0]
    nurls = rng.choice([1, 1, 2])
    ops = []
    have = set()
    for _ in range(rng.randrange(3, 7)):
        u = rng.randrange(nurls)
        r = rng.random()
        if u in have and r < 0.15:
            ops.append(["purge", u])
            have.discard(u)
        elif u in have and r < 0.5:
            ops.append(["reload", u, rand_spec(rng, kind)])
        else:
            ops.append(["get", u])
            have.add(u)
    return {"k": "seq", "store": store, "init": [rand_spec(rng, kind) for _ in range(nurls)], "ops": ops,
            "wseed": rng.randrange(1 << 30)}


def gen_conc(rng, store):
    kind = STORES[store][0]
    nv = rng.choice([2, 3, 3, 4])
    ops = []
    for j in range(1, nv):
        ops.append(["reload", 0, rand_spec(rng, kind), "cut" if rng.random() < 0.25 else "ok"])
    return {"k": "conc", "store": store, "init": [rand_spec(rng, kind)], "ops": ops, "nread": rng.choice([3, 5, 8]),
            "pieces": rng.choice([4, 6, 9]), "warm": rng.random() < 0.8, "seed": rng.randrange(1 << 30)}


def gen_evict(rng, store):
    kind = STORES[store][0]
    nurls = rng.choice([4, 6, 8])
    ops = []
    nv = [1] * nurls
    for _ in range(rng.randrange(24, 48)):
        u = rng.randrange(nurls)
        if rng.random() < 0.3 and nv[u] < 12:
            nv[u] += 1
            ops.append(["reload", u, rand_spec(rng, kind)])
        else:
            ops.append(["get", u])
    return {"k": "evict", "store": store, "init": [rand_spec(rng, kind) for _ in range(nurls)], "ops": ops,
            "par": rng.choice([2, 3, 4])}


UPD_STORES = ["rock", "rock", "rock", "shm", "mem"]


def gen_upd(rng, store):
    """a multi-slot object whose stored header is refreshed by 304s of another length, then served from the store"""
    kind = STORES[store][0]
    cap = CAPS[kind]
    def size():
        if rng.random() < 0.35:
            return {"tot": rng.choice([2, 3, 4, 6]) * cap + rng.choice([-1, 0, 1, 40])}
        return {"b": rng.randrange(20000, 100000 if rng.random() < 0.3 else 60000)}
    nurls = rng.choice([1, 1, 2])
    ops = []
    for u in range(nurls):
        ops += [["get", u], ["get", u]]
    for _ in range(rng.choice([1, 2, 2, 3])):
        u = rng.randrange(nurls)
        ops.append(["update", u, rng.choice([1, 3, 8, 20, 45, 90])])
        ops.append(["get", u])
        if rng.random() < 0.3:
            ops.append(["get", u])
        if rng.random() < 0.2:
            ops += [["reload", u, size()], ["get", u]]
    return {"k": "seq", "upd": True, "store": store, "init": [size() for _ in range(nurls)], "ops": ops,
            "wseed": rng.randrange(1 << 30)}


def gen_scenarios(rng, n):
    out = []
    for i in range(n):
        r = i % 10
        if r < 5:
            out.append(gen_seq(rng, BIG[(i // 10 + r) % len(BIG)]))
        elif r < 7:
            out.append(gen_upd(rng, UPD_STORES[(i // 10 * 2 + r) % len(UPD_STORES)]))
        elif r < 9:
            out.append(gen_conc(rng, (BIG + ["mem", "shm", "rock"])[(i // 10 * 2 + r) % (len(BIG) + 3)]))
        else:
            out.append(gen_evict(rng, SMALL[(i // 10) % len(SMALL)]))
    return out


def kind_fn(s, o):
    if o.startswith("ERR"):
        return "norun"
    return "%s:%s:%s" % ("upd" if s.get("upd") else s["k"], s["store"], "hits" if s.get("_nh") else "nohit")


def run(res, tier):
    res.rule = ("scenarios on one squid per store kind (memory cache, shared memory cache with memory_cache_shared on, rock, "
                "ufs, aufs, diskd; plus tiny mem/shm/rock/ufs caches): (upd, 20 %) a 20-130 KB object on rock/shm/mem is "
                "stored, hit, revalidated 1-3 times with 304 replies whose X-R header has another length each time, and hit "
                "again after every refresh; (seq, 50 %) 3-6 sequential GET / forced reload "
                "with a new version / PURGE operations on 1-2 URLs; (conc, 20 %) 2-4 versions of one URL, each fetched by "
                "a forced reload from an origin that sends it in 4-9 delayed pieces (25 % cut short) while 3-8 concurrent "
                "clients request the URL; (evict, 10 %) 24-48 GETs/reloads of 4-8 URLs from 2-4 parallel clients against "
                "a cache of 256 KB - 1 MB. Half of the object sizes put the end of the stored stream within 2 bytes of a "
                "4 KB mem_node, 16 KB rock slot payload or 32 KB shared-memory page boundary. non-trivial = at least one "
                "response was served from the cache")
    os.environ.setdefault("OCAMLRUNPARAM", "s=1M")
    os.environ.setdefault("VERIF_STALL", "180")     # a 70 KB scenario takes seconds in the extracted model on a loaded machine
    try:
        std.run_lab(res, PID, tier, area="hits", gens=["hits", "hitspage"], gen_scenarios=gen_scenarios,
                    run_impl=run_impl, to_case=to_case, oracle=oracle,
                    corr_name="HitsModel (store machine, stored format) vs the running squid",
                    n_quick=int(os.environ.get("VERIF_C10_N", "40")), n_thorough=2500, seed_salt=10,
                    kind_fn=kind_fn, nontrivial_fn=lambda s, o: bool(s.get("_nh")))
        res.extra["lab_timing"] = _state.get("timing")
        if _state.get("bad"):
            res.fail("oracle:squid-died", "a squid instance died or logged an assertion during the C10 run: %s"
                     % ", ".join(_state["bad"]), {"instances": _state["bad"]})
    finally:
        _state.clear()
        # a squid that died (assertion) leaves its shared memory segments behind; this tree names them <service>-XXXX-*
        try:
            for f in os.listdir("/dev/shm"):
                if f.startswith("vc10") and ("p%d-" % os.getpid()) in f:
                    try:
                        os.unlink(os.path.join("/dev/shm", f))
                    except OSError:
                        pass
        except OSError:
            pass
