// Harness: CharacterSet and Parser::Tokenizer from /repo's working tree.
// stdin: one case per line (same syntax as ml/runner.ml); stdout: one result line.
#include "squid.h"
#include "base/CharacterSet.h"
#include "parser/Tokenizer.h"
#include "sbuf/SBuf.h"
#include "hcommon.h"

static CharacterSet setOf(const std::string &h) {
    CharacterSet s("h", "");
    for (int c = 0; c < 256; ++c) {
        int b = (hexval(h[2 * (c / 8)]) << 4) | hexval(h[2 * (c / 8) + 1]);
        if ((b >> (c % 8)) & 1) s.add(static_cast<unsigned char>(c));
    }
    return s;
}
static std::string hexOf(const CharacterSet &s) {
    std::string raw(32, '\0');
    for (int c = 0; c < 256; ++c)
        if (s[static_cast<unsigned char>(c)]) raw[c / 8] |= static_cast<char>(1 << (c % 8));
    return tohex(raw);
}
static SBuf sb(const std::string &hex) { std::string r = unhex(hex); return SBuf(r.data(), r.size()); }
static std::string hx(const SBuf &b) { return tohex(b.rawContent(), b.length()); }
static SBuf::size_type lim(const std::string &s) { return static_cast<SBuf::size_type>(std::stoull(s)); }

int main() {
    std::string line;
    while (std::getline(std::cin, line)) {
        auto a = splitws(line);
        if (a.empty()) { std::cout << "\n"; continue; }
        const std::string &op = a[0];
        std::ostringstream o;
        try {
            if (op == "cs.plus") { auto s = setOf(a[1]); s += setOf(a[2]); o << hexOf(s); }
            else if (op == "cs.minus") { auto s = setOf(a[1]); s -= setOf(a[2]); o << hexOf(s); }
            else if (op == "cs.complement") { o << hexOf(setOf(a[1]).complement()); }
            else if (op == "cs.add") { auto s = setOf(a[1]); s.add(static_cast<unsigned char>(std::stoi(a[2]))); o << hexOf(s); }
            else if (op == "cs.remove") { auto s = setOf(a[1]); s.remove(static_cast<unsigned char>(std::stoi(a[2]))); o << hexOf(s); }
            else if (op == "cs.addRange") { auto s = setOf(a[1]); s.addRange(static_cast<unsigned char>(std::stoi(a[2])), static_cast<unsigned char>(std::stoi(a[3]))); o << hexOf(s); }
            else if (op == "cs.ofString") { std::string r = unhex(a[1]); CharacterSet s("x", r.c_str()); o << hexOf(s); }
            else if (op == "cs.mem") { o << (setOf(a[1])[static_cast<unsigned char>(std::stoi(a[2]))] ? 1 : 0); }
            else if (op == "tok.prefix" || op == "tok.suffix") {
                Parser::Tokenizer t(sb(a[3])); SBuf tok;
                bool ok = (op == "tok.prefix") ? t.prefix(tok, setOf(a[1]), lim(a[2])) : t.suffix(tok, setOf(a[1]), lim(a[2]));
                if (ok) { o << "ok " << hx(tok) << " " << hx(t.remaining());
                    if (t.parsedSize() != tok.length()) o << " BAD-PARSED-SIZE"; }
                else { o << "fail"; if (t.parsedSize() != 0 || hx(t.remaining()) != hx(sb(a[3]))) o << " BAD-STATE"; }
            }
            else if (op == "tok.skipAll" || op == "tok.skipAllTrailing") {
                Parser::Tokenizer t(sb(a[2]));
                auto k = (op == "tok.skipAll") ? t.skipAll(setOf(a[1])) : t.skipAllTrailing(setOf(a[1]));
                o << k << " " << hx(t.remaining()); if (t.parsedSize() != k) o << " BAD-PARSED-SIZE";
            }
            else if (op == "tok.skipOne" || op == "tok.skipOneTrailing") {
                Parser::Tokenizer t(sb(a[2]));
                bool k = (op == "tok.skipOne") ? t.skipOne(setOf(a[1])) : t.skipOneTrailing(setOf(a[1]));
                o << (k ? 1 : 0) << " " << hx(t.remaining()); if (t.parsedSize() != (k ? 1u : 0u)) o << " BAD-PARSED-SIZE";
            }
            else if (op == "tok.skipChar") {
                Parser::Tokenizer t(sb(a[2])); bool k = t.skip(static_cast<char>(std::stoi(a[1])));
                o << (k ? 1 : 0) << " " << hx(t.remaining());
            }
            else if (op == "tok.skip" || op == "tok.skipSuffix") {
                Parser::Tokenizer t(sb(a[2])); SBuf tk = sb(a[1]);
                bool k = (op == "tok.skip") ? t.skip(tk) : t.skipSuffix(tk);
                o << (k ? 1 : 0) << " " << hx(t.remaining());
            }
            else if (op == "tok.token") {
                Parser::Tokenizer t(sb(a[2])); SBuf tok;
                if (t.token(tok, setOf(a[1]))) o << "ok " << hx(tok) << " " << hx(t.remaining());
                else { o << "fail"; if (t.parsedSize() != 0 || hx(t.remaining()) != hx(sb(a[2]))) o << " BAD-STATE"; }
            }
            else if (op == "tok.int64") {
                Parser::Tokenizer t(sb(a[4])); int64_t v = 0;
                if (t.int64(v, std::stoi(a[1]), a[2] == "1", lim(a[3]))) o << "ok " << v << " " << t.parsedSize();
                else { o << "fail"; if (t.parsedSize() != 0) o << " BAD-STATE"; }
            }
            else o << "ERR unknown-entry " << op;
        } catch (const std::exception &e) { o.str(""); o << "EXC " << e.what(); }
        catch (...) { o.str(""); o << "EXC"; }
        std::cout << o.str() << "\n" << std::flush;
    }
    return 0;
}
