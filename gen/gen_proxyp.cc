// Table generator for the PROXY protocol area (C38): the constants the model depends on,
// as the code defines them *now*. Prints Coq source; "@@FILE <name>" introduces a file.
// src/proxyp/Parser.cc is included textually so that its file-static magic strings are reachable.
#include "squid.h"
#include "base/CharacterSet.h"
#include "proxyp/Parser.cc"
#include <iostream>

static void dumpBytes(const char *name, const SBuf &s) {
    std::cout << "Definition " << name << " : bytes := [";
    for (SBuf::size_type i = 0; i < s.length(); ++i)
        std::cout << (i ? ";" : "") << static_cast<unsigned>(static_cast<unsigned char>(s[i]));
    std::cout << "].\n";
}
static void dumpSet(const char *name, const CharacterSet &s) {
    std::cout << "Definition " << name << "_tbl : list bool := [";
    for (int c = 0; c < 256; ++c)
        std::cout << (c ? ";" : "") << (s[static_cast<unsigned char>(c)] ? "true" : "false");
    std::cout << "].\nDefinition " << name << " : cset := mem_tbl " << name << "_tbl.\n";
}
static void dumpN(const char *name, unsigned long v) {
    std::cout << "Definition " << name << " : N := " << v << ".\n";
}

int main() {
    using namespace ProxyProtocol;
    std::cout << "@@FILE Proxyp_gen.v\n";
    std::cout << "(* generated from /repo by gen/gen_proxyp.cc -- do not edit *)\n"
              "Require Import SquidV.Bytes.\nLocal Open Scope N_scope.\n";
    dumpBytes("pp_magic1", One::Magic());
    dumpBytes("pp_magic2", Two::Magic());
    dumpN("pp_cmdLocal", Two::cmdLocal);
    dumpN("pp_cmdProxy", Two::cmdProxy);
    dumpN("pp_afUnspecified", Two::afUnspecified);
    dumpN("pp_afInet", Two::afInet);
    dumpN("pp_afInet6", Two::afInet6);
    dumpN("pp_afUnix", Two::afUnix);
    dumpN("pp_tpUnspecified", Two::tpUnspecified);
    dumpN("pp_tpStream", Two::tpStream);
    dumpN("pp_tpDgram", Two::tpDgram);
    dumpN("pp_in4_size", sizeof(struct in_addr));
    dumpN("pp_in6_size", sizeof(struct in6_addr));
    dumpSet("pp_HEXDIG", CharacterSet::HEXDIG);
    dumpSet("pp_CR", CharacterSet::CR);
    return 0;
}
