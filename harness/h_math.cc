// Harness: the overflow-safe arithmetic templates of src/SquidMath.h from /repo's
// working tree, instantiated for every combination of the ten standard integer
// types (signed/unsigned char, short, int, long, long long).
//
// stdin: one case per line; stdout: one canonical result line per case.
//   less   A B a b            -> 1 | 0                        Less(a, b)
//   inc    S T s t            -> some v | none                IncreaseSum(S s, T t)   (the two-argument overload)
//   sum1   S A a              -> some v | none                NaturalSum<S>(a)
//   sum2   S A B a b          -> some v | none                NaturalSum<S>(a, b)
//   sum3   S A B C a b c      -> some v | none                NaturalSum<S>(a, b, c)
//   setmax1 S A init a        -> ret var                      SetToNaturalSumOrMax(var, a)
//   setmax2 S A B init a b    -> ret var                      SetToNaturalSumOrMax(var, a, b)
//   cast   R S s              -> v | EXC bad_optional_access  NaturalCast<R>(s)
// Types are named sc uc ss us si ui sl ul sll ull. Values are decimal and are
// converted to the named type with static_cast from __int128 (generators only
// produce in-range values; out-of-range ones wrap, the model does the same).
#include "h_math_defs.h"

TABLE(LessTable, fLess, D2, NT * NT)
TABLE(IncTable, fInc, D2, NT * NT)
TABLE(Sum1Table, fSum1, D2, NT * NT)
TABLE(Set1Table, fSet1, D2, NT * NT)
TABLE(CastTable, fCast, D2, NT * NT)
TABLE(Sum2Table, fSum2, D3, NT * NT * NT)
typedef const Fn *(*PartFn)();
static const PartFn Sum3Parts[NT] = {
    &h_math_sum3_part0, &h_math_sum3_part1, &h_math_sum3_part2, &h_math_sum3_part3, &h_math_sum3_part4,
    &h_math_sum3_part5, &h_math_sum3_part6, &h_math_sum3_part7, &h_math_sum3_part8, &h_math_sum3_part9
};

int main()
{
    std::string line;
    while (std::getline(std::cin, line)) {
        auto a = splitws(line);
        if (a.empty()) { std::cout << "\n"; continue; }
        const std::string &op = a[0];
        std::ostringstream o;
        try {
            size_t nTypes = 0, nVals = 0;
            const Fn *table = nullptr;
            if (op == "less") { nTypes = 2; nVals = 2; table = LessTable.data(); }
            else if (op == "inc") { nTypes = 2; nVals = 2; table = IncTable.data(); }
            else if (op == "sum1") { nTypes = 2; nVals = 1; table = Sum1Table.data(); }
            else if (op == "sum2") { nTypes = 3; nVals = 2; table = Sum2Table.data(); }
            else if (op == "setmax1") { nTypes = 2; nVals = 2; table = Set1Table.data(); }
            else if (op == "setmax2") { nTypes = 3; nVals = 3; table = h_math_set2_table(); }
            else if (op == "cast") { nTypes = 2; nVals = 1; table = CastTable.data(); }
            else if (op == "sum3") {
                // the table for result type S lives in part unit S; index it by the argument types
                if (a.size() != 8) throw std::runtime_error("bad-args");
                nTypes = 4; nVals = 3; table = Sum3Parts[typeIndex(a[1])]();
            }
            else o << "ERR unknown-entry " << op;
            if (table) {
                if (a.size() != 1 + nTypes + nVals) throw std::runtime_error("bad-args");
                size_t idx = 0;
                for (size_t i = (op == "sum3" ? 1 : 0); i < nTypes; ++i)
                    idx = idx * NT + static_cast<size_t>(typeIndex(a[1 + i]));
                W vals[4] = {0, 0, 0, 0};
                for (size_t i = 0; i < nVals; ++i)
                    vals[i] = parseW(a[1 + nTypes + i]);
                W out[2] = {0, 0};
                try {
                    table[idx](vals, out);
                    if (op == "less" || op == "cast") o << showW(out[0]);
                    else if (op[1] == 'e') o << showW(out[0]) << " " << showW(out[1]); // setmaxN
                    else if (out[0]) o << "some " << showW(out[1]);
                    else o << "none";
                } catch (const std::bad_optional_access &) { o << "EXC bad_optional_access"; }
            }
        } catch (const std::exception &e) { o.str(""); o << "EXC " << e.what(); }
        std::cout << o.str() << "\n" << std::flush;
    }
    return 0;
}
