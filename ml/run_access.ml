(* handlers for the access area (C45).
   access.run <item> ... : items in order
     A:<name hex>:<src|dst|dom|port|meth>:<tok>,<tok>,...     acl line; IP tokens w<hex> s<a> c<a>_<n> r<a>_<b> m<a>_<b>_<n>
                                                              (addresses as 32-bit decimal numbers), other tokens hex
     H:<a|d>:<+|-><name hex>,...                              http_access line ('-' = negated)
     F:<name hex>=<addr>    R:<addr>=<name hex>               static ipcache / fqdncache entries
     Q:<client>:<method hex>:<host hex>:<addr or ->:<port>    one request
   result: "fatal" or "res " followed by F (forwarded) / D (403 access denied) per request *)
let split c s = if s = "" then [] else String.split_on_char c s
let iptok_of (s : string) : iptok =
  let nums t = List.map n_of_string (String.split_on_char '_' t) in
  let rest = String.sub s 1 (String.length s - 1) in
  match s.[0], nums (if s.[0] = 'w' then "0" else rest) with
  | 'w', _ -> IWord (bytes_of_hex rest)
  | 's', [a] -> ISingle a
  | 'c', [a; n] -> ICidr (a, n)
  | 'r', [a; b] -> IRange (a, b)
  | 'm', [a; b; n] -> IRangeCidr (a, b, n)
  | _ -> failwith ("bad ip token " ^ s)
let atype_of = function
  | "src" -> TSrc | "dst" -> TDst | "dom" -> TDom | "port" -> TPort | "meth" -> TMeth
  | t -> failwith ("bad acl type " ^ t)
let term_of (s : string) : bool * n list =
  (s.[0] = '-', bytes_of_hex (String.sub s 1 (String.length s - 1)))
let eq2 (s : string) : string * string =
  match String.split_on_char '=' s with [a; b] -> (a, b) | _ -> failwith ("bad pair " ^ s)

let () =
  reg "access.run" (fun items ->
      let cfg = ref [] and fwd = ref [] and rev = ref [] and reqs = ref [] in
      List.iter (fun it ->
          match String.split_on_char ':' it with
          | ["A"; nm; ty; toks] ->
              let ty' = atype_of ty in
              let ts = split ',' toks in
              (match ty' with
               | TSrc | TDst -> cfg := LAcl (bytes_of_hex nm, ty', List.map iptok_of ts, []) :: !cfg
               | _ -> cfg := LAcl (bytes_of_hex nm, ty', [], List.map bytes_of_hex ts) :: !cfg)
          | ["H"; act; terms] -> cfg := LAccess (act = "a", List.map term_of (split ',' terms)) :: !cfg
          | ["F"; p] -> let (a, b) = eq2 p in fwd := (bytes_of_hex a, n_of_string b) :: !fwd
          | ["R"; p] -> let (a, b) = eq2 p in rev := (n_of_string a, bytes_of_hex b) :: !rev
          | ["Q"; c; m; h; ip; port] ->
              reqs := { rq_client = n_of_string c; rq_method = bytes_of_hex m; rq_host = bytes_of_hex h;
                        rq_hostip = (if ip = "-" then None else Some (n_of_string ip));
                        rq_port = z_of_string port } :: !reqs
          | _ -> failwith ("bad item " ^ it)) items;
      let e = { e_fwd = List.rev !fwd; e_rev = List.rev !rev } in
      match access_run (List.rev !cfg) e (List.rev !reqs) with
      | None -> "fatal"
      | Some outs -> "res " ^ String.concat "" (List.map (function OForward -> "F" | ODeny403 -> "D") outs));
  reg "access.meth" (fun [t; m] ->
      let show (x : meth) = string_of_n x.m_id ^ ":" ^ hex_of_bytes x.m_image in
      let c = meth_parse_cfg (bytes_of_hex t) and r = meth_parse_req (bytes_of_hex m) in
      show c ^ " " ^ show r ^ " " ^ b2s (meth_eq c r))
