"""Builds C++ harnesses against /repo's *current working tree*.

Every harness names
  * its own driver source under /verif/harness,
  * `fresh`: /repo sources (relative to /repo) that are recompiled from the
    working tree for this run (cached by hash of the preprocessed text, so an
    unchanged file costs one preprocessor run and an edited one is rebuilt),
  * `link`: prebuilt support objects / convenience archives from /repo's
    in-tree build (stubs and libraries the property is not anchored in).
Fresh objects come first on the link line, so an archive member of the same
source is never pulled in.
"""
import os, re, shlex, concurrent.futures
from .common import REPO, VERIF, BUILD, GUARD, sh, sha, lock

SRC = os.path.join(REPO, "src")
OBJ = os.path.join(BUILD, "obj")
BIN = os.path.join(BUILD, "bin")

BASE_FLAGS = ["-std=c++17", "-DHAVE_CONFIG_H", "-D" + GUARD,
              '-DDEFAULT_CONFIG_FILE="/usr/local/squid/etc/squid.conf"',
              '-DDEFAULT_SQUID_DATA_DIR="/usr/local/squid/share"',
              '-DDEFAULT_SQUID_CONFIG_DIR="/usr/local/squid/etc"',
              "-I" + REPO, "-I" + REPO + "/include", "-I" + REPO + "/lib", "-I" + SRC,
              "-isystem", "/usr/include/mit-krb5", "-I/usr/include/p11-kit-1",
              "-I" + VERIF + "/harness",
              "-pipe", "-D_REENTRANT", "-w"]

SAN = ["-O1", "-g", "-fsanitize=address,undefined", "-fno-sanitize-recover=all",
       "-fno-omit-frame-pointer"]
UBSAN = ["-O1", "-g", "-fsanitize=undefined", "-fno-sanitize-recover=all"]

SYSLIBS = ["-lgnutls", "-lnettle", "-lcrypt", "-lxml2", "-lexpat", "-lkrb5", "-lk5crypto",
           "-lcom_err", "-lgssapi_krb5", "-lltdl", "-lpthread", "-lrt", "-ldl", "-lm",
           "-lnsl", "-lresolv", "-lcap", "-latomic"]


class BuildError(Exception):
    pass


def _compile_one(args):
    src, flags, cxx = args
    # key: hash of preprocessed text + flags
    rc, out, err = sh([cxx] + flags + ["-E", "-P", src], timeout=300, text=False)
    if rc != 0:
        return src, None, err.decode("utf-8", "replace")
    key = sha(out + ("\0".join(flags)).encode())[:32]
    obj = os.path.join(OBJ, key + ".o")
    if os.path.exists(obj):
        return src, obj, ""
    tmp = obj + ".tmp%d" % os.getpid()
    rc, out2, err2 = sh([cxx] + flags + ["-c", src, "-o", tmp], timeout=900)
    if rc != 0:
        return src, None, err2
    os.replace(tmp, obj)
    return src, obj, ""


def la(path):
    """src-relative 'dir/libX.la' -> absolute static archive path"""
    p = os.path.join(SRC, path)
    d, b = os.path.split(p)
    return os.path.normpath(os.path.join(d, ".libs", b[:-3] + ".a"))


def glob_fresh(reldir, exclude=()):
    """all .cc files of a /repo directory (relative to /repo), minus tests"""
    d = os.path.join(REPO, reldir)
    out = []
    for f in sorted(os.listdir(d)):
        if f.endswith(".cc") and not f.startswith("test") and f not in exclude \
           and not f.startswith("stub_"):
            out.append(os.path.join(reldir, f))
    return out


def build(name, driver, fresh=(), link=(), flags=(), sanitize=None, syslibs=None, cxx="g++",
          extra_srcs=()):
    """Returns the path of the built harness binary. Raises BuildError."""
    cflags = list(BASE_FLAGS) + list(flags)
    lflags = []
    if sanitize == "asan":
        cflags += SAN
        lflags += ["-fsanitize=address,undefined"]
    elif sanitize == "ubsan":
        cflags += UBSAN
        lflags += ["-fsanitize=undefined"]
    srcs = [os.path.join(VERIF, "harness", driver)] + [os.path.join(VERIF, "harness", e) for e in extra_srcs]
    srcs += [os.path.join(REPO, f) for f in fresh]
    jobs = [(s, cflags, cxx) for s in srcs]
    objs = []
    with concurrent.futures.ThreadPoolExecutor(max_workers=16) as ex:
        for src, obj, err in ex.map(_compile_one, jobs):
            if obj is None:
                raise BuildError("compile failed: %s\n%s" % (src, err[-4000:]))
            objs.append(obj)
    links = []
    for l in link:
        if l.startswith("-"):
            links.append(l)
        elif l.endswith(".la"):
            links.append(la(l))
        else:
            links.append(os.path.join(SRC, l))
    freshbase = set(os.path.splitext(os.path.basename(f))[0] for f in fresh)
    links = [l for l in links if not (l.endswith(".o") and os.path.splitext(os.path.basename(l))[0] in freshbase)]
    for l in links:
        if not l.startswith("-") and not os.path.exists(l):
            raise BuildError("missing prebuilt support object %s (is /repo built?)" % l)
    key = sha("\0".join(objs + links + lflags))[:16]
    out = os.path.join(BIN, "%s-%s" % (name, key))
    if os.path.exists(out):
        return out
    with lock("link-" + name):
        if os.path.exists(out):
            return out
        tmp = out + ".tmp%d" % os.getpid()
        lobjs = [l for l in links if l.endswith(".o")]
        larch = [l for l in links if not l.endswith(".o")]
        cmd = [cxx] + lflags + ["-o", tmp] + objs + lobjs + ["-Wl,--start-group"] + larch + \
              ["-Wl,--end-group"] + (SYSLIBS if syslibs is None else list(syslibs))
        rc, o, e = sh(cmd, timeout=600)
        if rc != 0:
            raise BuildError("link failed for %s:\n%s" % (name, e[-6000:]))
        os.replace(tmp, out)
    return out
