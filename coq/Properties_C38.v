(* Properties_C38.v — C38: PROXY protocol headers are parsed faithfully and incrementally.
   Statements only; proofs live in ProxypProofs.v.
   [ipf] is the un-modelled IP text conversion (Ip::Address::GetHostByName, i.e. getaddrinfo):
   every theorem holds for ANY such function; where a theorem needs to know what a text converts
   to, that is a hypothesis ([ipf st = Some sa]).  An address is the 16 raw bytes Ip::Address keeps
   (IPv4 is stored v4-mapped; [is_ipv4] is Ip::Address::isIPv4()).
   [pp_parse ipf buf] models ProxyProtocol::Parse(buf): [Ok header size], [More]
   (InsufficientInput) or [Reject e] (TextException). *)
Require Import SquidV.Bytes SquidV.TokModel SquidV.ProxypModel SquidV.ProxypProofs.
Require Import SquidV.gen.Proxyp_gen.
Local Open Scope N_scope.

(* ================================================================== *)
(* Sentence 1: for any byte prefix, parsing asks for more bytes, rejects, or returns the same
   header that parsing the complete input returns.                                         *)

Theorem C38_definitive_outcome_is_final : forall ipf b x,
  pp_parse ipf b <> More -> pp_parse ipf (b ++ x) = pp_parse ipf b.
Proof. exact pp_parse_ext. Qed.
Print Assumptions C38_definitive_outcome_is_final.

Theorem C38_parsed_header_stable_under_extension : forall ipf b x h n,
  pp_parse ipf b = Ok h n -> pp_parse ipf (b ++ x) = Ok h n.
Proof. exact pp_ok_stable. Qed.
Print Assumptions C38_parsed_header_stable_under_extension.

Theorem C38_rejection_stable_under_extension : forall ipf b x e,
  pp_parse ipf b = Reject e -> pp_parse ipf (b ++ x) = Reject e.
Proof. exact pp_reject_stable. Qed.
Print Assumptions C38_rejection_stable_under_extension.

Theorem C38_prefix_answer_is_more_or_final : forall ipf p x,
  pp_parse ipf p = More \/ pp_parse ipf p = pp_parse ipf (p ++ x).
Proof. exact pp_prefix_consistent. Qed.
Print Assumptions C38_prefix_answer_is_more_or_final.

(* the same, over the list of answers an incremental caller sees (one per prefix length 0..n) *)
Theorem C38_every_prefix_answer_is_more_or_final : forall ipf full o,
  In o (pp_parse_prefixes ipf full) -> o = More \/ o = pp_parse ipf full.
Proof. exact pp_all_prefixes_consistent. Qed.
Print Assumptions C38_every_prefix_answer_is_more_or_final.

Theorem C38_consumed_size_within_input : forall ipf b h n,
  pp_parse ipf b = Ok h n -> n <= lenN b.
Proof. exact pp_ok_size_le. Qed.
Print Assumptions C38_consumed_size_within_input.

(* the model's explicit-fuel TLV loop never reports its out-of-fuel artefact *)
Theorem C38_model_never_out_of_fuel : forall ipf b, pp_parse ipf b <> Reject E_fuel.
Proof. exact pp_never_out_of_fuel. Qed.
Print Assumptions C38_model_never_out_of_fuel.

(* ================================================================== *)
(* Sentence 2: for every well-formed header the parsed addresses, ports, command and TLVs equal
   the encoded ones and the consumed length is exactly the header length — whatever follows.  *)

(* v1 TCP4/TCP6; ports are any digit strings with value <= 65535 (leading zeros included).
   _partial: for TCP6 both addresses must not be v4-mapped (see C38_v1_tcp6_v4mapped_refuted). *)
Theorem C38_v1_tcp_roundtrip_partial : forall ipf fam st dt sa da sps dps rest,
  st <> [] -> dt <> [] -> forallb ipChars st = true -> forallb ipChars dt = true ->
  ipf st = Some sa -> ipf dt = Some da ->
  ((fam = 52 /\ is_ipv4 sa = true /\ is_ipv4 da = true) \/ (fam = 54 /\ is_ipv4 sa = false /\ is_ipv4 da = false)) ->
  sps <> [] -> Forall is_dec sps -> dec_value sps <= 65535 ->
  dps <> [] -> Forall is_dec dps -> dec_value dps <= 65535 ->
  lenN (enc_v1_tcp fam st dt sps dps) <= v1_maxHeaderLength ->
  pp_parse ipf (enc_v1_tcp fam st dt sps dps ++ rest) =
  Ok {| h_v2 := false; h_cmd := pp_cmdProxy; h_ignore := false;
        h_src := sa; h_sport := dec_value sps; h_dst := da; h_dport := dec_value dps; h_tlvs := [] |}
     (lenN (enc_v1_tcp fam st dt sps dps)).
Proof. exact v1_tcp_roundtrip. Qed.
Print Assumptions C38_v1_tcp_roundtrip_partial.

(* the same with ports given as numbers and printed in canonical decimal (sweep over all 65536 ports) *)
Theorem C38_v1_tcp_roundtrip_numeric_partial : forall ipf fam st dt sa da sp dp rest,
  st <> [] -> dt <> [] -> forallb ipChars st = true -> forallb ipChars dt = true ->
  ipf st = Some sa -> ipf dt = Some da ->
  ((fam = 52 /\ is_ipv4 sa = true /\ is_ipv4 da = true) \/ (fam = 54 /\ is_ipv4 sa = false /\ is_ipv4 da = false)) ->
  sp < 65536 -> dp < 65536 ->
  lenN (enc_v1_tcp fam st dt (dec sp) (dec dp)) <= v1_maxHeaderLength ->
  pp_parse ipf (enc_v1_tcp fam st dt (dec sp) (dec dp) ++ rest) =
  Ok {| h_v2 := false; h_cmd := pp_cmdProxy; h_ignore := false;
        h_src := sa; h_sport := sp; h_dst := da; h_dport := dp; h_tlvs := [] |}
     (lenN (enc_v1_tcp fam st dt (dec sp) (dec dp))).
Proof. exact v1_tcp_roundtrip_numeric. Qed.
Print Assumptions C38_v1_tcp_roundtrip_numeric_partial.

Theorem C38_v1_unknown_roundtrip : forall ipf junk rest,
  forallb nonCR junk = true -> lenN (enc_v1_unknown junk) <= v1_maxHeaderLength ->
  pp_parse ipf (enc_v1_unknown junk ++ rest) =
  Ok {| h_v2 := false; h_cmd := pp_cmdProxy; h_ignore := true;
        h_src := addr_empty; h_sport := 0; h_dst := addr_empty; h_dport := 0; h_tlvs := [] |}
     (lenN (enc_v1_unknown junk)).
Proof. exact v1_unknown_roundtrip. Qed.
Print Assumptions C38_v1_unknown_roundtrip.

(* v2, PROXY command, families INET / INET6 / UNIX, STREAM or DGRAM, any TLV list *)
Theorem C38_v2_proxy_roundtrip : forall ipf a proto tlvs rest,
  v2addr_wf a -> (proto = pp_tpStream \/ proto = pp_tpDgram) ->
  Forall (fun t => lenN (snd t) < 65536) tlvs ->
  lenN (enc_v2_addr a ++ enc_tlvs tlvs) < 65536 ->
  pp_parse ipf (enc_v2 pp_cmdProxy (v2addr_family a) proto (enc_v2_addr a ++ enc_tlvs tlvs) ++ rest) =
  Ok (v2_expected pp_cmdProxy a tlvs)
     (lenN (enc_v2 pp_cmdProxy (v2addr_family a) proto (enc_v2_addr a ++ enc_tlvs tlvs))).
Proof. exact v2_proxy_roundtrip. Qed.
Print Assumptions C38_v2_proxy_roundtrip.

(* v2, LOCAL command: addresses are read, the rest of the block is discarded (no TLVs reported) *)
Theorem C38_v2_local_roundtrip : forall ipf a proto extra rest,
  v2addr_wf a -> (proto = pp_tpStream \/ proto = pp_tpDgram) ->
  lenN (enc_v2_addr a ++ extra) < 65536 ->
  pp_parse ipf (enc_v2 pp_cmdLocal (v2addr_family a) proto (enc_v2_addr a ++ extra) ++ rest) =
  Ok (v2_expected pp_cmdLocal a [])
     (lenN (enc_v2 pp_cmdLocal (v2addr_family a) proto (enc_v2_addr a ++ extra))).
Proof. exact v2_local_roundtrip. Qed.
Print Assumptions C38_v2_local_roundtrip.

(* v2, unspecified family or protocol: the whole block is skipped, no address is reported *)
Theorem C38_v2_unspec_roundtrip : forall ipf cmd fam proto payload rest,
  cmd <= pp_cmdProxy -> fam <= pp_afUnix -> proto <= pp_tpDgram ->
  (fam = pp_afUnspecified \/ proto = pp_tpUnspecified) -> lenN payload < 65536 ->
  pp_parse ipf (enc_v2 cmd fam proto payload ++ rest) =
  Ok {| h_v2 := true; h_cmd := cmd; h_ignore := true;
        h_src := addr_empty; h_sport := 0; h_dst := addr_empty; h_dport := 0; h_tlvs := [] |}
     (lenN (enc_v2 cmd fam proto payload)).
Proof. exact v2_unspec_roundtrip. Qed.
Print Assumptions C38_v2_unspec_roundtrip.

(* the TLV decoder inverts the TLV encoder for every list of TLVs *)
Theorem C38_tlvs_roundtrip : forall tlvs,
  Forall (fun t => lenN (snd t) < 65536) tlvs -> parse_tlvs (enc_tlvs tlvs) = TOk tlvs.
Proof. exact parse_tlvs_enc. Qed.
Print Assumptions C38_tlvs_roundtrip.

(* ================================================================== *)
(* Sentence 3: malformed headers are rejected.                         *)

(* more than 100 bytes without CR after "PROXY" (a line longer than 107 bytes) *)
Theorem C38_v1_oversized_line_rejected : forall ipf body rest,
  forallb nonCR body = true -> v1_maxInteriorLength < lenN body ->
  pp_parse ipf (pp_magic1 ++ body ++ rest) = Reject E1_malformed_header.
Proof. exact v1_oversized_rejected. Qed.
Print Assumptions C38_v1_oversized_line_rejected.

(* a port whose digits denote more than 65535: ANY number of digits, also beyond 2^63 *)
Theorem C38_v1_big_source_port_rejected : forall ipf fam st dt sa da sps more rest,
  st <> [] -> dt <> [] -> forallb ipChars st = true -> forallb ipChars dt = true ->
  ipf st = Some sa -> ipf dt = Some da -> famChars fam = true ->
  sps <> [] -> Forall is_dec sps -> 65535 < dec_value sps -> stops10 more ->
  forallb nonCR more = true -> lenN (fam :: 32 :: st ++ 32 :: dt ++ 32 :: sps ++ more) <= 96 ->
  exists e, pp_parse ipf (pp_magic1 ++ (32 :: s_TCP ++ fam :: 32 :: st ++ 32 :: dt ++ 32 :: sps ++ more) ++ 13 :: 10 :: rest)
  = Reject e.
Proof. exact v1_big_src_port_rejected. Qed.
Print Assumptions C38_v1_big_source_port_rejected.

Theorem C38_v1_big_destination_port_rejected : forall ipf fam st dt sa da sps dps more rest,
  st <> [] -> dt <> [] -> forallb ipChars st = true -> forallb ipChars dt = true ->
  ipf st = Some sa -> ipf dt = Some da -> famChars fam = true ->
  sps <> [] -> Forall is_dec sps -> dec_value sps <= 65535 ->
  dps <> [] -> Forall is_dec dps -> 65535 < dec_value dps -> stops10 more ->
  forallb nonCR more = true -> lenN (fam :: 32 :: st ++ 32 :: dt ++ 32 :: sps ++ 32 :: dps ++ more) <= 96 ->
  exists e, pp_parse ipf (pp_magic1 ++ (32 :: s_TCP ++ fam :: 32 :: st ++ 32 :: dt ++ 32 :: sps ++ 32 :: dps ++ more) ++ 13 :: 10 :: rest)
  = Reject e.
Proof. exact v1_big_dst_port_rejected. Qed.
Print Assumptions C38_v1_big_destination_port_rejected.

(* a port field that does not start with a digit (sign, letter, space, ...) *)
Theorem C38_v1_nonnumeric_port_rejected : forall ipf fam st dt sa da c more rest,
  st <> [] -> dt <> [] -> forallb ipChars st = true -> forallb ipChars dt = true ->
  ipf st = Some sa -> ipf dt = Some da -> famChars fam = true ->
  digit_of 10 c = None ->
  forallb nonCR (c :: more) = true -> lenN (fam :: 32 :: st ++ 32 :: dt ++ 32 :: c :: more) <= 96 ->
  exists e, pp_parse ipf (pp_magic1 ++ (32 :: s_TCP ++ fam :: 32 :: st ++ 32 :: dt ++ 32 :: c :: more) ++ 13 :: 10 :: rest)
  = Reject e.
Proof. exact v1_nonnumeric_src_port_rejected. Qed.
Print Assumptions C38_v1_nonnumeric_port_rejected.

(* declared TCP4 with an address that is not IPv4, or declared TCP6 with an address that is *)
Theorem C38_v1_family_mismatch_rejected : forall ipf fam st dt sa da more rest,
  st <> [] -> dt <> [] -> forallb ipChars st = true -> forallb ipChars dt = true ->
  ipf st = Some sa -> ipf dt = Some da ->
  ((fam = 52 /\ (is_ipv4 sa = false \/ is_ipv4 da = false)) \/ (fam = 54 /\ (is_ipv4 sa = true \/ is_ipv4 da = true))) ->
  forallb nonCR more = true -> lenN (fam :: 32 :: st ++ 32 :: dt ++ 32 :: more) <= 96 ->
  pp_parse ipf (pp_magic1 ++ (32 :: s_TCP ++ fam :: 32 :: st ++ 32 :: dt ++ 32 :: more) ++ 13 :: 10 :: rest)
  = Reject E1_family_mismatch.
Proof. exact v1_family_mismatch_rejected. Qed.
Print Assumptions C38_v1_family_mismatch_rejected.

Theorem C38_v2_bad_version_rejected : forall ipf vc rest, vc / 16 <> 2 ->
  pp_parse ipf (pp_magic2 ++ vc :: rest) = Reject (E2_version (vc / 16)).
Proof. exact v2_bad_version_rejected. Qed.
Print Assumptions C38_v2_bad_version_rejected.

Theorem C38_v2_bad_command_rejected : forall ipf vc rest, vc / 16 = 2 -> pp_cmdProxy < vc mod 16 ->
  pp_parse ipf (pp_magic2 ++ vc :: rest) = Reject (E2_command (vc mod 16)).
Proof. exact v2_bad_command_rejected. Qed.
Print Assumptions C38_v2_bad_command_rejected.

Theorem C38_v2_bad_family_rejected : forall ipf vc fp rest,
  vc / 16 = 2 -> vc mod 16 <= pp_cmdProxy -> pp_afUnix < fp / 16 ->
  pp_parse ipf (pp_magic2 ++ vc :: fp :: rest) = Reject (E2_family (fp / 16)).
Proof. exact v2_bad_family_rejected. Qed.
Print Assumptions C38_v2_bad_family_rejected.

Theorem C38_v2_bad_protocol_rejected : forall ipf vc fp rest,
  vc / 16 = 2 -> vc mod 16 <= pp_cmdProxy -> fp / 16 <= pp_afUnix -> pp_tpDgram < fp mod 16 ->
  pp_parse ipf (pp_magic2 ++ vc :: fp :: rest) = Reject (E2_proto (fp mod 16)).
Proof. exact v2_bad_proto_rejected. Qed.
Print Assumptions C38_v2_bad_protocol_rejected.

(* the declared length is smaller than the address block of the declared family (12 / 36 / 216) *)
Theorem C38_v2_short_address_block_rejected : forall ipf cmd fam proto payload rest,
  cmd <= pp_cmdProxy -> (fam = pp_afInet \/ fam = pp_afInet6 \/ fam = pp_afUnix) ->
  (proto = pp_tpStream \/ proto = pp_tpDgram) -> lenN payload < v2_block_size fam ->
  pp_parse ipf (enc_v2 cmd fam proto payload ++ rest) = Reject E_must.
Proof. exact v2_short_address_block_rejected. Qed.
Print Assumptions C38_v2_short_address_block_rejected.

(* 12 or more bytes that start with neither magic *)
Theorem C38_invalid_magic_rejected : forall ipf b,
  starts_with b pp_magic1 = false -> starts_with b pp_magic2 = false -> lenN pp_magic2 <= lenN b ->
  pp_parse ipf b = Reject E_magic.
Proof. exact invalid_magic_rejected. Qed.
Print Assumptions C38_invalid_magic_rejected.

(* bytes after the digits of the destination port (anything that is not a further digit, no CR):
   rejected, whatever follows the line (holds since the repair of One::Parse, /repo ea1b14e) *)
Theorem C38_v1_bytes_after_dst_port_rejected : forall ipf fam st dt sa da sps dps junk rest,
  st <> [] -> dt <> [] -> forallb ipChars st = true -> forallb ipChars dt = true ->
  ipf st = Some sa -> ipf dt = Some da -> famChars fam = true ->
  sps <> [] -> Forall is_dec sps -> dps <> [] -> Forall is_dec dps ->
  junk <> [] -> stops10 junk -> forallb nonCR junk = true ->
  lenN (fam :: 32 :: st ++ 32 :: dt ++ 32 :: sps ++ 32 :: dps ++ junk) <= 96 ->
  exists e,
  pp_parse ipf (pp_magic1 ++ (32 :: s_TCP ++ fam :: 32 :: st ++ 32 :: dt ++ 32 :: sps ++ 32 :: dps ++ junk) ++ 13 :: 10 :: rest)
  = Reject e.
Proof. exact v1_trailing_bytes_rejected. Qed.
Print Assumptions C38_v1_bytes_after_dst_port_rejected.

(* the former finding: "PROXY TCP4 1.1.1.1 1.1.1.1 1 2xyz\r\n" followed by anything *)
Theorem C38_v1_trailing_xyz_rejected : forall ipf,
  ipf b_1111 = Some a_1111 ->
  forall rest, pp_parse ipf (line_trailing ++ rest) = Reject E1_garbage_after_dst_port.
Proof. exact v1_bytes_after_dst_port_rejected. Qed.
Print Assumptions C38_v1_trailing_xyz_rejected.

(* converse of the round trip (the statement that the trailing bytes used to falsify): every input
   on which Parse reports a v1 header with addresses starts with a well-formed TCP line — exactly
   "PROXY TCP" fam SP src SP dst SP digits SP digits CRLF, at most 107 bytes — the reported fields
   are the written ones and the consumed size is the length of that line *)
Theorem C38_v1_accepted_line_is_wellformed : forall ipf b h n,
  pp_parse ipf b = Ok h n -> h_v2 h = false -> h_ignore h = false ->
  exists fam st dt sps dps rest,
    b = enc_v1_tcp fam st dt sps dps ++ rest /\ n = lenN (enc_v1_tcp fam st dt sps dps) /\
    n <= v1_maxHeaderLength /\
    famChars fam = true /\ address_family (h_src h) (h_dst h) = [fam] /\
    st <> [] /\ forallb ipChars st = true /\ ipf st = Some (h_src h) /\
    dt <> [] /\ forallb ipChars dt = true /\ ipf dt = Some (h_dst h) /\
    sps <> [] /\ Forall is_dec sps /\ h_sport h = dec_value sps /\ h_sport h <= 65535 /\
    dps <> [] /\ Forall is_dec dps /\ h_dport h = dec_value dps /\ h_dport h <= 65535 /\
    h_cmd h = pp_cmdProxy /\ h_tlvs h = [].
Proof. exact v1_accepted_is_wellformed. Qed.
Print Assumptions C38_v1_accepted_line_is_wellformed.

(* ================================================================== *)
(* Deviation of the code from the property (finding), proved of the faithful model and
   reproduced on the implementation (corpus/C38/known.txt).                               *)

(* "every well-formed header is parsed" is FALSE for TCP6 with a v4-mapped address:
   "PROXY TCP6 ::ffff:1.1.1.1 ::1 1 2\r\n" is rejected as a family mismatch *)
Theorem C38_v1_tcp6_v4mapped_refuted : forall ipf,
  ipf b_mapped = Some a_1111 -> ipf b_v6 = Some a_v6 ->
  pp_parse ipf line_mapped = Reject E1_family_mismatch.
Proof. exact v1_tcp6_v4mapped_refuted. Qed.
Print Assumptions C38_v1_tcp6_v4mapped_refuted.

(* ================================================================== *)
(* the hypotheses above are satisfiable by concrete, non-trivial values
   ([ex_ipf] converts the three texts 1.1.1.1, ::1 and ::ffff:1.1.1.1 and nothing else) *)
(* "PROXY TCP4 1.1.1.1 1.1.1.1 80 443\r\n" followed by "GET" *)
Example ex_v1_tcp4 :
  pp_parse ex_ipf (enc_v1_tcp 52 b_1111 b_1111 [56;48] [52;52;51] ++ [71;69;84]) =
  Ok {| h_v2 := false; h_cmd := 1; h_ignore := false; h_src := a_1111; h_sport := 80;
        h_dst := a_1111; h_dport := 443; h_tlvs := [] |} 35.
Proof. vm_compute. reflexivity. Qed.

Example ex_v1_hyps :
  b_1111 <> [] /\ forallb ipChars b_1111 = true /\ ex_ipf b_1111 = Some a_1111 /\ is_ipv4 a_1111 = true /\
  dec_value [52;52;51] = 443 /\ dec 443 = [52;52;51] /\
  lenN (enc_v1_tcp 52 b_1111 b_1111 [56;48] [52;52;51]) <= v1_maxHeaderLength /\
  is_ipv4 a_v6 = false /\ stops10 [120;121;122] /\ digit_of 10 43 = None.
Proof. repeat split; try (vm_compute; congruence); reflexivity. Qed.

Example ex_v1_digits : Forall is_dec [52;52;51].
Proof. repeat (apply Forall_cons; [unfold is_dec; lia|]). apply Forall_nil. Qed.

(* every prefix of that input is answered More until the line is complete (35 bytes), then the header *)
Example ex_v1_prefixes :
  map (fun o => match o with More => 0 | Ok _ n => n | Reject _ => 999 end)
      (pp_parse_prefixes ex_ipf (enc_v1_tcp 52 b_1111 b_1111 [56;48] [52;52;51] ++ [71;69;84])) =
  repeat 0 35%nat ++ [35; 35; 35; 35].
Proof. vm_compute. reflexivity. Qed.

(* v2 PROXY INET STREAM 1.2.3.4:80 -> 5.6.7.8:443 with TLVs (1,"h2") and (4,"") *)
Example ex_v2 :
  v2addr_wf (A_inet [1;2;3;4] [5;6;7;8] 80 443) /\
  pp_parse ex_ipf (enc_v2 pp_cmdProxy pp_afInet pp_tpStream
                     (enc_v2_addr (A_inet [1;2;3;4] [5;6;7;8] 80 443) ++ enc_tlvs [(1, [104;50]); (4, [])]) ++ [71]) =
  Ok {| h_v2 := true; h_cmd := 1; h_ignore := false; h_src := v4_prefix ++ [1;2;3;4]; h_sport := 80;
        h_dst := v4_prefix ++ [5;6;7;8]; h_dport := 443; h_tlvs := [(1, [104;50]); (4, [])] |} 36.
Proof. split; [vm_compute; repeat split; congruence|vm_compute; reflexivity]. Qed.

(* rejections and stability have instances: a bad version byte is rejected at 13 bytes and stays rejected *)
Example ex_reject_stable :
  pp_parse ex_ipf (pp_magic2 ++ [49]) = Reject (E2_version 3) /\
  pp_parse ex_ipf (pp_magic2 ++ [49] ++ [1;2;3]) = Reject (E2_version 3) /\
  pp_parse ex_ipf (pp_magic2) = More /\ pp_parse ex_ipf [80;82;79] = More.
Proof. vm_compute. repeat split; reflexivity. Qed.
