"""C34: each transaction yields exactly one well-delimited access-log record (quoting functions at unit level + end to end
through the real squid with a custom logformat using every quoting style)."""
import base64, concurrent.futures, json, os, random, re, time
from vlib import std, lab, common, hbuild, coq, corr

PID = "C34"
META = {
    "text": "Theorems (Properties_C34.v, closed under the global context), for ALL byte strings: log_quoted_string, QuoteMimeBlob, "
            "strwordquote, rfc1738_escape and rfc1738_escape_unescaped never emit a raw CR or LF; URL and default style never emit a "
            "space (the field ends at the next space, whatever follows); the quoted-string style followed by a double quote, the "
            "mime-blob style followed by a closing bracket and the shell style followed by a space are read back by a reference "
            "reader to exactly the original C string and exactly the rest (delimited AND reversible, any continuation); the URL style "
            "is undone by RFC 3986 percent-decoding. For EVERY logformat (literal text without LF, codes under any of the five "
            "quoting styles incl. the style inherited from surrounding quote/bracket characters as Format::Token::parse tracks it) the "
            "record assembled by Format::assemble + SquidCustom contains exactly one LF, its last byte. The user-name field of the "
            "built-in squid format (QuoteUrlEncodeUsername = QuoteMimeBlob + spaces rewritten to %20, as repaired by /repo a257b3d, "
            "former finding F11) is proved, for EVERY name, free of space/CR/LF, delimited by the next space and decodable back to the "
            "name. What still deviates (known finding C34-mimeblob-bare-space): the mime-blob style itself leaves SP as it is "
            "(documented), so a custom logformat using a %[code outside brackets is split by a value containing a space - REFUTED "
            "witness + partial statement: output is printable ASCII without "
            "brackets. Hand-written per-byte rules are proved equal to the tables regenerated from the real functions; which function "
            "each LOG_QUOTE_ style runs, the modifier bytes, the guard around the switch and which %codes set quote=1 are regenerated "
            "from src/format/{ByteCode.h,Token.cc,Format.cc} on every run. Tie: unit differential run of the extracted model against "
            "the real functions (ASan/UBSan) and end-to-end: a logformat with 16 fields in every style, hostile header values / "
            "methods / URLs / Basic user names; lines per transaction counted, the record compared byte for byte with the model's "
            "and re-parsed field by field by an independent tokenizer.",
    "note": "partial: 'every finished transaction produces exactly one record' (that accessLogLog is called once per transaction) rests "
            "on the end-to-end run only; the theorems cover what one call writes. The raw style (%') and %codes that do not set "
            "quote=1 used without any style (%un, %ru, %ul ...) are written as they are (model-level witness "
            "C34_unprotected_code_passes_line_feed_refuted; the proxy rejects user names with line breaks, and %ru is cleaned before "
            "logging, so no end-to-end reproducer). strwordquote is compiled from a textual cut of src/tools.cc (that file needs most "
            "of squid to link). Field width limits ({min.max}) are not modelled. Trusted: Coq kernel, extraction, gen/gen_bytemaps.cc, "
            "gen/logquote_switch.py (textual analysis), harness/h_pagelog.cc, vlib/lab.py.",
    "technique": "Coq proof (induction over strings with per-entry lemmas, reference readers as specifications, vm_compute sweeps over "
                 "the regenerated 256-entry tables, induction over logformat items with the inherited-style context) + unit and "
                 "end-to-end differential correspondence of the extracted model + independent re-parsing oracle",
}

FRESH = ["src/format/Quoting.cc", "lib/rfc1738.cc", "src/html/Quoting.cc"]
LINK = ["tests/stub_HelperChildConfig.o", "tests/stub_HttpHeader.o", "tests/stub_HttpRequest.o",
        "tests/stub_StatHist.o", "String.o", "tests/stub_access_log.o", "tests/stub_cbdata.o",
        "tests/stub_debug.o", "tests/stub_libhttp.o", "tests/stub_libmem.o", "MemBuf.o",
        "anyp/libanyp.la", "libsquid.la", "parser/libparser.la", "base/libbase.la", "ip/libip.la",
        "sbuf/libsbuf.la", "../lib/libmiscencoding.la", "../compat/libcompatsquid.la", "-Wl,--gc-sections"]
SANFLAGS = ["-O1", "-g", "-fsanitize=address,undefined", "-fno-sanitize=vptr", "-fno-sanitize-recover=all", "-fno-omit-frame-pointer"]


def cut_strwordquote():
    """the text of strwordquote() from the working tree's src/tools.cc, for textual inclusion into the harness"""
    src = open(os.path.join(common.REPO, "src", "tools.cc"), encoding="latin1").read()
    m = re.search(r"^void\nstrwordquote\(MemBuf \* ?mb, const char \*str\)\n\{\n.*?^\}\n", src, re.S | re.M)
    if not m:
        raise hbuild.BuildError("strwordquote() not found in src/tools.cc")
    d = os.path.join(common.BUILD, "pagelog-inc")
    os.makedirs(d, exist_ok=True)
    p = os.path.join(d, "strwordquote.inc")
    txt = "// cut out of src/tools.cc by checks/c34.py\n" + m.group(0)
    if not os.path.exists(p) or open(p).read() != txt:
        with open(p + ".tmp%d" % os.getpid(), "w") as f:
            f.write(txt)
        os.replace(p + ".tmp%d" % os.getpid(), p)
    return d


def impl():
    d = cut_strwordquote()
    return hbuild.build("h_pagelog", "h_pagelog.cc", fresh=FRESH, link=LINK,
                        flags=["-ffunction-sections", "-fdata-sections", "-I" + d] + SANFLAGS, sanitize=None,
                        syslibs=["-fsanitize=address,undefined"] + hbuild.SYSLIBS)


def prebuild():
    impl()


def hx(b):
    return bytes(b).hex() if len(b) else "-"


def unhx(h):
    return b"" if h in ("-", "null") else bytes.fromhex(h)


# ------------------------------------------------------------------ reference decoders (independent of the model)
def dec_backslash(b, tab):
    out = bytearray(); i = 0
    while i < len(b):
        c = b[i]
        if c == 0x5c:
            if i + 1 >= len(b):
                return None
            e = b[i + 1]
            out.append({0x6e: 10, 0x72: 13}.get(e, 9 if (tab and e == 0x74) else e)); i += 2
        else:
            out.append(c); i += 1
    return bytes(out)


def dec_pct(b, strict=True):
    out = bytearray(); i = 0
    while i < len(b):
        c = b[i]
        if c == 0x25 and i + 2 < len(b) + 0 and re.fullmatch(rb"[0-9a-fA-F]{2}", b[i + 1:i + 3] or b""):
            out.append(int(b[i + 1:i + 3], 16)); i += 3
        elif c == 0x25 and strict:
            return None
        else:
            out.append(c); i += 1
    return bytes(out)


def dec_mime(b):
    out = bytearray(); i = 0
    while i < len(b):
        c = b[i]
        if c == 0x25:
            if not re.fullmatch(rb"[0-9a-fA-F]{2}", b[i + 1:i + 3]):
                return None
            out.append(int(b[i + 1:i + 3], 16)); i += 3
        elif c == 0x5c:
            e = b[i + 1:i + 2]
            if e not in (b"r", b"n", b"\\"):
                return None
            out.append({b"r": 13, b"n": 10, b"\\": 0x5c}[e]); i += 2
        else:
            out.append(c); i += 1
    return bytes(out)


def dec_shell(b):
    if b.startswith(b'"'):
        if len(b) < 2 or not b.endswith(b'"'):
            return None
        return dec_backslash(b[1:-1], False)
    return dec_backslash(b, False)


# ------------------------------------------------------------------ unit stage
ALPH = [0x20, 0x22, 0x5c, 0x0a, 0x0d, 0x09, 0x25, 0x5b, 0x5d, 0x27, 0x23, 0x41, 0x61, 0x30, 0x7f, 0x80, 0xff, 0x01, 0x3c, 0x26]


def gen_unit(rng, n, big=False):
    cases = ["lq.all -", "lq.all 20", "lq.all 2020", "lq.all 22", "lq.all 5c", "lq.all 0a", "lq.all 0d0a", "lq.all 00", "lq.all 4100"]
    for _ in range(n):
        k = rng.random()
        if k < 0.5:
            b = bytes(rng.choice(ALPH) for _ in range(rng.choice([1, 2, 3, 4, 6, 10, 30])))
        elif k < 0.8:
            b = bytes(rng.randrange(1, 256) for _ in range(rng.choice([1, 5, 20, 100, 600, 1100, 2100] if big else [1, 5, 20, 60, 100, 300, 1100])))
        elif k < 0.9:
            b = bytes(rng.randrange(0, 256) for _ in range(rng.choice([2, 8, 40])))       # embedded NULs
        else:
            b = bytes(range(1, 256))
        cases.append("lq.all " + hx(b))
    return cases


def unit_oracle(case, out):
    if out.startswith(("EXC", "ERR", "CRASH")) or "=" not in out:
        return ("oracle:harness", "the implementation crashed or threw: " + out[:200])
    raw = unhx(case.split()[1])
    s = raw.split(b"\0")[0]
    f = dict(kv.split("=", 1) for kv in out.split())
    for name in ("qs", "mime", "url", "def", "shell"):
        v = unhx(f[name])
        if b"\n" in v or b"\r" in v:
            return ("oracle:raw-line-break:" + name, "%s form contains a raw CR or LF" % name)
    for name in ("url", "def"):
        if b" " in unhx(f[name]):
            return ("oracle:raw-space:" + name, "%s form contains a raw space" % name)
    qs = unhx(f["qs"])
    if re.search(rb'(?<!\\)(?:\\\\)*"', qs):
        return ("oracle:unescaped-quote:qs", "quoted-string form contains an unescaped double quote")
    if dec_backslash(qs, True) != s:
        return ("oracle:not-reversible:qs", "quoted-string form does not decode to the value")
    m = unhx(f["mime"])
    if b"[" in m or b"]" in m:
        return ("oracle:raw-bracket:mime", "mime-blob form contains a raw bracket")
    if dec_mime(m) != s:
        return ("oracle:not-reversible:mime", "mime-blob form does not decode to the value")
    if not s:
        if f["user"] != "null":
            return ("oracle:username-quote", "QuoteUrlEncodeUsername gives a string for an empty name")
    else:
        u = unhx(f["user"])
        if b" " in u:
            return ("oracle:raw-space:user", "the quoted user name contains a raw space")
        if b"\n" in u or b"\r" in u:
            return ("oracle:raw-line-break:user", "the quoted user name contains a raw CR or LF")
        if dec_mime(u) != s:
            return ("oracle:not-reversible:user", "the quoted user name does not decode to the name")
    if dec_pct(unhx(f["url"])) != s:
        return ("oracle:not-reversible:url", "URL form does not percent-decode to the value")
    sh = unhx(f["shell"])
    if dec_shell(sh) != s:
        return ("oracle:not-reversible:shell", "shell form does not decode to the value")
    if (b" " in s) != sh.startswith(b'"') and not s.startswith(b'"') or (b" " in sh and not (sh.startswith(b'"') and sh.endswith(b'"'))):
        if b" " in sh and not (sh.startswith(b'"') and sh.endswith(b'"')):
            return ("oracle:raw-space:shell", "shell form has a space outside quotes")
    return None


def unit_stage(res, tier):
    rng = random.Random(common.seed() * 1000003 + 3434)
    exe = impl()
    runner = coq.build_runner("pagelog")
    n = 2000 if tier == "quick" else 120000
    corpus = std.load_corpus(PID)
    cases = corpus + gen_unit(rng, n, big=(tier != "quick"))
    impl_out, model_out, dis = std.corr_stage(res, cases, exe, runner, kind_fn=lambda c, o: "unit:" + ("ok" if "qs=" in o else "x"),
                                              nontrivial_fn=lambda c, o: len(c) > 12)
    found = 0
    for c, o in zip(cases, impl_out):
        v = unit_oracle(c, o)
        if v:
            sig, why = v
            if res.fail(sig, "%s on input `%s`: implementation answered `%s`: %s" % (PID, c[:400], o[:300], why),
                        {"case": c, "impl": o, "oracle": why, "signature": sig}):
                found += 1
    if dis and not found:
        k, c, a, b = dis[0]
        res.fail("corr:lq.all", "model and implementation disagree on %d unit cases (first: `%s` impl=`%s` model=`%s`); the oracle "
                 "holds on every implementation answer explored" % (len(dis), c[:300], a[:200], b[:200]),
                 {"no_failing_input_found": True, "broken": "correspondence PagelogModel quoting functions vs the real functions",
                  "case": c, "impl": a, "model": b, "disagreements": len(dis)})
    res.extra["unit_cases"] = len(cases)
    res.extra["unit_disagreements"] = len(dis)


# ------------------------------------------------------------------ end to end
# the logformat: (kind, modifier, code text, value key, space after) or literal text
def L(t): return ("L", t)
def C(mod, code, kind, key, space): return ("C", mod, code, kind, key, space)


FORMAT = [L("VL "), C(None, "{X-Id}>h", 1, "id", True), C(None, "{X-H}>h", 1, "h", True),
          L('"'), C(None, "{X-H}>h", 1, "h", False), L('" "'), C('"', "{X-H}>h", 1, "h", False), L('" ['),
          C(None, "{X-H}>h", 1, "h", False), L("] "), C("#", "{X-H}>h", 1, "h", True), C("/", "{X-H}>h", 1, "h", True),
          C(None, "rm", 4, "m", True), C(None, ">ru", 6, "u", True),
          L('"'), C('"', "un", 5, "a", False), L('" ['), C("[", "un", 5, "a", False), L("] "),
          C("/", "un", 5, "a", True), C("#", "un", 5, "a", True), C("[", "un", 5, "a", True),
          L("["), C(None, ">ha", 2, "ha", False), L("] END")]
# how the independent tokenizer reads each field: (name, reader, value key, decoder name)
LAYOUT = [("id", "sp", "id", "def"), ("h-default", "sp", "h", "def"), ("h-ctxquote", "q", "h", "qs"), ("h-quote", "q", "h", "qs"),
          ("h-ctxmime", "br", "h", "mime"), ("h-url", "sp", "h", "url"), ("h-shell", "sh", "h", "shell"),
          ("method", "sp", "m", "def"), ("uri", "sp", "u", "def"), ("un-quote", "q", "a", "qs"), ("un-mime", "br", "a", "mime"),
          ("un-shell", "sh", "a", "shell"), ("un-url", "sp", "a", "url"), ("un-bare-mime", "sp", "a", "mime"),
          ("all-headers", "br", "ha", "mime")]


def format_text():
    out = ""
    for it in FORMAT:
        if it[0] == "L":
            out += it[1]
        else:
            out += "%" + (it[1] or "") + it[2] + (" " if it[5] else "")
    return out


HVALS = ["plain", "a b", "a \"q\" b", "back\\slash", "[br] %41 %", "tab\there", "x'y#z", "<b>&", "caf\xe9 \xff", "\x7f\x01ctl",
         "sp  sp", "\"", "\\", "%", "]", "a]b[c", "\\n", "%0D%0A"]
UVALS = ["alice", "a b", "bob\"x", "per%cent", "br[ack]et", "back\\s", "t\tab", "x y z", "u'q", "caf\xe9", "sh ell\"q"]
MVALS = ["GET", "GET", "X'M&", "FOO-BAR", "X!M~"]
PVALS = ["plain", "q'&x", "p%41z", "a;b=c", "x~y"]


def gen_scenarios(rng, n):
    out = []
    for k in range(n):
        r = rng.random()
        if r < 0.6:
            h = rng.choice(HVALS)
        else:
            h = "".join(chr(rng.choice(ALPH[:1] + ALPH[1:3] + ALPH[5:])) for _ in range(rng.choice([1, 3, 8, 20]))).strip(" \t") or "x"
            h = h.replace("\n", "n").replace("\r", "r")
        out.append({"k": k, "h": h, "user": rng.choice(UVALS + [None, None]), "method": rng.choice(MVALS), "p": rng.choice(PVALS)})
    return out


_state = {}


def values(s, ident, orgport):
    """what squid holds for the logged items (as sent; header values are trimmed)"""
    url = "http://127.0.0.1:%d/%s/%s" % (orgport, ident, s["p"])
    hs = [("Host", "127.0.0.1:%d" % orgport), ("X-Id", ident), ("X-H", s["h"])]
    if s["user"] is not None:
        hs.append(("Proxy-Authorization", "Basic " + base64.b64encode((s["user"] + ":pw").encode("latin1")).decode()))
    ha = "".join("%s: %s\r\n" % (n, v) for n, v in hs)
    return {"id": ident, "h": s["h"], "m": s["method"], "u": url, "a": s["user"], "ha": ha, "headers": hs, "url": url}


def _one(args):
    s, n = args
    sq, org = _state["sq"], _state["org"]
    ident = "t%dr%d" % (s["k"], n)
    v = values(s, ident, org.port)
    req = "%s %s HTTP/1.1\r\n" % (s["method"], v["url"]) + "".join("%s: %s\r\n" % h for h in v["headers"]) + "\r\n"
    try:
        raw, closed = lab.exchange(sq.port, [req.encode("latin1")], idle=0.6, total=10.0, until=lambda r: lab.n_complete(r, 1, ["GET"]))
    except OSError as ex:
        return (ident, "noreply")
    rs, _ = lab.parse_responses(raw, ["GET"], eof=closed)
    fin = [r for r in rs if r.status is not None and not (100 <= r.status < 200)]
    return (ident, "status=%s" % (fin[0].status if fin else "none"))


def run_impl(L, scenarios):
    if "sq" not in _state or not _state["sq"].alive():
        _state["org"] = L.origin()
        helper = os.path.join(L.dir, "authok.py")
        with open(helper, "w") as f:
            f.write("#!/usr/bin/python3 -u\nimport sys\nfor l in sys.stdin:\n    sys.stdout.write('OK\\n'); sys.stdout.flush()\n")
        os.chmod(helper, 0o755)
        _state["log"] = os.path.join(L.dir, "v.log")
        open(_state["log"], "w").close()
        os.chmod(_state["log"], 0o666)
        conf = ("auth_param basic program %s\nauth_param basic children 3\nauth_param basic realm verif\n"
                "auth_param basic casesensitive on\nacl authed proxy_auth REQUIRED\nacl hascred req_header Proxy-Authorization .\n"
                "logformat v %s\naccess_log stdio:%s v\n" % (helper, format_text(), _state["log"]))
        _state["sq"] = L.squid(extra_conf=conf, access="http_access deny hascred !authed\nhttp_access allow all")
        _state["n"] = 0
        lab.get(_state["sq"].port, "http://127.0.0.1:%d/warm" % _state["org"].port,
                headers=[("Proxy-Authorization", "Basic " + base64.b64encode(b"warm:pw").decode())])
    _state["n"] += 1
    n = _state["n"]
    with concurrent.futures.ThreadPoolExecutor(max_workers=8) as ex:
        done = list(ex.map(_one, [(s, n) for s in scenarios]))
    # wait for the records (the log is buffered until the event loop's next turn)
    want = set(i for i, _ in done)
    t0 = time.time()
    lines = []
    while time.time() - t0 < 6:
        with open(_state["log"], "rb") as f:
            lines = f.read().split(b"\n")
        have = set()
        for ln in lines:
            m = re.match(rb"VL (t\d+r\d+) ", ln)
            if m:
                have.add(m.group(1).decode())
        if want <= have:
            break
        time.sleep(0.3)
    if lines and lines[-1] == b"":
        lines.pop()
    native = [ln for ln in _state["sq"].access_lines()]
    out = []
    for (ident, st), s in zip(done, scenarios):
        nat = [ln for ln in native if ("/%s/" % ident) in ln]
        # (a logformat using %>ha switches header logging on for the built-in format too: cut the two bracketed blobs off)
        natf = len(nat[0].split(" [")[0].split()) if len(nat) == 1 else -len(nat)
        idx = [i for i, ln in enumerate(lines) if ln.startswith(b"VL " + ident.encode() + b" ")]
        if not idx:
            out.append("%s nl=0 rec=-" % st)
            continue
        i = idx[0]
        j = i + 1
        while j < len(lines) and not lines[j].startswith(b"VL "):
            j += 1
        rec = b"\n".join(lines[i:j]) + b"\n"
        rec = rec.replace(ident.encode(), b"t%d" % s["k"])
        out.append("%s records=%d nl=%d nat=%d rec=%s" % (st, len(idx), j - i, natf, rec.hex()))
    return out


def to_case(s):
    v = values(s, "t%d" % s["k"], _state["org"].port)
    items = []
    for it in FORMAT:
        if it[0] == "L":
            items.append("L:" + hx(it[1].encode("latin1")))
        else:
            val = v[it[4]]
            if it[4] == "h":
                val = val.strip(" \t")
            items.append("C:%s:%d:%s:%d" % (str(ord(it[1])) if it[1] else "-", it[3],
                                            "~" if val is None else hx(val.encode("latin1")), 1 if it[5] else 0))
    return "lq.record200 %s %s" % ("~" if v["a"] is None else hx(v["a"].encode("latin1")), " ".join(items))


def read_fields(rec):
    """independent tokenizer for the record layout above; returns list of raw field bytes or (index, reason)"""
    if not rec.startswith(b"VL ") or not rec.endswith(b" END\n"):
        return (0, "frame")
    b = rec[3:-1]
    out = []
    i = 0
    for k, (name, reader, key, dec) in enumerate(LAYOUT):
        if reader == "sp":
            j = b.find(b" ", i)
            if j < 0:
                return (k, "no-space")
            out.append(b[i:j]); i = j + 1
        elif reader in ("q", "sh") and (reader == "q" or b[i:i + 1] == b'"'):
            if b[i:i + 1] != b'"':
                return (k, "no-open-quote")
            j = i + 1
            while j < len(b) and b[j:j + 1] != b'"':
                j += 2 if b[j:j + 1] == b"\\" else 1
            if j >= len(b) or b[j + 1:j + 2] != b" ":
                return (k, "no-close-quote")
            out.append(b[i:j + 1] if reader == "sh" else b[i + 1:j]); i = j + 2
        elif reader == "sh":
            j = b.find(b" ", i)
            if j < 0:
                return (k, "no-space")
            out.append(b[i:j]); i = j + 1
        elif reader == "br":
            if b[i:i + 1] != b"[":
                return (k, "no-open-bracket")
            j = b.find(b"]", i)
            if j < 0 or b[j + 1:j + 2] != b" ":
                return (k, "no-close-bracket")
            out.append(b[i + 1:j]); i = j + 2
    if b[i:] != b"END":
        return (len(LAYOUT), "trailing")
    return out


DEC = {"def": lambda x: dec_pct(x, strict=False), "qs": lambda x: dec_backslash(x, True), "mime": dec_mime,
       "url": lambda x: dec_pct(x, strict=False), "shell": dec_shell}


def oracle(s, obs):
    """one record, one line, every field where the layout says and decoding to what was sent"""
    m = re.match(r"status=(\S+) records=(\d+) nl=(\d+) nat=(-?\d+) rec=([0-9a-f-]+)$", obs)
    if not m:
        return ("oracle:no-record", "no access-log record for the transaction: " + obs[:120])
    if m.group(1) != "200":
        return ("oracle:no-transaction", "the transaction did not complete with 200: " + obs[:60])
    if m.group(2) != "1":
        return ("oracle:record-count", "%s records for one transaction" % m.group(2))
    if m.group(3) != "1":
        return ("oracle:record-split", "the record occupies %s lines" % m.group(3))
    rec = bytes.fromhex(m.group(5))
    if m.group(4) != "10":
        if int(m.group(4)) > 10 and s["user"] is not None and " " in s["user"]:
            return ("oracle:field-split:native-username", "the user name %r contains a space: the record of the built-in squid "
                    "format has %s space-separated fields instead of 10" % (s["user"], m.group(4)))
        return ("oracle:native-record", "the built-in squid format wrote %s fields / records for the transaction" % m.group(4))
    v = values(s, "t%d" % s["k"], _state["org"].port if "org" in _state else 0)
    fields = read_fields(rec)
    user_sp = s["user"] is not None and " " in s["user"]
    if isinstance(fields, tuple):
        k, why = fields
        name = LAYOUT[k][0] if k < len(LAYOUT) else "end"
        if user_sp and k >= 14:
            return ("oracle:field-split:mimeblob-bare", "the user name %r contains a space: the bare mime-blob field %%[un is split "
                    "(following field %s unreadable: %s)" % (s["user"], name, why))
        return ("oracle:field-unreadable:" + name, "field %s cannot be read back (%s): %r" % (name, why, rec[:200]))
    for (name, reader, key, dec), raw in zip(LAYOUT, fields):
        want = v[key]
        if key == "h":
            want = want.strip(" \t")
        if want is None:
            if raw != b"-":
                return ("oracle:field-mismatch:" + name, "absent value logged as %r" % raw)
            continue
        want = want.encode("latin1")
        got = DEC[dec](raw)
        if dec in ("def", "url"):
            want2 = dec_pct(want, strict=False) if dec == "def" else want
            if b" " in raw or got != want2:
                if name == "un-bare-mime" and user_sp:
                    pass
                else:
                    return ("oracle:field-mismatch:" + name, "field %s = %r does not decode to %r" % (name, raw, want))
        elif got != want:
            if name == "un-bare-mime" and user_sp:
                return ("oracle:field-split:mimeblob-bare", "the user name %r contains a space: the bare mime-blob field %%[un reads %r"
                        % (s["user"], raw))
            return ("oracle:field-mismatch:" + name, "field %s = %r does not decode to %r" % (name, raw, want))
    return None


def run(res, tier):
    res.rule = ("unit: C strings over an alphabet of the special bytes (space quote backslash CR LF TAB % [ ] ' # < & DEL 8-bit), random "
                "strings up to 1100 (thorough: 2100) bytes, embedded NULs, all 255 byte values; end to end: GET/extension-method requests with header "
                "values, URL paths and Basic user names containing spaces, quotes, backslashes, brackets, percent signs, control and "
                "8-bit bytes, logged through `logformat v " + format_text() + "`; non-trivial = the value contains at least one byte "
                "some style must escape")
    try:
        unit_stage(res, tier)
        std.run_lab(res, PID, tier, area="pagelog", gens=["bytemaps", "errmacros", "logquote"], gen_scenarios=gen_scenarios,
                    run_impl=run_impl, to_case=to_case, oracle=oracle,
                    corr_name="PagelogModel (log_record) vs the running squid's access log",
                    n_quick=120, n_thorough=3000, seed_salt=34,
                    kind_fn=lambda s, o: "e2e:" + ("user" if s["user"] else "anon") + ":" + o.split(" ")[0],
                    nontrivial_fn=lambda s, o: bool(re.search(r"[^A-Za-z0-9]", s["h"] + (s["user"] or ""))))
    finally:
        _state.clear()
