(* ChunkedProofs.v — proofs about ChunkedModel.v (TeChunkedParser and the callers' loop).
   Layout: (1) Tokenizer primitives under extension of the buffer; (2) quoted strings; (3) one extension and
   the extension loop: decided outcomes are stable, the checkpoint is a restart point; (4)
   parseChunkMetadataSuffix: stability and (since the repair 1aa8f1c, unconditional) checkpoint commutation;
   (5) chunk-size; (6) headersEnd on trailer sections; (7) per-stage steps;
   (8) the invariant of one parse() call and of the callers' loop over any (segment, capacity)
   schedule; (9) RFC character classes and the chunk-ext grammar satisfy what (8) needs;
   (10) the theorems about RFC 9112 chunked bodies; (11) rejections; (12) segmentation independence
   for ALL inputs (instance of Incremental.v). *)
Require Import SquidV.Bytes SquidV.TokModel SquidV.TokProofs SquidV.Int64Proofs SquidV.Incremental SquidV.ChunkedModel.
Require Import SquidV.gen.CharSets_gen.
Require Import ZifyBool ZifyN ZifyNat.
Local Open Scope N_scope.
Ltac dsc := first [discriminate | (cbv beta iota; discriminate) | (let Hx := fresh in intro Hx; cbv beta iota in Hx; discriminate)].


(* ======================= part 1 ======================= *)


(* ---------- lists ---------- *)
Lemma span_stop_app {A} (p : A -> bool) a y r :
  forallb p a = true -> p y = false -> span p (a ++ y :: r) = (a, y :: r).
Proof.
  induction a as [|c a IH]; cbn [app span forallb]; intros Ha Hy.
  - now rewrite Hy.
  - apply andb_prop in Ha as [Hc Ha]. rewrite Hc, (IH Ha Hy). reflexivity.
Qed.

Lemma span_all_nil {A} (p : A -> bool) a : forallb p a = true -> span p a = (a, []).
Proof.
  induction a as [|c a IH]; cbn [span forallb]; intros Ha; [reflexivity|].
  apply andb_prop in Ha as [Hc Ha]. now rewrite Hc, (IH Ha).
Qed.

Lemma span_snd_cons_app {A} (p : A -> bool) b y r x :
  snd (span p b) = y :: r -> span p (b ++ x) = (fst (span p b), y :: r ++ x).
Proof.
  intros H. pose proof (span_app p b) as Happ. pose proof (span_all p b) as Hall.
  pose proof (span_stop p b) as Hst. rewrite H in *.
  rewrite <- Happ at 1. rewrite <- app_assoc. cbn [app]. apply span_stop_app; assumption.
Qed.

Lemma takeN_app_le {A} n (a b : list A) : n <= lenN a -> takeN n (a ++ b) = takeN n a.
Proof.
  revert n; induction a as [|x a IH]; intros n H; cbn [lenN app takeN] in *.
  - assert (n = 0) by lia. subst. apply takeN_0.
  - destruct (n =? 0) eqn:E; [reflexivity|]. rewrite IH by lia. reflexivity.
Qed.

Lemma takeN_app_ge {A} n (a b : list A) : lenN a <= n -> takeN n (a ++ b) = a ++ takeN (n - lenN a) b.
Proof.
  revert n; induction a as [|x a IH]; intros n H; cbn [lenN app takeN] in *.
  - now rewrite N.sub_0_r.
  - destruct (n =? 0) eqn:E; [apply N.eqb_eq in E; lia|]. apply N.eqb_neq in E. rewrite <- N.sub_1_r. assert (Hk : lenN a <= n - 1) by lia. rewrite (IH _ Hk). replace (n - 1 - lenN a) with (n - N.succ (lenN a)) by lia. reflexivity.
Qed.

Lemma dropN_app_le {A} n (a b : list A) : n <= lenN a -> dropN n (a ++ b) = dropN n a ++ b.
Proof.
  revert n; induction a as [|x a IH]; intros n H; cbn [lenN app dropN] in *.
  - assert (n = 0) by lia. subst. now rewrite dropN_0.
  - destruct (n =? 0) eqn:E; [reflexivity|]. apply IH. lia.
Qed.

Lemma lenN_nil_iff {A} (l : list A) : lenN l = 0 <-> l = [].
Proof. split; [apply lenN_0_nil| intros ->; reflexivity]. Qed.

Lemma is_nil_app {A} (a b : list A) : is_nil a = false -> is_nil (a ++ b) = false.
Proof. destruct a; [discriminate| reflexivity]. Qed.

(* ---------- result extension ---------- *)
Definition ext1 (x : bytes) (r : res bytes) : res bytes :=
  match r with Ok b => Ok (b ++ x) | Insuf => Insuf | Bad e => Bad e end.
Definition ext2 (x : bytes) (r : res (bytes * bytes)) : res (bytes * bytes) :=
  match r with Ok (t, b) => Ok (t, b ++ x) | Insuf => Insuf | Bad e => Bad e end.

(* ---------- Tokenizer primitives under extension of the buffer ---------- *)
Lemma skipAll_stable set b x n y r :
  tok_skipAll set b = (n, y :: r) -> tok_skipAll set (b ++ x) = (n, y :: r ++ x).
Proof.
  rewrite !tok_skipAll_spec. intros H. injection H as Hn Hr.
  rewrite (span_snd_cons_app set b y r x Hr). cbn [fst snd]. now rewrite Hn.
Qed.

Lemma bws_stable set b x : parse_bws_ set b <> Insuf -> parse_bws_ set (b ++ x) = ext1 x (parse_bws_ set b).
Proof.
  unfold parse_bws_. destruct (tok_skipAll set b) as [n r] eqn:E.
  destruct r as [|y r]; cbn [is_nil]; [congruence|]. intros _.
  rewrite (skipAll_stable _ _ x _ _ _ E). reflexivity.
Qed.

Lemma skipChar_stable c b x : b <> [] -> tok_skipChar c (b ++ x) = (fst (tok_skipChar c b), snd (tok_skipChar c b) ++ x).
Proof. destruct b as [|y b]; [congruence|]. intros _. cbn [app tok_skipChar]. destruct (y =? c); reflexivity. Qed.

Lemma prefix_stable_some set limit b x t y r :
  tok_prefix set limit b = Some (t, y :: r) -> tok_prefix set limit (b ++ x) = Some (t, y :: r ++ x).
Proof.
  rewrite !tok_prefix_eq_spec. unfold prefix_spec.
  destruct (N.le_gt_cases limit (lenN b)) as [Hle|Hgt].
  - rewrite takeN_app_le by exact Hle.
    destruct (fst (span set (takeN limit b))) as [|c run] eqn:Er; [discriminate|].
    intros H. injection H as Ht Hr. subst t.
    assert (Hl : lenN (c :: run) <= lenN b).
    { pose proof (span_app set (takeN limit b)) as Ha. rewrite Er in Ha.
      assert (lenN (takeN limit b) = lenN (c :: run) + lenN (snd (span set (takeN limit b)))) by (rewrite <- lenN_app, Ha; reflexivity).
      rewrite lenN_takeN in H. lia. }
    rewrite dropN_app_le by exact Hl. change (lenN (c :: run)) with (N.succ (lenN run)). rewrite Hr. reflexivity.
  - rewrite takeN_all by lia. rewrite takeN_app_ge by lia.
    pose proof (span_app set b) as Ha.
    destruct (fst (span set b)) as [|c run] eqn:Er; [discriminate|].
    intros H. injection H as Ht Hr. subst t.
    assert (Hs : snd (span set b) = y :: r).
    { pose proof (dropN_app_exact (c :: run) (snd (span set b))) as Hd. rewrite Ha in Hd.
      change (lenN (c :: run)) with (N.succ (lenN run)) in Hd. congruence. }
    rewrite (span_snd_cons_app set b y r _ Hs). cbn [fst]. rewrite Er.
    f_equal. f_equal. rewrite <- Ha at 1. rewrite Hs. rewrite <- app_assoc.
    apply (dropN_app_exact (c :: run)).
Qed.

Lemma prefix_stable_none set limit b x :
  b <> [] -> tok_prefix set limit b = None -> tok_prefix set limit (b ++ x) = None.
Proof.
  intros Hb H. apply tok_prefix_none in H. rewrite tok_prefix_eq_spec. unfold prefix_spec.
  destruct b as [|y b]; [congruence|]. cbn [app takeN].
  destruct H as [H|[H|H]]; [discriminate| subst limit; reflexivity|].
  destruct (limit =? 0); [reflexivity|]. cbn [span]. rewrite H. reflexivity.
Qed.

Lemma prefix_req_stable e set b x :
  tok_prefix_req e set b <> Insuf -> tok_prefix_req e set (b ++ x) = ext2 x (tok_prefix_req e set b).
Proof.
  unfold tok_prefix_req. destruct b as [|c b]; cbn [is_nil]; [congruence|].
  change ((c :: b) ++ x) with ((c :: b) ++ x). cbn [app is_nil].
  change (c :: b ++ x) with ((c :: b) ++ x).
  destruct (tok_prefix set npos (c :: b)) as [[t r]|] eqn:E.
  - destruct r as [|y r]; cbn [is_nil]; [congruence|]. intros _.
    rewrite (prefix_stable_some _ _ _ x _ _ _ E). reflexivity.
  - intros _. assert (Hne : c :: b <> []) by discriminate. rewrite (prefix_stable_none _ _ _ x Hne E). reflexivity.
Qed.

(* skipRequired of CRLF *)
Lemma skipRequired_crlf_cases e b :
  tok_skipRequired e crlf b =
  match b with
  | [] => Insuf
  | c0 :: b' => if c0 =? 13 then match b' with
                                 | [] => Insuf
                                 | c1 :: r => if c1 =? 10 then Ok r else Bad e
                                 end
                else Bad e
  end.
Proof.
  unfold tok_skipRequired, tok_skip, crlf.
  destruct b as [|c0 b]; [reflexivity|].
  cbn [starts_with lenN]. rewrite (N.eqb_sym 13 c0).
  destruct (c0 =? 13) eqn:E0; cbn [andb].
  - destruct b as [|c1 b]; [reflexivity|]. cbn [starts_with]. rewrite (N.eqb_sym 10 c1).
    destruct (c1 =? 10) eqn:E1; cbn [andb].
    + destruct b; reflexivity.
    + reflexivity.
  - reflexivity.
Qed.

Lemma skipRequired_stable e b x :
  tok_skipRequired e crlf b <> Insuf -> tok_skipRequired e crlf (b ++ x) = ext1 x (tok_skipRequired e crlf b).
Proof.
  rewrite !skipRequired_crlf_cases.
  destruct b as [|c0 b]; [congruence|]. cbn [app].
  destruct (c0 =? 13); [|reflexivity].
  destruct b as [|c1 b]; [congruence|]. cbn [app].
  destruct (c1 =? 10); reflexivity.
Qed.



(* ======================= part 2 ======================= *)

Lemma prefix1 set c r : tok_prefix set 1 (c :: r) = if set c then Some ([c], r) else None.
Proof.
  rewrite tok_prefix_eq_spec. unfold prefix_spec. cbn [takeN N.eqb]. 
  change (N.pred 1) with 0. rewrite takeN_0. cbn [span]. destruct (set c); [|reflexivity].
  cbn [fst lenN dropN]. change (N.succ 0 =? 0) with false. cbn iota. change (N.pred (N.succ 0)) with 0.
  now rewrite dropN_0.
Qed.

Lemma prefix_shorter set lim b t r : tok_prefix set lim b = Some (t, r) -> (length r < length b)%nat.
Proof.
  intros H. apply tok_prefix_sound in H as (Hb & Hne & _). subst b. rewrite app_length.
  destruct t; [congruence|]. cbn [length]. lia.
Qed.

Lemma skipChar_shorter c b : (length (snd (tok_skipChar c b)) <= length b)%nat.
Proof. destruct b as [|y b]; cbn [tok_skipChar snd length]; [lia|]. destruct (y =? c); cbn [snd length]; lia. Qed.

Lemma skipChar_true_shorter c b : fst (tok_skipChar c b) = true -> (length (snd (tok_skipChar c b)) < length b)%nat.
Proof. destruct b as [|y b]; cbn [tok_skipChar fst snd length]; [dsc|]. destruct (y =? c); cbn [fst snd length]; [lia|dsc]. Qed.

(* ---------- quoted-string loop ---------- *)
Definition qs_pre (acc b : bytes) : bytes * bytes :=
  match tok_prefix qdtext11 npos b with Some (t, r) => (acc ++ t, r) | None => (acc, b) end.

Lemma qs_step_eq k acc b :
  qs_loop (S k) acc b =
  match b with
  | [] => Some Insuf
  | _ =>
    let acc1 := fst (qs_pre acc b) in let b1 := snd (qs_pre acc b) in
    if fst (tok_skipChar 92 b1) then
      match snd (tok_skipChar 92 b1) with
      | [] => Some Insuf
      | c :: r2 => if qpair_chars c then qs_loop k (acc1 ++ [c]) r2 else Some (Bad EQPair)
      end
    else if fst (tok_skipChar 34 b1) then Some (Ok (acc1, snd (tok_skipChar 34 b1)))
    else match b1 with [] => Some Insuf | _ => Some (Bad EQdtext) end
  end.
Proof.
  cbn [qs_loop]. destruct b as [|c0 b0]; [reflexivity|]. unfold qs_pre.
  destruct (tok_prefix qdtext11 npos (c0 :: b0)) as [[t r]|]; cbn [fst snd];
  (destruct (tok_skipChar 92 _) as [bs b2]; cbn [fst snd]; destruct bs;
   [ destruct b2 as [|c r2]; [reflexivity|]; rewrite prefix1; destruct (qpair_chars c); reflexivity
   | destruct (tok_skipChar 34 _) as [dq b3]; cbn [fst snd]; reflexivity ]).
Qed.

Lemma qs_mono k : forall acc b v, qs_loop k acc b = Some v -> qs_loop (S k) acc b = Some v.
Proof.
  induction k as [|k IH]; intros acc b v H; [dsc|].
  rewrite qs_step_eq in H. rewrite qs_step_eq.
  destruct b as [|c0 b0]; [exact H|]. cbv zeta in *.
  destruct (fst (tok_skipChar 92 _)); [|exact H].
  destruct (snd (tok_skipChar 92 _)) as [|c r2]; [exact H|].
  destruct (qpair_chars c); [|exact H]. apply IH. exact H.
Qed.

Lemma qs_enough k : forall acc b, (length b < k)%nat -> qs_loop k acc b <> None.
Proof.
  induction k as [|k IH]; intros acc b Hl; [lia|].
  rewrite qs_step_eq. destruct b as [|c0 b0]; [dsc|]. cbv zeta.
  set (p := qs_pre acc (c0 :: b0)).
  assert (Hb1 : (length (snd p) <= length (c0 :: b0))%nat).
  { unfold p, qs_pre. destruct (tok_prefix qdtext11 npos (c0 :: b0)) as [[t r]|] eqn:E; cbn [snd]; [|lia].
    apply prefix_shorter in E. lia. }
  destruct (fst (tok_skipChar 92 (snd p))) eqn:Ebs.
  - pose proof (skipChar_true_shorter 92 (snd p) Ebs) as Hs.
    destruct (snd (tok_skipChar 92 (snd p))) as [|c r2]; [dsc|].
    destruct (qpair_chars c); [|dsc]. apply IH. cbn [length] in *. lia.
  - destruct (fst (tok_skipChar 34 (snd p))); [dsc|]. destruct (snd p); dsc.
Qed.

Lemma qs_stable k : forall acc b x v, qs_loop k acc b = Some v -> v <> Insuf ->
  qs_loop k acc (b ++ x) = Some (ext2 x v).
Proof.
  induction k as [|k IH]; intros acc b x v H Hv; [dsc|].
  rewrite qs_step_eq in H. rewrite qs_step_eq.
  destruct b as [|c0 b0]; [congruence|]. cbv zeta in *.
  change ((c0 :: b0) ++ x) with (c0 :: b0 ++ x). cbv iota.
  change (c0 :: b0 ++ x) with ((c0 :: b0) ++ x).
  set (b := c0 :: b0) in *.
  set (p := qs_pre acc b) in *.
  set (p' := qs_pre acc (b ++ x)).
  assert (Hp : snd p <> [] -> p' = (fst p, snd p ++ x)).
  { unfold p, p', qs_pre. destruct (tok_prefix qdtext11 npos b) as [[t r]|] eqn:E; cbn [fst snd].
    - destruct r as [|y r]; [congruence|]. intros _. rewrite (prefix_stable_some _ _ _ x _ _ _ E). reflexivity.
    - intros _. assert (Hne : b <> []) by (unfold b; dsc).
      rewrite (prefix_stable_none _ _ _ x Hne E). reflexivity. }
  destruct (snd p) as [|y1 b1] eqn:Eb1.
  { cbn [tok_skipChar fst snd] in H. congruence. }
  rewrite (Hp ltac:(dsc)). cbn [fst snd].
  assert (Hne1 : y1 :: b1 <> []) by dsc.
  rewrite !(skipChar_stable _ (y1 :: b1) x Hne1). cbn [fst snd].
  destruct (fst (tok_skipChar 92 (y1 :: b1))).
  - destruct (snd (tok_skipChar 92 (y1 :: b1))) as [|c r2]; [congruence|]. cbn [app].
    destruct (qpair_chars c).
    + apply IH; assumption.
    + injection H as <-. reflexivity.
  - destruct (fst (tok_skipChar 34 (y1 :: b1))).
    + injection H as <-. reflexivity.
    + injection H as <-. reflexivity.
Qed.

Lemma qs_shorter k : forall acc b v r, qs_loop k acc b = Some (Ok (v, r)) -> (length r < length b)%nat.
Proof.
  induction k as [|k IH]; intros acc b v r H; [dsc|].
  rewrite qs_step_eq in H. destruct b as [|c0 b0]; [dsc|]. cbv zeta in H.
  set (b := c0 :: b0) in *.
  set (p := qs_pre acc b) in *.
  assert (Hb1 : (length (snd p) <= length b)%nat).
  { unfold p, qs_pre. destruct (tok_prefix qdtext11 npos b) as [[t r']|] eqn:E; cbn [snd]; [|lia].
    apply prefix_shorter in E. lia. }
  destruct (fst (tok_skipChar 92 (snd p))) eqn:Ebs.
  - pose proof (skipChar_true_shorter 92 (snd p) Ebs) as Hs.
    destruct (snd (tok_skipChar 92 (snd p))) as [|c r2]; [dsc|].
    destruct (qpair_chars c); [|dsc]. apply IH in H. cbn [length] in *. lia.
  - destruct (fst (tok_skipChar 34 (snd p))) eqn:Edq.
    + pose proof (skipChar_true_shorter 34 (snd p) Edq) as Hs. injection H as _ <-. lia.
    + destruct (snd p); dsc.
Qed.

(* ---------- tokenOrQuotedString ---------- *)
Lemma toq_some b : token_or_qs b <> None.
Proof.
  unfold token_or_qs. destruct (tok_skipChar 34 b) as [dq b1] eqn:E. destruct dq.
  - unfold quoted_suffix. apply qs_enough. lia.
  - destruct (is_nil b); [dsc|]. destruct (tok_prefix cs_TCHAR npos b) as [[t r]|]; [|dsc].
    destruct (is_nil r); dsc.
Qed.

Lemma toq_stable b x v : token_or_qs b = Some v -> v <> Insuf -> token_or_qs (b ++ x) = Some (ext2 x v).
Proof.
  unfold token_or_qs. intros H Hv.
  destruct b as [|c0 b0].
  { cbn in H. congruence. }
  assert (Hne : c0 :: b0 <> []) by dsc.
  rewrite (skipChar_stable 34 _ x Hne).
  destruct (tok_skipChar 34 (c0 :: b0)) as [dq b1] eqn:E. cbn [fst snd].
  destruct dq.
  - unfold quoted_suffix in *.
    pose proof (qs_stable _ _ _ x _ H Hv) as Hs.
    assert (Hm : forall n k acc bb vv, qs_loop k acc bb = Some vv -> qs_loop (n + k) acc bb = Some vv).
    { induction n as [|n IHn]; intros; [assumption|]. cbn [Nat.add]. apply qs_mono. apply IHn. assumption. }
    rewrite app_length.
    replace (S (length b1 + length x))%nat with (length x + S (length b1))%nat by lia.
    apply Hm. exact Hs.
  - change (is_nil ((c0 :: b0) ++ x)) with false. cbn [is_nil] in H. cbv iota in *.
    destruct (tok_prefix cs_TCHAR npos (c0 :: b0)) as [[t r]|] eqn:Ep.
    + destruct r as [|y r]; cbn [is_nil] in H; [congruence|].
      rewrite (prefix_stable_some _ _ _ x _ _ _ Ep). cbn [is_nil]. injection H as <-. reflexivity.
    + rewrite (prefix_stable_none _ _ _ x Hne Ep). injection H as <-. reflexivity.
Qed.

Lemma toq_shorter b v r : token_or_qs b = Some (Ok (v, r)) -> (length r < length b)%nat.
Proof.
  unfold token_or_qs. destruct (tok_skipChar 34 b) as [dq b1] eqn:E. destruct dq.
  - intros H. apply qs_shorter in H. pose proof (skipChar_shorter 34 b) as Hs. rewrite E in Hs. cbn [snd] in Hs. lia.
  - destruct (is_nil b); [dsc|]. destruct (tok_prefix cs_TCHAR npos b) as [[t r']|] eqn:Ep; [|dsc].
    destruct (is_nil r'); [dsc|]. intros H. injection H as _ <-. eapply prefix_shorter; eassumption.
Qed.



(* ======================= part 3 ======================= *)

Lemma bws_ok_inv set b r : parse_bws_ set b = Ok r -> r <> [] /\ (length r <= length b)%nat.
Proof.
  unfold parse_bws_. rewrite tok_skipAll_spec. pose proof (span_app set b) as Ha.
  destruct (snd (span set b)) as [|y r'] eqn:E; cbn [is_nil]; [discriminate|].
  intros H. injection H as <-. split; [discriminate|].
  rewrite <- Ha, app_length. lia.
Qed.

Lemma bws_not_bad set b e : parse_bws_ set b <> Bad e.
Proof. unfold parse_bws_. destruct (tok_skipAll set b) as [n r]. destruct (is_nil r); discriminate. Qed.

Lemma prefix_req_ok_inv e set b t r : tok_prefix_req e set b = Ok (t, r) -> r <> [] /\ (length r < length b)%nat.
Proof.
  unfold tok_prefix_req. destruct (is_nil b); [discriminate|].
  destruct (tok_prefix set npos b) as [[t' r']|] eqn:E; [|discriminate].
  destruct r' as [|y r']; cbn [is_nil]; [discriminate|]. intros H. injection H as <- <-.
  split; [discriminate|]. eapply prefix_shorter; eassumption.
Qed.

(* ---------- parseOneChunkExtension ---------- *)
Lemma one_ext_some relaxed b : one_ext relaxed b <> None.
Proof.
  unfold one_ext. destruct (parse_bws relaxed b); try dsc.
  destruct (tok_prefix_req EExtName cs_TCHAR a) as [[t b2]| |]; try dsc.
  destruct (parse_bws relaxed b2); try dsc.
  destruct (tok_skipChar 61 a0) as [eq b4]. destruct eq; cbn [negb]; try dsc.
  destruct (parse_bws relaxed b4); try dsc.
  pose proof (toq_some a1) as Hq. destruct (token_or_qs a1) as [[[v b6]| |]|]; try dsc. congruence.
Qed.

Lemma one_ext_stable relaxed b x v : one_ext relaxed b = Some v -> v <> Insuf ->
  one_ext relaxed (b ++ x) = Some (ext1 x v).
Proof.
  unfold one_ext, parse_bws. intros H Hv.
  destruct (parse_bws_ (ws_chars relaxed) b) as [b1| |e] eqn:E1; [| congruence | exfalso; eapply bws_not_bad; eassumption].
  rewrite bws_stable by congruence. rewrite E1. cbn [ext1].
  destruct (tok_prefix_req EExtName cs_TCHAR b1) as [[t b2]| |e] eqn:E2; [| congruence |].
  2:{ rewrite prefix_req_stable by congruence. rewrite E2. cbn [ext2]. injection H as <-. reflexivity. }
  rewrite prefix_req_stable by congruence. rewrite E2. cbn [ext2].
  destruct (parse_bws_ (ws_chars relaxed) b2) as [b3| |e] eqn:E3; [| congruence | exfalso; eapply bws_not_bad; eassumption].
  rewrite bws_stable by congruence. rewrite E3. cbn [ext1].
  destruct (bws_ok_inv _ _ _ E3) as [Hb3 _].
  rewrite (skipChar_stable 61 b3 x Hb3).
  destruct (tok_skipChar 61 b3) as [eq b4] eqn:E4. cbn [fst snd]. destruct eq; cbn [negb] in *.
  2:{ injection H as <-. reflexivity. }
  destruct (parse_bws_ (ws_chars relaxed) b4) as [b5| |e] eqn:E5; [| congruence | exfalso; eapply bws_not_bad; eassumption].
  rewrite bws_stable by congruence. rewrite E5. cbn [ext1].
  destruct (token_or_qs b5) as [[[vv b6]| |e]|] eqn:E6; try congruence.
  - rewrite (toq_stable _ x _ E6) by congruence. cbn [ext2]. injection H as <-. reflexivity.
  - rewrite (toq_stable _ x _ E6) by congruence. cbn [ext2]. injection H as <-. reflexivity.
Qed.

Lemma one_ext_shorter relaxed b b3 : one_ext relaxed b = Some (Ok b3) -> (length b3 < length b)%nat.
Proof.
  unfold one_ext, parse_bws. intros H.
  destruct (parse_bws_ (ws_chars relaxed) b) as [b1| |e] eqn:E1; try discriminate.
  destruct (bws_ok_inv _ _ _ E1) as [_ L1].
  destruct (tok_prefix_req EExtName cs_TCHAR b1) as [[t b2]| |e] eqn:E2; try discriminate.
  destruct (prefix_req_ok_inv _ _ _ _ _ E2) as [_ L2].
  destruct (parse_bws_ (ws_chars relaxed) b2) as [b3'| |e] eqn:E3; try discriminate.
  destruct (bws_ok_inv _ _ _ E3) as [_ L3].
  pose proof (skipChar_shorter 61 b3') as L4.
  destruct (tok_skipChar 61 b3') as [eq b4] eqn:E4. cbn [snd] in L4. destruct eq; cbn [negb] in H.
  2:{ injection H as <-. lia. }
  destruct (parse_bws_ (ws_chars relaxed) b4) as [b5| |e] eqn:E5; try discriminate.
  destruct (bws_ok_inv _ _ _ E5) as [_ L5].
  destruct (token_or_qs b5) as [[[vv b6]| |e]|] eqn:E6; try discriminate.
  apply toq_shorter in E6. injection H as <-. lia.
Qed.

(* ---------- parseChunkExtensions loop ---------- *)
Lemma exts_step_eq k relaxed ctok ck :
  exts_loop (S k) relaxed ctok ck =
  match parse_bws relaxed ctok with
  | Insuf => Some (Insuf, ck) | Bad e => Some (Bad e, ck)
  | Ok b1 =>
    if negb (fst (tok_skipChar 59 b1)) then Some (Ok ctok, ck)
    else match one_ext relaxed (snd (tok_skipChar 59 b1)) with
         | None => None
         | Some Insuf => Some (Insuf, ck)
         | Some (Bad e) => Some (Bad e, ck)
         | Some (Ok b3) => exts_loop k relaxed b3 b3
         end
  end.
Proof. cbn [exts_loop]. destruct (parse_bws relaxed ctok); try reflexivity. destruct (tok_skipChar 59 a); reflexivity. Qed.

Lemma exts_mono k : forall relaxed ctok ck v, exts_loop k relaxed ctok ck = Some v -> exts_loop (S k) relaxed ctok ck = Some v.
Proof.
  induction k as [|k IH]; intros relaxed ctok ck v H; [discriminate|].
  rewrite exts_step_eq in H. rewrite exts_step_eq.
  destruct (parse_bws relaxed ctok); try exact H.
  destruct (negb (fst (tok_skipChar 59 a))); [exact H|].
  destruct (one_ext relaxed (snd (tok_skipChar 59 a))) as [[b3| |e]|]; try exact H.
  apply IH. exact H.
Qed.

Lemma exts_mono_le k k' relaxed ctok ck v : (k <= k')%nat ->
  exts_loop k relaxed ctok ck = Some v -> exts_loop k' relaxed ctok ck = Some v.
Proof. induction 1 as [|m Hle IHle]; [tauto|]. intros Hx. apply exts_mono. tauto. Qed.

Lemma exts_enough k : forall relaxed ctok ck, (length ctok < k)%nat -> exts_loop k relaxed ctok ck <> None.
Proof.
  induction k as [|k IH]; intros relaxed ctok ck Hl; [lia|].
  rewrite exts_step_eq. unfold parse_bws.
  destruct (parse_bws_ (ws_chars relaxed) ctok) as [b1| |e] eqn:E1; try dsc.
  destruct (bws_ok_inv _ _ _ E1) as [_ L1].
  destruct (negb (fst (tok_skipChar 59 b1))) eqn:En; [dsc|].
  pose proof (skipChar_shorter 59 b1) as L2.
  pose proof (one_ext_some relaxed (snd (tok_skipChar 59 b1))) as Hs.
  destruct (one_ext relaxed (snd (tok_skipChar 59 b1))) as [[b3| |e]|] eqn:E3; try dsc; [|congruence].
  apply one_ext_shorter in E3. apply IH. lia.
Qed.

(* fuel-free form *)
Definition exts (relaxed : bool) (ctok ck : bytes) : res bytes * bytes :=
  match exts_loop (S (length ctok)) relaxed ctok ck with Some v => v | None => (Insuf, ck) end.

Lemma exts_loop_exts k relaxed ctok ck : (length ctok < k)%nat -> exts_loop k relaxed ctok ck = Some (exts relaxed ctok ck).
Proof.
  intros Hl. unfold exts.
  pose proof (exts_enough (S (length ctok)) relaxed ctok ck ltac:(lia)) as Hs.
  destruct (exts_loop (S (length ctok)) relaxed ctok ck) as [v|] eqn:E; [|congruence].
  eapply exts_mono_le; [|exact E]. lia.
Qed.

Lemma exts_unfold relaxed ctok ck :
  exts relaxed ctok ck =
  match parse_bws relaxed ctok with
  | Insuf => (Insuf, ck) | Bad e => (Bad e, ck)
  | Ok b1 =>
    if negb (fst (tok_skipChar 59 b1)) then (Ok ctok, ck)
    else match one_ext relaxed (snd (tok_skipChar 59 b1)) with
         | None => (Insuf, ck)
         | Some Insuf => (Insuf, ck)
         | Some (Bad e) => (Bad e, ck)
         | Some (Ok b3) => exts relaxed b3 b3
         end
  end.
Proof.
  unfold exts at 1. rewrite exts_step_eq. unfold parse_bws.
  destruct (parse_bws_ (ws_chars relaxed) ctok) as [b1| |e] eqn:E1; try reflexivity.
  destruct (bws_ok_inv _ _ _ E1) as [_ L1].
  destruct (negb (fst (tok_skipChar 59 b1))); [reflexivity|].
  pose proof (skipChar_shorter 59 b1) as L2.
  destruct (one_ext relaxed (snd (tok_skipChar 59 b1))) as [[b3| |e]|] eqn:E3; try reflexivity.
  apply one_ext_shorter in E3. rewrite exts_loop_exts by lia. reflexivity.
Qed.

(* decided outcomes are stable under extension *)
Lemma exts_stable relaxed : forall n ctok, (length ctok <= n)%nat -> forall ck x,
  fst (exts relaxed ctok ck) <> Insuf ->
  exts relaxed (ctok ++ x) (ck ++ x) = (ext1 x (fst (exts relaxed ctok ck)),
                                        snd (exts relaxed ctok ck) ++ x).
Proof.
  induction n as [|n IH]; intros ctok Hl ck x.
  - destruct ctok; [|cbn in Hl; lia]. rewrite exts_unfold. cbn. congruence.
  - rewrite (exts_unfold relaxed ctok ck). rewrite (exts_unfold relaxed (ctok ++ x)). unfold parse_bws.
    destruct (parse_bws_ (ws_chars relaxed) ctok) as [b1| |e] eqn:E1; cbn [fst snd]; [| congruence | exfalso; eapply bws_not_bad; eassumption].
    rewrite bws_stable by congruence. rewrite E1. cbn [ext1].
    destruct (bws_ok_inv _ _ _ E1) as [Hb1 L1].
    rewrite (skipChar_stable 59 b1 x Hb1). cbn [fst snd].
    destruct (negb (fst (tok_skipChar 59 b1))) eqn:En; cbn [fst snd]; [reflexivity|].
    pose proof (skipChar_shorter 59 b1) as L2.
    pose proof (one_ext_some relaxed (snd (tok_skipChar 59 b1))) as Hs.
    destruct (one_ext relaxed (snd (tok_skipChar 59 b1))) as [[b3| |e]|] eqn:E3; cbn [fst snd]; try congruence.
    + rewrite (one_ext_stable _ _ x _ E3) by congruence. cbn [ext1].
      apply one_ext_shorter in E3. apply IH. lia.
    + rewrite (one_ext_stable _ _ x _ E3) by congruence. cbn [ext1]. reflexivity.
Qed.

(* the checkpoint left behind is a restart point of the loop *)
Lemma exts_restart relaxed : forall n ctok, (length ctok <= n)%nat -> forall ck,
  snd (exts relaxed ctok ck) = ck \/
  forall x c0, exts relaxed (ctok ++ x) c0 = exts relaxed (snd (exts relaxed ctok ck) ++ x) (snd (exts relaxed ctok ck) ++ x).
Proof.
  induction n as [|n IH]; intros ctok Hl ck.
  - destruct ctok; [|cbn in Hl; lia]. left. rewrite exts_unfold. reflexivity.
  - rewrite (exts_unfold relaxed ctok ck). unfold parse_bws.
    destruct (parse_bws_ (ws_chars relaxed) ctok) as [b1| |e] eqn:E1; cbn [fst snd]; try (left; reflexivity).
    destruct (bws_ok_inv _ _ _ E1) as [Hb1 L1].
    destruct (negb (fst (tok_skipChar 59 b1))) eqn:En; cbn [fst snd]; [left; reflexivity|].
    pose proof (skipChar_shorter 59 b1) as L2.
    destruct (one_ext relaxed (snd (tok_skipChar 59 b1))) as [[b3| |e]|] eqn:E3; cbn [fst snd]; try (left; reflexivity).
    right. intros x c0.
    assert (Hfirst : exts relaxed (ctok ++ x) c0 = exts relaxed (b3 ++ x) (b3 ++ x)).
    { rewrite (exts_unfold relaxed (ctok ++ x)). unfold parse_bws.
      rewrite bws_stable by congruence. rewrite E1. cbn [ext1].
      rewrite (skipChar_stable 59 b1 x Hb1). cbn [fst snd]. rewrite En.
      rewrite (one_ext_stable _ _ x _ E3) by congruence. reflexivity. }
    rewrite Hfirst.
    pose proof (one_ext_shorter _ _ _ E3) as L3.
    destruct (IH b3 ltac:(lia) b3) as [Hs|Hr].
    + rewrite Hs. reflexivity.
    + apply Hr.
Qed.



(* ======================= part 4 ======================= *)

Lemma span_sub {A} (p q : A -> bool) l : (forall c, p c = true -> q c = true) ->
  snd (span q (snd (span p l))) = snd (span q l).
Proof.
  intros Hpq. induction l as [|c l IH]; [reflexivity|]. cbn [span].
  destruct (p c) eqn:Ep.
  - rewrite (Hpq c Ep). destruct (span p l) as [a b]. destruct (span q l) as [a' b']. cbn [snd] in *. exact IH.
  - cbn [snd]. reflexivity.
Qed.

Lemma tbl_beyond {A} (d : A) t c : lenN t <= c -> tbl_get d t c = d.
Proof.
  revert c; induction t as [|x t IH]; intros c H; [reflexivity|]. cbn [tbl_get lenN] in *.
  destruct (c =? 0) eqn:E; [apply N.eqb_eq in E; lia|]. apply N.eqb_neq in E. apply IH. lia.
Qed.

Lemma wsp_sub relaxed c : cs_WSP c = true -> ws_chars relaxed c = true.
Proof.
  destruct (N.lt_ge_cases c 256) as [Hc|Hc].
  - intros Hw. assert (Hi : implb (cs_WSP c) (ws_chars relaxed c) = true).
    { apply (forallb_bytes (fun c => implb (cs_WSP c) (ws_chars relaxed c))); [|exact Hc]. destruct relaxed; vm_compute; reflexivity. }
    rewrite Hw in Hi. exact Hi.
  - unfold cs_WSP, mem_tbl. rewrite tbl_beyond; [discriminate|]. change (lenN cs_WSP_tbl) with 256. exact Hc.
Qed.

(* ---------- parseChunkMetadataSuffix ---------- *)
Definition ext_state (st : pstate) : pstate :=
  {| p_stage := if p_size st =? 0 then StMime else StChunk; p_size := p_size st; p_left := p_left st |}.

Lemma meta_eq relaxed st tok bufc :
  meta_suffix relaxed st tok bufc =
  match fst (exts relaxed tok bufc) with
  | Insuf => SRet st (snd (exts relaxed tok bufc)) []
  | Bad e => SThrow e []
  | Ok t2 =>
    match tok_skipRequired EExtCrlf crlf t2 with
    | Insuf => SRet st (snd (exts relaxed tok bufc)) []
    | Bad e => SThrow e []
    | Ok t3 => SGo (ext_state st) t3 t3 []
    end
  end.
Proof.
  unfold meta_suffix. rewrite exts_loop_exts by lia. destruct (exts relaxed tok bufc) as [[t2| |e] ck]; reflexivity.
Qed.

Lemma meta_stable_go relaxed st b x st' t3 o :
  meta_suffix relaxed st b b = SGo st' t3 t3 o ->
  meta_suffix relaxed st (b ++ x) (b ++ x) = SGo st' (t3 ++ x) (t3 ++ x) o.
Proof.
  rewrite !meta_eq.
  destruct (fst (exts relaxed b b)) as [t2| |e] eqn:E2; try discriminate.
  rewrite (exts_stable relaxed (length b) b (le_n _) b x) by congruence. cbn [fst snd]. rewrite E2. cbn [ext1].
  destruct (tok_skipRequired EExtCrlf crlf t2) as [t3'| |e] eqn:E3; try discriminate.
  rewrite skipRequired_stable by congruence. rewrite E3. cbn [ext1].
  intros H. inversion H. subst. reflexivity.
Qed.

Lemma meta_stable_throw relaxed st b x e o :
  meta_suffix relaxed st b b = SThrow e o ->
  meta_suffix relaxed st (b ++ x) (b ++ x) = SThrow e o.
Proof.
  rewrite !meta_eq.
  destruct (fst (exts relaxed b b)) as [t2| |e2] eqn:E2; try discriminate.
  - rewrite (exts_stable relaxed (length b) b (le_n _) b x) by congruence. cbn [fst snd]. rewrite E2. cbn [ext1].
    destruct (tok_skipRequired EExtCrlf crlf t2) as [t3'| |e3] eqn:E3; try discriminate.
    rewrite skipRequired_stable by congruence. rewrite E3. cbn [ext1]. tauto.
  - rewrite (exts_stable relaxed (length b) b (le_n _) b x) by congruence. cbn [fst snd]. rewrite E2. cbn [ext1]. tauto.
Qed.

Lemma meta_ret_state relaxed st b ck st' o : meta_suffix relaxed st b b = SRet st' ck o -> st' = st /\ o = [].
Proof.
  rewrite meta_eq.
  destruct (fst (exts relaxed b b)) as [t2| |e]; try discriminate.
  - destruct (tok_skipRequired EExtCrlf crlf t2); try discriminate. intros H; injection H as <- _ <-. tauto.
  - intros H; injection H as <- _ <-. tauto.
Qed.

Lemma meta_not_fuel relaxed st b : meta_suffix relaxed st b b <> SFuel.
Proof.
  rewrite meta_eq.
  destruct (fst (exts relaxed b b)) as [t2| |e]; try discriminate.
  destruct (tok_skipRequired EExtCrlf crlf t2); discriminate.
Qed.

Lemma wsp_cr : cs_WSP 13 = false. Proof. vm_compute. reflexivity. Qed.

(* since 1aa8f1c the checkpoint of the chunk-ext stage commutes with more input, unconditionally *)
Lemma meta_commute relaxed st b ck o st1 x :
  meta_suffix relaxed st b b = SRet st1 ck o ->
  meta_suffix relaxed st (b ++ x) (b ++ x) = meta_suffix relaxed st (ck ++ x) (ck ++ x).
Proof.
  intros Hret. rewrite meta_eq in Hret.
  assert (Hck : ck = snd (exts relaxed b b)).
  { destruct (fst (exts relaxed b b)) as [t2| |e]; try discriminate.
    - destruct (tok_skipRequired EExtCrlf crlf t2); try discriminate. injection Hret as _ <- _. reflexivity.
    - injection Hret as _ <- _. reflexivity. }
  destruct (exts_restart relaxed (length b) b (le_n _) b) as [Hsame|Hrs].
  - rewrite Hsame in Hck. subst ck. reflexivity.
  - rewrite <- Hck in Hrs. rewrite !meta_eq. rewrite (Hrs x (b ++ x)). reflexivity.
Qed.


(* ======================= part 5 ======================= *)

(* ================= chunk-size ================= *)
(* independent reading of a hexadecimal numeral *)
Definition hexval (c : N) : option N :=
  if (48 <=? c) && (c <=? 57) then Some (c - 48)
  else if (97 <=? c) && (c <=? 102) then Some (c - 87)
  else if (65 <=? c) && (c <=? 70) then Some (c - 55)
  else None.
Definition is_hex (c : N) : bool := match hexval c with Some _ => true | None => false end.
Fixpoint hex_value (acc : N) (ds : bytes) : N :=
  match ds with [] => acc | c :: r => hex_value (acc * 16 + match hexval c with Some d => d | None => 0 end) r end.

Lemma digit_of_hex c : digit_of 16 c = option_map Z.of_N (hexval c).
Proof.
  unfold digit_of, digit_raw, hexval, is_digit, is_upper, is_lower.
  destruct ((48 <=? c) && (c <=? 57)) eqn:E1.
  { replace (Z.of_N c - 48 >=? 16)%Z with false by lia. cbn. f_equal. lia. }
  destruct ((65 <=? c) && (c <=? 90)) eqn:E2.
  { destruct ((97 <=? c) && (c <=? 102)) eqn:E3; [lia|].
    destruct ((65 <=? c) && (c <=? 70)) eqn:E4.
    - replace (Z.of_N c - 55 >=? 16)%Z with false by lia. cbn. f_equal. lia.
    - replace (Z.of_N c - 55 >=? 16)%Z with true by lia. reflexivity. }
  destruct ((97 <=? c) && (c <=? 122)) eqn:E3.
  { destruct ((97 <=? c) && (c <=? 102)) eqn:E4.
    - replace (Z.of_N c - 87 >=? 16)%Z with false by lia. cbn. f_equal. lia.
    - destruct ((65 <=? c) && (c <=? 70)) eqn:E5; [lia|].
      replace (Z.of_N c - 87 >=? 16)%Z with true by lia. reflexivity. }
  destruct ((97 <=? c) && (c <=? 102)) eqn:E4; [lia|].
  destruct ((65 <=? c) && (c <=? 70)) eqn:E5; [lia|]. reflexivity.
Qed.

Lemma digit_run_hex ds rest :
  forallb is_hex ds = true -> match rest with [] => True | c :: _ => is_hex c = false end ->
  digit_run 16 (ds ++ rest) = map (fun c => match hexval c with Some d => Z.of_N d | None => 0%Z end) ds.
Proof.
  intros Hd Hr. induction ds as [|c ds IH]; cbn [app digit_run map forallb] in *.
  - destruct rest as [|c r]; [reflexivity|]. cbn [digit_run]. rewrite digit_of_hex. unfold is_hex in Hr.
    destruct (hexval c); [discriminate|reflexivity].
  - apply andb_prop in Hd as [Hc Hd]. rewrite digit_of_hex. unfold is_hex in Hc.
    destruct (hexval c); [|discriminate]. cbn [option_map]. rewrite (IH Hd). reflexivity.
Qed.

Lemma digits_value_hex ds : forall acc,
  digits_value 16 (map (fun c => match hexval c with Some d => Z.of_N d | None => 0%Z end) ds) (Z.of_N acc)
  = Z.of_N (hex_value acc ds).
Proof.
  unfold digits_value. induction ds as [|c ds IH]; intros acc; cbn [map fold_left hex_value]; [reflexivity|].
  rewrite <- IH. f_equal. destruct (hexval c); lia.
Qed.

Lemma hex_value_app a b acc : hex_value acc (a ++ b) = hex_value (hex_value acc a) b.
Proof. revert acc; induction a as [|c a IH]; intros acc; cbn [app hex_value]; [reflexivity|]. apply IH. Qed.

Lemma hex_value_mono b : forall acc acc', acc <= acc' -> hex_value acc b <= hex_value acc' b.
Proof. induction b as [|c b IH]; intros acc acc' H; cbn [hex_value]; [exact H|]. apply IH. lia. Qed.

Lemma hex_value_ge b : forall acc, acc <= hex_value acc b.
Proof. induction b as [|c b IH]; intros acc; cbn [hex_value]; [lia|]. etransitivity; [|apply IH]. lia. Qed.

(* tok.int64(size, 16, false) on a buffer that does not start with 0x/0X *)
Lemma int64_hex buf :
  (match buf with z :: x :: _ => (z =? 48) && tolower_is_x x | _ => false end) = false ->
  tok_int64 16 false npos buf = ref_core 16 false (takeN npos buf) 0.
Proof.
  intros H0x. rewrite tok_int64_exact by (right; lia). unfold ref_int64, int64_front.
  destruct buf as [|b0 buf']; [reflexivity|].
  change (npos =? 0) with false. cbv iota.
  set (range := takeN npos (b0 :: buf')).
  assert (Hr : match range with z :: x :: _ => (z =? 48) && tolower_is_x x | _ => false end = false).
  { unfold range. cbn [takeN]. change (npos =? 0) with false. cbv iota.
    destruct buf' as [|b1 buf'']; [reflexivity|]. cbn [takeN]. change (N.pred npos =? 0) with false. cbv iota. exact H0x. }
  cbv beta iota zeta.
  destruct range as [|z [|x r]]; try reflexivity.
  replace ((z =? 48) && ((16 =? 0)%Z || (16 =? 16)%Z) && tolower_is_x x) with false; [reflexivity|].
  cbn [Z.eqb orb]. rewrite andb_true_r. symmetry. exact Hr.
Qed.

Lemma is_hex_x : is_hex 120 = false /\ is_hex 88 = false. Proof. split; reflexivity. Qed.

Lemma lenN_map {A B} (f : A -> B) l : lenN (map f l) = lenN l.
Proof. induction l as [|x l IH]; cbn [map lenN]; [reflexivity| now rewrite IH]. Qed.

Definition no0x (buf : bytes) : Prop :=
  match buf with _ :: x :: _ => x <> 120 /\ x <> 88 | _ => True end.

Lemma no0x_skip buf : no0x buf ->
  fst (tok_skip [48; 120] buf) || fst (tok_skip [48; 88] buf) = false /\
  (match buf with z :: x :: _ => (z =? 48) && tolower_is_x x | _ => false end) = false.
Proof.
  unfold no0x, tok_skip. destruct buf as [|z [|x r]]; cbn [starts_with].
  - tauto.
  - rewrite !andb_false_r. cbn. tauto.
  - intros [H1 H2]. apply N.eqb_neq in H1, H2. unfold tolower_is_x. rewrite H1, H2. rewrite !andb_false_r. cbn. tauto.
Qed.

Definition size_state (v : N) : pstate := {| p_stage := StExt; p_size := v; p_left := v |}.
Definition two63N : N := 9223372036854775808.

Lemma size_full st ds c t0 :
  ds <> [] -> forallb is_hex ds = true -> hex_value 0 ds < two63N -> lenN ds < npos ->
  is_hex c = false -> c <> 120 -> c <> 88 ->
  chunk_size st (ds ++ c :: t0) =
  match parse_strict_bws (c :: t0) with
  | Insuf => Ok None | Bad e => Bad e
  | Ok r' => Ok (Some (size_state (hex_value 0 ds), r'))
  end.
Proof.
  intros Hne Hhex Hv Hlen Hc Hx1 Hx2. unfold chunk_size.
  assert (H0 : no0x (ds ++ c :: t0)).
  { destruct ds as [|d0 [|d1 ds']]; [congruence| cbn; tauto|]. cbn. cbn [forallb] in Hhex.
    apply andb_prop in Hhex as [_ Hh]. apply andb_prop in Hh as [Hd1 _].
    split; intros ->; discriminate. }
  destruct (no0x_skip _ H0) as [Hs Hi]. rewrite Hs. rewrite (int64_hex _ Hi).
  rewrite takeN_app_ge by lia.
  assert (Hk : exists k, takeN (npos - lenN ds) (c :: t0) = c :: k).
  { cbn [takeN]. destruct (npos - lenN ds =? 0) eqn:E; [apply N.eqb_eq in E; lia|]. eexists; reflexivity. }
  destruct Hk as [k Hk]. rewrite Hk. unfold ref_core.
  rewrite (digit_run_hex ds (c :: k) Hhex Hc).
  pose proof (digits_value_hex ds 0) as Hdv. cbn [Z.of_N] in Hdv.
  destruct ds as [|d0 ds']; [congruence|]. cbn [map]. cbv zeta.
  change (fun c0 : N => match hexval c0 with Some d => Z.of_N d | None => 0%Z end) with
         (fun c0 : N => match hexval c0 with Some d => Z.of_N d | None => 0%Z end) in *.
  cbn [map] in Hdv. rewrite Hdv.
  replace (Z.of_N (hex_value 0 (d0 :: ds')) >? two63 - 1)%Z with false by (unfold two63, two63N in *; lia).
  change (_ :: map _ ds') with (map (fun c0 : N => match hexval c0 with Some d => Z.of_N d | None => 0%Z end) (d0 :: ds')).
  rewrite lenN_map. rewrite N.add_0_l. rewrite dropN_app_exact. cbn [is_nil negb].
  replace (Z.of_N (hex_value 0 (d0 :: ds')) <? 0)%Z with false by lia.
  rewrite N2Z.id. reflexivity.
Qed.

Lemma size_prefix st p q :
  forallb is_hex (p ++ q) = true -> hex_value 0 (p ++ q) < two63N -> lenN (p ++ q) < npos ->
  chunk_size st p = Ok None.
Proof.
  intros Hhex Hv Hlen. unfold chunk_size.
  rewrite forallb_app in Hhex. apply andb_prop in Hhex as [Hp _].
  rewrite lenN_app in Hlen. rewrite hex_value_app in Hv. pose proof (hex_value_ge q (hex_value 0 p)) as Hge.
  assert (H0 : no0x p).
  { destruct p as [|d0 [|d1 p']]; cbn; try tauto. cbn [forallb] in Hp.
    apply andb_prop in Hp as [_ Hh]. apply andb_prop in Hh as [Hd1 _]. split; intros ->; discriminate. }
  destruct (no0x_skip _ H0) as [Hs Hi]. rewrite Hs. rewrite (int64_hex _ Hi).
  rewrite takeN_all by lia. unfold ref_core.
  pose proof (digit_run_hex p [] Hp I) as Hdr. rewrite app_nil_r in Hdr. rewrite Hdr.
  destruct p as [|d0 p']; [reflexivity|].
  pose proof (digits_value_hex (d0 :: p') 0) as Hdv. cbn [Z.of_N] in Hdv.
  cbn [map] in *. cbv zeta. rewrite Hdv.
  replace (Z.of_N (hex_value 0 (d0 :: p')) >? two63 - 1)%Z with false by (unfold two63, two63N in *; lia).
  change (_ :: map _ p') with (map (fun c0 : N => match hexval c0 with Some d => Z.of_N d | None => 0%Z end) (d0 :: p')).
  rewrite lenN_map, N.add_0_l. rewrite dropN_all by lia. reflexivity.
Qed.



(* ======================= part 6 ======================= *)

(* ================= headersEnd on a trailer section ================= *)
Definition not_lf (c : N) : bool := negb (c =? 10).
Definition not_crlf (c : N) : bool := negb (c =? 13) && negb (c =? 10).

Lemma he_scan0 w : forall rest e, forallb not_lf w = true ->
  headers_end_loop (w ++ rest) 0 e = headers_end_loop rest 0 (e + lenN w).
Proof.
  induction w as [|c w IH]; intros rest e H; cbn [app lenN forallb] in *.
  - now rewrite N.add_0_r.
  - apply andb_prop in H as [Hc Hw]. unfold not_lf in Hc. apply negb_true_iff in Hc.
    cbn [headers_end_loop]. change (0 =? 0) with true. cbv iota. rewrite Hc. change (0 =? 3) with false. cbv iota.
    rewrite IH by exact Hw. f_equal. lia.
Qed.

Lemma he_scan0_nil w e : forallb not_lf w = true -> headers_end_loop w 0 e = 0.
Proof. intros H. rewrite <- (app_nil_r w). rewrite he_scan0 by exact H. reflexivity. Qed.

(* a line: first byte neither CR nor LF, no LF inside, LF at the end *)
Lemma he_line c0 w rest e : not_crlf c0 = true -> forallb not_lf w = true ->
  headers_end_loop ((c0 :: w ++ [10]) ++ rest) 1 e = headers_end_loop rest 1 (e + lenN (c0 :: w ++ [10])).
Proof.
  intros Hc Hw. unfold not_crlf in Hc. apply andb_prop in Hc as [H13 H10]. apply negb_true_iff in H13, H10.
  cbn [app headers_end_loop]. change (1 =? 0) with false. change (1 =? 1) with true. cbv iota.
  rewrite H13, H10. change (0 =? 3) with false. cbv iota.
  rewrite <- app_assoc. rewrite he_scan0 by exact Hw.
  cbn [app headers_end_loop]. change (0 =? 0) with true. change (10 =? 10) with true. cbv iota.
  change (1 =? 3) with false. cbv iota. f_equal. cbn [lenN]. rewrite lenN_app. cbn [lenN]. lia.
Qed.

Lemma he_line_prefix c0 w p l e : not_crlf c0 = true -> forallb not_lf w = true ->
  c0 :: w ++ [10] = p ++ l -> l <> [] -> headers_end_loop p 1 e = 0.
Proof.
  intros Hc Hw Heq Hl. destruct p as [|c p']; [reflexivity|].
  cbn [app] in Heq. injection Heq as <- Heq.
  unfold not_crlf in Hc. apply andb_prop in Hc as [H13 H10]. apply negb_true_iff in H13, H10.
  cbn [headers_end_loop]. change (1 =? 0) with false. change (1 =? 1) with true. cbv iota.
  rewrite H13, H10. change (0 =? 3) with false. cbv iota.
  apply he_scan0_nil.
  (* p' is a prefix of w *)
  assert (Hp : exists l', w = p' ++ l').
  { destruct (app_eq_app _ _ _ _ Heq) as [l' [[H1 H2]|[H1 H2]]].
    - exists l'. exact H1.
    - (* p' = w ++ l', [10] = l' ++ l *) destruct l' as [|x l']; [exists []; rewrite app_nil_r in H1; now rewrite H1, app_nil_r|].
      exfalso. cbn [app] in H2. injection H2 as _ H2. destruct l' as [|y l']; cbn [app] in H2; [congruence| discriminate H2]. }
  destruct Hp as [l' ->]. rewrite forallb_app in Hw. apply andb_prop in Hw as [Hp _]. exact Hp.
Qed.

(* trailer fields *)
Definition field := (bytes * bytes)%type.
Definition enc_field (f : field) : bytes := fst f ++ [58] ++ snd f ++ crlf.
Definition enc_fields (fs : list field) : bytes := concat (map enc_field fs).

Section TrailerSpec.
Variable tchar : N -> bool.
Hypothesis tchar_not_crlf : forall c, tchar c = true -> not_crlf c = true.

Definition field_ok (f : field) : Prop :=
  fst f <> [] /\ forallb tchar (fst f) = true /\ forallb not_crlf (snd f) = true.

Lemma field_line f : field_ok f -> exists c0 w, enc_field f = c0 :: w ++ [10] /\ not_crlf c0 = true /\ forallb not_lf w = true.
Proof.
  intros (Hne & Hn & Hv). destruct f as [n v]. cbn [fst snd] in *. destruct n as [|c0 n']; [congruence|].
  exists c0, (n' ++ [58] ++ v ++ [13]). split; [|split].
  - unfold enc_field, crlf. cbn [fst snd app]. rewrite <- !app_assoc. cbn [app]. rewrite <- !app_assoc. reflexivity.
  - cbn [forallb] in Hn. apply andb_prop in Hn as [H0 _]. apply tchar_not_crlf. exact H0.
  - cbn [forallb] in Hn. apply andb_prop in Hn as [_ Hn].
    rewrite !forallb_app. cbn [forallb]. rewrite andb_true_r.
    assert (Hsub : forall l, forallb not_crlf l = true -> forallb not_lf l = true).
    { induction l as [|x l IH]; cbn [forallb]; [reflexivity|]. intros H. apply andb_prop in H as [Hx Hl].
      unfold not_crlf in Hx. apply andb_prop in Hx as [_ Hx]. unfold not_lf. rewrite Hx. cbn. apply IH. exact Hl. }
    assert (Hn' : forallb not_crlf n' = true).
    { clear -Hn tchar_not_crlf. induction n' as [|x l IH]; cbn [forallb] in *; [reflexivity|].
      apply andb_prop in Hn as [Hx Hl]. rewrite (tchar_not_crlf _ Hx). cbn. apply IH. exact Hl. }
    rewrite (Hsub _ Hn'), (Hsub _ Hv). reflexivity.
Qed.

Lemma he_fields fs : Forall field_ok fs -> forall rest e,
  headers_end_loop (enc_fields fs ++ rest) 1 e = headers_end_loop rest 1 (e + lenN (enc_fields fs)).
Proof.
  induction 1 as [|f fs Hf Hfs IH]; intros rest e; unfold enc_fields in *; cbn [map concat app lenN].
  - now rewrite N.add_0_r.
  - destruct (field_line f Hf) as (c0 & w & Heq & Hc & Hw). rewrite Heq. rewrite <- app_assoc.
    rewrite he_line by assumption. rewrite IH. f_equal. rewrite lenN_app. lia.
Qed.

Lemma he_trailer_full fs t0 : Forall field_ok fs ->
  headers_end ((enc_fields fs ++ crlf) ++ t0) = lenN (enc_fields fs ++ crlf).
Proof.
  intros H. unfold headers_end. rewrite <- app_assoc. rewrite he_fields by exact H.
  cbn [crlf app headers_end_loop]. rewrite lenN_app. cbn. lia.
Qed.

Lemma he_trailer_prefix fs : Forall field_ok fs -> forall p l e,
  enc_fields fs ++ crlf = p ++ l -> l <> [] -> headers_end_loop p 1 e = 0.
Proof.
  induction 1 as [|f fs Hf Hfs IH]; intros p l e Heq Hl; unfold enc_fields in *; cbn [map concat app] in *.
  - destruct p as [|c p']; [reflexivity|]. unfold crlf in Heq. cbn [app] in Heq. injection Heq as <- Heq.
    destruct p' as [|c' p'']; [reflexivity|]. cbn [app] in Heq. injection Heq as <- Heq.
    destruct p''; [|discriminate]. cbn [app] in Heq. congruence.
  - destruct (field_line f Hf) as (c0 & w & Hline & Hc & Hw).
    rewrite <- app_assoc in Heq.
    destruct (app_eq_app _ _ _ _ Heq) as [l' [[H1 H2]|[H1 H2]]].
    + (* line = p ++ l' *) destruct l' as [|x l'].
      * rewrite app_nil_r in H1. subst p. rewrite Hline. rewrite <- (app_nil_r (c0 :: w ++ [10])).
        rewrite he_line by assumption. reflexivity.
      * rewrite Hline in H1. eapply he_line_prefix; [exact Hc| exact Hw| exact H1| discriminate].
    + (* p = line ++ l' *) subst p. rewrite Hline. rewrite he_line by assumption. eapply IH; [exact H2| exact Hl].
Qed.
End TrailerSpec.



(* ======================= part 7 ======================= *)

Lemma lenN_dropN {A} n (l : list A) : lenN (dropN n l) = lenN l - n.
Proof.
  pose proof (takeN_dropN n l) as H. pose proof (lenN_takeN n l) as Ht.
  assert (lenN l = lenN (takeN n l) + lenN (dropN n l)) by (rewrite <- lenN_app, H; reflexivity). lia.
Qed.

Lemma length_lenN {A} (a b : list A) : (length a <= length b)%nat <-> lenN a <= lenN b.
Proof. rewrite !lenN_length. lia. Qed.

(* ---------- what the core proof needs from a chunk header ---------- *)
Definition wsp_ok (w : bytes) : Prop := forallb cs_WSP w = true.
Definition head_ok (xc : bytes) : Prop :=
  match xc with c :: _ => cs_WSP c = false /\ is_hex c = false /\ c <> 120 /\ c <> 88 | [] => False end.
Definition ext_sem (relaxed : bool) (st : pstate) (xc : bytes) : Prop :=
  forall R0, meta_suffix relaxed st (xc ++ R0) (xc ++ R0) = SGo (ext_state st) R0 R0 [].
Definition digits_ok (ds : bytes) (v : N) : Prop :=
  ds <> [] /\ forallb is_hex ds = true /\ hex_value 0 ds = v /\ v < two63N /\ lenN ds < npos.

Lemma bws_run set w y r : forallb set w = true -> set y = false -> parse_bws_ set (w ++ y :: r) = Ok (y :: r).
Proof. intros Hw Hy. unfold parse_bws_. rewrite tok_skipAll_spec. rewrite (span_stop_app set w y r Hw Hy). reflexivity. Qed.
Lemma bws_all set w : forallb set w = true -> parse_bws_ set w = Insuf.
Proof. intros Hw. unfold parse_bws_. rewrite tok_skipAll_spec. rewrite (span_all_nil set w Hw). reflexivity. Qed.

Lemma wsp_nothex c : cs_WSP c = true -> is_hex c = false /\ c <> 120 /\ c <> 88.
Proof.
  intros H. destruct (N.lt_ge_cases c 256) as [Hc|Hc].
  - pose proof (forallb_bytes (fun c => implb (cs_WSP c) (negb (is_hex c) && negb (c =? 120) && negb (c =? 88)))
                  ltac:(vm_compute; reflexivity) c Hc) as Hi.
    cbv beta in Hi. rewrite H in Hi. cbn [implb] in Hi. apply andb_prop in Hi as [Hi H3]. apply andb_prop in Hi as [H1 H2].
    apply negb_true_iff in H1, H2, H3. apply N.eqb_neq in H2, H3. tauto.
  - unfold cs_WSP, mem_tbl in H. rewrite tbl_beyond in H; [discriminate|]. change (lenN cs_WSP_tbl) with 256. exact Hc.
Qed.

Lemma size_step st ds v w Y tok fut :
  digits_ok ds v -> wsp_ok w -> head_ok Y -> tok ++ fut = ds ++ w ++ Y ->
  (chunk_size st tok = Ok None /\ exists l, ds ++ w = tok ++ l) \/
  (exists l, l <> [] /\ tok = ds ++ w ++ l /\ l ++ fut = Y /\ chunk_size st tok = Ok (Some (size_state v, l))).
Proof.
  intros (Hne & Hhex & Hv & Hlt & Hlen) Hw HY Heq. subst v.
  destruct (app_eq_app _ _ _ _ Heq) as [l [[H1 H2]|[H1 H2]]].
  - destruct l as [|c t0].
    + left. rewrite app_nil_r in H1. subst tok. split; [|exists w; reflexivity].
      apply (size_prefix st ds []); rewrite app_nil_r; assumption.
    + (* tok = ds ++ c :: t0 and c :: t0 ++ fut = w ++ Y *)
      assert (Hc : is_hex c = false /\ c <> 120 /\ c <> 88).
      { destruct w as [|w0 w']; cbn [app] in H2.
        - destruct Y as [|y Y']; [destruct HY|]. injection H2 as <- _. cbn [head_ok] in HY. tauto.
        - injection H2 as <- _. unfold wsp_ok in Hw. cbn [forallb] in Hw. apply andb_prop in Hw as [Hw0 _]. apply wsp_nothex. exact Hw0. }
      destruct Hc as (Hc & Hx1 & Hx2).
      subst tok. rewrite (size_full st ds c t0 Hne Hhex Hlt Hlen Hc Hx1 Hx2). unfold parse_strict_bws.
      destruct (app_eq_app _ _ _ _ H2) as [l2 [[G1 G2]|[G1 G2]]].
      * (* w = (c :: t0) ++ l2 : everything after the digits is still BWS *)
        left. rewrite G1 in Hw. unfold wsp_ok in Hw. rewrite forallb_app in Hw. apply andb_prop in Hw as [Hw1 _].
        rewrite (bws_all _ _ Hw1). split; [reflexivity|]. exists l2. rewrite G1. now rewrite app_assoc.
      * (* c :: t0 = w ++ l2, Y = l2 ++ fut *)
        destruct l2 as [|y l2'].
        { left. rewrite app_nil_r in G1. rewrite G1. rewrite (bws_all _ _ Hw). split; [reflexivity|]. exists []. now rewrite app_nil_r. }
        right. exists (y :: l2'). rewrite G1. rewrite G2 in HY. cbn [app head_ok] in HY.
        rewrite (bws_run cs_WSP w y l2' Hw (proj1 HY)).
        split; [discriminate|]. split; [reflexivity|]. split; [symmetry; exact G2| reflexivity].
  - left. split; [|exists (l ++ w); rewrite app_assoc, <- H1; reflexivity]. subst ds. apply (size_prefix st tok l); assumption.
Qed.

Lemma crlf_step e b fut M :
  b ++ fut = crlf ++ M ->
  (tok_skipRequired e crlf b = Insuf /\ (length b < 2)%nat) \/
  (exists t, b = crlf ++ t /\ t ++ fut = M /\ tok_skipRequired e crlf b = Ok t).
Proof.
  intros Heq. rewrite skipRequired_crlf_cases. unfold crlf in *.
  destruct b as [|c0 b]; [left; split; [reflexivity|cbn; lia]|].
  cbn [app] in Heq. injection Heq as -> Heq. change (13 =? 13) with true. cbv iota.
  destruct b as [|c1 b]; [left; split; [reflexivity|cbn; lia]|].
  cbn [app] in Heq. injection Heq as -> Heq. change (10 =? 10) with true. cbv iota.
  right. exists b. split; [reflexivity|]. split; [exact Heq|reflexivity].
Qed.

Lemma ext_step relaxed st xc tok fut R :
  ext_sem relaxed st xc -> tok ++ fut = xc ++ R ->
  (exists l, tok = xc ++ l /\ l ++ fut = R /\ meta_suffix relaxed st tok tok = SGo (ext_state st) l l []) \/
  (exists ck xc' l, l <> [] /\ xc = tok ++ l /\ meta_suffix relaxed st tok tok = SRet st ck [] /\
                    ext_sem relaxed st xc' /\ ck ++ fut = xc' ++ R).
Proof.
  intros Hsem Heq.
  destruct (app_eq_app _ _ _ _ Heq) as [l [[H1 H2]|[H1 H2]]].
  - left. exists l. subst tok R. split; [reflexivity|]. split; [reflexivity|]. apply Hsem.
  - destruct l as [|c l'].
    { left. exists []. rewrite app_nil_r in H1. subst xc. cbn [app] in H2. subst fut.
      split; [now rewrite app_nil_r|]. split; [reflexivity|].
      pose proof (Hsem []) as H. rewrite app_nil_r in H. exact H. }
    right. set (l := c :: l') in *.
    pose proof (Hsem []) as Hfull. rewrite app_nil_r in Hfull. rewrite H1 in Hfull.
    destruct (meta_suffix relaxed st tok tok) as [st1 t3 b3 o|st1 ck o|e o|] eqn:Em.
    + (* SGo on a proper prefix: impossible *)
      exfalso. assert (t3 = b3).
      { rewrite meta_eq in Em.
        destruct (fst (exts relaxed tok tok)); try discriminate.
        destruct (tok_skipRequired EExtCrlf crlf a); try discriminate. inversion Em. reflexivity. }
      subst b3. rewrite (meta_stable_go _ _ _ l _ _ _ Em) in Hfull. inversion Hfull as [[Hs Ht Ho]].
      destruct t3; discriminate.
    + destruct (meta_ret_state _ _ _ _ _ _ Em) as [-> ->].
      exists ck, (ck ++ l), l. split; [discriminate|]. split; [exact H1|]. split; [reflexivity|]. split.
      * intros R0. rewrite <- app_assoc.
        rewrite <- (meta_commute _ _ _ _ _ _ (l ++ R0) Em). rewrite app_assoc, <- H1. apply Hsem.
      * rewrite H2. now rewrite app_assoc.
    + exfalso. rewrite (meta_stable_throw _ _ _ l _ _ Em) in Hfull. discriminate.
    + exfalso. eapply meta_not_fuel; eassumption.
Qed.



(* ======================= part 8 ======================= *)

Record cchunk := { c_ds : bytes; c_w : bytes; c_xc : bytes; c_data : bytes }.
Definition enc_cchunk (k : cchunk) : bytes := c_ds k ++ c_w k ++ c_xc k ++ c_data k ++ crlf.
Definition enc_cs (cs : list cchunk) : bytes := concat (map enc_cchunk cs).
Definition body_cs (cs : list cchunk) : bytes := concat (map c_data cs).

Definition is_done (st : pstate) : bool := match p_stage st with StDone => true | _ => false end.

(* the pieces of one do-while iteration, mirroring parse_loop *)
Definition fin (cap : N) (out2 : bytes) (s : pstate) (b : bytes) : parse_res :=
  let more := match p_stage s with StDone => false | _ => true end in
  let space := match p_stage s with StChunk => (cap - lenN out2 =? 0) | _ => false end in
  PRet (negb more && negb space) s b out2.
Definition sz_part k relaxed cap st3 tok3 buf3 out2 : parse_res :=
  match p_stage st3 with
  | StSz =>
    match chunk_size st3 tok3 with
    | Bad e => PThrow e out2
    | Insuf => PThrow ESize out2
    | Ok None => fin cap out2 st3 buf3
    | Ok (Some (st4, t4)) => parse_loop k relaxed cap st4 t4 t4 out2
    end
  | _ => fin cap out2 st3 buf3
  end.
Definition mime_part k relaxed cap st2 tok2 buf2 out2 : parse_res :=
  match (match p_stage st2 with StMime => grab_mime st2 buf2 | _ => SGo st2 tok2 buf2 [] end) with
  | SFuel => PFuel | SThrow e o => PThrow e out2 | SRet s b o => PRet false s b out2
  | SGo st3 tok3 buf3 _ => sz_part k relaxed cap st3 tok3 buf3 out2
  end.
Definition chunk_part k relaxed cap st1 tok1 buf1 out o1 : parse_res :=
  match (match p_stage st1 with StChunk => chunk_body (cap - lenN (out ++ o1)) st1 tok1 buf1 | _ => SGo st1 tok1 buf1 [] end) with
  | SFuel => PFuel | SThrow e o => PThrow e (out ++ o1 ++ o) | SRet s b o => PRet false s b (out ++ o1 ++ o)
  | SGo st2 tok2 buf2 o2 => mime_part k relaxed cap st2 tok2 buf2 (out ++ o1 ++ o2)
  end.
Lemma parse_loop_eq k relaxed cap st tok bufc out :
  parse_loop (S k) relaxed cap st tok bufc out =
  match (match p_stage st with StExt => meta_suffix relaxed st tok bufc | _ => SGo st tok bufc [] end) with
  | SFuel => PFuel | SThrow e o => PThrow e (out ++ o) | SRet s b o => PRet false s b (out ++ o)
  | SGo st1 tok1 buf1 o1 => chunk_part k relaxed cap st1 tok1 buf1 out o1
  end.
Proof. reflexivity. Qed.

Lemma head_ok_len xc : head_ok xc -> (1 <= length xc)%nat.
Proof. destruct xc; cbn; [tauto| lia]. Qed.
Lemma head_ok_app xc Y : head_ok xc -> head_ok (xc ++ Y).
Proof. destruct xc; cbn; tauto. Qed.
Lemma digits_len ds v : digits_ok ds v -> (1 <= length ds)%nat.
Proof. intros (H & _). destruct ds; [congruence| cbn; lia]. Qed.

Section Core.
Variable relaxed : bool.
Variables zeros lw lxc Tr tail : bytes.
Hypothesis Hzeros : digits_ok zeros 0.
Hypothesis Hlw : wsp_ok lw.
Hypothesis Hlhead : head_ok lxc.
Hypothesis Hlsem : forall st, ext_sem relaxed st lxc.
Hypothesis HTfull : forall t0, headers_end (Tr ++ t0) = lenN Tr.
Hypothesis HTpre : forall p l, Tr = p ++ l -> l <> [] -> headers_end p = 0.
Hypothesis HTlen : 0 < lenN Tr < trailer_limit.

Definition cchunk_ok (k : cchunk) : Prop :=
  digits_ok (c_ds k) (lenN (c_data k)) /\ c_data k <> [] /\ wsp_ok (c_w k) /\ head_ok (c_xc k) /\ (forall st, ext_sem relaxed st (c_xc k)).

Definition Ltail : bytes := zeros ++ lw ++ lxc ++ Tr ++ tail.

Inductive Inv : pstate -> bytes -> bytes -> Prop :=
| I_sz st cs : p_stage st = StSz -> Forall cchunk_ok cs -> Inv st (enc_cs cs ++ Ltail) (body_cs cs)
| I_ext st xc d cs : p_stage st = StExt -> p_size st = lenN d -> p_left st = lenN d -> d <> [] ->
    ext_sem relaxed st xc -> Forall cchunk_ok cs ->
    Inv st (xc ++ d ++ crlf ++ enc_cs cs ++ Ltail) (d ++ body_cs cs)
| I_ext_last st xc : p_stage st = StExt -> p_size st = 0 -> ext_sem relaxed st xc ->
    Inv st (xc ++ Tr ++ tail) []
| I_chunk st d cs : p_stage st = StChunk -> p_left st = lenN d -> Forall cchunk_ok cs ->
    Inv st (d ++ crlf ++ enc_cs cs ++ Ltail) (d ++ body_cs cs)
| I_mime st : p_stage st = StMime -> Inv st (Tr ++ tail) []
| I_done st : p_stage st = StDone -> Inv st tail [].

Section Call.
Variable fut : bytes.
Variable cap : N.
Definition complete : Prop := (length fut <= length tail)%nat.

Definition Post (out B : bytes) (r : parse_res) : Prop :=
  exists ret st' rem o B', r = PRet ret st' rem (out ++ o) /\ B = o ++ B' /\ Inv st' (rem ++ fut) B' /\
     ret = is_done st' /\ lenN (out ++ o) <= cap /\
     (complete -> ret = true \/ (B' <> [] /\ lenN (out ++ o) = cap)).

Definition PK (k : nat) : Prop :=
  forall st tok out B, Inv st (tok ++ fut) B -> p_stage st <> StNone -> (length tok < k)%nat -> lenN out <= cap ->
  Post out B (parse_loop k relaxed cap st tok tok out).

Ltac lens H := apply (f_equal (@length N)) in H; repeat rewrite app_length in H; cbn [length] in H; change (length crlf) with 2%nat in H.

Lemma post_fin out B s b : Inv s (b ++ fut) B -> p_stage s <> StDone -> lenN out <= cap ->
  (complete -> B <> [] /\ lenN out = cap) ->
  Post out B (fin cap out s b).
Proof.
  intros HI Hs Hout Hc. exists false, s, b, [], B. rewrite app_nil_r.
  split. { unfold fin. destruct (p_stage s); try reflexivity. congruence. }
  split; [reflexivity|]. split; [exact HI|]. split.
  { unfold is_done. destruct (p_stage s); try reflexivity. congruence. }
  split; [exact Hout|]. intros C. right. apply Hc. exact C.
Qed.

Lemma sz_lemma k : PK k -> forall st tok out B, Inv st (tok ++ fut) B -> p_stage st = StSz ->
  (length tok <= k)%nat -> lenN out <= cap -> Post out B (sz_part k relaxed cap st tok tok out).
Proof.
  intros IH st tok out B HI Hst Hlen Hout. unfold sz_part. rewrite Hst.
  remember (tok ++ fut) as suf eqn:E1.
  destruct HI as [st cs Hs Hcs|st xc d cs Hs| st xc Hs| st d cs Hs| st Hs| st Hs]; try congruence.
  destruct cs as [|k0 cs'].
  - (* last-chunk *)
    cbn [enc_cs map concat app] in *. unfold Ltail in *.
    destruct (size_step st zeros 0 lw (lxc ++ Tr ++ tail) tok fut Hzeros Hlw) as [[Hn [l Hl]]|(l & Hne & Htok & Hl & Hsz)].
    { apply head_ok_app. exact Hlhead. }
    { symmetry. exact E1. }
    + rewrite Hn. apply post_fin; [rewrite <- E1; apply (I_sz st []); [exact Hst| constructor] | congruence | exact Hout|].
      intros C. exfalso. unfold complete in C. rewrite (app_assoc zeros), Hl in E1. rewrite <- !app_assoc in E1.
      apply app_inv_head in E1. lens E1.
      pose proof (head_ok_len _ Hlhead). lia.
    + rewrite Hsz. subst tok.
      assert (HI' : Inv (size_state 0) (l ++ fut) []).
      { rewrite Hl. apply I_ext_last; [reflexivity|reflexivity| apply Hlsem]. }
      apply IH; [exact HI'| discriminate | | exact Hout].
      rewrite !app_length in Hlen. pose proof (digits_len _ _ Hzeros). lia.
  - cbn [enc_cs map concat body_cs] in *. fold (enc_cs cs') in *. fold (body_cs cs') in *.
    inversion Hcs as [|? ? Hk0 Hcs']; subst.
    destruct Hk0 as (Hd & Hdata & Hkw & Hhead & Hsem).
    unfold enc_cchunk in E1. rewrite <- !app_assoc in E1.
    destruct (size_step st (c_ds k0) _ (c_w k0) (c_xc k0 ++ c_data k0 ++ crlf ++ enc_cs cs' ++ Ltail) tok fut Hd Hkw) as [[Hn [l Hl]]|(l & Hne & Htok & Hl & Hsz)].
    { apply head_ok_app. exact Hhead. }
    { symmetry. exact E1. }
    + rewrite Hn. apply post_fin; [rewrite <- E1;
        replace (c_ds k0 ++ c_w k0 ++ c_xc k0 ++ c_data k0 ++ crlf ++ enc_cs cs' ++ Ltail) with (enc_cs (k0 :: cs') ++ Ltail)
          by (cbn [enc_cs map concat]; unfold enc_cchunk; rewrite <- !app_assoc; reflexivity);
        change (c_data k0 ++ body_cs cs') with (body_cs (k0 :: cs')); apply I_sz; [exact Hst| exact Hcs]
        | congruence | exact Hout|].
      intros C. exfalso. unfold complete in C. rewrite (app_assoc (c_ds k0)), Hl in E1. rewrite <- !app_assoc in E1.
      apply app_inv_head in E1. unfold Ltail in E1. lens E1. lia.
    + rewrite Hsz. subst tok.
      assert (HI' : Inv (size_state (lenN (c_data k0))) (l ++ fut) (c_data k0 ++ body_cs cs')).
      { rewrite Hl. apply I_ext; try reflexivity; try assumption. apply Hsem. }
      apply IH; [exact HI'| discriminate | | exact Hout].
      rewrite !app_length in Hlen. pose proof (digits_len _ _ Hd). lia.
Qed.

Lemma post_shift out o1 B r : Post (out ++ o1) B r -> Post out (o1 ++ B) r.
Proof.
  intros (ret & st' & rem & o & B' & Hr & HB & HI & Hret & Hle & Hc).
  exists ret, st', rem, (o1 ++ o), B'. rewrite !app_assoc. rewrite <- app_assoc in Hr.
  rewrite <- !app_assoc. rewrite <- app_assoc in Hle. rewrite <- app_assoc in Hc.
  split; [exact Hr|]. split; [now rewrite HB|]. repeat split; assumption.
Qed.

Lemma mime_lemma k : PK k -> forall st tok out B, Inv st (tok ++ fut) B ->
  (p_stage st = StSz \/ p_stage st = StMime \/ p_stage st = StDone) ->
  (length tok <= k)%nat -> lenN out <= cap -> Post out B (mime_part k relaxed cap st tok tok out).
Proof.
  intros IH st tok out B HI Hst Hlen Hout. unfold mime_part.
  destruct Hst as [Hst|[Hst|Hst]]; rewrite Hst.
  - apply sz_lemma; assumption.
  - remember (tok ++ fut) as suf eqn:E1.
    destruct HI as [st cs Hs Hcs|st xc d cs Hs| st xc Hs| st d cs Hs| st Hs| st Hs]; try congruence.
    unfold grab_mime.
    assert (Hcase : (exists l, tok = Tr ++ l /\ tail = l ++ fut) \/ (exists l, l <> [] /\ Tr = tok ++ l /\ fut = l ++ tail)).
    { symmetry in E1. destruct (app_eq_app _ _ _ _ E1) as [l [[H1 H2]|[H1 H2]]].
      - left. exists l. tauto.
      - destruct l as [|c l]; [left; exists []; rewrite app_nil_r in H1; cbn [app] in *; split; [now rewrite H1, app_nil_r| now rewrite H2]|].
        right. exists (c :: l). split; [discriminate|]. tauto. }
    destruct Hcase as [(l & Htok & Htail)|(l & Hne & HTr & Hfut)].
    + subst tok. rewrite HTfull. destruct HTlen as [Hpos Hlim].
      replace (lenN Tr =? 0) with false by lia. cbn [negb]. replace (trailer_limit <=? lenN Tr) with false by lia.
      rewrite dropN_app_exact. unfold sz_part. cbn [p_stage].
      exists true, {| p_stage := StDone; p_size := p_size st; p_left := p_left st |}, l, [], []. rewrite app_nil_r.
      split; [reflexivity|]. split; [reflexivity|]. split; [rewrite <- Htail; apply I_done; reflexivity|].
      split; [reflexivity|]. split; [exact Hout|]. intros _. left. reflexivity.
    + rewrite (HTpre tok l HTr Hne). change (0 =? 0) with true. cbn [negb].
      assert (Hl : lenN tok < lenN Tr).
      { rewrite HTr, lenN_app. destruct l; [congruence|]. cbn [lenN]. lia. }
      replace (trailer_limit <=? lenN tok) with false by lia.
      exists false, st, tok, [], []. rewrite app_nil_r.
      split; [reflexivity|]. split; [reflexivity|]. split; [rewrite <- E1; apply I_mime; exact Hst|].
      split; [unfold is_done; now rewrite Hst|]. split; [exact Hout|].
      intros C. exfalso. unfold complete in C. rewrite Hfut in C. rewrite app_length in C. destruct l; [congruence|]. cbn [length] in C. lia.
  - unfold sz_part. rewrite Hst. exists true, st, tok, [], B. rewrite app_nil_r.
    split; [unfold fin; rewrite Hst; reflexivity|]. split; [reflexivity|]. split; [exact HI|].
    split; [unfold is_done; now rewrite Hst|]. split; [exact Hout|]. intros _. left; reflexivity.
Qed.

(* parseChunkEnd inside one iteration *)
Lemma end_lemma k : PK k -> forall st b out o cs,
  p_stage st = StChunk -> p_left st = 0 -> Forall cchunk_ok cs ->
  b ++ fut = crlf ++ enc_cs cs ++ Ltail -> (length b <= k)%nat -> lenN (out ++ o) <= cap ->
  Post out (o ++ body_cs cs)
    (match chunk_end st b b o with
     | SFuel => PFuel | SThrow e o' => PThrow e (out ++ [] ++ o') | SRet s b' o' => PRet false s b' (out ++ [] ++ o')
     | SGo st2 tok2 buf2 o2 => mime_part k relaxed cap st2 tok2 buf2 (out ++ [] ++ o2)
     end).
Proof.
  intros IH st b out o cs Hst Hleft Hcs Heq Hlen Hout. unfold chunk_end. cbn [app].
  destruct (crlf_step EDataCrlf b fut _ Heq) as [[Hi Hb]|(t & Hb & Ht & Hok)].
  - rewrite Hi. exists false, st, b, o, (body_cs cs).
    split; [reflexivity|]. split; [reflexivity|]. split.
    { rewrite Heq. apply (I_chunk st [] cs); [exact Hst| exact Hleft| exact Hcs]. }
    split; [unfold is_done; now rewrite Hst|]. split; [exact Hout|].
    intros C. exfalso. unfold complete in C. unfold Ltail in Heq. lens Heq. lia.
  - rewrite Hok. apply post_shift. apply mime_lemma; [exact IH| | left; reflexivity | | exact Hout].
    + rewrite Ht. apply I_sz; [reflexivity| exact Hcs].
    + subst b. rewrite app_length in Hlen. lia.
Qed.

Lemma chunk_lemma k : PK k -> forall st tok out B, Inv st (tok ++ fut) B -> p_stage st <> StNone -> p_stage st <> StExt ->
  (length tok <= k)%nat -> lenN out <= cap -> Post out B (chunk_part k relaxed cap st tok tok out []).
Proof.
  intros IH st tok out B HI Hn He Hlen Hout. unfold chunk_part.
  destruct (p_stage st) eqn:Hst; try congruence.
  - rewrite app_nil_r. apply mime_lemma; try assumption. left; exact Hst.
  - (* StChunk *)
    remember (tok ++ fut) as suf eqn:E1.
    destruct HI as [st cs Hs Hcs|st xc d cs Hs| st xc Hs| st d cs Hs Hleft Hcs| st Hs| st Hs]; try congruence.
    rewrite app_nil_r. unfold chunk_body. rewrite Hleft.
    destruct (0 <? lenN d) eqn:Epos.
    + set (n := N.min (N.min (lenN d) (lenN tok)) (cap - lenN out)).
      assert (Hn1 : n <= lenN d) by lia. assert (Hn2 : n <= lenN tok) by lia.
      assert (Htake : takeN n tok = takeN n d).
      { rewrite <- (takeN_app_le n tok fut Hn2). rewrite <- E1. apply takeN_app_le. exact Hn1. }
      assert (Hdrop : dropN n tok ++ fut = dropN n d ++ crlf ++ enc_cs cs ++ Ltail).
      { rewrite <- (dropN_app_le n tok fut Hn2). rewrite <- E1. apply dropN_app_le. exact Hn1. }
      pose proof (takeN_dropN n d) as Hsplit. pose proof (lenN_takeN n d) as Hlt. pose proof (lenN_dropN n d) as Hld.
      cbn [p_left p_stage p_size]. rewrite Htake.
      assert (Hlenb : (length (dropN n tok) <= k)%nat).
      { pose proof (takeN_dropN n tok) as Ht. apply (f_equal (@length N)) in Ht. rewrite app_length in Ht. lia. }
      assert (Houtn : lenN (out ++ takeN n d) <= cap) by (rewrite lenN_app; lia).
      destruct (lenN d - n =? 0) eqn:Ez.
      * assert (Hd0 : dropN n d = []) by (apply lenN_0_nil; lia). rewrite Hd0 in *. rewrite app_nil_r in Hsplit. cbn [app] in Hdrop.
        rewrite Hsplit in *.
        apply (end_lemma k IH {| p_stage := p_stage st; p_size := p_size st; p_left := lenN d - n |} (dropN n tok) out d cs);
          [exact Hst | cbn [p_left]; lia | exact Hcs | exact Hdrop | exact Hlenb | exact Houtn].
      * unfold mime_part. cbn [p_stage]. rewrite Hst. unfold sz_part. cbn [p_stage]. try rewrite Hst.
        cbn [app].
        replace (d ++ body_cs cs) with (takeN n d ++ dropN n d ++ body_cs cs) by (now rewrite app_assoc, Hsplit).
        apply post_shift. apply post_fin.
        { rewrite Hdrop. apply I_chunk; [reflexivity| cbn [p_left]; lia | exact Hcs]. }
        { cbn [p_stage]. congruence. }
        { exact Houtn. }
        intros C. unfold complete in C.
        assert (Htl : lenN d <= lenN tok).
        { unfold Ltail in E1. lens E1. apply length_lenN. lia. }
        split.
        { intros Hnil. destruct (dropN n d) eqn:Edd; [cbn [lenN] in Hld; lia| discriminate]. }
        rewrite lenN_app, Hlt. lia.
    + assert (Hd0 : d = []) by (apply lenN_0_nil; lia). subst d. cbn [app] in *.
      apply (end_lemma k IH st tok out [] cs); [exact Hs | rewrite Hleft; reflexivity | exact Hcs | symmetry; exact E1 | exact Hlen | now rewrite app_nil_r].
  - rewrite app_nil_r. apply mime_lemma; try assumption. right; left; exact Hst.
  - rewrite app_nil_r. apply mime_lemma; try assumption. right; right; exact Hst.
Qed.

Lemma ext_state_stage st : p_stage (ext_state st) = if p_size st =? 0 then StMime else StChunk.
Proof. reflexivity. Qed.

Lemma PK_all : forall k, PK k.
Proof.
  induction k as [|k IH]; intros st tok out B HI Hn Hlen Hout; [lia|].
  rewrite parse_loop_eq.
  destruct (p_stage st) eqn:Hst; try congruence;
    try (apply chunk_lemma; [exact IH| exact HI| congruence | congruence | lia | exact Hout]).
  (* StExt *)
  remember (tok ++ fut) as suf eqn:E1.
  destruct HI as [st cs Hs Hcs|st xc d cs Hs Hsz Hleft Hd Hsem Hcs| st xc Hs Hsz Hsem| st d cs Hs| st Hs| st Hs]; try congruence.
  - destruct (ext_step relaxed st xc tok fut _ Hsem (eq_sym E1)) as [(l & Htok & Hl & Hm)|(ck & xc' & l & Hne & Hxc & Hm & Hsem' & Hck)].
    + rewrite Hm. apply chunk_lemma; [exact IH| | | | | exact Hout].
      * rewrite Hl. apply I_chunk; [rewrite ext_state_stage; destruct (p_size st =? 0) eqn:Ez; [|reflexivity]|cbn [ext_state p_left]; exact Hleft| exact Hcs].
        exfalso. apply N.eqb_eq in Ez. rewrite Hsz in Ez. apply Hd. apply lenN_0_nil. exact Ez.
      * rewrite ext_state_stage. destruct (p_size st =? 0); discriminate.
      * rewrite ext_state_stage. destruct (p_size st =? 0); discriminate.
      * subst tok. rewrite app_length in Hlen. lia.
    + rewrite Hm. exists false, st, ck, [], (d ++ body_cs cs). rewrite app_nil_r.
      split; [reflexivity|]. split; [reflexivity|]. split; [rewrite Hck; apply I_ext; assumption|].
      split; [unfold is_done; now rewrite Hst|]. split; [exact Hout|].
      intros C. exfalso. unfold complete in C. rewrite Hxc in E1. rewrite <- app_assoc in E1. apply app_inv_head in E1.
      unfold Ltail in E1. lens E1. destruct l; [congruence|]. cbn [length] in E1. lia.
  - destruct (ext_step relaxed st xc tok fut _ Hsem (eq_sym E1)) as [(l & Htok & Hl & Hm)|(ck & xc' & l & Hne & Hxc & Hm & Hsem' & Hck)].
    + rewrite Hm. apply chunk_lemma; [exact IH| | | | | exact Hout].
      * rewrite Hl. apply I_mime. rewrite ext_state_stage, Hsz. reflexivity.
      * rewrite ext_state_stage. destruct (p_size st =? 0); discriminate.
      * rewrite ext_state_stage. destruct (p_size st =? 0); discriminate.
      * subst tok. rewrite app_length in Hlen. lia.
    + rewrite Hm. exists false, st, ck, [], []. rewrite app_nil_r.
      split; [reflexivity|]. split; [reflexivity|]. split; [rewrite Hck; apply I_ext_last; assumption|].
      split; [unfold is_done; now rewrite Hst|]. split; [exact Hout|].
      intros C. exfalso. unfold complete in C. rewrite Hxc in E1. rewrite <- app_assoc in E1. apply app_inv_head in E1.
      lens E1. destruct l; [congruence|]. cbn [length] in E1. pose proof HTlen as [Hp _].
      assert (1 <= length Tr)%nat by (destruct Tr; [cbn in Hp; lia| cbn; lia]). lia.
Qed.

Lemma Inv_stage st suf B : Inv st suf B -> p_stage st <> StNone.
Proof. destruct 1; congruence. Qed.

Lemma Inv_len st suf B : Inv st suf B -> p_stage st <> StDone -> (length tail < length suf)%nat.
Proof.
  destruct HTlen as [Hp _]. assert (1 <= length Tr)%nat by (destruct Tr; [cbn in Hp; lia| cbn; lia]).
  destruct 1; intros Hd; try congruence; unfold Ltail; repeat rewrite app_length; lia.
Qed.

(* one call of TeChunkedParser::parse *)
Definition norm_state (st : pstate) : pstate :=
  match p_stage st with StNone => {| p_stage := StSz; p_size := p_size st; p_left := p_left st |} | _ => st end.

Lemma norm_inv st suf B : Inv st suf B -> norm_state st = st.
Proof. intros H. apply Inv_stage in H. unfold norm_state. destruct (p_stage st); congruence. Qed.

Lemma norm_done st : p_stage st <> StDone -> p_stage (norm_state st) <> StDone.
Proof. unfold norm_state. destruct (p_stage st) eqn:E; cbn; congruence. Qed.

Lemma parse_call st inp B :
  Inv (norm_state st) (inp ++ fut) B -> p_stage st <> StDone ->
  exists ret st' rem o B', parse relaxed cap st inp = PRet ret st' rem o /\ B = o ++ B' /\
     Inv (norm_state st') (rem ++ fut) B' /\ ret = is_done st' /\ lenN o <= cap /\
     (complete -> ret = true \/ (B' <> [] /\ lenN o = cap)).
Proof.
  intros HI Hnd. unfold parse. destruct inp as [|c inp'].
  - pose proof (Inv_len _ _ _ HI (norm_done _ Hnd)) as Hl.
    exists false, st, [], [], B. split; [reflexivity|]. split; [reflexivity|]. split; [exact HI|].
    split. { unfold is_done. destruct (p_stage st); try reflexivity. congruence. }
    split; [cbn; lia|]. intros C. exfalso. unfold complete in C. cbn [app] in Hl. lia.
  - change (match p_stage st with
            | StNone => {| p_stage := StSz; p_size := p_size st; p_left := p_left st |}
            | _ => st end) with (norm_state st).
    destruct (PK_all (S (length (c :: inp'))) (norm_state st) (c :: inp') [] B HI (Inv_stage _ _ _ HI) ltac:(lia) ltac:(cbn; lia))
      as (ret & st' & rem & o & B' & Hr & HB & HI' & Hret & Hle & Hc).
    cbn [app] in Hr, Hle, Hc.
    exists ret, st', rem, o, B'. rewrite (norm_inv _ _ _ HI'). repeat split; assumption.
Qed.
End Call.

(* ---------- the callers' loop ---------- *)
Definition segs (sched : list (bytes * N)) : bytes := concat (map fst sched).
Fixpoint sumcaps (sched : list (bytes * N)) : N := match sched with [] => 0 | (_, c) :: m => c + sumcaps m end.

Lemma Inv_done st suf B : Inv st suf B -> p_stage st = StDone -> B = [] /\ suf = tail.
Proof. destruct 1; intros Hd; try congruence. tauto. Qed.

Lemma run_step st inBuf out trace seg cp more ret st' rem o :
  parse relaxed cp st (inBuf ++ seg) = PRet ret st' rem o -> ret = is_done st' ->
  run relaxed st inBuf out trace ((seg, cp) :: more) =
  if ret then {| r_status := RDone; r_state := st'; r_rest := rem; r_out := out ++ o;
                 r_trace := trace ++ [(ret, st', needs_space st' cp o, lenN rem, lenN o)] |}
  else run relaxed st' rem (out ++ o) (trace ++ [(ret, st', needs_space st' cp o, lenN rem, lenN o)]) more.
Proof.
  intros Hp Hr. cbn [run]. rewrite Hp. destruct ret; [reflexivity|].
  unfold is_done in Hr. destruct (p_stage st'); try reflexivity. discriminate.
Qed.

Lemma run_safe : forall sched st inBuf out trace B rest,
  p_stage st <> StDone -> Inv (norm_state st) (inBuf ++ segs sched ++ rest) B ->
  let r := run relaxed st inBuf out trace sched in
  (r_status r = RDone /\ r_out r = out ++ B /\ exists used later, segs sched = used ++ later /\ r_rest r ++ later ++ rest = tail)
  \/ (r_status r = RMore /\ p_stage (r_state r) <> StDone /\
      exists o B', r_out r = out ++ o /\ B = o ++ B' /\ Inv (norm_state (r_state r)) (r_rest r ++ rest) B').
Proof.
  induction sched as [|[seg cp] more IH]; intros st inBuf out trace B rest Hnd HI; cbv zeta.
  - right. cbn [run r_status r_state r_out r_rest]. split; [reflexivity|]. split; [exact Hnd|].
    exists [], B. rewrite app_nil_r. cbn [segs map concat app] in HI. tauto.
  - unfold segs in HI. cbn [map concat fst] in HI. fold (segs more) in HI.
    assert (HI' : Inv (norm_state st) ((inBuf ++ seg) ++ segs more ++ rest) B) by (rewrite <- !app_assoc in *; exact HI).
    destruct (parse_call (segs more ++ rest) cp st (inBuf ++ seg) B HI' Hnd) as (ret & st' & rem & o & B' & Hp & HB & HIn & Hret & Hle & _).
    rewrite (run_step _ _ _ _ _ _ _ _ _ _ _ Hp Hret). destruct ret.
    + left. cbn [r_status r_out r_rest]. split; [reflexivity|].
      assert (Hd : p_stage st' = StDone) by (unfold is_done in Hret; destruct (p_stage st'); congruence).
      assert (Hn : norm_state st' = st') by (unfold norm_state; rewrite Hd; reflexivity).
      rewrite Hn in HIn. destruct (Inv_done _ _ _ HIn Hd) as [-> Ht]. rewrite app_nil_r in HB. subst o.
      split; [reflexivity|]. exists seg, (segs more). split; [reflexivity|]. exact Ht.
    + assert (Hnd' : p_stage st' <> StDone) by (unfold is_done in Hret; destruct (p_stage st'); congruence).
      specialize (IH st' rem (out ++ o) (trace ++ [(false, st', needs_space st' cp o, lenN rem, lenN o)]) B' rest Hnd' HIn).
      cbv zeta in IH. destruct IH as [(Hs & Ho & used & later & Hsg & Hrest)|(Hs & Hnd2 & o2 & B2 & Ho & HB2 & HI2)].
      * left. split; [exact Hs|]. split; [rewrite Ho, HB, app_assoc; reflexivity|].
        exists (seg ++ used), later. unfold segs at 1. cbn [map concat fst]. fold (segs more). rewrite Hsg, app_assoc. tauto.
      * right. split; [exact Hs|]. split; [exact Hnd2|]. exists (o ++ o2), B2.
        rewrite Ho, HB, HB2, !app_assoc. tauto.
Qed.

Lemma run_complete : forall sched st inBuf out trace B rest,
  p_stage st <> StDone -> Inv (norm_state st) (inBuf ++ segs sched ++ rest) B ->
  sched <> [] -> (length (segs (tl sched) ++ rest) <= length tail)%nat -> lenN B <= sumcaps sched ->
  r_status (run relaxed st inBuf out trace sched) = RDone.
Proof.
  induction sched as [|[seg cp] more IH]; intros st inBuf out trace B rest Hnd HI Hne Hc Hcap; [congruence|].
  unfold segs in HI. cbn [map concat fst] in HI. fold (segs more) in HI. cbn [tl] in Hc.
  assert (HI' : Inv (norm_state st) ((inBuf ++ seg) ++ segs more ++ rest) B) by (rewrite <- !app_assoc in *; exact HI).
  destruct (parse_call (segs more ++ rest) cp st (inBuf ++ seg) B HI' Hnd) as (ret & st' & rem & o & B' & Hp & HB & HIn & Hret & Hle & Hprog).
  rewrite (run_step _ _ _ _ _ _ _ _ _ _ _ Hp Hret). destruct ret; [reflexivity|].
  destruct (Hprog Hc) as [Hx|[HBne Hfull]]; [discriminate|].
  assert (Hnd' : p_stage st' <> StDone) by (unfold is_done in Hret; destruct (p_stage st'); congruence).
  cbn [sumcaps] in Hcap. rewrite HB, lenN_app in Hcap.
  assert (HB' : 1 <= lenN B') by (destruct B'; [congruence| cbn [lenN]; lia]).
  apply (IH st' rem _ _ B' rest Hnd' HIn).
  - intros ->. cbn in Hcap. lia.
  - destruct more as [|[s2 c2] more2]; [cbn in Hcap; lia|]. cbn [tl].
    unfold segs in Hc. cbn [map concat fst] in Hc. fold (segs more2) in Hc. rewrite <- app_assoc, app_length in Hc. lia.
  - lia.
Qed.

Fixpoint live (rest : bytes) (sched : list (bytes * N)) (need : N) : Prop :=
  match sched with
  | [] => False
  | (seg, cp) :: more => ((length (segs more ++ rest) <= length tail)%nat /\ need <= sumcaps sched) \/ live rest more need
  end.

Lemma live_mono rest sched : forall n n', n' <= n -> live rest sched n -> live rest sched n'.
Proof.
  induction sched as [|[seg cp] more IH]; intros n n' Hle; cbn [live]; [tauto|].
  intros [[H1 H2]|H]; [left; split; [exact H1|lia]| right; eapply IH; eassumption].
Qed.

Lemma run_live : forall sched st inBuf out trace B rest,
  p_stage st <> StDone -> Inv (norm_state st) (inBuf ++ segs sched ++ rest) B ->
  live rest sched (lenN B) -> r_status (run relaxed st inBuf out trace sched) = RDone.
Proof.
  induction sched as [|[seg cp] more IH]; intros st inBuf out trace B rest Hnd HI Hl; [destruct Hl|].
  cbn [live] in Hl. destruct Hl as [[Hc Hcap]|Hl].
  - eapply run_complete; try eassumption; discriminate.
  - unfold segs in HI. cbn [map concat fst] in HI. fold (segs more) in HI.
    assert (HI' : Inv (norm_state st) ((inBuf ++ seg) ++ segs more ++ rest) B) by (rewrite <- !app_assoc in *; exact HI).
    destruct (parse_call (segs more ++ rest) cp st (inBuf ++ seg) B HI' Hnd) as (ret & st' & rem & o & B' & Hp & HB & HIn & Hret & Hle & _).
    rewrite (run_step _ _ _ _ _ _ _ _ _ _ _ Hp Hret). destruct ret; [reflexivity|].
    assert (Hnd' : p_stage st' <> StDone) by (unfold is_done in Hret; destruct (p_stage st'); congruence).
    apply (IH st' rem _ _ B' rest Hnd' HIn). eapply live_mono; [|exact Hl]. rewrite HB, lenN_app. lia.
Qed.
End Core.



(* ======================= part 9 ======================= *)

(* ================= RFC 9110/9112 character classes, written out ================= *)
Definition rng (lo hi c : N) : bool := (lo <=? c) && (c <=? hi).
Definition rfc_tchar (c : N) : bool :=
  (c =? 33) || rng 35 39 c || (c =? 42) || (c =? 43) || (c =? 45) || (c =? 46) ||
  rng 48 57 c || rng 65 90 c || rng 94 122 c || (c =? 124) || (c =? 126).
Definition rfc_bws (c : N) : bool := (c =? 32) || (c =? 9).
Definition rfc_qdtext (c : N) : bool :=
  (c =? 9) || (c =? 32) || (c =? 33) || rng 35 91 c || rng 93 126 c || rng 128 255 c.
Definition rfc_qpair (c : N) : bool := (c =? 9) || (c =? 32) || rng 33 126 c || rng 128 255 c.

Lemma sweep (f g : N -> bool) :
  forallb (fun c => Bool.eqb (f c) (g c)) all_bytes = true ->
  (forall c, 256 <= c -> f c = g c) -> forall c, f c = g c.
Proof.
  intros Hs Hb c. destruct (N.lt_ge_cases c 256) as [Hc|Hc]; [|apply Hb; exact Hc].
  apply Bool.eqb_prop. apply (forallb_bytes (fun c => Bool.eqb (f c) (g c))); assumption.
Qed.

Lemma mem_beyond t c : lenN t = 256 -> 256 <= c -> mem_tbl t c = false.
Proof. intros Hl Hc. unfold mem_tbl. apply tbl_beyond. lia. Qed.

Lemma tchar_eq c : cs_TCHAR c = rfc_tchar c.
Proof.
  revert c. apply sweep; [vm_compute; reflexivity|]. intros c Hc.
  unfold cs_TCHAR. rewrite mem_beyond by (try reflexivity; exact Hc). unfold rfc_tchar, rng. lia.
Qed.
Lemma qdtext_eq c : qdtext11 c = rfc_qdtext c.
Proof.
  revert c. apply sweep; [vm_compute; reflexivity|]. intros c Hc.
  unfold qdtext11, cs_HTAB, cs_SP, cs_OBSTEXT. rewrite !mem_beyond by (try reflexivity; exact Hc).
  unfold rfc_qdtext, rng. lia.
Qed.
Lemma qpair_eq c : qpair_chars c = rfc_qpair c.
Proof.
  revert c. apply sweep; [vm_compute; reflexivity|]. intros c Hc.
  unfold qpair_chars, cs_HTAB, cs_SP, cs_VCHAR, cs_OBSTEXT. rewrite !mem_beyond by (try reflexivity; exact Hc).
  unfold rfc_qpair, rng. lia.
Qed.
Lemma ws_bws relaxed c : rfc_bws c = true -> ws_chars relaxed c = true /\ cs_WSP c = true.
Proof.
  unfold rfc_bws. intros H. apply orb_prop in H as [H|H]; apply N.eqb_eq in H; subst c; destruct relaxed; split; vm_compute; reflexivity.
Qed.
Lemma ws_tchar relaxed c : rfc_tchar c = true -> ws_chars relaxed c = false /\ cs_WSP c = false.
Proof.
  intros H. destruct (N.lt_ge_cases c 256) as [Hc|Hc].
  - pose proof (forallb_bytes (fun c => implb (rfc_tchar c) (negb (ws_chars relaxed c) && negb (cs_WSP c)))
                  ltac:(destruct relaxed; vm_compute; reflexivity) c Hc) as Hi.
    cbv beta in Hi. rewrite H in Hi. cbn [implb] in Hi. apply andb_prop in Hi as [H1 H2].
    apply negb_true_iff in H1, H2. tauto.
  - unfold rfc_tchar, rng in H. lia.
Qed.
Lemma tchar_not_crlf c : rfc_tchar c = true -> not_crlf c = true.
Proof. unfold rfc_tchar, rng, not_crlf. lia. Qed.
Lemma tchar_nothex_special : rfc_tchar 59 = false /\ rfc_tchar 61 = false /\ rfc_tchar 13 = false /\ rfc_tchar 32 = false /\ rfc_tchar 9 = false /\ rfc_tchar 34 = false.
Proof. repeat split; reflexivity. Qed.

(* ================= the chunk-ext grammar (RFC 9112 7.1.1) as an encoder ================= *)
(* quoted-string = DQUOTE *( qdtext / quoted-pair ) DQUOTE, written as
   *( *qdtext quoted-pair ) *qdtext : a list of (qdtext run, escaped octet) and a final run *)
Definition qseg := (bytes * N)%type.
Definition enc_qseg (s : qseg) : bytes := fst s ++ [92; snd s].
Definition enc_qs (qsegs : list qseg) (last : bytes) : bytes := concat (map enc_qseg qsegs) ++ last.
Definition qseg_ok (s : qseg) : Prop := forallb rfc_qdtext (fst s) = true /\ rfc_qpair (snd s) = true.

Inductive extval :=
| VNone
| VTok (w1 w2 t : bytes)                         (* BWS "=" BWS token *)
| VQuoted (w1 w2 : bytes) (qsegs : list qseg) (last : bytes).   (* BWS "=" BWS quoted-string *)
Record ext := { x_w1 : bytes; x_w2 : bytes; x_name : bytes; x_val : extval }.

Definition enc_val (v : extval) : bytes :=
  match v with
  | VNone => []
  | VTok w1 w2 t => w1 ++ [61] ++ w2 ++ t
  | VQuoted w1 w2 qsegs last => w1 ++ [61] ++ w2 ++ [34] ++ enc_qs qsegs last ++ [34]
  end.
(* BWS ";" BWS chunk-ext-name [ BWS "=" BWS chunk-ext-val ] *)
Definition enc_ext (e : ext) : bytes := x_w1 e ++ [59] ++ x_w2 e ++ x_name e ++ enc_val (x_val e).
Definition enc_exts (es : list ext) : bytes := concat (map enc_ext es).

Definition bws_ok (w : bytes) : Prop := forallb rfc_bws w = true.
Definition token_ok (t : bytes) : Prop := t <> [] /\ forallb rfc_tchar t = true.
Definition val_ok (v : extval) : Prop :=
  match v with
  | VNone => True
  | VTok w1 w2 t => bws_ok w1 /\ bws_ok w2 /\ token_ok t
  | VQuoted w1 w2 qsegs last => bws_ok w1 /\ bws_ok w2 /\ Forall qseg_ok qsegs /\ forallb rfc_qdtext last = true
  end.
Definition ext_ok (e : ext) : Prop :=
  bws_ok (x_w1 e) /\ bws_ok (x_w2 e) /\ token_ok (x_name e) /\ val_ok (x_val e) /\ lenN (enc_ext e) < npos.

(* ---------- Tokenizer on runs ---------- *)
Lemma prefix_run set t y r : t <> [] -> forallb set t = true -> set y = false -> lenN t < npos ->
  tok_prefix set npos (t ++ y :: r) = Some (t, y :: r).
Proof.
  intros Hne Hall Hy Hl. rewrite tok_prefix_eq_spec. unfold prefix_spec.
  rewrite takeN_app_ge by lia.
  assert (Hk : exists k, takeN (npos - lenN t) (y :: r) = y :: k).
  { cbn [takeN]. destruct (npos - lenN t =? 0) eqn:E; [apply N.eqb_eq in E; lia|]. eexists; reflexivity. }
  destruct Hk as [k ->]. rewrite (span_stop_app set t y k Hall Hy). cbn [fst].
  destruct t as [|c t']; [congruence|]. rewrite dropN_app_exact. reflexivity.
Qed.

Lemma prefix_none_head set lim y r : set y = false -> tok_prefix set lim (y :: r) = None.
Proof.
  intros Hy. rewrite tok_prefix_eq_spec. unfold prefix_spec. cbn [takeN].
  destruct (lim =? 0); [reflexivity|]. cbn [span]. rewrite Hy. reflexivity.
Qed.

Lemma forallb_imp {A} (p q : A -> bool) l : (forall c, p c = true -> q c = true) -> forallb p l = true -> forallb q l = true.
Proof. intros H. induction l as [|c l IH]; cbn [forallb]; [tauto|]. intros Hl. apply andb_prop in Hl as [H1 H2]. now rewrite (H c H1), (IH H2). Qed.

Lemma bws_ws relaxed w : bws_ok w -> forallb (ws_chars relaxed) w = true.
Proof. apply forallb_imp. intros c H. apply (ws_bws relaxed c H). Qed.
Lemma bws_wsp w : bws_ok w -> forallb cs_WSP w = true.
Proof. apply forallb_imp. intros c H. apply (ws_bws false c H). Qed.

(* what may follow an extension: the next one, or CRLF *)
Definition nxt (Z : bytes) : Prop :=
  exists w y r, Z = w ++ y :: r /\ bws_ok w /\ (y = 59 \/ (y = 13 /\ exists r', r = 10 :: r')).

Lemma ws_facts relaxed : ws_chars relaxed 59 = false /\ ws_chars relaxed 61 = false /\ ws_chars relaxed 34 = false /\
  ws_chars relaxed 10 = false /\ ws_chars relaxed 13 = relaxed.
Proof. destruct relaxed; repeat split; vm_compute; reflexivity. Qed.

Lemma nxt_bws relaxed Z : nxt Z -> exists z r, parse_bws relaxed Z = Ok (z :: r) /\ z <> 61 /\
  ((z = 59 /\ exists w, Z = w ++ z :: r /\ bws_ok w) \/ (z <> 59 /\ exists w r', Z = w ++ 13 :: 10 :: r' /\ bws_ok w)).
Proof.
  intros (w & y & r & -> & Hw & Hy). destruct (ws_facts relaxed) as (F59 & F61 & F34 & F10 & F13).
  unfold parse_bws. destruct Hy as [->|[-> [r' ->]]].
  - exists 59, r. rewrite (bws_run _ w 59 r (bws_ws relaxed w Hw) F59). split; [reflexivity|]. split; [lia|].
    left. split; [reflexivity|]. exists w. tauto.
  - destruct relaxed.
    + exists 10, r'. change (w ++ 13 :: 10 :: r') with (w ++ [13] ++ 10 :: r'). rewrite app_assoc.
      rewrite (bws_run _ (w ++ [13]) 10 r'); [| rewrite forallb_app, (bws_ws true w Hw); cbn [forallb]; rewrite F13; reflexivity | exact F10].
      split; [reflexivity|]. split; [lia|]. right. split; [lia|]. exists w, r'. rewrite <- app_assoc. tauto.
    + exists 13, (10 :: r'). rewrite (bws_run _ w 13 (10 :: r') (bws_ws false w Hw) F13).
      split; [reflexivity|]. split; [lia|]. right. split; [lia|]. exists w, r'. tauto.
Qed.

Lemma nxt_head Z : nxt Z -> exists y r, Z = y :: r /\ rfc_tchar y = false.
Proof.
  intros (w & y & r & -> & Hw & Hy). destruct w as [|c w'].
  - exists y, r. split; [reflexivity|]. destruct Hy as [->|[-> _]]; reflexivity.
  - exists c, (w' ++ y :: r). split; [reflexivity|]. unfold bws_ok in Hw. cbn [forallb] in Hw. apply andb_prop in Hw as [Hc _].
    unfold rfc_bws in Hc. apply orb_prop in Hc as [Hc|Hc]; apply N.eqb_eq in Hc; subst c; reflexivity.
Qed.

(* ---------- quoted strings ---------- *)
Lemma qs_valid Z : forall qsegs last acc k, Forall qseg_ok qsegs -> forallb rfc_qdtext last = true ->
  lenN (enc_qs qsegs last) < npos -> (length qsegs < k)%nat ->
  exists v, qs_loop k acc (enc_qs qsegs last ++ 34 :: Z) = Some (Ok (v, Z)).
Proof.
  assert (Hq34 : qdtext11 34 = false) by (vm_compute; reflexivity).
  assert (Hq92 : qdtext11 92 = false) by (vm_compute; reflexivity).
  induction qsegs as [|[run c] qsegs IH]; intros last acc k Hsegs Hlast Hlen Hk; (destruct k as [|k]; [cbn in Hk; lia|]).
  - unfold enc_qs in *. cbn [map concat app] in *. rewrite qs_step_eq.
    assert (Hb : exists y r, last ++ 34 :: Z = y :: r) by (destruct last; cbn; eauto).
    destruct Hb as (y0 & r0 & Hb). rewrite Hb. cbv zeta. rewrite <- Hb.
    assert (Hpre : exists a, qs_pre acc (last ++ 34 :: Z) = (a, 34 :: Z)).
    { unfold qs_pre. destruct last as [|l0 last'].
      - cbn [app]. rewrite (prefix_none_head _ _ _ _ Hq34). eauto.
      - rewrite (prefix_run qdtext11 (l0 :: last') 34 Z); [eauto|discriminate| |exact Hq34|exact Hlen].
        eapply forallb_imp; [|exact Hlast]. intros x Hx. now rewrite qdtext_eq. }
    destruct Hpre as [a Ha]. rewrite Ha. cbn [fst snd tok_skipChar]. change (34 =? 92) with false. change (34 =? 34) with true.
    cbn [fst snd]. eauto.
  - inversion Hsegs as [|? ? [Hrun Hc] Hsegs']; subst. cbn [fst snd] in *.
    unfold enc_qs in *. cbn [map concat] in *. unfold enc_qseg at 1. cbn [fst snd].
    unfold enc_qseg in Hlen at 1. cbn [fst snd] in Hlen.
    set (REST := concat (map enc_qseg qsegs) ++ last) in *.
    replace (((run ++ [92; c]) ++ concat (map enc_qseg qsegs)) ++ last) with (run ++ 92 :: c :: REST) in *
      by (unfold REST; rewrite <- !app_assoc; reflexivity).
    rewrite <- app_assoc. cbn [app]. rewrite qs_step_eq.
    assert (Hb : exists y r, run ++ 92 :: c :: REST ++ 34 :: Z = y :: r) by (destruct run; cbn; eauto).
    destruct Hb as (y0 & r0 & Hb). rewrite Hb. cbv zeta. rewrite <- Hb.
    assert (Hl2 : lenN run < npos /\ lenN REST < npos).
    { rewrite lenN_app in Hlen. cbn [lenN] in Hlen. lia. }
    assert (Hpre : exists a, qs_pre acc (run ++ 92 :: c :: REST ++ 34 :: Z) = (a, 92 :: c :: REST ++ 34 :: Z)).
    { unfold qs_pre. destruct run as [|l0 run'].
      - cbn [app]. rewrite (prefix_none_head _ _ _ _ Hq92). eauto.
      - rewrite (prefix_run qdtext11 (l0 :: run') 92 _); [eauto|discriminate| |exact Hq92|tauto].
        eapply forallb_imp; [|exact Hrun]. intros x Hx. now rewrite qdtext_eq. }
    destruct Hpre as [a Ha]. rewrite Ha. cbn [fst snd tok_skipChar]. change (92 =? 92) with true. cbn [fst snd].
    rewrite qpair_eq, Hc.
    apply IH; [exact Hsegs'| exact Hlast| tauto | cbn in Hk; lia].
Qed.

Lemma lenN_app_lt {A} (a b : list A) n : lenN (a ++ b) < n -> lenN a < n /\ lenN b < n.
Proof. rewrite lenN_app. lia. Qed.

Lemma token_run t Z : token_ok t -> lenN t < npos -> nxt Z ->
  tok_prefix cs_TCHAR npos (t ++ Z) = Some (t, Z) /\ Z <> [].
Proof.
  intros [Hne Hall] Hl HZ. destruct (nxt_head Z HZ) as (y & r & -> & Hy). split; [|discriminate].
  apply prefix_run; [exact Hne| | now rewrite tchar_eq | exact Hl].
  eapply forallb_imp; [|exact Hall]. intros x Hx. now rewrite tchar_eq.
Qed.

(* parseOneChunkExtension on a grammatical extension followed by the next one or CRLF *)
Lemma one_ext_valid relaxed e Z : ext_ok e -> nxt Z ->
  one_ext relaxed (x_w2 e ++ x_name e ++ enc_val (x_val e) ++ Z) = Some (Ok Z).
Proof.
  intros (Hw1 & Hw2 & Hname & Hval & Hlen) HZ. destruct (ws_facts relaxed) as (F59 & F61 & F34 & F10 & F13).
  unfold enc_ext in Hlen. rewrite !lenN_app in Hlen.
  unfold one_ext, parse_bws.
  destruct Hname as [Hnne Hnall]. destruct (x_name e) as [|n0 name'] eqn:En; [congruence|].
  assert (Hn0 : rfc_tchar n0 = true) by (cbn [forallb] in Hnall; apply andb_prop in Hnall; tauto).
  cbn [app].
  rewrite (bws_run _ (x_w2 e) n0 _ (bws_ws relaxed _ Hw2) (proj1 (ws_tchar relaxed n0 Hn0))).
  change (n0 :: name' ++ enc_val (x_val e) ++ Z) with ((n0 :: name') ++ enc_val (x_val e) ++ Z).
  assert (Hnl : lenN (n0 :: name') < npos) by lia.
  (* the name is followed by a non-tchar *)
  assert (Hafter : exists y r, enc_val (x_val e) ++ Z = y :: r /\ rfc_tchar y = false).
  { destruct (x_val e) as [|w1 w2 t|w1 w2 qsegs last]; cbn [enc_val app].
    - apply nxt_head. exact HZ.
    - destruct Hval as (Hv1 & _). destruct w1 as [|c w1']; cbn [app]; [eexists _, _; split; reflexivity|].
      eexists _, _; split; [reflexivity|]. unfold bws_ok in Hv1. cbn [forallb] in Hv1. apply andb_prop in Hv1 as [Hc _].
      unfold rfc_bws in Hc. apply orb_prop in Hc as [Hc|Hc]; apply N.eqb_eq in Hc; subst c; reflexivity.
    - destruct Hval as (Hv1 & _). destruct w1 as [|c w1']; cbn [app]; [eexists _, _; split; reflexivity|].
      eexists _, _; split; [reflexivity|]. unfold bws_ok in Hv1. cbn [forallb] in Hv1. apply andb_prop in Hv1 as [Hc _].
      unfold rfc_bws in Hc. apply orb_prop in Hc as [Hc|Hc]; apply N.eqb_eq in Hc; subst c; reflexivity. }
  destruct Hafter as (y & r & Hyr & Hy).
  unfold tok_prefix_req. cbn [is_nil app]. change (n0 :: name' ++ enc_val (x_val e) ++ Z) with ((n0 :: name') ++ enc_val (x_val e) ++ Z).
  rewrite Hyr. rewrite (prefix_run cs_TCHAR (n0 :: name') y r); [|discriminate| |now rewrite tchar_eq|exact Hnl].
  2:{ eapply forallb_imp; [|exact Hnall]. intros x Hx. now rewrite tchar_eq. }
  cbn [is_nil]. rewrite <- Hyr.
  destruct (x_val e) as [|w1 w2 t|w1 w2 qsegs last] eqn:Ev; cbn [enc_val app] in *.
  - (* no value *)
    destruct (nxt_bws relaxed Z HZ) as (z & rz & Hb & Hz61 & _). unfold parse_bws in Hb. rewrite Hb.
    cbn [tok_skipChar]. replace (z =? 61) with false by lia. cbn [negb fst snd]. reflexivity.
  - destruct Hval as (Hv1 & Hv2 & Ht). rewrite <- !app_assoc. cbn [app].
    rewrite (bws_run _ w1 61 _ (bws_ws relaxed _ Hv1) F61). cbn [tok_skipChar]. change (61 =? 61) with true. cbn [negb].
    destruct Ht as [Htne Htall]. destruct t as [|t0 t'] eqn:Et; [congruence|].
    assert (Ht0 : rfc_tchar t0 = true) by (cbn [forallb] in Htall; apply andb_prop in Htall; tauto).
    rewrite <- ?app_assoc. cbn [app]. rewrite (bws_run _ w2 t0 _ (bws_ws relaxed _ Hv2) (proj1 (ws_tchar relaxed t0 Ht0))).
    unfold token_or_qs. cbn [tok_skipChar]. replace (t0 =? 34) with false by (unfold rfc_tchar, rng in Ht0; lia).
    cbn [is_nil]. change (t0 :: t' ++ Z) with ((t0 :: t') ++ Z).
    assert (Htl : lenN (t0 :: t') < npos).
    { repeat first [rewrite lenN_app in Hlen | progress cbn [lenN app] in Hlen]. cbn [lenN]. lia. }
    destruct (token_run (t0 :: t') Z (conj Htne Htall) Htl HZ) as [Hp HZne].
    rewrite Hp. destruct Z; [congruence|]. reflexivity.
  - destruct Hval as (Hv1 & Hv2 & Hsegs & Hlast). rewrite <- !app_assoc. cbn [app].
    rewrite (bws_run _ w1 61 _ (bws_ws relaxed _ Hv1) F61). cbn [tok_skipChar]. change (61 =? 61) with true. cbn [negb].
    rewrite <- ?app_assoc. cbn [app]. rewrite (bws_run _ w2 34 _ (bws_ws relaxed _ Hv2) F34).
    unfold token_or_qs. cbn [tok_skipChar]. change (34 =? 34) with true. cbv iota.
    unfold quoted_suffix. rewrite <- app_assoc. cbn [app].
    destruct (qs_valid Z qsegs last [] (S (length (enc_qs qsegs last ++ 34 :: Z))) Hsegs Hlast) as [v Hv].
    { repeat first [rewrite lenN_app in Hlen | progress cbn [lenN app] in Hlen]. lia. }
    { unfold enc_qs. rewrite !app_length. cbn [length].
      assert (Hsl : (length qsegs <= length (concat (map enc_qseg qsegs)))%nat).
      { clear. induction qsegs as [|s qsegs IH]; cbn [map concat length]; [lia|].
        rewrite app_length. unfold enc_qseg at 1. rewrite app_length. cbn [length]. lia. }
      lia. }
    rewrite Hv. reflexivity.
Qed.

Lemma nxt_exts es R0 : Forall ext_ok es -> nxt (enc_exts es ++ crlf ++ R0).
Proof.
  intros H. destruct H as [|e es He Hes]; unfold enc_exts; cbn [map concat app].
  - exists [], 13, (10 :: R0). split; [reflexivity|]. split; [reflexivity|]. right. eauto.
  - exists (x_w1 e), 59, ((x_w2 e ++ x_name e ++ enc_val (x_val e)) ++ concat (map enc_ext es) ++ crlf ++ R0).
    split; [unfold enc_ext; rewrite <- !app_assoc; reflexivity|]. split; [apply He|]. left; reflexivity.
Qed.

Lemma exts_valid relaxed R0 : forall es ck, Forall ext_ok es ->
  fst (exts relaxed (enc_exts es ++ crlf ++ R0) ck) = Ok (crlf ++ R0).
Proof.
  destruct (ws_facts relaxed) as (F59 & F61 & F34 & F10 & F13).
  induction es as [|e es IH]; intros ck Hes.
  - unfold enc_exts. cbn [map concat app]. rewrite exts_unfold.
    destruct (nxt_bws relaxed (crlf ++ R0) (nxt_exts [] R0 (Forall_nil _))) as (z & rz & Hb & Hz61 & [[Hz _]|[Hz _]]).
    + exfalso. unfold parse_bws, crlf in Hb. cbn [app] in Hb. destruct relaxed.
      * change (13 :: 10 :: R0) with ([13] ++ 10 :: R0) in Hb. rewrite (bws_run _ [13] 10 R0) in Hb; [congruence| cbn [forallb]; rewrite F13; reflexivity | exact F10].
      * change (13 :: 10 :: R0) with ([] ++ 13 :: 10 :: R0) in Hb. rewrite (bws_run _ [] 13 _) in Hb; [congruence| reflexivity | exact F13].
    + rewrite Hb. cbn [tok_skipChar]. replace (z =? 59) with false by lia. reflexivity.
  - inversion Hes as [|? ? He Hes']; subst. unfold enc_exts. cbn [map concat]. fold (enc_exts es).
    rewrite exts_unfold. unfold parse_bws. unfold enc_ext at 1. rewrite <- !app_assoc. cbn [app].
    rewrite (bws_run _ (x_w1 e) 59 _ (bws_ws relaxed _ (proj1 He)) F59).
    cbn [tok_skipChar]. change (59 =? 59) with true. cbn [negb fst snd].
    rewrite (one_ext_valid relaxed e (enc_exts es ++ crlf ++ R0) He (nxt_exts es R0 Hes')).
    apply IH. exact Hes'.
Qed.

(* the chunk-ext text of a header line satisfies what the core proof needs *)
Lemma enc_exts_cons e es T : enc_exts (e :: es) ++ T =
  x_w1 e ++ 59 :: (x_w2 e ++ x_name e ++ enc_val (x_val e) ++ enc_exts es ++ T).
Proof. unfold enc_exts. cbn [map concat]. unfold enc_ext. rewrite <- !app_assoc. reflexivity. Qed.

(* since 1aa8f1c the BWS in front of the first extension is consumed with the chunk-size *)
Definition ext_w (es : list ext) : bytes := match es with [] => [] | e :: _ => x_w1 e end.
Definition ext_xc (es : list ext) : bytes :=
  match es with
  | [] => crlf
  | e :: es' => 59 :: (x_w2 e ++ x_name e ++ enc_val (x_val e) ++ enc_exts es' ++ crlf)
  end.
Lemma ext_split es : enc_exts es ++ crlf = ext_w es ++ ext_xc es.
Proof. destruct es as [|e es']; [reflexivity|]. rewrite enc_exts_cons. reflexivity. Qed.

Lemma grammar_ext_sem relaxed st es : Forall ext_ok es -> ext_sem relaxed st (ext_xc es).
Proof.
  intros Hes R0.
  assert (Hskip : tok_skipRequired EExtCrlf crlf (crlf ++ R0) = Ok R0) by (rewrite skipRequired_crlf_cases; reflexivity).
  rewrite meta_eq.
  destruct Hes as [|e es He Hes].
  - cbn [ext_xc]. pose proof (exts_valid relaxed R0 [] (crlf ++ R0) (Forall_nil _)) as Hx.
    change (enc_exts [] ++ crlf ++ R0) with (crlf ++ R0) in Hx. rewrite Hx. cbv beta iota. rewrite Hskip. reflexivity.
  - set (e' := {| x_w1 := []; x_w2 := x_w2 e; x_name := x_name e; x_val := x_val e |}).
    assert (He' : ext_ok e').
    { destruct He as (H1 & H2 & H3 & H4 & H5). unfold ext_ok, e'. cbn [x_w1 x_w2 x_name x_val]. repeat split; try assumption; try reflexivity.
      - apply H3. - apply H3.
      - unfold enc_ext in *. cbn [x_w1 x_w2 x_name x_val app] in *. rewrite lenN_app in H5. lia. }
    assert (Heq : ext_xc (e :: es) ++ R0 = enc_exts (e' :: es) ++ crlf ++ R0).
    { rewrite enc_exts_cons. cbn [ext_xc x_w1 x_w2 x_name x_val e' app]. rewrite <- !app_assoc. reflexivity. }
    rewrite Heq.
    rewrite (exts_valid relaxed R0 (e' :: es) _ (Forall_cons _ He' Hes)). cbv beta iota. rewrite Hskip. reflexivity.
Qed.

Lemma grammar_head_ok es : head_ok (ext_xc es).
Proof. destruct es; cbn [ext_xc head_ok crlf]; repeat split; try (vm_compute; reflexivity); lia. Qed.

Lemma grammar_wsp es : Forall ext_ok es -> wsp_ok (ext_w es).
Proof. intros H. destruct H as [|e es' He _]; [reflexivity|]. cbn [ext_w]. apply bws_wsp. apply He. Qed.


(* ======================= part 10 ======================= *)

(* ================= the chunked-body grammar (RFC 9112 7.1) as an encoder ================= *)
Record chunk := { k_digits : bytes; k_exts : list ext; k_data : bytes }.
Record message := { m_chunks : list chunk; m_zeros : bytes; m_last_exts : list ext; m_trailer : list field }.

(* chunk = chunk-size [ chunk-ext ] CRLF chunk-data CRLF *)
Definition enc_chunk (k : chunk) : bytes := k_digits k ++ enc_exts (k_exts k) ++ crlf ++ k_data k ++ crlf.
(* chunked-body = *chunk last-chunk trailer-section CRLF ; last-chunk = 1*"0" [ chunk-ext ] CRLF *)
Definition encode (m : message) : bytes :=
  concat (map enc_chunk (m_chunks m)) ++ m_zeros m ++ enc_exts (m_last_exts m) ++ crlf ++
  enc_fields (m_trailer m) ++ crlf.
Definition body (m : message) : bytes := concat (map k_data (m_chunks m)).

(* chunk-size = 1*HEXDIG denoting the data length, which must fit in 63 bits *)
Definition chunk_ok (k : chunk) : Prop :=
  digits_ok (k_digits k) (lenN (k_data k)) /\ k_data k <> [] /\ Forall ext_ok (k_exts k).
Definition message_ok (m : message) : Prop :=
  Forall chunk_ok (m_chunks m) /\ digits_ok (m_zeros m) 0 /\ Forall ext_ok (m_last_exts m) /\
  Forall (field_ok rfc_tchar) (m_trailer m) /\ lenN (enc_fields (m_trailer m) ++ crlf) < trailer_limit.

Definition to_c (k : chunk) : cchunk :=
  {| c_ds := k_digits k; c_w := ext_w (k_exts k); c_xc := ext_xc (k_exts k); c_data := k_data k |}.

Lemma enc_to_c ks : enc_cs (map to_c ks) = concat (map enc_chunk ks).
Proof.
  induction ks as [|k ks IH]; [reflexivity|]. unfold enc_cs in *. cbn [map concat]. rewrite IH.
  unfold enc_cchunk, enc_chunk, to_c. cbn [c_ds c_w c_xc c_data]. rewrite <- !app_assoc.
  rewrite (app_assoc (enc_exts (k_exts k)) crlf), ext_split, <- !app_assoc. reflexivity.
Qed.
Lemma body_to_c ks : body_cs (map to_c ks) = concat (map k_data ks).
Proof. induction ks as [|k ks IH]; [reflexivity|]. unfold body_cs in *. cbn [map concat]. now rewrite IH. Qed.

Section Final.
Variable relaxed : bool.
Variable m : message.
Hypothesis Hm : message_ok m.
Variable tail : bytes.

Let zeros := m_zeros m.
Let lw := ext_w (m_last_exts m).
Let lxc := ext_xc (m_last_exts m).
Let Tr := enc_fields (m_trailer m) ++ crlf.

Lemma F_zeros : digits_ok zeros 0. Proof. apply Hm. Qed.
Lemma F_lw : wsp_ok lw. Proof. apply grammar_wsp. apply Hm. Qed.
Lemma F_lhead : head_ok lxc. Proof. apply grammar_head_ok. Qed.
Lemma F_lsem : forall st, ext_sem relaxed st lxc. Proof. intros st. apply grammar_ext_sem. apply Hm. Qed.
Lemma F_Tfull : forall t0, headers_end (Tr ++ t0) = lenN Tr.
Proof. intros t0. apply (he_trailer_full rfc_tchar tchar_not_crlf). apply Hm. Qed.
Lemma F_Tpre : forall p l, Tr = p ++ l -> l <> [] -> headers_end p = 0.
Proof. intros p l H Hl. unfold headers_end. eapply (he_trailer_prefix rfc_tchar tchar_not_crlf); [apply Hm| exact H| exact Hl]. Qed.
Lemma F_Tlen : 0 < lenN Tr < trailer_limit.
Proof. split; [unfold Tr; rewrite lenN_app; cbn; lia| apply Hm]. Qed.

Lemma F_chunks : Forall (cchunk_ok relaxed) (map to_c (m_chunks m)).
Proof.
  destruct Hm as (Hc & _). induction Hc as [|k ks Hk Hks IH]; cbn [map]; constructor; [|exact IH].
  destruct Hk as (Hd & Hne & He). unfold cchunk_ok, to_c. cbn [c_ds c_w c_xc c_data].
  split; [exact Hd|]. split; [exact Hne|]. split; [apply grammar_wsp; exact He|]. split; [apply grammar_head_ok|]. intros st. apply grammar_ext_sem. exact He.
Qed.

Lemma F_init : Inv relaxed zeros lw lxc Tr tail (norm_state init_state) (encode m ++ tail) (body m).
Proof.
  unfold encode, body. rewrite <- enc_to_c, <- body_to_c.
  replace ((enc_cs (map to_c (m_chunks m)) ++ m_zeros m ++ enc_exts (m_last_exts m) ++ crlf ++ enc_fields (m_trailer m) ++ crlf) ++ tail)
    with (enc_cs (map to_c (m_chunks m)) ++ Ltail zeros lw lxc Tr tail)
    by (unfold Ltail, zeros, lw, lxc, Tr; rewrite <- !app_assoc; rewrite (app_assoc (enc_exts (m_last_exts m)) crlf), ext_split, <- !app_assoc; reflexivity).
  apply I_sz; [reflexivity| apply F_chunks].
Qed.

(* safety: any segmentation, any capacities, any amount of the stream delivered *)
Theorem dechunk_safe sched rest :
  segs sched ++ rest = encode m ++ tail ->
  let r := run_chunked relaxed sched in
  (r_status r = RDone /\ r_out r = body m /\
   exists used later, segs sched = used ++ later /\ used = encode m ++ r_rest r)
  \/ (r_status r = RMore /\ exists B', body m = r_out r ++ B').
Proof.
  intros Heq. cbv zeta. unfold run_chunked.
  pose proof (run_safe relaxed zeros lw lxc Tr tail F_zeros F_lw F_lhead F_lsem F_Tfull F_Tpre F_Tlen sched init_state [] [] [] (body m) rest
                ltac:(discriminate)) as H.
  cbn [app] in H. rewrite Heq in H. specialize (H F_init). cbv zeta in H.
  destruct H as [(Hs & Ho & used & later & Hsg & Hr)|(Hs & _ & o & B' & Ho & HB & _)].
  - left. split; [exact Hs|]. split; [exact Ho|]. exists used, later. split; [exact Hsg|].
    rewrite Hsg in Heq. rewrite <- Hr in Heq. rewrite <- !app_assoc in Heq.
    rewrite (app_assoc (encode m)) in Heq. rewrite (app_assoc used) in Heq. rewrite (app_assoc (encode m ++ _)) in Heq.
    apply app_inv_tail in Heq. apply app_inv_tail in Heq. exact Heq.
  - right. split; [exact Hs|]. exists B'. cbn [app] in Ho. rewrite Ho. exact HB.
Qed.

(* completion: from some step on everything has been delivered and the capacities cover the body *)
Theorem dechunk_complete sched rest :
  segs sched ++ rest = encode m ++ tail ->
  live tail rest sched (lenN (body m)) ->
  r_status (run_chunked relaxed sched) = RDone.
Proof.
  intros Heq Hl. unfold run_chunked.
  apply (run_live relaxed zeros lw lxc Tr tail F_zeros F_lw F_lhead F_lsem F_Tfull F_Tpre F_Tlen sched init_state [] [] [] (body m) rest);
    [discriminate| cbn [app]; rewrite Heq; apply F_init | exact Hl].
Qed.
End Final.

Theorem dechunk_exact relaxed m tail sched rest :
  message_ok m -> segs sched ++ rest = encode m ++ tail -> live tail rest sched (lenN (body m)) ->
  let r := run_chunked relaxed sched in
  r_status r = RDone /\ r_out r = body m /\
  exists used later, segs sched = used ++ later /\ used = encode m ++ r_rest r.
Proof.
  intros Hm Heq Hl. cbv zeta.
  pose proof (dechunk_complete relaxed m Hm tail sched rest Heq Hl) as Hd.
  destruct (dechunk_safe relaxed m Hm tail sched rest Heq) as [H|[Hs _]]; [exact H| congruence].
Qed.

Theorem truncated_asks_for_more relaxed m sched rest :
  message_ok m -> segs sched ++ rest = encode m -> rest <> [] ->
  let r := run_chunked relaxed sched in
  r_status r = RMore /\ exists B', body m = r_out r ++ B'.
Proof.
  intros Hm Heq Hne. cbv zeta.
  assert (Heq' : segs sched ++ rest = encode m ++ []) by (now rewrite app_nil_r).
  destruct (dechunk_safe relaxed m Hm [] sched rest Heq') as [(Hs & Ho & used & later & Hsg & Hu)|H]; [|exact H].
  exfalso. rewrite Hsg, Hu in Heq. apply (f_equal (@length N)) in Heq. repeat rewrite app_length in Heq.
  destruct rest; [congruence|]. cbn [length] in Heq. lia.
Qed.



(* ======================= part 11 ======================= *)

(* ================= rejections, for every continuation x of the input ================= *)
Definition at_size (st : pstate) : Prop := p_stage st = StNone \/ p_stage st = StSz.

Lemma parse_at_size relaxed cap st c x : at_size st ->
  parse relaxed cap st (c :: x) =
  match chunk_size (norm_state st) (c :: x) with
  | Bad e => PThrow e []
  | Insuf => PThrow ESize []
  | Ok None => PRet false (norm_state st) (c :: x) []
  | Ok (Some (st4, t4)) => parse_loop (length (c :: x)) relaxed cap st4 t4 t4 []
  end.
Proof.
  intros Hs. unfold parse. fold (norm_state st).
  assert (Hn : p_stage (norm_state st) = StSz) by (unfold norm_state; destruct Hs as [H|H]; rewrite H; [reflexivity|exact H]).
  rewrite parse_loop_eq. rewrite Hn. unfold chunk_part. rewrite Hn. unfold mime_part. rewrite Hn. unfold sz_part. rewrite Hn.
  cbn [app]. destruct (chunk_size (norm_state st) (c :: x)) as [[[st4 t4]|]| |e]; try reflexivity.
  unfold fin. rewrite Hn. reflexivity.
Qed.

Theorem reject_0x relaxed cap st c x : at_size st -> c = 120 \/ c = 88 ->
  parse relaxed cap st (48 :: c :: x) = PThrow E0x [].
Proof.
  intros Hs Hc. rewrite parse_at_size by exact Hs. unfold chunk_size, tok_skip.
  destruct Hc as [->| ->]; destruct x; reflexivity.
Qed.

Theorem reject_nonhex relaxed cap st c x : at_size st -> is_hex c = false ->
  parse relaxed cap st (c :: x) = PThrow ESize [].
Proof.
  intros Hs Hc. rewrite parse_at_size by exact Hs. unfold chunk_size.
  assert (H48 : (c =? 48) = false) by (destruct (c =? 48) eqn:E; [apply N.eqb_eq in E; subst c; discriminate| reflexivity]).
  assert (Hsk : fst (tok_skip [48; 120] (c :: x)) || fst (tok_skip [48; 88] (c :: x)) = false).
  { unfold tok_skip. destruct x; cbn [starts_with]; rewrite H48; reflexivity. }
  rewrite Hsk. rewrite int64_hex.
  2:{ destruct x; [reflexivity|]. now rewrite H48. }
  unfold ref_core. cbn [takeN]. change (npos =? 0) with false. cbv iota. cbn [digit_run].
  rewrite digit_of_hex. unfold is_hex in Hc. destruct (hexval c); [discriminate|]. reflexivity.
Qed.

(* chunk-size followed by something that is neither BWS, ";" nor CR: missing CRLF *)
Theorem reject_missing_crlf_after_size relaxed cap st ds v c x :
  at_size st -> digits_ok ds v -> is_hex c = false -> c <> 120 -> c <> 88 ->
  ws_chars relaxed c = false -> c <> 59 -> c <> 13 ->
  parse relaxed cap st (ds ++ c :: x) = PThrow EExtCrlf [].
Proof.
  intros Hs Hd Hc Hx1 Hx2 Hws H59 H13.
  pose proof Hd as (Hne & Hhex & Hv & Hlt & Hlen).
  destruct ds as [|d0 ds']; [congruence|]. cbn [app]. rewrite parse_at_size by exact Hs.
  change (d0 :: ds' ++ c :: x) with ((d0 :: ds') ++ c :: x).
  rewrite (size_full _ (d0 :: ds') c x Hne Hhex ltac:(rewrite Hv; exact Hlt) Hlen Hc Hx1 Hx2).
  assert (Hwsp : cs_WSP c = false).
  { destruct (cs_WSP c) eqn:E; [|reflexivity]. rewrite (wsp_sub relaxed c E) in Hws. discriminate. }
  unfold parse_strict_bws. change (c :: x) with ([] ++ c :: x). rewrite (bws_run cs_WSP [] c x eq_refl Hwsp). cbn [app].
  cbn [length]. rewrite parse_loop_eq. cbn [p_stage size_state].
  rewrite meta_eq.
  rewrite exts_unfold. unfold parse_bws. change (c :: x) with ([] ++ c :: x). rewrite (bws_run _ [] c x eq_refl Hws). cbn [app].
  cbn [tok_skipChar]. replace (c =? 59) with false by lia. cbn [negb fst snd].
  rewrite skipRequired_crlf_cases. replace (c =? 13) with false by lia. reflexivity.
Qed.

(* chunk data not followed by CRLF *)
Theorem reject_missing_crlf_after_data relaxed cap st d c0 c1 x :
  p_stage st = StChunk -> p_left st = lenN d -> d <> [] -> lenN d <= cap -> ~ (c0 = 13 /\ c1 = 10) ->
  parse relaxed cap st (d ++ c0 :: c1 :: x) = PThrow EDataCrlf d.
Proof.
  intros Hs Hl Hd Hcap Hc. unfold parse.
  destruct (d ++ c0 :: c1 :: x) as [|b0 b'] eqn:Eb; [destruct d; discriminate|]. rewrite <- Eb. rewrite Hs.
  rewrite parse_loop_eq. rewrite Hs. unfold chunk_part. rewrite Hs. cbn [app lenN]. rewrite N.sub_0_r.
  unfold chunk_body. rewrite Hl.
  assert (Hpos : (0 <? lenN d) = true) by (destruct d; [congruence| cbn [lenN]; lia]). rewrite Hpos.
  assert (Hmin : N.min (N.min (lenN d) (lenN (d ++ c0 :: c1 :: x))) cap = lenN d) by (rewrite lenN_app; lia).
  rewrite Hmin. cbn [p_left]. rewrite N.sub_diag. change (0 =? 0) with true. cbv iota.
  rewrite takeN_app_exact, dropN_app_exact. unfold chunk_end. rewrite skipRequired_crlf_cases.
  destruct (c0 =? 13) eqn:E0; [|reflexivity]. destruct (c1 =? 10) eqn:E1; [|reflexivity].
  exfalso. apply Hc. split; [apply N.eqb_eq; exact E0| apply N.eqb_eq; exact E1].
Qed.

(* chunk-size that does not fit in 63 bits, whatever follows *)
Lemma digit_run_hex_app ds y : forallb is_hex ds = true ->
  digit_run 16 (ds ++ y) = map (fun c => match hexval c with Some d => Z.of_N d | None => 0%Z end) ds ++ digit_run 16 y.
Proof.
  intros Hd. induction ds as [|c ds IH]; cbn [app digit_run map forallb] in *; [reflexivity|].
  apply andb_prop in Hd as [Hc Hd]. rewrite digit_of_hex. unfold is_hex in Hc.
  destruct (hexval c); [|discriminate]. cbn [option_map]. rewrite (IH Hd). reflexivity.
Qed.

Theorem reject_size_overflow relaxed cap st ds x :
  at_size st -> forallb is_hex ds = true -> two63N <= hex_value 0 ds -> lenN ds <= npos ->
  parse relaxed cap st (ds ++ x) = PThrow ESize [].
Proof.
  intros Hs Hhex Hv Hlen.
  destruct ds as [|d0 [|d1 ds']].
  { exfalso. cbn in Hv. unfold two63N in Hv. lia. }
  { exfalso. cbn [hex_value] in Hv. unfold hexval in Hv. unfold two63N in Hv.
    destruct ((48 <=? d0) && (d0 <=? 57)) eqn:E1; [lia|]. destruct ((97 <=? d0) && (d0 <=? 102)) eqn:E2; [lia|].
    destruct ((65 <=? d0) && (d0 <=? 70)) eqn:E3; lia. }
  cbn [app]. rewrite parse_at_size by exact Hs. change (d0 :: d1 :: ds' ++ x) with ((d0 :: d1 :: ds') ++ x).
  set (ds := d0 :: d1 :: ds') in *. unfold chunk_size.
  assert (H0 : no0x (ds ++ x)).
  { unfold ds. cbn. cbn [forallb] in Hhex. apply andb_prop in Hhex as [_ Hh]. apply andb_prop in Hh as [Hd1 _].
    split; intros ->; discriminate. }
  destruct (no0x_skip _ H0) as [Hsk Hi]. rewrite Hsk. rewrite (int64_hex (ds ++ x) Hi).
  rewrite takeN_app_ge by exact Hlen. unfold ref_core. rewrite (digit_run_hex_app ds _ Hhex).
  set (A := map (fun c => match hexval c with Some d => Z.of_N d | None => 0%Z end) ds).
  set (Bd := digit_run 16 (takeN (npos - lenN ds) x)).
  assert (HA : A <> []) by (unfold A, ds; discriminate).
  destruct (A ++ Bd) as [|a0 ab] eqn:Eab; [destruct A; [congruence|discriminate]|]. rewrite <- Eab.
  cbv zeta.
  assert (Hval : (two63 <= digits_value 16 (A ++ Bd) 0)%Z).
  { unfold digits_value. rewrite fold_left_app. fold (digits_value 16 A 0). fold (digits_value 16 Bd (digits_value 16 A 0)).
    pose proof (digits_value_hex ds 0) as HdA. cbn [Z.of_N] in HdA. fold A in HdA.
    pose proof (digits_value_mono 16 Bd (digits_value 16 A 0) ltac:(lia) ltac:(rewrite HdA; lia) (digit_run_nonneg 16 _)) as Hm.
    rewrite HdA in *. unfold two63, two63N in *. lia. }
  replace (digits_value 16 (A ++ Bd) 0 >? two63 - 1)%Z with true by lia.
  unfold ds. reflexivity.
Qed.


(* ======================= part 12 ======================= *)

(* ================= segmentation independence for ALL inputs ================= *)
Definition fits (b : bytes) : Prop := lenN b <= npos.      (* what an SBuf can hold *)

Lemma fits_app_l a b : fits (a ++ b) -> fits a.
Proof. unfold fits. rewrite lenN_app. lia. Qed.

(* ---------- chunk-size, any buffer ---------- *)
Lemma span_hex b : exists D r, b = D ++ r /\ forallb is_hex D = true /\ match r with [] => True | c :: _ => is_hex c = false end.
Proof.
  exists (fst (span is_hex b)), (snd (span is_hex b)). split; [symmetry; apply span_app|]. split; [apply span_all|].
  pose proof (span_stop is_hex b) as H. destruct (snd (span is_hex b)); [exact I| exact H].
Qed.

Definition hexmap (D : bytes) : list Z := map (fun c => match hexval c with Some d => Z.of_N d | None => 0%Z end) D.

Definition pre0x (b : bytes) : bool :=
  match b with z :: x :: _ => (z =? 48) && tolower_is_x x | _ => false end.
Definition z0x (b : bytes) : bool := fst (tok_skip [48; 120] b) || fst (tok_skip [48; 88] b).

Lemma z0x_pre b : z0x b = pre0x b.
Proof.
  destruct b as [|z [|y b']]; unfold z0x, tok_skip; cbn [starts_with pre0x].
  - reflexivity.
  - rewrite !andb_false_r. reflexivity.
  - assert (Hsw : starts_with b' [] = true) by (destruct b'; reflexivity). rewrite Hsw, !andb_true_r.
    unfold tolower_is_x. destruct (z =? 48); cbn [andb]; [|reflexivity].
    destruct (y =? 120); cbn; [reflexivity|]. destruct (y =? 88); reflexivity.
Qed.

Lemma chunk_size_norm st D r : forallb is_hex D = true -> match r with [] => True | c :: _ => is_hex c = false end ->
  fits (D ++ r) -> pre0x (D ++ r) = false ->
  chunk_size st (D ++ r) =
  match D with
  | [] => if is_nil r then Ok None else Bad ESize
  | _ => if (Z.of_N (hex_value 0 D) >? two63 - 1)%Z then Bad ESize
         else if is_nil r then Ok None
         else match parse_strict_bws r with
              | Insuf => Ok None | Bad e => Bad e
              | Ok r' => Ok (Some (size_state (hex_value 0 D), r'))
              end
  end.
Proof.
  intros HD Hr Hfit H0. unfold chunk_size. fold (z0x (D ++ r)). rewrite z0x_pre, H0.
  rewrite (int64_hex (D ++ r) H0).
  rewrite takeN_all by exact Hfit. unfold ref_core. rewrite (digit_run_hex D r HD Hr). fold (hexmap D).
  destruct D as [|d0 D'].
  - cbn [hexmap map app]. destruct r; reflexivity.
  - pose proof (digits_value_hex (d0 :: D') 0) as Hdv. cbn [Z.of_N] in Hdv. fold (hexmap (d0 :: D')) in Hdv.
    cbn [hexmap map]. cbn [hexmap map] in Hdv. cbv zeta. rewrite Hdv.
    destruct (Z.of_N (hex_value 0 (d0 :: D')) >? two63 - 1)%Z eqn:Ev.
    + assert (Hne : is_nil ((d0 :: D') ++ r) = false) by reflexivity. rewrite Hne. reflexivity.
    + change (_ :: map _ D') with (hexmap (d0 :: D')). unfold hexmap. rewrite lenN_map, N.add_0_l.
      rewrite dropN_app_exact. destruct r as [|c r']; cbn [is_nil negb]; [reflexivity|].
      replace (Z.of_N (hex_value 0 (d0 :: D')) <? 0)%Z with false by lia. rewrite N2Z.id. reflexivity.
Qed.

Lemma chunk_size_0x st b : pre0x b = true -> chunk_size st b = Bad E0x.
Proof. intros H. unfold chunk_size. fold (z0x b). now rewrite z0x_pre, H. Qed.

Lemma pre0x_ext b x : (2 <= length b)%nat -> pre0x (b ++ x) = pre0x b.
Proof. destruct b as [|z [|y b']]; cbn [length]; try lia. reflexivity. Qed.

Definition cs_ext (x : bytes) (R : res (option (pstate * bytes))) : res (option (pstate * bytes)) :=
  match R with Ok (Some (s, t)) => Ok (Some (s, t ++ x)) | _ => R end.

Lemma hex_value_small d : hex_value 0 [d] < 16.
Proof.
  cbn [hex_value]. unfold hexval. destruct ((48 <=? d) && (d <=? 57)) eqn:E1; [lia|].
  destruct ((97 <=? d) && (d <=? 102)) eqn:E2; [lia|]. destruct ((65 <=? d) && (d <=? 70)) eqn:E3; lia.
Qed.

Lemma chunk_size_stable st b x : fits (b ++ x) -> chunk_size st b <> Ok None ->
  chunk_size st (b ++ x) = cs_ext x (chunk_size st b) /\
  (forall s t, chunk_size st b = Ok (Some (s, t)) -> (length t < length b)%nat).
Proof.
  intros Hfit Hnn.
  destruct (pre0x b) eqn:Hp.
  { assert (2 <= length b)%nat by (destruct b as [|z [|y b']]; cbn in *; try discriminate; lia).
    rewrite (chunk_size_0x st b Hp) in *. rewrite chunk_size_0x by (rewrite pre0x_ext; assumption).
    split; [reflexivity|]. intros; discriminate. }
  destruct (span_hex b) as (D & r & Hb & HD & Hr).
  pose proof (fits_app_l _ _ Hfit) as Hfb.
  subst b. rewrite (chunk_size_norm st D r HD Hr Hfb Hp) in *.
  destruct D as [|d0 D'].
  - (* no digit *)
    destruct r as [|c r']; cbn [is_nil] in *; [congruence|]. cbn [app] in *.
    assert (Hp' : pre0x ((c :: r') ++ x) = false).
    { cbn [app pre0x]. destruct (r' ++ x); [reflexivity|]. replace (c =? 48) with false; [reflexivity|].
      symmetry. apply N.eqb_neq. intros ->. discriminate. }
    pose proof (chunk_size_norm st [] ((c :: r') ++ x) eq_refl Hr Hfit Hp') as Hn. cbn [app is_nil] in Hn.
    cbn [app]. rewrite Hn. split; [reflexivity|]. intros; discriminate.
  - destruct (Z.of_N (hex_value 0 (d0 :: D')) >? two63 - 1)%Z eqn:Ev.
    + (* overflow: more digits only make it larger *)
      split; [|intros; discriminate]. cbn [cs_ext].
      destruct (span_hex (r ++ x)) as (D2 & r2 & Hrx & HD2 & Hr2).
      assert (Hlen2 : (2 <= length ((d0 :: D') ++ r))%nat).
      { destruct D' as [|d1 D'']; [|cbn; lia]. pose proof (hex_value_small d0). unfold two63 in Ev. lia. }
      assert (Heq : ((d0 :: D') ++ r) ++ x = ((d0 :: D') ++ D2) ++ r2) by (rewrite <- !app_assoc, Hrx; reflexivity).
      assert (Hp' : pre0x (((d0 :: D') ++ D2) ++ r2) = false) by (rewrite <- Heq, pre0x_ext; assumption).
      rewrite Heq in Hfit |- *.
      rewrite (chunk_size_norm st ((d0 :: D') ++ D2) r2 ltac:(rewrite forallb_app, HD, HD2; reflexivity) Hr2 Hfit Hp').
      cbn [app]. change (d0 :: D' ++ D2) with ((d0 :: D') ++ D2).
      rewrite hex_value_app. pose proof (hex_value_ge D2 (hex_value 0 (d0 :: D'))) as Hge.
      replace (Z.of_N (hex_value (hex_value 0 (d0 :: D')) D2) >? two63 - 1)%Z with true by lia. reflexivity.
    + destruct r as [|c r']; cbn [is_nil] in *; [congruence|].
      assert (Hlen2 : (2 <= length ((d0 :: D') ++ c :: r'))%nat) by (rewrite app_length; cbn; lia).
      assert (Hp' : pre0x (((d0 :: D') ++ c :: r') ++ x) = false) by (rewrite pre0x_ext; assumption).
      rewrite <- app_assoc in Hfit, Hp' |- *.
      rewrite (chunk_size_norm st (d0 :: D') ((c :: r') ++ x) HD Hr Hfit Hp'). rewrite Ev. cbn [app is_nil].
      unfold parse_strict_bws in *.
      destruct (parse_bws_ cs_WSP (c :: r')) as [r1| |e] eqn:Eb; [| congruence | exfalso; eapply bws_not_bad; eassumption].
      change (c :: r' ++ x) with ((c :: r') ++ x). rewrite bws_stable by congruence. rewrite Eb. cbn [ext1 cs_ext].
      split; [reflexivity|]. intros s t H. injection H as _ <-. destruct (bws_ok_inv _ _ _ Eb) as [_ Hl].
      cbn [length app] in *. rewrite app_length. cbn [length]. lia.
Qed.

(* ---------- chunk-ext stage: sizes of what is retained ---------- *)
Lemma exts_len relaxed : forall n ctok, (length ctok <= n)%nat -> forall ck,
  (forall t2, fst (exts relaxed ctok ck) = Ok t2 -> (length t2 <= length ctok)%nat) /\
  (snd (exts relaxed ctok ck) = ck \/ (length (snd (exts relaxed ctok ck)) <= length ctok)%nat).
Proof.
  induction n as [|n IH]; intros ctok Hl ck.
  - destruct ctok; [|cbn in Hl; lia]. rewrite exts_unfold. cbn. split; [intros; discriminate| left; reflexivity].
  - rewrite (exts_unfold relaxed ctok ck). unfold parse_bws.
    destruct (parse_bws_ (ws_chars relaxed) ctok) as [b1| |e] eqn:E1; cbn [fst snd]; try (split; [intros; discriminate| left; reflexivity]).
    destruct (bws_ok_inv _ _ _ E1) as [Hb1 L1].
    destruct (negb (fst (tok_skipChar 59 b1))) eqn:En; cbn [fst snd].
    { split; [intros t2 H; injection H as <-; lia| left; reflexivity]. }
    pose proof (skipChar_shorter 59 b1) as L2.
    destruct (one_ext relaxed (snd (tok_skipChar 59 b1))) as [[b3| |e]|] eqn:E3; cbn [fst snd]; try (split; [intros; discriminate| left; reflexivity]).
    apply one_ext_shorter in E3. destruct (IH b3 ltac:(lia) b3) as [H1 H2]. split.
    + intros t2 H. apply H1 in H. lia.
    + right. destruct H2 as [H2|H2]; [rewrite H2|]; lia.
Qed.

Lemma skipRequired_ok_len e b t : tok_skipRequired e crlf b = Ok t -> (length t < length b)%nat.
Proof.
  rewrite skipRequired_crlf_cases. destruct b as [|c0 [|c1 b']]; try discriminate.
  - destruct (c0 =? 13); discriminate.
  - destruct (c0 =? 13); [|discriminate]. destruct (c1 =? 10); [|discriminate]. intros H; injection H as <-. cbn; lia.
Qed.

Lemma meta_go_len relaxed st b s t3 b3 o : meta_suffix relaxed st b b = SGo s t3 b3 o ->
  t3 = b3 /\ o = [] /\ s = ext_state st /\ (length t3 < length b)%nat.
Proof.
  rewrite meta_eq. destruct (fst (exts relaxed b b)) as [t2| |e] eqn:E2; try discriminate.
  destruct (tok_skipRequired EExtCrlf crlf t2) as [t| |e] eqn:E3; try discriminate.
  intros H. inversion H. subst. repeat split; try reflexivity.
  apply skipRequired_ok_len in E3. destruct (exts_len relaxed (length b) b (le_n _) b) as [H1 _]. apply H1 in E2. lia.
Qed.

Lemma meta_ret_len relaxed st b s ck o : meta_suffix relaxed st b b = SRet s ck o -> (length ck <= length b)%nat.
Proof.
  intros H. assert (Hck : ck = snd (exts relaxed b b)).
  { rewrite meta_eq in H. destruct (fst (exts relaxed b b)) as [t2| |e]; try discriminate.
    - destruct (tok_skipRequired EExtCrlf crlf t2); try discriminate. injection H as _ <- _. reflexivity.
    - injection H as _ <- _. reflexivity. }
  destruct (exts_len relaxed (length b) b (le_n _) b) as [_ [H2|H2]]; rewrite Hck; [rewrite H2|]; lia.
Qed.

(* ---------- headersEnd, any buffer ---------- *)
Lemma he_found x : forall b s e n, headers_end_loop b s e = n -> n <> 0 ->
  headers_end_loop (b ++ x) s e = n /\ n <= e + lenN b.
Proof.
  induction b as [|c b IH]; intros s e n H Hn; cbn [headers_end_loop app lenN] in *; [congruence|].
  set (s' := if s =? 0 then if c =? 10 then 1 else 0 else if s =? 1 then if c =? 13 then 2 else if c =? 10 then 3 else 0 else if c =? 10 then 3 else 0) in *.
  destruct (s' =? 3); [split; [exact H| lia]|].
  destruct (IH s' (N.succ e) n H Hn) as [H1 H2]. split; [exact H1| lia].
Qed.

Lemma he_later x : forall b s e, headers_end_loop b s e = 0 ->
  headers_end_loop (b ++ x) s e = 0 \/ e + lenN b < headers_end_loop (b ++ x) s e.
Proof.
  induction b as [|c b IH]; intros s e H; cbn [app lenN].
  - rewrite N.add_0_r. clear H. revert s e. induction x as [|c x IHx]; intros s e; cbn [headers_end_loop]; [left; reflexivity|].
    set (s' := if s =? 0 then _ else _). destruct (s' =? 3); [right; lia|].
    destruct (IHx s' (N.succ e)) as [H|H]; [left; exact H| right; lia].
  - cbn [headers_end_loop] in *.
    set (s' := if s =? 0 then if c =? 10 then 1 else 0 else if s =? 1 then if c =? 13 then 2 else if c =? 10 then 3 else 0 else if c =? 10 then 3 else 0) in *.
    destruct (s' =? 3); [lia|]. destruct (IH s' (N.succ e) H) as [G|G]; [left; exact G| right; lia].
Qed.

(* ---------- one do-while iteration with the recursive call abstracted ---------- *)
Section BodyK.
Variable K : pstate -> bytes -> bytes -> parse_res.
Variable relaxed : bool.
Variable cap : N.
Definition szK st3 tok3 buf3 out2 : parse_res :=
  match p_stage st3 with
  | StSz =>
    match chunk_size st3 tok3 with
    | Bad e => PThrow e out2
    | Insuf => PThrow ESize out2
    | Ok None => fin cap out2 st3 buf3
    | Ok (Some (st4, t4)) => K st4 t4 out2
    end
  | _ => fin cap out2 st3 buf3
  end.
Definition mimeK st2 tok2 buf2 out2 : parse_res :=
  match (match p_stage st2 with StMime => grab_mime st2 buf2 | _ => SGo st2 tok2 buf2 [] end) with
  | SFuel => PFuel | SThrow e o => PThrow e out2 | SRet s b o => PRet false s b out2
  | SGo st3 tok3 buf3 _ => szK st3 tok3 buf3 out2
  end.
Definition chunkK st1 tok1 buf1 out o1 : parse_res :=
  match (match p_stage st1 with StChunk => chunk_body (cap - lenN (out ++ o1)) st1 tok1 buf1 | _ => SGo st1 tok1 buf1 [] end) with
  | SFuel => PFuel | SThrow e o => PThrow e (out ++ o1 ++ o) | SRet s b o => PRet false s b (out ++ o1 ++ o)
  | SGo st2 tok2 buf2 o2 => mimeK st2 tok2 buf2 (out ++ o1 ++ o2)
  end.
Definition bodyK st tok bufc out : parse_res :=
  match (match p_stage st with StExt => meta_suffix relaxed st tok bufc | _ => SGo st tok bufc [] end) with
  | SFuel => PFuel | SThrow e o => PThrow e (out ++ o) | SRet s b o => PRet false s b (out ++ o)
  | SGo st1 tok1 buf1 o1 => chunkK st1 tok1 buf1 out o1
  end.
End BodyK.

Lemma parse_loop_bodyK k relaxed cap st tok bufc out :
  parse_loop (S k) relaxed cap st tok bufc out =
  bodyK (fun s t o => parse_loop k relaxed cap s t t o) relaxed cap st tok bufc out.
Proof. reflexivity. Qed.

(* stage results keep tok = buf_ and never grow the buffer *)
Lemma end_go_len st b o s t b' o' : chunk_end st b b o = SGo s t b' o' -> t = b' /\ (length t < length b)%nat /\ p_stage s = StSz.
Proof.
  unfold chunk_end. destruct (tok_skipRequired EDataCrlf crlf b) as [t1| |e] eqn:E; try discriminate.
  intros H. inversion H. subst. apply skipRequired_ok_len in E. tauto.
Qed.
Lemma lenN_le_length {A} (a b : list A) : lenN a <= lenN b -> (length a <= length b)%nat.
Proof. rewrite !lenN_length. lia. Qed.
Lemma dropN_len {A} n (l : list A) : (length (dropN n l) <= length l)%nat.
Proof. apply lenN_le_length. rewrite lenN_dropN. lia. Qed.

Lemma body_go_len c st tok s t b o : chunk_body c st tok tok = SGo s t b o -> t = b /\ (length t <= length tok)%nat.
Proof.
  unfold chunk_body. destruct (0 <? p_left st).
  - set (n := N.min (N.min (p_left st) (lenN tok)) c). cbn [p_left].
    destruct (p_left st - n =? 0).
    + intros H. apply end_go_len in H as (H1 & H2 & _). pose proof (dropN_len n tok). split; [exact H1| lia].
    + intros H. inversion H. subst. split; [reflexivity| apply dropN_len].
  - intros H. apply end_go_len in H as (H1 & H2 & _). split; [exact H1| lia].
Qed.
Lemma mime_go_len st b s t b' o : grab_mime st b = SGo s t b' o -> t = b' /\ (length t <= length b)%nat /\ p_stage s = StDone.
Proof.
  unfold grab_mime. destruct (negb (headers_end b =? 0)).
  - destruct (trailer_limit <=? headers_end b); [discriminate|]. intros H. inversion H. subst.
    split; [reflexivity|]. split; [apply dropN_len| reflexivity].
  - destruct (trailer_limit <=? lenN b); discriminate.
Qed.

(* the iteration only ever recurses on a strictly shorter buffer *)
Lemma bodyK_ext K K' relaxed cap st tok out : fits tok ->
  (forall s t o, (length t < length tok)%nat -> K s t o = K' s t o) ->
  bodyK K relaxed cap st tok tok out = bodyK K' relaxed cap st tok tok out.
Proof.
  intros Hfit HK. unfold bodyK.
  assert (Hsz : forall st3 t3 out2, (length t3 <= length tok)%nat -> szK K cap st3 t3 t3 out2 = szK K' cap st3 t3 t3 out2).
  { intros st3 t3 out2 Hl. unfold szK. destruct (p_stage st3); try reflexivity.
    destruct (chunk_size st3 t3) as [[[s4 t4]|]| |e] eqn:Ec; try reflexivity.
    apply HK. assert (Hnn : chunk_size st3 t3 <> Ok None) by congruence.
    assert (Hf3 : fits (t3 ++ [])).
    { rewrite app_nil_r. unfold fits in *. rewrite !lenN_length in *. lia. }
    destruct (chunk_size_stable st3 t3 [] Hf3 Hnn) as [_ Hlt]. specialize (Hlt _ _ Ec). lia. }
  assert (Hm : forall st2 t2 out2, (length t2 <= length tok)%nat -> mimeK K cap st2 t2 t2 out2 = mimeK K' cap st2 t2 t2 out2).
  { intros st2 t2 out2 Hl. unfold mimeK. destruct (p_stage st2); try (apply Hsz; exact Hl).
    destruct (grab_mime st2 t2) as [s3 t3 b3 o3| | |] eqn:Eg; try reflexivity.
    apply mime_go_len in Eg as (-> & Hl3 & _). apply Hsz. lia. }
  assert (Hc : forall st1 t1 o1, (length t1 <= length tok)%nat -> chunkK K cap st1 t1 t1 out o1 = chunkK K' cap st1 t1 t1 out o1).
  { intros st1 t1 o1 Hl. unfold chunkK. destruct (p_stage st1); try (apply Hm; exact Hl).
    destruct (chunk_body (cap - lenN (out ++ o1)) st1 t1 t1) as [s2 t2 b2 o2| | |] eqn:Eb; try reflexivity.
    apply body_go_len in Eb as (-> & Hl2). apply Hm. lia. }
  destruct (p_stage st); try (apply Hc; lia).
  destruct (meta_suffix relaxed st tok tok) as [s1 t1 b1 o1| | |] eqn:Em; try reflexivity.
  apply meta_go_len in Em as (-> & _ & _ & Hl1). apply Hc. lia.
Qed.

Lemma fits_shorter a b : fits b -> (length a <= length b)%nat -> fits a.
Proof. unfold fits. rewrite !lenN_length. lia. Qed.

Lemma PL_mono relaxed cap : forall k st tok out, fits tok -> (length tok < k)%nat ->
  parse_loop k relaxed cap st tok tok out = parse_loop (S k) relaxed cap st tok tok out.
Proof.
  induction k as [|j IH]; intros st tok out Hf Hl; [lia|].
  rewrite (parse_loop_bodyK j), (parse_loop_bodyK (S j)). apply bodyK_ext; [exact Hf|].
  intros s t o Hlt. apply IH; [eapply fits_shorter; [exact Hf| lia] | lia].
Qed.

Lemma PL_fuel relaxed cap st tok out k k' : fits tok -> (length tok < k)%nat -> (k <= k')%nat ->
  parse_loop k relaxed cap st tok tok out = parse_loop k' relaxed cap st tok tok out.
Proof.
  intros Hf Hl Hle. induction Hle as [|m Hle IH]; [reflexivity|]. rewrite IH. apply PL_mono; [exact Hf| lia].
Qed.

Definition PLf (relaxed : bool) (st : pstate) (tok out : bytes) : parse_res :=
  parse_loop (S (length tok)) relaxed ample st tok tok out.

Lemma PL_PLf relaxed st tok out k : fits tok -> (length tok < k)%nat ->
  parse_loop k relaxed ample st tok tok out = PLf relaxed st tok out.
Proof. intros Hf Hl. unfold PLf. symmetry. apply PL_fuel; [exact Hf| lia | lia]. Qed.

Lemma PLf_unfold relaxed st tok out : fits tok ->
  PLf relaxed st tok out = bodyK (PLf relaxed) relaxed ample st tok tok out.
Proof.
  intros Hf. unfold PLf at 1. rewrite parse_loop_bodyK. apply bodyK_ext; [exact Hf|].
  intros s t o Hlt. apply PL_PLf; [eapply fits_shorter; [exact Hf| lia]| exact Hlt].
Qed.

(* ---------- the relation between a call on b and the call on b ++ x ---------- *)
Section Ext.
Variable relaxed : bool.
Notation K := (PLf relaxed).
Notation szf := (szK K ample).
Notation mimef := (mimeK K ample).
Notation chunkf := (chunkK K ample).

Lemma PLf_chunk st t out : fits t -> p_stage st = StChunk -> PLf relaxed st t out = chunkf st t t out [].
Proof. intros Hf Hs. rewrite PLf_unfold by exact Hf. unfold bodyK. rewrite Hs. reflexivity. Qed.
Lemma PLf_mime st t out : fits t -> p_stage st = StMime -> PLf relaxed st t out = mimef st t t out.
Proof.
  intros Hf Hs. rewrite PLf_unfold by exact Hf. unfold bodyK. rewrite Hs. cbv beta iota. unfold chunkK. rewrite Hs. cbv beta iota.
  cbn [app]. now rewrite app_nil_r.
Qed.
Lemma PLf_sz st t out : fits t -> p_stage st = StSz -> PLf relaxed st t out = szf st t t out.
Proof.
  intros Hf Hs. rewrite PLf_unfold by exact Hf. unfold bodyK. rewrite Hs. cbv beta iota. unfold chunkK. rewrite Hs. cbv beta iota.
  unfold mimeK. rewrite Hs. cbv beta iota. cbn [app]. now rewrite app_nil_r.
Qed.
Lemma PLf_done st t out : fits t -> p_stage st = StDone -> PLf relaxed st t out = PRet true st t out.
Proof.
  intros Hf Hs. rewrite PLf_unfold by exact Hf. unfold bodyK. rewrite Hs. cbv beta iota. unfold chunkK. rewrite Hs. cbv beta iota.
  unfold mimeK. rewrite Hs. cbv beta iota. unfold szK. rewrite Hs. unfold fin. rewrite Hs. cbn [app negb andb]. now rewrite app_nil_r.
Qed.

Definition Rel (x : bytes) (r r' : parse_res) : Prop :=
  match r with
  | PFuel => False
  | PThrow e o => r' = PThrow e o
  | PRet true s rem o => r' = PRet true s (rem ++ x) o
  | PRet false s rem o =>
      if is_done s then exists s' rem', r' = PRet false s' rem' o /\ is_done s' = true
      else p_stage s <> StNone /\ lenN o + lenN (rem ++ x) <= ample /\ r' = PLf relaxed s (rem ++ x) o
  end.

Definition Main (n : nat) : Prop :=
  forall tok, (length tok < n)%nat -> forall st out x, p_stage st <> StNone -> lenN out + lenN (tok ++ x) <= ample ->
  Rel x (PLf relaxed st tok out) (PLf relaxed st (tok ++ x) out).

Lemma ample_fits (out t : bytes) : lenN out + lenN t <= ample -> fits t.
Proof. unfold fits, ample. lia. Qed.

Lemma chunk_size_some_stage st b s t : chunk_size st b = Ok (Some (s, t)) -> p_stage s = StExt.
Proof.
  unfold chunk_size. destruct (_ || _); [discriminate|]. destruct (tok_int64 16 false npos b) as [[v k]|]; [|destruct (is_nil b); discriminate].
  destruct (negb _); [|discriminate]. destruct (v <? 0)%Z; [discriminate|]. destruct (parse_strict_bws _); try discriminate.
  intros H. injection H as <- _. reflexivity.
Qed.

Lemma sz_rel n : Main n -> forall st3 t3 out2 x, (length t3 <= n)%nat ->
  p_stage st3 = StSz \/ p_stage st3 = StDone -> lenN out2 + lenN (t3 ++ x) <= ample ->
  Rel x (szf st3 t3 t3 out2) (szf st3 (t3 ++ x) (t3 ++ x) out2).
Proof.
  intros IH st3 t3 out2 x Hl Hst Hcap. pose proof (ample_fits _ _ Hcap) as Hfx.
  destruct Hst as [Hst|Hst]; unfold szK; rewrite Hst.
  2:{ unfold fin. rewrite Hst. cbn [negb andb Rel]. reflexivity. }
  destruct (chunk_size st3 t3) as [[[s4 t4]|]| |e] eqn:Ec.
  - destruct (chunk_size_stable st3 t3 x Hfx ltac:(congruence)) as [Hs Hlt]. rewrite Ec in Hs. cbn [cs_ext] in Hs. rewrite Hs.
    specialize (Hlt _ _ Ec). apply IH; [lia| rewrite (chunk_size_some_stage _ _ _ _ Ec); discriminate|].
    rewrite lenN_app in *. assert (lenN t4 <= lenN t3) by (rewrite !lenN_length; lia). lia.
  - (* need more data: the call on the longer buffer is the re-entered call *)
    unfold fin at 1. rewrite Hst. cbn [negb andb Rel]. unfold is_done. rewrite Hst.
    split; [congruence|]. split; [exact Hcap|]. symmetry. rewrite PLf_sz by assumption. unfold szK. rewrite Hst. reflexivity.
  - destruct (chunk_size_stable st3 t3 x Hfx ltac:(congruence)) as [Hs _]. rewrite Ec in Hs. cbn [cs_ext] in Hs. rewrite Hs. reflexivity.
  - destruct (chunk_size_stable st3 t3 x Hfx ltac:(congruence)) as [Hs _]. rewrite Ec in Hs. cbn [cs_ext] in Hs. rewrite Hs. reflexivity.
Qed.

Lemma mime_rel n : Main n -> forall st2 t2 out2 x, (length t2 <= n)%nat ->
  p_stage st2 = StMime -> lenN out2 + lenN (t2 ++ x) <= ample ->
  Rel x (mimef st2 t2 t2 out2) (mimef st2 (t2 ++ x) (t2 ++ x) out2).
Proof.
  intros IH st2 t2 out2 x Hl Hst Hcap. pose proof (ample_fits _ _ Hcap) as Hfx.
  unfold mimeK. rewrite Hst. unfold grab_mime.
  set (done := {| p_stage := StDone; p_size := p_size st2; p_left := p_left st2 |}).
  destruct (headers_end t2 =? 0) eqn:En; cbn [negb].
  - apply N.eqb_eq in En.
    destruct (trailer_limit <=? lenN t2) eqn:El.
    + (* over the limit without an end: terminal *)
      cbn [Rel is_done p_stage done]. unfold is_done at 1. cbn [p_stage done].
      unfold headers_end in *. destruct (he_later x t2 1 0 En) as [H0|Hgt].
      * rewrite H0. cbn [N.eqb negb]. replace (trailer_limit <=? lenN (t2 ++ x)) with true by (rewrite lenN_app; lia).
        eexists _, _. split; reflexivity.
      * destruct (headers_end_loop (t2 ++ x) 1 0 =? 0) eqn:E0; [apply N.eqb_eq in E0; lia|]. cbn [negb].
        replace (trailer_limit <=? headers_end_loop (t2 ++ x) 1 0) with true by lia.
        eexists _, _. split; reflexivity.
    + (* waiting for the end of the trailer: the longer call is the re-entered call *)
      cbn [Rel]. unfold is_done. rewrite Hst. split; [congruence|]. split; [exact Hcap|].
      symmetry. rewrite PLf_mime by assumption. unfold mimeK. rewrite Hst. reflexivity.
  - apply N.eqb_neq in En. unfold headers_end in *.
    destruct (he_found x t2 1 0 _ eq_refl En) as [Hsame Hle]. rewrite Hsame.
    destruct (headers_end_loop t2 1 0 =? 0) eqn:E0; [apply N.eqb_eq in E0; congruence|]. cbn [negb].
    destruct (trailer_limit <=? headers_end_loop t2 1 0).
    + cbn [Rel]. unfold is_done at 1. cbn [p_stage done]. eexists _, _. split; reflexivity.
    + unfold szK. cbn [p_stage done]. unfold fin. cbn [p_stage done negb andb Rel].
      rewrite dropN_app_le by lia. reflexivity.
Qed.

Definition shift (p : bytes) (r : step_res) : step_res :=
  match r with SGo s t b o => SGo s t b (p ++ o) | SRet s b o => SRet s b (p ++ o) | SThrow e o => SThrow e (p ++ o) | SFuel => SFuel end.
Lemma end_shift st b b' p o : chunk_end st b b' (p ++ o) = shift p (chunk_end st b b' o).
Proof. unfold chunk_end. destruct (tok_skipRequired EDataCrlf crlf b); reflexivity. Qed.

Definition contK (out : bytes) (r : step_res) : parse_res :=
  match r with
  | SFuel => PFuel | SThrow e o => PThrow e (out ++ [] ++ o) | SRet s b o => PRet false s b (out ++ [] ++ o)
  | SGo s t b o2 => mimef s t b (out ++ [] ++ o2)
  end.
Lemma contK_shift out p r : contK out (shift p r) = contK (out ++ p) r.
Proof. destruct r; cbn [shift contK app]; rewrite ?app_assoc; reflexivity. Qed.

Lemma chunkf_cont st t out : p_stage st = StChunk ->
  chunkf st t t out [] = contK out (chunk_body (ample - lenN (out ++ [])) st t t).
Proof. intros Hs. unfold chunkK. rewrite Hs. reflexivity. Qed.

Lemma body_norm c st t : lenN t <= c -> chunk_body c st t t =
  if 0 <? p_left st then
    let n := N.min (p_left st) (lenN t) in
    let st' := {| p_stage := p_stage st; p_size := p_size st; p_left := p_left st - n |} in
    if p_left st - n =? 0 then chunk_end st' (dropN n t) (dropN n t) (takeN n t)
    else SGo st' (dropN n t) (dropN n t) (takeN n t)
  else chunk_end st t t [].
Proof.
  intros Hc. unfold chunk_body. destruct (0 <? p_left st); [|reflexivity].
  replace (N.min (N.min (p_left st) (lenN t)) c) with (N.min (p_left st) (lenN t)) by lia. reflexivity.
Qed.

Lemma mimef_sz s t out : p_stage s = StSz -> mimef s t t out = szf s t t out.
Proof. intros Hs. unfold mimeK. rewrite Hs. reflexivity. Qed.

(* parseChunkEnd on b and on b ++ x, from a state that re-enters at parseChunkEnd *)
Lemma end_rel n : Main n -> forall st' b out o x, (length b <= n)%nat ->
  p_stage st' = StChunk -> p_left st' = 0 -> lenN (out ++ o) + lenN (b ++ x) <= ample ->
  Rel x (contK out (chunk_end st' b b o)) (contK out (chunk_end st' (b ++ x) (b ++ x) o)).
Proof.
  intros IH st' b out o x Hl Hst Hleft Hcap. pose proof (ample_fits _ _ Hcap) as Hfx.
  unfold chunk_end at 1.
  destruct (tok_skipRequired EDataCrlf crlf b) as [t| |e] eqn:Es.
  - unfold chunk_end. rewrite skipRequired_stable by congruence. rewrite Es. cbn [ext1 contK app].
    rewrite !mimef_sz by reflexivity. pose proof (skipRequired_ok_len _ _ _ Es) as Hlt.
    apply (sz_rel n IH); [lia| left; reflexivity|].
    rewrite !lenN_app in *. assert (lenN t <= lenN b) by (rewrite !lenN_length; lia). lia.
  - cbn [contK app Rel]. unfold is_done. rewrite Hst. split; [congruence|]. split; [exact Hcap|].
    rewrite PLf_chunk by assumption. rewrite chunkf_cont by exact Hst.
    rewrite body_norm by (cbn [app]; rewrite app_nil_r; lia).
    rewrite Hleft. change (0 <? 0) with false. cbv iota.
    rewrite <- (app_nil_r o) at 1. rewrite end_shift, contK_shift. reflexivity.
  - unfold chunk_end. rewrite skipRequired_stable by congruence. rewrite Es. reflexivity.
Qed.

Lemma takeN_app_plus {A} (a b : list A) n : takeN (lenN a + n) (a ++ b) = a ++ takeN n b.
Proof. rewrite takeN_app_ge by lia. f_equal. f_equal. lia. Qed.
Lemma dropN_app_plus {A} (a b : list A) n : dropN (lenN a + n) (a ++ b) = dropN n b.
Proof.
  induction a as [|c a IH]; cbn [lenN app dropN]; [now rewrite N.add_0_l|].
  destruct (N.succ (lenN a) + n =? 0) eqn:E; [apply N.eqb_eq in E; lia|].
  replace (N.pred (N.succ (lenN a) + n)) with (lenN a + n) by lia. exact IH.
Qed.

Lemma chunk_rel n : Main n -> forall st1 t1 out x, (length t1 <= n)%nat ->
  p_stage st1 = StChunk -> lenN out + lenN (t1 ++ x) <= ample ->
  Rel x (chunkf st1 t1 t1 out []) (chunkf st1 (t1 ++ x) (t1 ++ x) out []).
Proof.
  intros IH st1 t1 out x Hl Hst Hcap. pose proof (ample_fits _ _ Hcap) as Hfx.
  assert (Hc1 : lenN t1 <= ample - lenN (out ++ [])) by (rewrite app_nil_r; rewrite lenN_app in Hcap; lia).
  assert (Hc2 : lenN (t1 ++ x) <= ample - lenN (out ++ [])) by (rewrite app_nil_r; lia).
  rewrite !chunkf_cont by exact Hst. rewrite (body_norm _ st1 t1 Hc1), (body_norm _ st1 (t1 ++ x) Hc2).
  set (L := p_left st1) in *.
  destruct (0 <? L) eqn:Epos.
  2:{ apply (end_rel n IH); [exact Hl| exact Hst| fold L; lia | rewrite app_nil_r; exact Hcap]. }
  cbv zeta.
  destruct (N.le_gt_cases L (lenN t1)) as [Hle|Hgt].
  - (* all chunk data is in the shorter buffer already *)
    replace (N.min L (lenN t1)) with L by lia. replace (N.min L (lenN (t1 ++ x))) with L by (rewrite lenN_app; lia).
    rewrite N.sub_diag. change (0 =? 0) with true. cbv iota.
    rewrite (takeN_app_le L t1 x Hle), (dropN_app_le L t1 x Hle).
    apply (end_rel n IH); [pose proof (dropN_len L t1); lia | exact Hst | reflexivity |].
    pose proof (takeN_dropN L t1) as Hsp. rewrite !lenN_app in *.
    assert (lenN t1 = lenN (takeN L t1) + lenN (dropN L t1)) by (rewrite <- lenN_app, Hsp; reflexivity). lia.
  - (* data continues beyond the shorter buffer *)
    replace (N.min L (lenN t1)) with (lenN t1) by lia.
    destruct (L - lenN t1 =? 0) eqn:Ez; [apply N.eqb_eq in Ez; lia|].
    rewrite takeN_all by lia. rewrite dropN_all by lia.
    set (st' := {| p_stage := p_stage st1; p_size := p_size st1; p_left := L - lenN t1 |}).
    assert (Hst' : p_stage st' = StChunk) by exact Hst.
    cbn [contK app]. unfold mimeK. rewrite Hst'. unfold szK. rewrite Hst'. unfold fin. rewrite Hst'. cbn [negb andb Rel].
    unfold is_done. rewrite Hst'. split; [congruence|]. split; [rewrite !lenN_app in *; cbn [lenN]; lia|].
    cbn [app]. assert (Hfxx : fits x) by (eapply fits_shorter; [exact Hfx| rewrite app_length; lia]).
    rewrite PLf_chunk by assumption.
    rewrite chunkf_cont by exact Hst'.
    rewrite body_norm by (rewrite app_nil_r; rewrite !lenN_app in *; lia).
    cbn [p_left st' p_stage p_size]. replace (0 <? L - lenN t1) with true by lia. cbv zeta.
    set (n' := N.min (L - lenN t1) (lenN x)).
    replace (N.min L (lenN (t1 ++ x))) with (lenN t1 + n') by (unfold n'; rewrite lenN_app; lia).
    rewrite takeN_app_plus, dropN_app_plus. replace (L - (lenN t1 + n')) with (L - lenN t1 - n') by lia.
    rewrite <- contK_shift. f_equal.
    destruct (L - lenN t1 - n' =? 0); [|reflexivity]. rewrite <- end_shift. reflexivity.
Qed.

Lemma chunkf_mime s t out : p_stage s = StMime -> chunkf s t t out [] = mimef s t t out.
Proof. intros Hs. unfold chunkK. rewrite Hs. cbn [app]. now rewrite app_nil_r. Qed.

Lemma top_rel n : Main n -> forall tok, (length tok <= n)%nat -> forall st out x,
  p_stage st <> StNone -> lenN out + lenN (tok ++ x) <= ample ->
  Rel x (PLf relaxed st tok out) (PLf relaxed st (tok ++ x) out).
Proof.
  intros IH tok Hl st out x Hn Hcap. pose proof (ample_fits _ _ Hcap) as Hfx.
  assert (Hf : fits tok) by (eapply fits_shorter; [exact Hfx| rewrite app_length; lia]).
  destruct (p_stage st) eqn:Hst; try congruence.
  - rewrite !PLf_sz by assumption. apply (sz_rel n IH); [exact Hl| left; exact Hst| exact Hcap].
  - (* StExt *)
    rewrite (PLf_unfold relaxed st tok out Hf), (PLf_unfold relaxed st (tok ++ x) out Hfx). unfold bodyK. rewrite Hst.
    destruct (meta_suffix relaxed st tok tok) as [s1 t1 b1 o1|s ck o|e o|] eqn:Em.
    + destruct (meta_go_len _ _ _ _ _ _ _ Em) as (<- & -> & -> & Hlt).
      rewrite (meta_stable_go _ _ _ x _ _ _ Em).
      assert (Hcap1 : lenN out + lenN (t1 ++ x) <= ample).
      { rewrite !lenN_app in *. assert (lenN t1 <= lenN tok) by (rewrite !lenN_length; lia). lia. }
      destruct (p_size st =? 0) eqn:Ez.
      * assert (Hs1 : p_stage (ext_state st) = StMime) by (cbn [ext_state p_stage]; now rewrite Ez).
        rewrite !chunkf_mime by exact Hs1. apply (mime_rel n IH); [lia| exact Hs1| exact Hcap1].
      * assert (Hs1 : p_stage (ext_state st) = StChunk) by (cbn [ext_state p_stage]; now rewrite Ez).
        apply (chunk_rel n IH); [lia| exact Hs1| exact Hcap1].
    + destruct (meta_ret_state _ _ _ _ _ _ Em) as [-> ->]. pose proof (meta_ret_len _ _ _ _ _ _ Em) as Hlc.
      rewrite app_nil_r. cbn [Rel]. unfold is_done. rewrite Hst. split; [congruence|]. split.
      { rewrite !lenN_app in *. assert (lenN ck <= lenN tok) by (rewrite !lenN_length; lia). lia. }
      rewrite (meta_commute _ _ _ _ _ _ x Em).
      assert (Hfc : fits (ck ++ x)).
      { unfold fits in *. rewrite !lenN_app in *. assert (lenN ck <= lenN tok) by (rewrite !lenN_length; lia). lia. }
      rewrite (PLf_unfold relaxed st (ck ++ x) out Hfc). unfold bodyK. rewrite Hst. reflexivity.
    + rewrite (meta_stable_throw _ _ _ x _ _ Em). reflexivity.
    + exfalso. eapply meta_not_fuel; eassumption.
  - rewrite !PLf_chunk by assumption. apply (chunk_rel n IH); [exact Hl| exact Hst| exact Hcap].
  - rewrite !PLf_mime by assumption. apply (mime_rel n IH); [exact Hl| exact Hst| exact Hcap].
  - rewrite !PLf_done by assumption. reflexivity.
Qed.

Theorem Main_all : forall n, Main n.
Proof.
  induction n as [|n IH]; intros tok Hl; [lia|]. apply (top_rel n IH). lia.
Qed.
End Ext.

(* ---------- output already produced in this call is only ever extended ---------- *)
Definition prepend (p : bytes) (r : parse_res) : parse_res :=
  match r with PRet b s rem o => PRet b s rem (p ++ o) | PThrow e o => PThrow e (p ++ o) | PFuel => PFuel end.

Lemma fin_eq cap out s b : fin cap out s b = PRet (is_done s) s b out.
Proof. unfold fin, is_done. destruct (p_stage s); reflexivity. Qed.

Section Pref.
Variable relaxed : bool.
Notation K := (PLf relaxed).

Definition PrefN (n : nat) : Prop :=
  forall t, (length t < n)%nat -> forall st p out, lenN (p ++ out) + lenN t <= ample ->
  PLf relaxed st t (p ++ out) = prepend p (PLf relaxed st t out).

Lemma body_go_out c st tok s t b o : chunk_body c st tok tok = SGo s t b o -> lenN o + lenN t <= lenN tok.
Proof.
  unfold chunk_body. destruct (0 <? p_left st).
  - set (n := N.min (N.min (p_left st) (lenN tok)) c). cbn [p_left].
    pose proof (takeN_dropN n tok) as Hsp. pose proof (lenN_takeN n tok) as Ht. pose proof (lenN_dropN n tok) as Hd.
    destruct (p_left st - n =? 0).
    + unfold chunk_end. destruct (tok_skipRequired EDataCrlf crlf (dropN n tok)) as [t1| |e] eqn:E; try discriminate.
      intros H. inversion H. subst. apply skipRequired_ok_len in E. rewrite !lenN_length in *. lia.
    + intros H. inversion H. subst. lia.
  - unfold chunk_end. destruct (tok_skipRequired EDataCrlf crlf tok) as [t1| |e] eqn:E; try discriminate.
    intros H. inversion H. subst. apply skipRequired_ok_len in E. cbn [lenN]. rewrite !lenN_length. lia.
Qed.

Lemma pref_step n : PrefN n -> forall t, (length t <= n)%nat -> forall st p out, lenN (p ++ out) + lenN t <= ample ->
  PLf relaxed st t (p ++ out) = prepend p (PLf relaxed st t out).
Proof.
  intros IH t Hl st p out Hcap. pose proof (ample_fits _ _ Hcap) as Hf.
  assert (Hsz : forall st3 t3 out2, (length t3 <= length t)%nat -> lenN (p ++ out2) + lenN t3 <= ample ->
            szK K ample st3 t3 t3 (p ++ out2) = prepend p (szK K ample st3 t3 t3 out2)).
  { intros st3 t3 out2 Hl3 Hc3. unfold szK. rewrite !fin_eq. destruct (p_stage st3); try reflexivity.
    destruct (chunk_size st3 t3) as [[[s4 t4]|]| |e] eqn:Ec; try reflexivity.
    assert (Hf3 : fits (t3 ++ [])) by (rewrite app_nil_r; eapply fits_shorter; [exact Hf| exact Hl3]).
    destruct (chunk_size_stable st3 t3 [] Hf3 ltac:(congruence)) as [_ Hlt]. specialize (Hlt _ _ Ec).
    apply IH; [lia|]. assert (lenN t4 <= lenN t3) by (rewrite !lenN_length; lia). lia. }
  assert (Hm : forall st2 t2 out2, (length t2 <= length t)%nat -> lenN (p ++ out2) + lenN t2 <= ample ->
            mimeK K ample st2 t2 t2 (p ++ out2) = prepend p (mimeK K ample st2 t2 t2 out2)).
  { intros st2 t2 out2 Hl2 Hc2. unfold mimeK. destruct (p_stage st2); try (apply Hsz; assumption).
    destruct (grab_mime st2 t2) as [s3 t3 b3 o3| | |] eqn:Eg; try reflexivity.
    apply mime_go_len in Eg as (-> & Hl3 & _). apply Hsz; [lia|]. assert (lenN b3 <= lenN t2) by (rewrite !lenN_length; lia). lia. }
  assert (Hc : forall st1 t1, (length t1 <= length t)%nat -> lenN (p ++ out) + lenN t1 <= ample ->
            chunkK K ample st1 t1 t1 (p ++ out) [] = prepend p (chunkK K ample st1 t1 t1 out [])).
  { intros st1 t1 Hl1 Hc1. unfold chunkK. destruct (p_stage st1) eqn:Hs1;
      try (cbn [app]; rewrite !app_nil_r; apply Hm; assumption).
    rewrite !app_nil_r.
    rewrite (body_norm (ample - lenN (p ++ out)) st1 t1) by lia.
    rewrite (body_norm (ample - lenN out) st1 t1) by (rewrite lenN_app in Hc1; lia).
    rewrite <- (body_norm (lenN t1) st1 t1) by lia.
    destruct (chunk_body (lenN t1) st1 t1 t1) as [s2 t2 b2 o2| | |] eqn:Eb; cbn [app prepend]; try (rewrite <- ?app_assoc; reflexivity).
    pose proof (body_go_out _ _ _ _ _ _ _ Eb) as Ho. apply body_go_len in Eb as (-> & Hl2).
    rewrite <- app_assoc. apply Hm; [lia|]. rewrite !lenN_app in *. lia. }
  rewrite (PLf_unfold relaxed st t (p ++ out) Hf), (PLf_unfold relaxed st t out Hf). unfold bodyK.
  destruct (p_stage st); try (apply Hc; [lia| exact Hcap]).
  destruct (meta_suffix relaxed st t t) as [s1 t1 b1 o1|s ck o|e o|] eqn:Em; cbn [prepend]; try (rewrite <- ?app_assoc; reflexivity).
  destruct (meta_go_len _ _ _ _ _ _ _ Em) as (<- & -> & _ & Hlt).
  apply Hc; [lia|]. assert (lenN t1 <= lenN t) by (rewrite !lenN_length; lia). lia.
Qed.

Theorem pref_all : forall n, PrefN n.
Proof. induction n as [|n IH]; intros t Hl; [lia|]. apply (pref_step n IH). lia. Qed.
End Pref.

(* ---------- one parse() call as the caller sees it (ChunkedModel.step) ---------- *)
Definition cls (acc : bytes) (r : parse_res) : dres :=
  match r with
  | PRet true _ rem o => Incremental.Done (acc ++ o) rem
  | PRet false st' rem o =>
      match p_stage st' with
      | StDone => Incremental.Bad (BTooBig (acc ++ o))
      | _ => Incremental.More {| d_p := st'; d_out := acc ++ o |} rem
      end
  | PThrow e o => Incremental.Bad (BThrow e (acc ++ o))
  | PFuel => Incremental.Bad BFuel
  end.
Lemma step_cls relaxed s b : step relaxed s b = cls (d_out s) (parse relaxed ample (d_p s) b).
Proof. reflexivity. Qed.
Lemma cls_prepend acc p r : cls acc (prepend p r) = cls (acc ++ p) r.
Proof. destruct r as [[|] s rem o|e o|]; cbn [prepend cls]; rewrite ?app_assoc; reflexivity. Qed.

Lemma parse_PLf relaxed st c b : parse relaxed ample st (c :: b) = PLf relaxed (norm_state st) (c :: b) [].
Proof. reflexivity. Qed.

Definition dinv (s : dstate) : Prop := p_stage (d_p s) <> StDone.

Lemma norm_not_none st : p_stage (norm_state st) <> StNone.
Proof. unfold norm_state. destruct (p_stage st) eqn:E; cbn [p_stage]; congruence. Qed.

Lemma step_rel relaxed s c b x : fits ((c :: b) ++ x) ->
  Rel relaxed x (PLf relaxed (norm_state (d_p s)) (c :: b) []) (PLf relaxed (norm_state (d_p s)) ((c :: b) ++ x) []).
Proof.
  intros Hf. apply (Main_all relaxed (S (length (c :: b)))); [lia| apply norm_not_none|]. cbn [lenN]. unfold fits, ample in *. lia.
Qed.

Theorem step_stable_done relaxed : stable_done dstate bytes dbad (step relaxed) dinv fits.
Proof.
  intros s b r rest x Hi Hg H. rewrite step_cls in *.
  destruct b as [|c b].
  { cbn [parse cls] in H. unfold dinv in Hi. destruct (p_stage (d_p s)); congruence. }
  pose proof (step_rel relaxed s c b x Hg) as HR. cbn [app] in *. rewrite parse_PLf in *.
  destruct (PLf relaxed (norm_state (d_p s)) (c :: b) []) as [[|] st' rem o|e o|]; cbn [cls Rel] in *.
  - rewrite HR. cbn [cls]. injection H as <- <-. reflexivity.
  - destruct (p_stage st'); discriminate.
  - discriminate.
  - destruct HR.
Qed.

Theorem step_stable_bad relaxed : stable_bad dstate bytes dbad (step relaxed) dinv fits.
Proof.
  intros s b e x Hi Hg H. rewrite step_cls in *.
  destruct b as [|c b].
  { cbn [parse cls] in H. unfold dinv in Hi. destruct (p_stage (d_p s)); congruence. }
  pose proof (step_rel relaxed s c b x Hg) as HR. cbn [app] in *. rewrite parse_PLf in *.
  destruct (PLf relaxed (norm_state (d_p s)) (c :: b) []) as [[|] st' rem o|e' o|]; cbn [cls Rel] in *.
  - discriminate.
  - unfold is_done in HR. destruct (p_stage st') eqn:Es; try discriminate.
    destruct HR as (s' & rem' & -> & Hd). cbn [cls]. unfold is_done in Hd. destruct (p_stage s'); try discriminate. exact H.
  - rewrite HR. exact H.
  - destruct HR.
Qed.

Theorem step_checkpoint relaxed : checkpoint_commutes dstate bytes dbad (step relaxed) dinv fits.
Proof.
  intros s b s' keep x Hi Hg H. rewrite step_cls in H.
  destruct b as [|c b].
  { (* nothing to parse: same state, nothing retained *)
    cbn [parse cls] in H. unfold dinv in Hi.
    assert (Hs : s' = s /\ keep = []).
    { destruct s as [sp so]. cbn [d_p d_out] in *. destruct (p_stage sp); try congruence; injection H as <- <-; rewrite app_nil_r; tauto. }
    destruct Hs as [-> ->]. cbn [app]. split; [reflexivity|]. split; [exact Hi| exact Hg]. }
  pose proof (step_rel relaxed s c b x Hg) as HR. rewrite parse_PLf in H.
  rewrite (step_cls relaxed s ((c :: b) ++ x)). cbn [app]. rewrite parse_PLf. cbn [app] in HR.
  destruct (PLf relaxed (norm_state (d_p s)) (c :: b) []) as [[|] st' rem o|e' o|]; cbn [cls] in H; try discriminate.
  cbn [Rel] in HR. unfold is_done in HR.
  assert (Hnd : p_stage st' <> StDone) by (destruct (p_stage st'); congruence).
  assert (Hm : s' = {| d_p := st'; d_out := d_out s ++ o |} /\ keep = rem).
  { destruct (p_stage st'); try congruence; injection H as <- <-; tauto. }
  destruct Hm as [-> ->].
  assert (HR' : p_stage st' <> StNone /\ lenN o + lenN (rem ++ x) <= ample /\
                PLf relaxed (norm_state (d_p s)) (c :: b ++ x) [] = PLf relaxed st' (rem ++ x) o).
  { destruct (p_stage st'); try congruence; exact HR. }
  destruct HR' as (Hnn & Hcap & Heq). rewrite Heq.
  split; [|split; [exact Hnd| unfold fits, ample in *; lia]].
  rewrite step_cls. cbn [d_p d_out].
  destruct (rem ++ x) as [|c2 r2] eqn:Erx.
  - (* nothing retained and nothing new: the state just sits there *)
    cbn [parse cls].
    assert (Hp : PLf relaxed st' [] o = PRet false st' [] o).
    { clear -Hnn Hnd. assert (Hf : fits []) by (unfold fits; cbn; lia).
      destruct (p_stage st') eqn:Es; try congruence.
      - rewrite PLf_sz by assumption. unfold szK. rewrite Es. cbn. rewrite fin_eq. unfold is_done. now rewrite Es.
      - rewrite PLf_unfold by assumption. unfold bodyK. rewrite Es. rewrite meta_eq. rewrite exts_unfold. cbn. now rewrite app_nil_r.
      - rewrite PLf_chunk by assumption. rewrite chunkf_cont by assumption.
        rewrite body_norm by (cbn; lia). cbn [lenN]. rewrite N.min_0_r, N.sub_0_r.
        destruct (0 <? p_left st') eqn:Ep.
        + cbv zeta. destruct (p_left st' =? 0) eqn:E0; [apply N.eqb_eq in E0; lia|].
          cbn [dropN takeN contK app]. unfold mimeK. cbn [p_stage]. rewrite Es. unfold szK. cbn [p_stage].
          rewrite fin_eq. unfold is_done. cbn [p_stage]. rewrite app_nil_r. destruct st'; cbn in *; subst; reflexivity.
        + unfold chunk_end. rewrite skipRequired_crlf_cases. cbn [contK app]. now rewrite app_nil_r.
      - rewrite PLf_mime by assumption. unfold mimeK. rewrite Es. cbn. reflexivity. }
    rewrite Hp. cbn [cls]. destruct (p_stage st'); try congruence; rewrite app_nil_r; reflexivity.
  - rewrite parse_PLf. assert (Hn : norm_state st' = st') by (unfold norm_state; destruct (p_stage st'); congruence).
    rewrite Hn. rewrite <- (app_nil_r o) at 1.
    rewrite (pref_all relaxed (S (length (c2 :: r2))) (c2 :: r2) ltac:(lia) st' o []) by (rewrite app_nil_r; exact Hcap).
    rewrite cls_prepend. reflexivity.
Qed.

(* ---------- C24 segmentation independence (instance of Incremental.drive_oneshot) ---------- *)
Lemma dinv0 : dinv dstate0. Proof. unfold dinv, dstate0, init_state. cbn. discriminate. Qed.

Theorem decode_from_checkpoint relaxed s keep segments :
  segments <> [] -> dinv s -> fits (keep ++ concat segments) ->
  Incremental.drive dstate bytes dbad (step relaxed) s keep segments = step relaxed s (keep ++ concat segments).
Proof.
  intros Hne Hi Hf.
  apply (drive_oneshot dstate bytes dbad (step relaxed) dinv fits
           (step_stable_done relaxed) (step_stable_bad relaxed) (step_checkpoint relaxed)); assumption.
Qed.

Theorem decode_segmentation_independent relaxed segments :
  segments <> [] -> lenN (concat segments) <= npos ->
  decode_segments relaxed segments = decode_whole relaxed (concat segments).
Proof. intros Hne Hf. apply (decode_from_checkpoint relaxed dstate0 [] segments Hne dinv0). exact Hf. Qed.

Theorem decode_two_segmentations relaxed segs1 segs2 :
  segs1 <> [] -> segs2 <> [] -> concat segs1 = concat segs2 -> lenN (concat segs1) <= npos ->
  decode_segments relaxed segs1 = decode_segments relaxed segs2.
Proof.
  intros H1 H2 Hc Hf. rewrite !decode_segmentation_independent by (try assumption; rewrite <- Hc; assumption). now rewrite Hc.
Qed.

(* ---------- BWS between a chunk extension and CRLF: rejected, for every segmentation ---------- *)
Lemma nxt_exts_tail es w x : Forall ext_ok es -> bws_ok w -> nxt (enc_exts es ++ w ++ 13 :: 10 :: x).
Proof.
  intros H Hw. destruct H as [|e es He Hes]; unfold enc_exts; cbn [map concat app].
  - exists w, 13, (10 :: x). split; [reflexivity|]. split; [exact Hw|]. right. eauto.
  - exists (x_w1 e), 59, ((x_w2 e ++ x_name e ++ enc_val (x_val e)) ++ concat (map enc_ext es) ++ w ++ 13 :: 10 :: x).
    split; [unfold enc_ext; rewrite <- !app_assoc; reflexivity|]. split; [apply He|]. left; reflexivity.
Qed.

Lemma exts_valid_tail relaxed w x : bws_ok w -> forall es ck, Forall ext_ok es ->
  fst (exts relaxed (enc_exts es ++ w ++ 13 :: 10 :: x) ck) = Ok (w ++ 13 :: 10 :: x).
Proof.
  intros Hw. destruct (ws_facts relaxed) as (F59 & F61 & F34 & F10 & F13).
  induction es as [|e es IH]; intros ck Hes.
  - unfold enc_exts. cbn [map concat app]. rewrite exts_unfold.
    destruct (nxt_bws relaxed _ (nxt_exts_tail [] w x (Forall_nil _) Hw)) as (z & rz & Hb & Hz61 & [[Hz (w' & HZw & Hw')]|[Hz _]]).
    + exfalso. subst z. unfold enc_exts in HZw. cbn [map concat app] in HZw.
      revert w' HZw Hw'. clear -Hw. induction w as [|c w IH]; intros w' HZw Hw'.
      * destruct w' as [|c' w'']; cbn [app] in HZw; [discriminate|]. injection HZw as <- _.
        unfold bws_ok in Hw'. cbn [forallb] in Hw'. discriminate.
      * destruct w' as [|c' w'']; cbn [app] in HZw.
        -- injection HZw as -> _. unfold bws_ok in Hw. cbn [forallb] in Hw. discriminate.
        -- injection HZw as <- HZw. unfold bws_ok in Hw, Hw'. cbn [forallb] in Hw, Hw'.
           apply andb_prop in Hw as [_ Hw]. apply andb_prop in Hw' as [_ Hw']. eapply IH; eassumption.
    + unfold enc_exts in Hb. cbn [map concat app] in Hb. rewrite Hb. cbn [tok_skipChar]. replace (z =? 59) with false by lia. reflexivity.
  - inversion Hes as [|? ? He Hes']; subst. rewrite enc_exts_cons.
    rewrite exts_unfold. unfold parse_bws.
    rewrite (bws_run _ (x_w1 e) 59 _ (bws_ws relaxed _ (proj1 He)) F59).
    cbn [tok_skipChar]. change (59 =? 59) with true. cbn [negb fst snd].
    rewrite (one_ext_valid relaxed e (enc_exts es ++ w ++ 13 :: 10 :: x) He (nxt_exts_tail es w x Hes' Hw)).
    apply IH. exact Hes'.
Qed.

Theorem reject_ext_trailing_bws relaxed cap ds v e es w x :
  digits_ok ds v -> Forall ext_ok (e :: es) -> w <> [] -> bws_ok w ->
  parse relaxed cap init_state (ds ++ enc_exts (e :: es) ++ w ++ crlf ++ x) = PThrow EExtCrlf [].
Proof.
  intros Hd Hes Hwne Hw. inversion Hes as [|? ? He Hes']; subst.
  set (Z := w ++ 13 :: 10 :: x). change (w ++ crlf ++ x) with Z.
  rewrite enc_exts_cons.
  set (Y := 59 :: x_w2 e ++ x_name e ++ enc_val (x_val e) ++ enc_exts es ++ Z).
  assert (HY : head_ok Y) by (unfold Y; cbn [head_ok]; repeat split; try (vm_compute; reflexivity); lia).
  destruct (size_step (norm_state init_state) ds v (x_w1 e) Y (ds ++ x_w1 e ++ Y) [] Hd (bws_wsp _ (proj1 He)) HY (app_nil_r _))
    as [[_ [l Hl]]|(l & Hlne & Htok & Hl & Hsz)].
  { exfalso. apply (f_equal (@length N)) in Hl. repeat rewrite app_length in Hl. unfold Y in Hl. cbn [length] in Hl. lia. }
  rewrite app_nil_r in Hl. subst l.
  pose proof (digits_len _ _ Hd) as Hdl. destruct ds as [|d0 ds']; [cbn in Hdl; lia|]. cbn [app].
  rewrite parse_at_size by (left; reflexivity). change (d0 :: ds' ++ x_w1 e ++ Y) with ((d0 :: ds') ++ x_w1 e ++ Y).
  rewrite Hsz. cbn [length app]. rewrite parse_loop_eq. cbn [p_stage size_state]. rewrite meta_eq.
  set (e' := {| x_w1 := []; x_w2 := x_w2 e; x_name := x_name e; x_val := x_val e |}).
  assert (He' : ext_ok e').
  { destruct He as (H1 & H2 & H3 & H4 & H5). unfold ext_ok, e'. cbn [x_w1 x_w2 x_name x_val]. repeat split; try assumption; try reflexivity.
    - apply H3. - apply H3.
    - unfold enc_ext in *. cbn [x_w1 x_w2 x_name x_val app] in *. rewrite lenN_app in H5. lia. }
  assert (HYe : Y = enc_exts (e' :: es) ++ Z) by (rewrite enc_exts_cons; reflexivity).
  rewrite HYe. unfold Z. rewrite (exts_valid_tail relaxed w x Hw (e' :: es) _ (Forall_cons _ He' Hes')).
  rewrite skipRequired_crlf_cases. destruct w as [|c w']; [congruence|]. cbn [app].
  unfold bws_ok in Hw. cbn [forallb] in Hw. apply andb_prop in Hw as [Hc _].
  replace (c =? 13) with false; [reflexivity|]. unfold rfc_bws in Hc. lia.
Qed.

Theorem reject_ext_trailing_bws_every_segmentation relaxed ds v e es w x segments :
  digits_ok ds v -> Forall ext_ok (e :: es) -> w <> [] -> bws_ok w ->
  segments <> [] -> concat segments = ds ++ enc_exts (e :: es) ++ w ++ crlf ++ x -> lenN (concat segments) <= npos ->
  decode_segments relaxed segments = Incremental.Bad (BThrow EExtCrlf []).
Proof.
  intros Hd Hes Hwne Hw Hne Hc Hf. rewrite decode_segmentation_independent by assumption.
  unfold decode_whole. rewrite step_cls. cbn [d_p d_out dstate0]. rewrite Hc.
  rewrite (reject_ext_trailing_bws relaxed ample ds v e es w x Hd Hes Hwne Hw). reflexivity.
Qed.
