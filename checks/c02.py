"""C02: request bodies reach the origin byte-exactly with valid framing (end to end through the real squid)."""
import concurrent.futures, json, random, resource, time
from vlib import std, lab, common
from checks import relay_common as rc

PID = "C02"
META = {
    "text": "Theorems (Properties_C02.v) about the transcribed request-body path (ConnStateData intake -> BodyPipe -> "
            "HttpStateData::getMoreRequestBody), for ALL interleavings of client segments, space notifications, end "
            "notifications and consumer writes, every pipe capacity and every client segmentation: the pipe is a FIFO "
            "(bytes handed to the server side ++ bytes still buffered = bytes produced; the counters thePutSize / "
            "theGetSize are their lengths); what was produced is always a prefix of the client's body as the reference "
            "reader decodes it (Content-Length or chunked with extensions and trailers); the upstream stream is validly "
            "framed at every moment: chunked upstream decodes (reference reader) to exactly the bytes handed over and "
            "is complete iff last-chunk was sent; last-chunk is sent only after the whole client body was received and "
            "forwarded; with Content-Length upstream the declared length is reached only by the whole body; after a "
            "client abort or a malformed client chunk the upstream message never becomes complete "
            "(C02_upstream_abort_visible); once the whole body is in the pipe, the end notification and two consumer turns "
            "flush it and write last-chunk (C02_end_of_body_is_flushed_partial).",
    "note": "partial: the theorems are about RelayModel.v (rq_step); the client-side chunked parser is represented by "
            "the reference reader (TeChunkedParser equivalence is C24 + this correspondence); the event model "
            "over-approximates the AsyncCall schedules of BodyPipe/Client (every real schedule is one of the quantified "
            "event sequences — that claim, liveness of the intake under back-pressure, comm I/O and the request head rest "
            "on the end-to-end correspondence: "
            "POST/PUT bodies 0..1 MB, Content-Length and chunked clients, random segmentation, aborts, malformed "
            "chunks, Expect: 100-continue, raw upstream bytes recorded by the origin stub). Trusted: Coq kernel, "
            "extraction, gen/gen_relay.cc, vlib/lab.py, checks/relay_common.py stubs.",
    "technique": "Coq proof (inductive invariant over event sequences; codec round trip) + end-to-end differential "
                 "correspondence of the extracted model against the running squid + independent Python reference reader "
                 "as oracle on the raw bytes the origin received",
}

BOUNDS = [2048, 4096, 16384, 32768, 65535, 65536]


def pick_size(rng):
    x = rng.random()
    if x < 0.45:
        return rng.choice([1, 2, 3, 10, 100, rng.randrange(1, 3000), rng.randrange(1, 3000)])
    if x < 0.86:
        return max(1, rng.choice(BOUNDS) + rng.choice([-2, -1, 0, 1, 2]))
    if x < 0.93:
        return 131072 + rng.choice([-1, 0, 1])
    if x < 0.993:
        return rng.randrange(3000, 200000)
    return rng.choice([1048575, 1048576, 1048577])


def gen_one(rng, k):
    s = {"k": k, "method": rng.choice(["POST", "POST", "PUT"]), "ver": "1.1", "framing": rng.choice(["cl", "chunked"]),
         "n": pick_size(rng), "seed": rng.randrange(1, 1 << 30), "splits": [], "gap": 0.0, "abort": None, "expect": False,
         "headsplit": rng.random() < 0.5}
    x = rng.random()
    if x < 0.04:
        s["n"] = 0
    if s["framing"] == "cl" and rng.random() < 0.2:
        s["ver"] = "1.0"
    if s["framing"] == "chunked":
        nch = rng.randrange(1, 6)
        s["chunks"] = [rng.choice([1, 2, 7, 100, 1000, 4095, 4096, 4097, 16384, 65535, 65536, rng.randrange(1, 70000)]) for _ in range(nch)]
        if s["n"] > 100000:
            s["chunks"] = [max(c, 500) for c in s["chunks"]]
        s["ext"] = rng.choice(["", "", "", ";x=y", ";a", ";q=\"v w\""])
        s["trailer"] = rng.choice([[], [], [], ["X-T: 1"], ["X-A: b", "X-C: d e"]])
        if rng.random() < 0.07 and s["n"] > 0:
            s["bad"] = rng.choice(["size", "crlf"])
    ns = rng.choice([0, 1, 2, 3, 5, 8, 12])
    if s["n"] > 300000:
        ns = min(ns, 3)
    s["splits"] = [rng.choice([1, 2, 17, 100, 1000, 4096, 16384, 65535, 65536, rng.randrange(1, 100000)]) for _ in range(ns)]
    s["gap"] = rng.choice([0.0, 0.002, 0.005, 0.03])
    if rng.random() < 0.22 and s["n"] > 0 and not s.get("bad"):
        s["abort"] = rng.random()
    if rng.random() < 0.1 and s["abort"] is None:
        s["expect"] = True
    return s


def gen_scenarios(rng, n):
    out = [gen_one(rng, k) for k in range(n)]
    for start in range(15, n, 120):
        for s in out[start:start + 40]:
            if not s.get("bad") and s["abort"] is None and s["ver"] == "1.1":
                if s["n"] < 700000:
                    s["n"] = 1048576 + rng.choice([-1, 0, 1])
                    s["splits"] = s["splits"][:3]
                    if "chunks" in s:
                        s["chunks"] = [max(c, 1000) for c in s["chunks"]]
                break
    return out


_cache = {}


def client_bytes(s):
    """(body, stream actually sent after the head, info)"""
    key = json.dumps(s, sort_keys=True)
    if key in _cache:
        return _cache[key]
    body = lab.body_bytes(s["n"], s["seed"])
    if s["framing"] == "cl":
        stream = body
    else:
        ext = s.get("ext", "").encode()
        tr = b"".join(t.encode() + b"\r\n" for t in s.get("trailer", []))
        stream = rc.chunk_encode(body, s.get("chunks"), ext, tr)
        if s.get("bad"):
            first = rc.chunk_encode(body[:max(1, s["chunks"][0])], s["chunks"], b"", b"", last=False)
            stream = first + b"ZZ\r\nxx\r\n0\r\n\r\n" if s["bad"] == "size" else first[:-2] + b"XX3\r\nabc\r\n0\r\n\r\n"
    if s["abort"] is not None:
        cut = int(len(stream) * s["abort"])
        if cut >= len(stream):
            cut = len(stream) - 1
        stream = stream[:max(cut, 0)]
    info = {"whole": s["abort"] is None and not s.get("bad")}
    out = (body, stream, info)
    if len(_cache) > 4000:
        _cache.clear()
    _cache[key] = out
    return out


def to_case(s):
    body, stream, info = client_bytes(s)
    segs = rc.cut_segments(stream, s["splits"])
    clen = str(s["n"]) if s["framing"] == "cl" else "-"
    up = "len:%d" % s["n"] if s["framing"] == "cl" else "chunked"
    if s["framing"] == "cl" and s["n"] == 0:
        return "relay.req0"
    return "relay.req %s %s %d %s" % (clen, up, 0 if info["whole"] else 1, " ".join(rc.hexs(x) for x in segs if x) or "-")


_state = {}


def _one(args):
    sq, org, s, rid = args
    body, stream, info = client_bytes(s)
    url = org.url({"send100": 1} if s["expect"] else {}, rid)
    hs = "%s %s HTTP/%s\r\nHost: x\r\n" % (s["method"], url, s["ver"])
    if s["framing"] == "cl":
        hs += "Content-Length: %d\r\n" % s["n"]
    else:
        hs += "Transfer-Encoding: chunked\r\n"
    if s["expect"]:
        hs += "Expect: 100-continue\r\n"
    hs += "\r\n"
    head = hs.encode()
    aborting = not info["whole"] and s["abort"] is not None
    if s["expect"] or not s["headsplit"]:
        segs = rc.cut_segments(stream, s["splits"])
        raw, closed = rc.client_send(sq.port, head, segs, gap=s["gap"], wait100=(1.5 if s["expect"] else 0), abort=aborting,
                                     method=s["method"])
    else:
        # the head travels with the first body bytes
        segs = rc.cut_segments(head + stream, s["splits"])
        raw, closed = rc.client_send(sq.port, b"", segs, gap=s["gap"], abort=aborting, method=s["method"])
    r = rc.read_response(raw, closed, s["method"])
    arr = org.wait_arrival(rid, 4.0 if info["whole"] else 1.5)
    if not info["whole"]:
        time.sleep(0.1)
        arr = org.arrivals(rid)
    client = str(r["status"]) if r["status"] is not None else "-"
    if s["expect"] and 100 not in r["interim"]:
        client += "-no100"
    if not arr:
        return "up complete=0" if not info["whole"] else "noarrival client=%s" % client
    a = arr[-1]
    if a["bad"]:
        return "up fr=bad body=%s arrivals=%d client=%s" % (rc.crc(a["body"]), len(arr), client)
    if not a["complete"]:
        return "up complete=0" + ("" if body.startswith(a["body"]) else " notprefix") + ("" if len(arr) == 1 else " arrivals=%d" % len(arr)) \
            + ("" if a["eof"] is True else " noeof")
    fr = "ok"
    if a["framing"].startswith("cl:") and a["framing"] != "cl:%d" % len(body):
        fr = a["framing"]
    return "up fr=%s body=%s complete=1 arrivals=%d client=%s" % (fr, rc.crc(a["body"]), len(arr), client if info["whole"] else "-")


def run_impl(L, scenarios):
    if "sq" not in _state or not _state["sq"].alive():
        _state["org"] = rc.RawOrigin()
        L.origins.append(_state["org"])
        _state["sq"] = L.squid()
        _state["n"] = 0
    sq, org = _state["sq"], _state["org"]
    jobs = []
    for s in scenarios:
        _state["n"] += 1
        jobs.append((sq, org, s, "q%d" % _state["n"]))
    with concurrent.futures.ThreadPoolExecutor(max_workers=8) as ex:
        return list(ex.map(_one, jobs))


def norm_model(m):
    return m


def oracle(s, obs):
    """origin-received body = client body, in one validly framed message; an aborted / malformed client body must
    never arrive as a complete message"""
    body, stream, info = client_bytes(s)
    d = {}
    for w in obs.split():
        if "=" in w:
            a, b = w.split("=", 1)
            d[a] = b
    if obs.startswith("noarrival"):
        return ("oracle:request-not-forwarded", "a complete request never reached the origin: " + obs)
    if d.get("fr") == "bad":
        return ("oracle:upstream-framing-invalid", "the origin received a malformed message body: " + obs)
    if info["whole"]:
        if d.get("complete") != "1":
            return ("oracle:upstream-incomplete", "the client sent its whole body but the upstream message is incomplete: " + obs)
        if d.get("fr") != "ok":
            return ("oracle:upstream-length-changed", "upstream Content-Length differs from the body length: " + obs)
        if d.get("body") != rc.crc(body):
            return ("oracle:upstream-body-altered", "client body %s, origin received %s" % (rc.crc(body), d.get("body")))
        if d.get("arrivals") != "1":
            return ("oracle:request-body-sent-twice", obs)
        if not d.get("client", "").startswith("200"):
            return ("oracle:no-final-response", "the origin answered 200 but the client saw " + d.get("client", "?"))
        if d.get("client", "").endswith("no100"):
            return ("oracle:no-100-continue", "Expect: 100-continue was not answered with a relayed 100")
        return None
    if d.get("complete") == "1":
        return ("oracle:aborted-body-presented-complete",
                "the client %s its body but the origin received a complete message: %s" %
                ("aborted" if s["abort"] is not None else "malformed", obs))
    if "notprefix" in obs:
        return ("oracle:upstream-partial-body-not-a-prefix", obs)
    if "noeof" in obs:
        return ("oracle:aborted-upstream-not-closed", "the upstream connection was not closed after the client aborted: " + obs)
    return None


def kind_fn(s, o):
    k = s["framing"] + "/" + s["ver"]
    if s.get("bad"):
        k += ":malformed"
    elif s["abort"] is not None:
        k += ":abort"
    elif s["expect"]:
        k += ":expect"
    else:
        k += ":whole"
    return k


def model_fix(s):
    return None


def run(res, tier):
    soft, hard = resource.getrlimit(resource.RLIMIT_STACK)
    try:
        resource.setrlimit(resource.RLIMIT_STACK, (hard, hard))
    except (ValueError, OSError):
        pass
    res.rule = ("POST/PUT requests through the real squid to a raw-recording origin stub: Content-Length (HTTP/1.0 and 1.1) or "
                "chunked (random chunk sizes 1..70000, extensions, trailers) bodies of 0..1 MB concentrated on 2K/4K/16K/32K/64K "
                "(BodyPipe capacity) +-2, random client segmentation with pauses (head sent with or before the first body "
                "bytes), client aborts at a random offset, malformed chunk framing, Expect: 100-continue; non-trivial = "
                "non-empty body")
    std.run_lab(res, PID, tier, area="relay", gens=["relay"], gen_scenarios=gen_scenarios, run_impl=run_impl,
                to_case=to_case, oracle=oracle, corr_name="RelayModel.rq_fair (upstream body, completeness) vs the running squid",
                n_quick=120, n_thorough=2000, seed_salt=2, kind_fn=kind_fn,
                nontrivial_fn=lambda s, o: s["n"] > 0)
    _state.clear()
    _cache.clear()
